package c13

import (
	"bytes"
	"context"
	"encoding/json"
	"errors"
	"fmt"
	"io"
	"net"
	"os"
	"path/filepath"
	"runtime"
	"strconv"
	"strings"
	"sync"
	"syscall"
	"testing"
	"time"

	"github.com/database64128/shadowsocks-go/api/ssm"
	"github.com/database64128/shadowsocks-go/conn"
	"github.com/database64128/shadowsocks-go/cred"
	"github.com/database64128/shadowsocks-go/netio"
	"github.com/database64128/shadowsocks-go/router"
	"github.com/database64128/shadowsocks-go/service"
	"github.com/database64128/shadowsocks-go/stats"
	"github.com/database64128/shadowsocks-go/tlscerts"
	"github.com/database64128/shadowsocks-go/zerocopy"
	"go.uber.org/zap/zapcore"
	"go.uber.org/zap/zaptest/observer"
	"pgregory.net/rapid"

	"verif/internal/ev"
	"verif/internal/tcpsvc"
)

// ---- a real TCP relay around a harness-owned outbound client ---------------------------------------
//
// Everything here is assembled through exported API only: service.ServerConfig (decoded from the
// same generated JSON as in the other tests) -> Initialize -> TCPRelay() -> Start, with a
// router.Config.Router whose client map contains one netio.StreamClient written in the harness.
// service/tcp.go, the server protocol handlers and the listener configuration are the real code;
// only the outbound client is owned, which lets a case (a) fail the onward dial with any errno
// and (b) hold an onward dial while other connections pass through the same listener.

var fakeErrnos = map[string]syscall.Errno{
	"EACCES":       syscall.EACCES,
	"ENETDOWN":     syscall.ENETDOWN,
	"ENETUNREACH":  syscall.ENETUNREACH,
	"ENETRESET":    syscall.ENETRESET,
	"ECONNABORTED": syscall.ECONNABORTED,
	"ECONNRESET":   syscall.ECONNRESET,
	"ETIMEDOUT":    syscall.ETIMEDOUT,
	"ECONNREFUSED": syscall.ECONNREFUSED,
	"EHOSTDOWN":    syscall.EHOSTDOWN,
	"EHOSTUNREACH": syscall.EHOSTUNREACH,
	// outside conn's table
	"EINVAL":        syscall.EINVAL,
	"EPERM":         syscall.EPERM,
	"EADDRNOTAVAIL": syscall.EADDRNOTAVAIL,
	"ENOBUFS":       syscall.ENOBUFS,
}

// fakeDialError builds the error the owned outbound client returns for a planned failure, in
// the shapes real dialers produce: the errno itself (x/sys and raw syscall users), wrapped by
// os.NewSyscallError (internal/poll users), inside *net.OpError (net.Dialer), and that again
// wrapped with context by a caller (fmt.Errorf %w). Non-errno failures: a context deadline, a
// resolver error as net.Dialer reports it, and io.EOF (an upstream that hangs up mid-handshake).
func fakeDialError(p connPlan, addr conn.Addr) error {
	switch p.Errno {
	case errDeadline:
		return context.DeadlineExceeded
	case errDNS:
		return &net.OpError{Op: "dial", Net: "tcp", Err: &net.DNSError{Err: "no such host", Name: addr.Host(), IsNotFound: true}}
	case errEOF:
		return io.EOF
	}
	errno, ok := fakeErrnos[p.Errno]
	if !ok {
		return fmt.Errorf("harness: unknown planned failure %q", p.Errno)
	}
	switch p.ErrWrap {
	case "bare-errno":
		return errno
	case "os.SyscallError":
		return os.NewSyscallError("connect", errno)
	case "fmt.Errorf-%w":
		return fmt.Errorf("dial upstream %s: %w", addr, &net.OpError{Op: "dial", Net: "tcp", Err: os.NewSyscallError("connect", errno)})
	}
	return &net.OpError{Op: "dial", Net: "tcp", Err: os.NewSyscallError("connect", errno)}
}

// fakeDial is the script and the record of one planned onward dial (keyed by destination port).
type fakeDial struct {
	fail    *connPlan     // non-nil: the dial fails as planned there
	hold    chan struct{} // non-nil: DialStream blocks until it is closed
	entered chan struct{} // closed when the relay calls DialStream

	mu      sync.Mutex
	calls   int
	addr    string
	atEntry []byte // copy of the payload argument when DialStream was entered
	atDial  []byte // copy of the payload argument when it was actually used (after the hold)
}

type fakeClient struct {
	native    bool
	dials     map[uint16]*fakeDial
	mu        sync.Mutex
	unplanned []string
}

func (f *fakeClient) NewStreamDialer() (netio.StreamDialer, netio.StreamDialerInfo) {
	return f, netio.StreamDialerInfo{Name: "fake", NativeInitialPayload: f.native}
}

func (f *fakeClient) DialStream(ctx context.Context, addr conn.Addr, payload []byte) (netio.Conn, error) {
	d := f.dials[addr.Port()]
	if d == nil {
		f.mu.Lock()
		f.unplanned = append(f.unplanned, addr.String())
		f.mu.Unlock()
		return nil, errors.New("harness: unplanned dial to " + addr.String())
	}
	d.mu.Lock()
	d.calls++
	first := d.calls == 1
	d.addr = addr.String()
	d.atEntry = bytes.Clone(payload)
	d.mu.Unlock()
	if first {
		close(d.entered)
	}
	if d.hold != nil {
		select {
		case <-d.hold:
		case <-time.After(2 * liveBound):
		}
	}
	// like a real client, the payload is read when it is sent - after the connection exists
	d.mu.Lock()
	d.atDial = bytes.Clone(payload)
	d.mu.Unlock()
	if d.fail != nil {
		return nil, fakeDialError(*d.fail, addr)
	}
	nd := net.Dialer{Timeout: liveBound}
	nc, err := nd.DialContext(ctx, "tcp4", addr.String())
	if err != nil {
		return nil, err
	}
	if len(payload) > 0 {
		if _, err := nc.Write(payload); err != nil {
			nc.Close()
			return nil, err
		}
	}
	return nc.(*net.TCPConn), nil
}

type fakeRelay struct {
	relay     *service.TCPRelay
	router    *router.Router
	logs      *observer.ObservedLogs
	collector stats.Collector
	cancel    context.CancelFunc
	addr      string
}

func startFakeRelay(c casePlan, fc *fakeClient, taddrs []string, upskPath string) (*fakeRelay, error) {
	raw, _ := json.Marshal(frontServers(c, taddrs, upskPath)[0])
	var sc service.ServerConfig
	dec := json.NewDecoder(bytes.NewReader(raw))
	dec.DisallowUnknownFields()
	if err := dec.Decode(&sc); err != nil {
		return nil, fmt.Errorf("decode server config: %w", err)
	}
	logger, logs := tcpsvc.NewLogger(c.DebugLog)
	// the router of the relay check, as far as it applies: the two reject routes, default = the owned client
	var rc router.Config
	rraw, _ := json.Marshal(obj{"defaultTCPClientName": "fake", "routes": []obj{
		{"name": "rej-domain", "toDomains": []string{rejectDomain}, "client": "reject"},
		{"name": "rej-ip", "toPrefixes": []string{rejectIP + "/32"}, "disableNameResolutionForIPRules": true, "client": "reject"},
	}})
	rdec := json.NewDecoder(bytes.NewReader(rraw))
	rdec.DisallowUnknownFields()
	if err := rdec.Decode(&rc); err != nil {
		return nil, fmt.Errorf("decode router config: %w", err)
	}
	r, err := rc.Router(logger, nil, nil, map[string]netio.StreamClient{"fake": fc}, map[string]zerocopy.UDPClient{}, map[string]int{sc.Name: 0})
	if err != nil {
		return nil, fmt.Errorf("router: %w", err)
	}
	var tc tlscerts.Config
	if c.Server == "http" && c.TLS {
		traw, _ := json.Marshal(certsCfg())
		if err := json.Unmarshal(traw, &tc); err != nil {
			return nil, fmt.Errorf("decode certs config: %w", err)
		}
	}
	store, err := tc.NewStore()
	if err != nil {
		return nil, fmt.Errorf("tls store: %w", err)
	}
	if err := sc.Initialize(store, conn.NewListenConfigCache(), stats.Config{Enabled: true}, r, logger, 0); err != nil {
		return nil, fmt.Errorf("Initialize: %w", err)
	}
	relay, err := sc.TCPRelay()
	if err != nil {
		return nil, fmt.Errorf("TCPRelay: %w", err)
	}
	byName := map[string]ssm.Server{}
	names := make([]string, 1)
	if err := sc.PostInit(cred.NewManager(logger), byName, names); err != nil {
		return nil, fmt.Errorf("PostInit: %w", err)
	}
	ctx, cancel := context.WithCancel(context.Background())
	if err := relay.Start(ctx); err != nil {
		cancel()
		return nil, fmt.Errorf("Start: %w", err)
	}
	fr := &fakeRelay{relay: relay, router: r, logs: logs, collector: byName[sc.Name].StatsCollector, cancel: cancel}
	for _, e := range logs.FilterMessage("Started TCP relay service listener").All() {
		if a, ok := e.ContextMap()["listenAddress"].(string); ok {
			fr.addr = a
		}
	}
	if fr.addr == "" {
		fr.stop()
		return nil, errors.New("relay did not report its listener address")
	}
	return fr, nil
}

func (fr *fakeRelay) stop() {
	_ = fr.relay.Stop()
	fr.cancel()
	_ = fr.router.Close()
}

// APIGet makes the collector's snapshot readable like the management API (same JSON encoding).
func (fr *fakeRelay) APIGet(string) (int, []byte, error) {
	b, err := json.Marshal(fr.collector.Snapshot())
	return 200, b, err
}

func (fr *fakeRelay) copiesEnded(total int) func() bool {
	return func() bool {
		return fr.logs.FilterMessage("Bidirectional copy completed").Len()+fr.logs.FilterMessage("Bidirectional copy failed").Len() >= total
	}
}

func (fr *fakeRelay) logTail(n int) string {
	all := fr.logs.All()
	var out []string
	for i := len(all) - 1; i >= 0 && len(out) < n; i-- {
		if e := all[i]; e.Level >= zapcore.WarnLevel {
			out = append(out, fmt.Sprintf("[%s] %s %v", e.Level, e.Message, e.ContextMap()))
		}
	}
	return strings.Join(out, "\n")
}

// ---- plan -----------------------------------------------------------------------------------------

type fakePlan struct {
	Overlap bool `json:"overlap"` // connection 0's onward dial is held while the others pass through the same listener
	// Overlap only: how the later connections are spread over the time the dial is held: one after the
	// other (each starts when the previous one has finished) or all started at drawn offsets; and how
	// long the dial stays held after the last of them has finished.
	Sequential bool     `json:"sequential,omitempty"`
	StartMs    []int    `json:"start_ms,omitempty"` // per later connection: delay before it starts
	LingerMs   int      `json:"linger_ms,omitempty"`
	Case       casePlan `json:"case"`
}

func drawFake(rt *rapid.T) fakePlan {
	var f fakePlan
	f.Overlap = rapid.Bool().Draw(rt, "overlap")
	c := &f.Case
	c.Client = "fake"
	c.TMs = rapid.SampledFrom([]int{40, 100}).Draw(rt, "t-ms")
	c.BufSize = rapid.SampledFrom([]int{0, 0, 0, 64, 1000, 4096}).Draw(rt, "buf-size")
	c.Auth = rapid.Bool().Draw(rt, "auth")
	c.AES256 = rapid.Bool().Draw(rt, "aes256")
	c.DebugLog = rapid.Bool().Draw(rt, "debug-log")
	c.TLS = rapid.Bool().Draw(rt, "tls") // only means something for the http server
	b := c.bufSize()
	if f.Overlap {
		// the wait path: a server protocol without native payload, a client that reports native payload
		c.Server = rapid.SampledFrom([]string{"socks5", "http", "none"}).Draw(rt, "server")
		c.FakeNative = true
		var l int
		switch rapid.IntRange(0, 6).Draw(rt, "len-class") {
		case 0:
			l = 1
		case 1:
			l = rapid.IntRange(2, b-1).Draw(rt, "len")
		case 2, 3, 4:
			l = b // exactly the wait buffer: a recycled buffer would be overwritten completely
		case 5:
			l = b + 1
		default:
			l = rapid.SampledFrom([]int{2 * b, 4096, 65536}).Draw(rt, "len")
		}
		n := rapid.IntRange(2, 5).Draw(rt, "conns")
		f.Sequential = rapid.Bool().Draw(rt, "sequential")
		f.LingerMs = rapid.SampledFrom([]int{0, 0, 40, 120}).Draw(rt, "linger-ms")
		for i := 1; i < n; i++ {
			f.StartMs = append(f.StartMs, rapid.SampledFrom([]int{0, 0, 20, 60, 150}).Draw(rt, "start-ms"))
		}
		for i := 0; i < n; i++ {
			p := drawConn(rt, b, false)
			if p.Target != tkOKIP && p.Target != tkOKDomain {
				p.Target = tkOKIP
			}
			p.ViaDirect = false
			p.FirstLen = l // same length for all: different content (seeds), same size
			p.FirstAt = rapid.SampledFrom([]int{faHandshake, faZero}).Draw(rt, "first-at-early")
			c.Conns = append(c.Conns, p)
		}
		return f
	}
	c.Server = rapid.SampledFrom([]string{"socks5", "socks5", "socks5", "http", "http", "http", "none", "none", "ss2022", "ss2022"}).Draw(rt, "server")
	c.FakeNative = rapid.IntRange(0, 4).Draw(rt, "fake-native") == 0
	c.DisableWait = rapid.IntRange(0, 3).Draw(rt, "disable-wait") == 0
	// Failure classes are walked cyclically from a drawn start, one per failing connection, so that
	// a handful of cases covers every (result code x wrapping) class, the non-errno failures and the
	// router's rejection - independent draws would need several times as many connections.
	n := rapid.IntRange(20, 45).Draw(rt, "conns")
	k := rapid.IntRange(0, len(failureClasses)-1).Draw(rt, "first-failure-class")
	for i := 0; i < n; i++ {
		p := drawConn(rt, b, false)
		p.ViaDirect = false
		if rapid.IntRange(0, 9).Draw(rt, "failing") < 9 {
			fc := failureClasses[k%len(failureClasses)]
			k++
			switch fc.errno {
			case "router-reject-domain":
				p.Target = tkRejectDomain
			case "router-reject-ip":
				p.Target = tkRejectIP
			case "other-errno":
				p.Target, p.ErrWrap = tkFakeErrno, fc.wrap
				p.Errno = otherErrnos[int(p.UpSeed%uint64(len(otherErrnos)))]
			default:
				p.Target, p.Errno, p.ErrWrap = tkFakeErrno, fc.errno, fc.wrap
			}
		} else if p.Target != tkOKIP && p.Target != tkOKDomain {
			p.Target = tkOKIP
		}
		c.Conns = append(c.Conns, p)
	}
	return f
}

type failureClass struct{ errno, wrap string }

// failureClasses: every errno of conn's table and one outside it, in every wrapping; the
// non-errno failures; rejection by the router (by domain rule, by prefix rule).
var failureClasses = func() []failureClass {
	var out []failureClass
	for _, w := range errWraps {
		for _, e := range tableErrnos {
			out = append(out, failureClass{e, w})
		}
	}
	return append(out, failureClass{errDeadline, ""}, failureClass{errDNS, ""}, failureClass{errEOF, ""},
		failureClass{"router-reject-domain", ""}, failureClass{"router-reject-ip", ""})
}()

// ---- execution ---------------------------------------------------------------------------------------

func runFakeCase(f fakePlan, workDir string) (res caseResult) {
	c := f.Case
	res.conns = make([]connResult, len(c.Conns))
	targets, ports, herr := makeTargets(c.Conns)
	defer closeTargets(targets)
	if herr != "" {
		res.harnessErr = herr
		return
	}
	taddrs := make([]string, len(targets))
	for i := range targets {
		taddrs[i] = targets[i].addr
	}
	fc := &fakeClient{native: c.FakeNative, dials: map[uint16]*fakeDial{}}
	dials := make([]*fakeDial, len(c.Conns))
	for i, p := range c.Conns {
		d := &fakeDial{entered: make(chan struct{})}
		if p.Target == tkFakeErrno {
			d.fail = &c.Conns[i]
		}
		if f.Overlap && i == 0 {
			d.hold = make(chan struct{})
		}
		dials[i] = d
		fc.dials[ports[i]] = d
	}
	upskPath := ""
	if c.Server == "ss2022" && c.Auth {
		upskPath = filepath.Join(workDir, fmt.Sprintf("upsks-fake-%d.json", os.Getpid()))
		if err := os.WriteFile(upskPath, upskStore(c), 0o644); err != nil {
			res.harnessErr = "write uPSK store: " + err.Error()
			return
		}
		defer os.Remove(upskPath)
	}
	fr, err := startFakeRelay(c, fc, taddrs, upskPath)
	if err != nil {
		res.harnessErr = "assemble relay: " + err.Error()
		return
	}
	defer fr.stop()

	var wg sync.WaitGroup
	run := func(i int) {
		wg.Go(func() { runConn(c, i, fr.addr, targets[i], &res.conns[i]) })
	}
	heldEntered := true
	if f.Overlap {
		// A first; B, C, ... only once the relay has A's payload in hand and is dialling for it
		var wgA sync.WaitGroup
		wgA.Go(func() { runConn(c, 0, fr.addr, targets[0], &res.conns[0]) })
		select {
		case <-dials[0].entered:
		case <-time.After(liveBound + 3*c.T()):
			heldEntered = false
		}
		for i := 1; i < len(c.Conns); i++ {
			if d := f.StartMs[i-1]; d > 0 {
				time.Sleep(time.Duration(d) * time.Millisecond)
			}
			run(i)
			if f.Sequential {
				wg.Wait()
			}
		}
		wg.Wait()
		time.Sleep(time.Duration(f.LingerMs) * time.Millisecond)
		close(dials[0].hold) // release A's dial
		wgA.Wait()
	} else {
		for i := range c.Conns {
			run(i)
		}
		wg.Wait()
	}

	for i := range res.conns {
		if v := res.conns[i].violation; v != "" && res.violation == "" {
			role := ""
			if f.Overlap {
				role = " (a later connection; connection 0's dial was held meanwhile)"
				if i == 0 {
					role = " (the connection whose onward dial was held while the others passed)"
				}
			}
			res.violation = fmt.Sprintf("%s\n  connection %d%s: %s\n  relay log tail:\n%s", v, i, role, js(c.Conns[i]), indent(fr.logTail(6)))
			res.liveness = res.conns[i].liveness
		}
	}
	if res.violation != "" {
		return
	}
	if f.Overlap && !heldEntered {
		res.violation, res.liveness = "SIG=C13/held-dial-never-started the relay never called the outbound client for connection 0 although its first bytes were sent inside the wait window", true
		return
	}

	// what the relay handed to the outbound client: exactly the requested target, exactly once, and
	// an initial payload that is a prefix of that connection's own stream - and still is when the
	// dial finally uses it.
	for i, d := range dials {
		p := c.Conns[i]
		d.mu.Lock()
		calls, addr, atEntry, atDial := d.calls, d.addr, d.atEntry, d.atDial
		d.mu.Unlock()
		if p.Target == tkRejectDomain || p.Target == tkRejectIP {
			if calls != 0 {
				res.violation = fmt.Sprintf("SIG=C13/rejected-target-dialled connection %d: the router rejects %s, yet the outbound client was called %d times (for %s)", i, targets[i].addr, calls, addr)
				return
			}
			continue
		}
		if calls != 1 {
			res.violation = fmt.Sprintf("SIG=C13/dialled-not-exactly-once connection %d: the outbound client was called %d times", i, calls)
			return
		}
		if addr != targets[i].addr {
			res.violation = fmt.Sprintf("SIG=C13/wrong-target-dialled connection %d: requested %s, the outbound client was asked for %s", i, targets[i].addr, addr)
			return
		}
		if k := tcpsvc.Check(p.UpSeed, 0, atEntry); k >= 0 {
			res.violation = fmt.Sprintf("SIG=C13/initial-payload-foreign connection %d: initial payload (%d bytes) handed to the dial is not a prefix of this connection's stream (byte %d)", i, len(atEntry), k)
			return
		}
		if !bytes.Equal(atEntry, atDial) {
			res.violation = fmt.Sprintf("SIG=C13/initial-payload-changed-during-dial connection %d: the %d-byte initial payload changed between the start of the dial and its use (held=%v): another connection's wait reused the memory", i, len(atEntry), d.hold != nil)
			return
		}
		if len(atEntry) > c.bufSize() && c.Server != "ss2022" {
			res.violation = fmt.Sprintf("SIG=C13/initial-payload-exceeds-buffer connection %d: %d bytes, wait buffer %d", i, len(atEntry), c.bufSize())
			return
		}
	}
	fc.mu.Lock()
	unplanned := fc.unplanned
	fc.mu.Unlock()
	if len(unplanned) > 0 {
		res.violation = fmt.Sprintf("SIG=C13/wrong-target-dialled unplanned onward dials: %v", unplanned)
		return
	}

	// statistics from the relay's collector
	users := map[string]want{}
	var anon want
	total := 0
	for i, r := range res.conns {
		if r.session {
			total++
		}
		if u, ok := userOf(c, i); ok {
			w := users[u]
			w.add(r)
			users[u] = w
		} else {
			anon.add(r)
		}
	}
	if v, live := checkServerStats(fr, "front", users, anon, fr.copiesEnded(total)); v != "" {
		res.violation, res.liveness = v+"\n  (relay assembled around the harness-owned outbound client)", live
	}
	return
}

var recFake = ev.New("C13", "owned-outbound-client",
	"rapid: a real service.TCPRelay (ServerConfig from generated JSON -> Initialize -> TCPRelay -> Start; server in {socks5, http, none, ss2022}, wait buffer {64,1000,1440,4096}, T {40,100}ms) "+
		"whose routed client is a harness-owned netio.StreamClient. Two families: (a) overlap - connection 0 sends its first bytes inside the wait window (length 1, <B, =B twice as likely, B+1, 2B/4096/65536; "+
		"all connections of the case use the same length, different content) and its onward dial is held; 1-4 further connections pass through the same listener with their own first bytes and finish - one after the other or started at drawn offsets (0-150ms) - then, after a drawn linger (0-120ms), the held dial is released; "+
		"(b) failures - 20-45 parallel connections, 90% of which fail: the classes {EACCES, ENETDOWN, ENETUNREACH, ENETRESET, ECONNABORTED, ECONNRESET, ETIMEDOUT, ECONNREFUSED, EHOSTDOWN, EHOSTUNREACH, an errno outside conn's table} x {bare errno, *os.SyscallError, *net.OpError{*os.SyscallError}, fmt.Errorf %w around that} + context.DeadlineExceeded, a *net.DNSError inside *net.OpError, io.EOF + router rejection by domain rule / by prefix rule are walked cyclically from a drawn start, one per failing connection; http server over TLS or plain; logger debug or info; "+
		"native-payload flag and disabled wait drawn. Oracle: the per-connection ledger/EOF/reset oracle of the relay check; the outbound client is asked exactly once for exactly the requested target; the initial payload it receives is a prefix "+
		"of that connection's own stream at the start of the dial and unchanged when the dial uses it; failed dials are answered with the protocol's failure reply for that class (SOCKS5 REP from a table written from RFC 1928's names and the meaning of each result code: EACCES/rejection 2, ENETDOWN/ENETUNREACH 3, ENETRESET 3 or 1, EHOSTDOWN/EHOSTUNREACH 4, ECONNREFUSED 5, timeouts 1 or 6, DNS 1 or 4, everything else 1; HTTP 502; a close without a byte for none/ss2022) unless the documented wait rule forced success (then: success, close without a byte); a rejected target is never dialled; "+
		"collector snapshot = ledger. Evaluation = one connection. Non-trivial: every connection of an overlap case; errno connections that were answered with a failure reply; distinct key = class key + role").
	Require("overlapping-payload-waits/earlier-dial-held", "payload-length=wait-buffer-size", "held-dial-payload-nonempty",
		"failed-dial-reported:ECONNRESET", "failed-dial-reported:ECONNABORTED", "failed-dial-reported:ETIMEDOUT").
	Require(requiredFailureLabels()...).
	Require("router-rejection-reported", "failure-silent-close:none", "failure-silent-close:ss2022", "forced-success-reply",
		"server:http+tls", "logger:debug", "logger:info")

// requiredFailureLabels: a failure reply (SOCKS5 REP / HTTP status) was checked for every result
// code in every wrapping, and for the non-errno failures.
func requiredFailureLabels() []string {
	var out []string
	for _, fc := range failureClasses {
		switch {
		case strings.HasPrefix(fc.errno, "router-"):
		case fc.wrap == "":
			out = append(out, "failed-dial-reported:"+fc.errno)
		default:
			out = append(out, "failed-dial-reported:"+fc.errno+"/"+fc.wrap)
		}
	}
	return out
}

func TestRelayOwnedClient(t *testing.T) {
	if v, err := strconv.Atoi(os.Getenv("VERIF_C13_GOMAXPROCS")); err == nil && v > 0 {
		old := runtime.GOMAXPROCS(v)
		defer runtime.GOMAXPROCS(old)
	}
	procs := fmt.Sprintf("gomaxprocs:%d", runtime.GOMAXPROCS(0))
	if runtime.GOMAXPROCS(0) > 1 {
		procs = "gomaxprocs:>1"
	}
	dir := workDir(t)
	if err := setupCerts(dir); err != nil {
		t.Fatalf("SIG=C13/harness-error certificates: %v", err)
	}
	journal := filepath.Join(dir, fmt.Sprintf("journal-c13-owned-%d.json", os.Getpid()))
	rapid.Check(t, func(rt *rapid.T) {
		f := drawFake(rt)
		_ = os.WriteFile(journal, []byte(js(f)), 0o644)
		res := runFakeCase(f, dir)
		retried := false
		if res.harnessErr != "" || (res.violation != "" && res.liveness) {
			sig := "harness"
			if res.harnessErr == "" {
				sig = strings.TrimPrefix(strings.Fields(res.violation)[0], "SIG=C13/")
			}
			recFake.Label("first-try-retried:"+sig, 1)
			res, retried = runFakeCase(f, dir), true
		}
		_ = os.Remove(journal)
		if res.harnessErr != "" {
			rt.Fatalf("SIG=C13/harness-error (not a finding about the relay) %s\n  case: %s", res.harnessErr, js(f))
		}
		if res.violation != "" {
			rt.Fatalf("%s\n  case: %s", res.violation, js(f))
		}
		c := f.Case
		for i, r := range res.conns {
			p := c.Conns[i]
			ls := []string{procs, "server:" + c.Server}
			for _, l := range r.labels {
				if strings.HasPrefix(l, "failed-dial-reported:") || l == "forced-success-reply" || l == "closed-without-reply" || l == "wait-applies" ||
					l == "session-ended-by-reset-with-bytes-relayed" || l == "half-close-then-opposite-flows" ||
					l == "router-rejection-reported" || strings.HasPrefix(l, "failure-silent-close:") || l == "server:http+tls" || strings.HasPrefix(l, "socks5-rep:") || l == "http-502" {
					ls = append(ls, l)
				}
			}
			if c.DebugLog {
				ls = append(ls, "logger:debug")
			} else {
				ls = append(ls, "logger:info")
			}
			if p.Target == tkFakeErrno {
				ls = append(ls, "dial-failure:"+errClass(p.Errno))
				if p.ErrWrap != "" {
					ls = append(ls, "dial-failure-wrapping:"+p.ErrWrap)
				}
			}
			nt := r.nt && p.Target == tkFakeErrno
			role := "errno-case"
			if f.Overlap {
				nt = true
				role = "passed-while-earlier-dial-held"
				if i == 0 {
					role = "dial-held"
					ls = append(ls, "overlapping-payload-waits/earlier-dial-held")
					if f.Sequential {
						ls = append(ls, "later-connections:one-after-the-other")
					} else {
						ls = append(ls, "later-connections:staggered-starts")
					}
					if p.FirstLen > 0 {
						ls = append(ls, "held-dial-payload-nonempty")
					}
					switch b := c.bufSize(); {
					case p.FirstLen == b:
						ls = append(ls, "payload-length=wait-buffer-size")
					case p.FirstLen > b:
						ls = append(ls, "payload-length>wait-buffer-size")
					case p.FirstLen == 1:
						ls = append(ls, "payload-length=1")
					default:
						ls = append(ls, "payload-length<wait-buffer-size")
					}
				}
			}
			if retried {
				ls = append(ls, "case-retried")
			}
			recFake.Case(c.classKey(p)+" "+role, nt, ls...)
			if nt {
				recFake.Sample(map[string]any{"overlap": f.Overlap, "role": role, "server": c.Server, "buf": c.bufSize(), "t_ms": c.TMs, "fake_native": c.FakeNative, "conn": p})
			}
		}
	})
}
