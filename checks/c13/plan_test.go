package c13

import (
	"fmt"
	"time"

	"pgregory.net/rapid"
)

// ---- plan -----------------------------------------------------------------------------------

var serverProtos = []string{"socks5", "http", "none", "direct", "ss2022"}
var clientProtos = []string{"direct", "socks5", "http", "none", "ss2022"}

// target kinds
const (
	tkOKIP = iota
	tkOKDomain
	tkRefused
	tkUnreachable
	tkNXDomain
	tkRejectDomain
	tkRejectIP
	tkFakeErrno // only with the harness-owned outbound client (fake_test.go): the onward dial fails with a chosen errno
	nTargetKinds
)

var targetKindNames = [nTargetKinds]string{"ok-ip", "ok-domain", "refused", "unreachable", "nxdomain", "router-reject-domain", "router-reject-ip", "fake-errno"}

// when the client's first bytes (or, with nothing to send, its FIN) leave, relative to the end of the handshake
const (
	faHandshake = iota // passed to DialStream: travels with / right behind the handshake
	faZero             // immediately after the handshake returned
	faHalf             // T/2
	faBefore           // T-10ms
	faAfter            // T+10ms
	faDouble           // 2T
	nFirstAt
)

var firstAtNames = [nFirstAt]string{"with-handshake", "0", "T/2", "T-10ms", "T+10ms", "2T"}

// when the rest of the upload leaves
const (
	raBehind = iota // right behind the first chunk
	raAfterT        // T+50ms
	raDouble        // 2T
	raQuad          // 4T
	nRestAt
)

var restAtNames = [nRestAt]string{"behind-first", "T+50ms", "2T", "4T"}

// close modes
const (
	cmClientFirst = iota // client half-closes after its data; target answers EOF with Extra more bytes, then closes
	cmTargetFirst        // target half-closes after its data; client answers EOF with Extra more bytes, then closes
	cmBoth               // both half-close after their own data, independently
	cmAbort              // one side ends the session abortively (SO_LINGER 0 -> RST) after bytes were relayed both ways
	nCloseModes
)

// who resets in cmAbort
const (
	abClient = iota
	abTarget
)

var closeModeNames = [nCloseModes]string{"client-first", "target-first", "both", "reset"}

type connPlan struct {
	Target     int    `json:"target"`
	UpSeed     uint64 `json:"up_seed"`
	DownSeed   uint64 `json:"down_seed"`
	FirstAt    int    `json:"first_at"`
	FirstLen   int    `json:"first_len"`
	UpRest     []int  `json:"up_rest,omitempty"`
	Down       []int  `json:"down,omitempty"`
	SpeakFirst bool   `json:"speak_first,omitempty"` // target writes on accept instead of after the first uplink byte
	Mode       int    `json:"mode"`
	Extra      int    `json:"extra"`
	ReadBuf    int    `json:"read_buf"`
	// ViaDirect: in a chained case, route this connection (by its destination port) to the
	// front instance's own direct client instead of the chain client.
	ViaDirect bool `json:"via_direct,omitempty"`
	// RestAt: when the upload after the first chunk (UpRest) leaves, relative to the end of the
	// handshake: 0 = right behind the first chunk, else after the wait deadline has long passed
	// (T+50ms, 2T, 4T): the connection is idle-open in between.
	RestAt int `json:"rest_at,omitempty"`
	// tkFakeErrno only: the errno the harness-owned outbound client fails with.
	Errno string `json:"errno,omitempty"`
	// cmAbort only: who resets, and whether it waits until both sides have read everything
	// (then the statistics must be exact) or resets as soon as the client has seen the first
	// downlink byte and its own writes are done (bytes may be lost in flight).
	AbortBy    int  `json:"abort_by,omitempty"`
	AbortClean bool `json:"abort_clean,omitempty"`
}

func (p connPlan) upTotal() int64 {
	n := int64(p.FirstLen)
	for _, x := range p.UpRest {
		n += int64(x)
	}
	return n
}

func (p connPlan) downTotal() int64 {
	var n int64
	for _, x := range p.Down {
		n += int64(x)
	}
	return n
}

type casePlan struct {
	Server      string `json:"server"`
	Client      string `json:"client"`
	TMs         int    `json:"t_ms"`     // front initialPayloadWaitTimeout
	BufSize     int    `json:"buf_size"` // front initialPayloadWaitBufferSize (0 = default 1440)
	DisableWait bool   `json:"disable_wait,omitempty"`
	DialerTFO   bool   `json:"dialer_tfo,omitempty"` // the direct client that finally dials the target (front's when Client=direct, else the back instance's)
	Auth        bool   `json:"auth,omitempty"`       // one user per connection where the server protocol has users
	AES256      bool   `json:"aes256,omitempty"`
	// back instance (only when Client != direct)
	BackTMs         int  `json:"back_t_ms,omitempty"`
	BackDisableWait bool `json:"back_disable_wait,omitempty"`
	ChainAuth       bool `json:"chain_auth,omitempty"`

	// Client == "fake": the routed client is the harness-owned outbound client; FakeNative is what
	// it reports as NativeInitialPayload.
	FakeNative bool `json:"fake_native,omitempty"`

	Conns []connPlan `json:"conns"`
}

func (c casePlan) T() time.Duration { return time.Duration(c.TMs) * time.Millisecond }

func (c casePlan) bufSize() int {
	if c.BufSize == 0 {
		return 1440
	}
	return c.BufSize
}

func (c casePlan) chained() bool { return c.Client != "direct" }

// view returns the case as connection i experiences it: Client is the client the router must
// choose for that connection (the chain client, or the direct client for ViaDirect connections).
func (c casePlan) view(i int) casePlan {
	if c.chained() && c.Conns[i].ViaDirect {
		c.Client = "direct"
	}
	return c
}

func drawSize(rt *rapid.T, label string, b int) int {
	switch k := rapid.IntRange(0, 19).Draw(rt, label+"-class"); {
	case k < 11:
		return rapid.SampledFrom([]int{1, b - 1, b, b + 1, 2 * b, 2*b + 1}).Draw(rt, label)
	case k < 16:
		return rapid.IntRange(1, 4096).Draw(rt, label)
	case k < 18:
		return rapid.SampledFrom([]int{16384, 65535 - 300, 65535, 65536}).Draw(rt, label)
	default:
		return rapid.SampledFrom([]int{100000, 200000}).Draw(rt, label)
	}
}

func drawChunks(rt *rapid.T, label string, b, maxN int) []int {
	n := rapid.IntRange(0, maxN).Draw(rt, label+"-n")
	out := make([]int, 0, n)
	for i := 0; i < n; i++ {
		out = append(out, drawSize(rt, label, b))
	}
	return out
}

func drawConn(rt *rapid.T, b int, unreachableOK bool) connPlan {
	var p connPlan
	// 60% working targets; failures spread over the rest
	switch k := rapid.IntRange(0, 19).Draw(rt, "target-class"); {
	case k < 8:
		p.Target = tkOKIP
	case k < 13:
		p.Target = tkOKDomain
	default:
		p.Target = rapid.SampledFrom([]int{tkRefused, tkRefused, tkUnreachable, tkNXDomain, tkRejectDomain, tkRejectIP}).Draw(rt, "fail-kind")
		if p.Target == tkUnreachable && !unreachableOK {
			p.Target = tkRefused
		}
	}
	p.UpSeed = rapid.Uint64().Draw(rt, "up-seed")
	p.DownSeed = rapid.Uint64().Draw(rt, "down-seed")
	p.FirstAt = rapid.IntRange(0, nFirstAt-1).Draw(rt, "first-at")
	if rapid.IntRange(0, 6).Draw(rt, "never") == 0 {
		p.FirstLen = 0 // the client never sends: only its FIN (or nothing until the target closes)
	} else {
		p.FirstLen = drawSize(rt, "first-len", b)
		p.UpRest = drawChunks(rt, "up-rest", b, 2)
		if len(p.UpRest) > 0 && rapid.Bool().Draw(rt, "rest-late") {
			p.RestAt = rapid.IntRange(1, nRestAt-1).Draw(rt, "rest-at")
		}
	}
	p.Down = drawChunks(rt, "down", b, 3)
	p.SpeakFirst = rapid.Bool().Draw(rt, "speak-first")
	p.Mode = rapid.IntRange(0, nCloseModes-1).Draw(rt, "mode")
	if p.Mode == cmAbort {
		p.AbortBy = rapid.IntRange(abClient, abTarget).Draw(rt, "abort-by")
		p.AbortClean = rapid.Bool().Draw(rt, "abort-clean")
		// bytes must have been relayed in each direction before the reset
		if p.FirstLen == 0 {
			p.FirstLen = drawSize(rt, "first-len", b)
		}
		if p.downTotal() == 0 {
			p.Down = []int{drawSize(rt, "down", b)}
		}
	} else if p.Mode != cmBoth {
		if rapid.IntRange(0, 4).Draw(rt, "extra0") == 0 {
			p.Extra = 0
		} else {
			p.Extra = drawSize(rt, "extra", b)
		}
	}
	p.ReadBuf = rapid.SampledFrom([]int{1, 17, 1440, 4096, 32768, 70000}).Draw(rt, "read-buf")
	p.ViaDirect = rapid.IntRange(0, 3).Draw(rt, "via-direct") == 0
	return p
}

func drawCase(rt *rapid.T, unreachableOK bool) casePlan {
	var c casePlan
	c.Server = rapid.SampledFrom(serverProtos).Draw(rt, "server")
	// the direct client is the one through which dial failures keep their errno: 3 of 9
	c.Client = rapid.SampledFrom([]string{"direct", "direct", "direct", "socks5", "socks5", "http", "none", "ss2022", "ss2022"}).Draw(rt, "client")
	c.TMs = rapid.SampledFrom([]int{40, 60, 100, 150, 250}).Draw(rt, "t-ms")
	c.BufSize = rapid.SampledFrom([]int{0, 0, 0, 64, 1000, 4096}).Draw(rt, "buf-size")
	c.DisableWait = rapid.IntRange(0, 4).Draw(rt, "disable-wait") == 0
	c.DialerTFO = rapid.Bool().Draw(rt, "dialer-tfo")
	c.Auth = rapid.Bool().Draw(rt, "auth")
	c.AES256 = rapid.Bool().Draw(rt, "aes256")
	if c.chained() {
		c.BackTMs = rapid.SampledFrom([]int{40, 100}).Draw(rt, "back-t-ms")
		c.BackDisableWait = rapid.Bool().Draw(rt, "back-disable-wait")
		c.ChainAuth = rapid.Bool().Draw(rt, "chain-auth")
	}
	n := rapid.IntRange(1, 10).Draw(rt, "conns")
	for i := 0; i < n; i++ {
		c.Conns = append(c.Conns, drawConn(rt, c.bufSize(), unreachableOK))
	}
	return c
}

// ---- the model of the documented decisions of service/tcp.go -----------------------------------

// clientNative: does the client chosen by routing carry the initial payload natively?
// (netio.StreamDialerInfo.NativeInitialPayload: direct = TFO enabled; none and ss2022 = yes;
// socks5 and http = no.)
func (c casePlan) clientNative() bool {
	switch c.Client {
	case "direct":
		return c.DialerTFO
	case "none", "ss2022":
		return true
	case "fake":
		return c.FakeNative
	}
	return false
}

// waitApplies: the relay answers success first and waits for the initial payload iff the wait
// is not disabled, the server protocol does not carry payload natively (ss2022 does) and the
// client does.
func (c casePlan) waitApplies() bool {
	return c.Server != "ss2022" && !c.DisableWait && c.clientNative()
}

// hasReply: does the server protocol have a success/failure reply at all?
func (c casePlan) hasReply() bool { return c.Server == "socks5" || c.Server == "http" }

// failureVisible: can the front relay learn that the onward connection failed?
// Through a none / ss2022 upstream proxy it cannot: those protocols have no reply, the TCP
// connection to the upstream proxy succeeds and the upstream just closes.
func (c casePlan) failureVisible(target int) bool {
	if target == tkRejectDomain || target == tkRejectIP {
		return true
	}
	switch c.Client {
	case "direct", "fake":
		return true
	case "socks5", "http":
		// the upstream proxy is the same relay code: if its own initial-payload wait applies it
		// has answered success before dialling, and the failure is hidden from the front relay too
		return !c.backWaitApplies()
	}
	return false
}

// backWaitApplies: the rule of waitApplies for the second instance (its client is always the
// direct client with DialerTFO; an ss2022 back server carries payload natively).
func (c casePlan) backWaitApplies() bool {
	return c.chained() && c.Client != "ss2022" && c.Client != "fake" && !c.BackDisableWait && c.DialerTFO
}

type expectation struct {
	ok          bool   // the data phase works end to end
	replyFail   bool   // DialStream must fail with the protocol's failure reply
	socks5Code  int    // exact SOCKS5 REP expected (0 = any non-zero)
	session     bool   // the front relay reaches the copy phase (a stats session is recorded)
	why         string // for messages
	rejected    bool
	forcedReply bool // success was (or had to be) signalled although the onward connection failed
}

func (c casePlan) expect(p connPlan, unreachableCode int) expectation {
	if p.Target == tkOKIP || p.Target == tkOKDomain {
		return expectation{ok: true, session: true, why: "target accepts"}
	}
	rejected := p.Target == tkRejectDomain || p.Target == tkRejectIP
	var e expectation
	e.rejected = rejected
	switch {
	case rejected:
		// the router decides before anything is dialled or waited for
		e.replyFail = c.hasReply()
		e.socks5Code = 2 // connection not allowed by ruleset
		e.why = "router rejects"
	case !c.failureVisible(p.Target):
		e.session = true // the relay believes it is connected and starts copying
		e.forcedReply = true
		e.why = "failure hidden behind an upstream proxy that cannot (or can no longer) signal it"
	case c.waitApplies():
		e.forcedReply = true
		e.why = "success already signalled for the initial-payload wait"
	default:
		e.replyFail = c.hasReply()
		e.why = "onward connection fails before any reply"
		if p.Target == tkFakeErrno {
			// conn/dialresult.go: "Based on Linux errno values"; RFC 1928 REP names. Errnos without
			// a REP of their own (ECONNRESET, ECONNABORTED, ETIMEDOUT, ...) need any failure REP.
			e.socks5Code = map[string]int{"ECONNREFUSED": 5, "ENETUNREACH": 3, "EHOSTUNREACH": 4, "EACCES": 2}[p.Errno]
		}
		if c.Client == "direct" {
			switch p.Target {
			case tkRefused:
				e.socks5Code = 5 // connection refused
			case tkUnreachable:
				e.socks5Code = unreachableCode // network (3) or host (4) unreachable, by errno
			case tkNXDomain:
				e.socks5Code = 1 // general failure
			}
		}
	}
	return e
}

func (c casePlan) classKey(p connPlan) string {
	sz := func(n int) string {
		b := c.bufSize()
		switch {
		case n == 0:
			return "0"
		case n < b:
			return "<B"
		case n == b:
			return "=B"
		case n <= 2*b+1:
			return "<=2B+1"
		case n < 65535:
			return "<64k"
		default:
			return ">=64k"
		}
	}
	return fmt.Sprintf("%s>%s tfo=%v nowait=%v auth=%v buf=%d | %s at=%s first=%s rest=%d down=%d sf=%v %s extra=%s",
		c.Server, c.Client, c.DialerTFO, c.DisableWait, c.Auth, c.bufSize(),
		targetKindNames[p.Target], firstAtNames[p.FirstAt], sz(p.FirstLen), len(p.UpRest), len(p.Down), p.SpeakFirst, closeModeNames[p.Mode], sz(p.Extra)) +
		fmt.Sprintf(" abort=%d/%v rest-at=%s", p.AbortBy, p.AbortClean, restAtNames[p.RestAt])
}
