package c13

import (
	"fmt"
	"time"

	"pgregory.net/rapid"
)

// ---- plan -----------------------------------------------------------------------------------

var serverProtos = []string{"socks5", "http", "none", "direct", "ss2022"}
var clientProtos = []string{"direct", "socks5", "http", "none", "ss2022"}

// target kinds
const (
	tkOKIP = iota
	tkOKDomain
	tkRefused
	tkUnreachable
	tkNXDomain
	tkRejectDomain
	tkRejectIP
	tkFakeErrno // only with the harness-owned outbound client (fake_test.go): the onward dial fails with a chosen errno
	nTargetKinds
)

var targetKindNames = [nTargetKinds]string{"ok-ip", "ok-domain", "refused", "unreachable", "nxdomain", "router-reject-domain", "router-reject-ip", "fake-errno"}

// when the client's first bytes (or, with nothing to send, its FIN) leave, relative to the end of the handshake
const (
	faHandshake = iota // passed to DialStream: travels with / right behind the handshake
	faZero             // immediately after the handshake returned
	faHalf             // T/2
	faBefore           // T-10ms
	faAfter            // T+10ms
	faDouble           // 2T
	nFirstAt
)

var firstAtNames = [nFirstAt]string{"with-handshake", "0", "T/2", "T-10ms", "T+10ms", "2T"}

// when the rest of the upload leaves
const (
	raBehind = iota // right behind the first chunk
	raAfterT        // T+50ms
	raDouble        // 2T
	raQuad          // 4T
	nRestAt
)

var restAtNames = [nRestAt]string{"behind-first", "T+50ms", "2T", "4T"}

// close modes
const (
	cmClientFirst = iota // client half-closes after its data; target answers EOF with Extra more bytes, then closes
	cmTargetFirst        // target half-closes after its data; client answers EOF with Extra more bytes, then closes
	cmBoth               // both half-close after their own data, independently
	cmAbort              // one side ends the session abortively (SO_LINGER 0 -> RST) after bytes were relayed both ways
	nCloseModes
)

// who resets in cmAbort
const (
	abClient = iota
	abTarget
)

var closeModeNames = [nCloseModes]string{"client-first", "target-first", "both", "reset"}

type connPlan struct {
	Target     int    `json:"target"`
	UpSeed     uint64 `json:"up_seed"`
	DownSeed   uint64 `json:"down_seed"`
	FirstAt    int    `json:"first_at"`
	FirstLen   int    `json:"first_len"`
	UpRest     []int  `json:"up_rest,omitempty"`
	Down       []int  `json:"down,omitempty"`
	SpeakFirst bool   `json:"speak_first,omitempty"` // target writes on accept instead of after the first uplink byte
	Mode       int    `json:"mode"`
	Extra      int    `json:"extra"`
	ReadBuf    int    `json:"read_buf"`
	// ViaDirect: in a chained case, route this connection (by its destination port) to the
	// front instance's own direct client instead of the chain client.
	ViaDirect bool `json:"via_direct,omitempty"`
	// RestAt: when the upload after the first chunk (UpRest) leaves, relative to the end of the
	// handshake: 0 = right behind the first chunk, else after the wait deadline has long passed
	// (T+50ms, 2T, 4T): the connection is idle-open in between.
	RestAt int `json:"rest_at,omitempty"`
	// tkFakeErrno only: what the harness-owned outbound client fails with: an errno name of
	// conn's table, an errno outside it (EINVAL, EPERM, EADDRNOTAVAIL, ENOBUFS), or one of the
	// non-errno errors (errDeadline, errDNS, errEOF); and how the errno is wrapped.
	Errno   string `json:"errno,omitempty"`
	ErrWrap string `json:"err_wrap,omitempty"`
	// Visitor != 0: the connection is not a Shadowsocks client at all but a visitor of an ss2022
	// server that has unsafeFallbackAddress set (casePlan.Fallback): it connects, writes its stream
	// (starting with an HTTP request / a TLS ClientHello record header / nothing special) and must
	// end up relayed to the fallback destination, which is this connection's target.
	// Dribble > 0: the first segment is not written at once: Dribble bytes, DribbleGapMs pause, rest.
	Visitor      int `json:"visitor,omitempty"`
	Dribble      int `json:"dribble,omitempty"`
	DribbleGapMs int `json:"dribble_gap_ms,omitempty"`
	// cmAbort only: who resets, and whether it waits until both sides have read everything
	// (then the statistics must be exact) or resets as soon as the client has seen the first
	// downlink byte and its own writes are done (bytes may be lost in flight).
	AbortBy    int  `json:"abort_by,omitempty"`
	AbortClean bool `json:"abort_clean,omitempty"`
}

func (p connPlan) upTotal() int64 {
	n := int64(p.FirstLen)
	for _, x := range p.UpRest {
		n += int64(x)
	}
	return n
}

func (p connPlan) downTotal() int64 {
	var n int64
	for _, x := range p.Down {
		n += int64(x)
	}
	return n
}

type casePlan struct {
	Server      string `json:"server"`
	Client      string `json:"client"`
	TMs         int    `json:"t_ms"`     // front initialPayloadWaitTimeout
	BufSize     int    `json:"buf_size"` // front initialPayloadWaitBufferSize (0 = default 1440)
	DisableWait bool   `json:"disable_wait,omitempty"`
	DialerTFO   bool   `json:"dialer_tfo,omitempty"` // the direct client that finally dials the target (front's when Client=direct, else the back instance's)
	Auth        bool   `json:"auth,omitempty"`       // one user per connection where the server protocol has users
	AES256      bool   `json:"aes256,omitempty"`
	// back instance (only when Client != direct)
	BackTMs         int  `json:"back_t_ms,omitempty"`
	BackDisableWait bool `json:"back_disable_wait,omitempty"`
	ChainAuth       bool `json:"chain_auth,omitempty"`

	// Client == "fake": the routed client is the harness-owned outbound client; FakeNative is what
	// it reports as NativeInitialPayload.
	FakeNative bool `json:"fake_native,omitempty"`

	// TLS: the front http server speaks HTTP proxy over TLS (enableTLS + certList).
	// ChainTLS: the chain client (Client == "http") uses TLS (useTLS + rootCAs) and the back
	// instance's http server enables it; ChainServerName: the client names the server
	// (serverName) instead of letting it be inferred from the endpoint address (an IP SAN).
	TLS             bool `json:"tls,omitempty"`
	ChainTLS        bool `json:"chain_tls,omitempty"`
	ChainServerName bool `json:"chain_server_name,omitempty"`
	// Fallback: the front ss2022 server(s) have unsafeFallbackAddress set; AllowSegmented:
	// allowSegmentedFixedLengthHeader (the server then collects the fixed-length header over
	// several reads instead of judging the first read).
	Fallback       bool `json:"fallback,omitempty"`
	AllowSegmented bool `json:"allow_segmented,omitempty"`
	// DebugLog / BackDebugLog: the instance runs with a debug-level logger (encoded to io.Discard).
	DebugLog     bool `json:"debug_log,omitempty"`
	BackDebugLog bool `json:"back_debug_log,omitempty"`

	Conns []connPlan `json:"conns"`
}

func (c casePlan) T() time.Duration { return time.Duration(c.TMs) * time.Millisecond }

func (c casePlan) bufSize() int {
	if c.BufSize == 0 {
		return 1440
	}
	return c.BufSize
}

func (c casePlan) chained() bool { return c.Client != "direct" }

// view returns the case as connection i experiences it: Client is the client the router must
// choose for that connection (the chain client, or the direct client for ViaDirect connections).
func (c casePlan) view(i int) casePlan {
	if c.chained() && c.Conns[i].ViaDirect {
		c.Client = "direct"
	}
	return c
}

// visitor kinds
const (
	viNone = iota
	viHTTP
	viTLS
	viRandom
	nVisitorKinds
)

var visitorNames = [nVisitorKinds]string{"", "http-request", "tls-client-hello", "random-bytes"}

// saltLen / fallbackHeaderLen: the sizes the ss2022 specification gives the start of a request
// stream: salt (= key length), [16-byte identity header when user PSKs are in use], 11-byte
// fixed-length header + 16-byte tag. 16+27 = 43, with identity header 59 (75 with 32-byte keys).
func (c casePlan) saltLen() int {
	if c.AES256 {
		return 32
	}
	return 16
}

func (c casePlan) fallbackHeaderLen() int {
	n := c.saltLen() + 11 + 16
	if c.Auth {
		n += 16
	}
	return n
}

// isVisitor: connection i is a non-Shadowsocks visitor of a fallback-enabled ss2022 server.
func (c casePlan) isVisitor(i int) bool {
	return c.Server == "ss2022" && c.Fallback && c.Conns[i].Visitor != viNone
}

// visitorPrefix is what a visitor's stream starts with.
func visitorPrefix(kind int) []byte {
	switch kind {
	case viHTTP:
		return []byte("GET /index.html HTTP/1.1\r\nHost: www.example.com\r\nUser-Agent: curl/8.5.0\r\nAccept: */*\r\n\r\n")
	case viTLS:
		// TLS record header + handshake header + legacy_version of a 512-byte ClientHello
		return []byte{0x16, 0x03, 0x01, 0x02, 0x00, 0x01, 0x00, 0x01, 0xfc, 0x03, 0x03}
	}
	return nil
}

// makeVisitor turns a drawn connection into a visitor: it always sends something (a silent
// visitor is never connected anywhere), its first segment is sized around the salt and around the
// header length, and it may dribble that segment.
func makeVisitor(rt *rapid.T, c *casePlan, p *connPlan) {
	p.Visitor = rapid.IntRange(viHTTP, viRandom).Draw(rt, "visitor-kind")
	s, h := c.saltLen(), c.fallbackHeaderLen()
	switch rapid.IntRange(0, 7).Draw(rt, "visitor-first-class") {
	case 0, 1:
		p.FirstLen = rapid.SampledFrom([]int{1, s - 1}).Draw(rt, "visitor-first")
	case 2, 3:
		p.FirstLen = rapid.SampledFrom([]int{s, s + 1, h - 1}).Draw(rt, "visitor-first")
	case 4, 5:
		p.FirstLen = h
	case 6:
		p.FirstLen = rapid.SampledFrom([]int{h + 1, 2 * h, 517}).Draw(rt, "visitor-first")
	default:
		p.FirstLen = drawSize(rt, "visitor-first", c.bufSize())
	}
	// visitors mostly reach a working fallback destination
	if p.Target != tkOKIP && p.Target != tkOKDomain && rapid.IntRange(0, 3).Draw(rt, "visitor-target-ok") != 0 {
		p.Target = tkOKIP
	}
	if c.AllowSegmented {
		// With allowSegmentedFixedLengthHeader the server keeps reading until it has a whole header
		// (or EOF): a visitor that sends less than that and then waits for an answer is, as
		// documented, not connected anywhere. Such a visitor is not generated: it either sends at
		// least a header's worth in the course of its upload (the header is then assembled from
		// several segments), or it ends its upload first (EOF ends the collecting).
		switch ok := p.Target == tkOKIP || p.Target == tkOKDomain; {
		case !ok && p.FirstLen < h:
			p.FirstLen = h // (on the failure paths the harness client only sends its first segment)
		case ok && p.upTotal() < int64(h) && (p.Mode == cmTargetFirst || p.Mode == cmAbort):
			p.UpRest = append(p.UpRest, h)
		}
	}
	if p.FirstLen >= 2 && rapid.Bool().Draw(rt, "dribble") {
		p.Dribble = min(p.FirstLen-1, rapid.SampledFrom([]int{1, s, h - 1, p.FirstLen - 1}).Draw(rt, "dribble-at"))
		p.DribbleGapMs = rapid.SampledFrom([]int{2, 10, 30}).Draw(rt, "dribble-gap")
	}
}

func drawSize(rt *rapid.T, label string, b int) int {
	switch k := rapid.IntRange(0, 19).Draw(rt, label+"-class"); {
	case k < 11:
		return rapid.SampledFrom([]int{1, b - 1, b, b + 1, 2 * b, 2*b + 1}).Draw(rt, label)
	case k < 16:
		return rapid.IntRange(1, 4096).Draw(rt, label)
	case k < 18:
		return rapid.SampledFrom([]int{16384, 65535 - 300, 65535, 65536}).Draw(rt, label)
	default:
		return rapid.SampledFrom([]int{100000, 200000}).Draw(rt, label)
	}
}

func drawChunks(rt *rapid.T, label string, b, maxN int) []int {
	n := rapid.IntRange(0, maxN).Draw(rt, label+"-n")
	out := make([]int, 0, n)
	for i := 0; i < n; i++ {
		out = append(out, drawSize(rt, label, b))
	}
	return out
}

func drawConn(rt *rapid.T, b int, unreachableOK bool) connPlan {
	var p connPlan
	// 60% working targets; failures spread over the rest
	switch k := rapid.IntRange(0, 19).Draw(rt, "target-class"); {
	case k < 8:
		p.Target = tkOKIP
	case k < 13:
		p.Target = tkOKDomain
	default:
		p.Target = rapid.SampledFrom([]int{tkRefused, tkRefused, tkUnreachable, tkNXDomain, tkRejectDomain, tkRejectIP}).Draw(rt, "fail-kind")
		if p.Target == tkUnreachable && !unreachableOK {
			p.Target = tkRefused
		}
	}
	p.UpSeed = rapid.Uint64().Draw(rt, "up-seed")
	p.DownSeed = rapid.Uint64().Draw(rt, "down-seed")
	p.FirstAt = rapid.IntRange(0, nFirstAt-1).Draw(rt, "first-at")
	if rapid.IntRange(0, 6).Draw(rt, "never") == 0 {
		p.FirstLen = 0 // the client never sends: only its FIN (or nothing until the target closes)
	} else {
		p.FirstLen = drawSize(rt, "first-len", b)
		p.UpRest = drawChunks(rt, "up-rest", b, 2)
		if len(p.UpRest) > 0 && rapid.Bool().Draw(rt, "rest-late") {
			p.RestAt = rapid.IntRange(1, nRestAt-1).Draw(rt, "rest-at")
		}
	}
	p.Down = drawChunks(rt, "down", b, 3)
	p.SpeakFirst = rapid.Bool().Draw(rt, "speak-first")
	p.Mode = rapid.IntRange(0, nCloseModes-1).Draw(rt, "mode")
	if p.Mode == cmAbort {
		p.AbortBy = rapid.IntRange(abClient, abTarget).Draw(rt, "abort-by")
		p.AbortClean = rapid.Bool().Draw(rt, "abort-clean")
		// bytes must have been relayed in each direction before the reset
		if p.FirstLen == 0 {
			p.FirstLen = drawSize(rt, "first-len", b)
		}
		if p.downTotal() == 0 {
			p.Down = []int{drawSize(rt, "down", b)}
		}
	} else if p.Mode != cmBoth {
		if rapid.IntRange(0, 4).Draw(rt, "extra0") == 0 {
			p.Extra = 0
		} else {
			p.Extra = drawSize(rt, "extra", b)
		}
	}
	p.ReadBuf = rapid.SampledFrom([]int{1, 17, 1440, 4096, 32768, 70000}).Draw(rt, "read-buf")
	p.ViaDirect = rapid.IntRange(0, 3).Draw(rt, "via-direct") == 0
	return p
}

func drawCase(rt *rapid.T, unreachableOK bool) casePlan {
	var c casePlan
	c.Server = rapid.SampledFrom(serverProtos).Draw(rt, "server")
	// the direct client is the one through which dial failures keep their errno: 3 of 10
	c.Client = rapid.SampledFrom([]string{"direct", "direct", "direct", "socks5", "socks5", "http", "http", "none", "ss2022", "ss2022"}).Draw(rt, "client")
	// a fifth of the cases concentrate on the configurations with few natural occurrences
	switch rapid.IntRange(0, 9).Draw(rt, "focus") {
	case 0:
		c.Server, c.Fallback = "ss2022", true
	case 1:
		c.Server, c.TLS = "http", true
	}
	c.TMs = rapid.SampledFrom([]int{40, 60, 100, 150, 250}).Draw(rt, "t-ms")
	c.BufSize = rapid.SampledFrom([]int{0, 0, 0, 64, 1000, 4096}).Draw(rt, "buf-size")
	c.DisableWait = rapid.IntRange(0, 4).Draw(rt, "disable-wait") == 0
	c.DialerTFO = rapid.Bool().Draw(rt, "dialer-tfo")
	c.Auth = rapid.Bool().Draw(rt, "auth")
	c.AES256 = rapid.Bool().Draw(rt, "aes256")
	if c.chained() {
		c.BackTMs = rapid.SampledFrom([]int{40, 100}).Draw(rt, "back-t-ms")
		c.BackDisableWait = rapid.Bool().Draw(rt, "back-disable-wait")
		c.ChainAuth = rapid.Bool().Draw(rt, "chain-auth")
		c.BackDebugLog = rapid.Bool().Draw(rt, "back-debug-log")
	}
	c.DebugLog = rapid.Bool().Draw(rt, "debug-log")
	if c.Server == "http" && !c.TLS {
		c.TLS = rapid.Bool().Draw(rt, "tls")
	}
	if c.Client == "http" {
		c.ChainTLS = rapid.Bool().Draw(rt, "chain-tls")
		c.ChainServerName = rapid.Bool().Draw(rt, "chain-server-name")
	}
	if c.Server == "ss2022" {
		if !c.Fallback {
			c.Fallback = rapid.Bool().Draw(rt, "fallback")
		}
		c.AllowSegmented = rapid.IntRange(0, 2).Draw(rt, "allow-segmented") == 0
	}
	n := rapid.IntRange(1, 10).Draw(rt, "conns")
	for i := 0; i < n; i++ {
		p := drawConn(rt, c.bufSize(), unreachableOK)
		if c.Server == "ss2022" && c.Fallback && rapid.Bool().Draw(rt, "visitor") {
			makeVisitor(rt, &c, &p)
		}
		c.Conns = append(c.Conns, p)
	}
	return c
}

// ---- the model of the documented decisions of service/tcp.go -----------------------------------

// clientNative: does the client chosen by routing carry the initial payload natively?
// (netio.StreamDialerInfo.NativeInitialPayload: direct = TFO enabled; none and ss2022 = yes;
// socks5 and http = no.)
func (c casePlan) clientNative() bool {
	switch c.Client {
	case "direct":
		return c.DialerTFO
	case "none", "ss2022":
		return true
	case "fake":
		return c.FakeNative
	}
	return false
}

// waitApplies: the relay answers success first and waits for the initial payload iff the wait
// is not disabled, the server protocol does not carry payload natively (ss2022 does) and the
// client does.
func (c casePlan) waitApplies() bool {
	return c.Server != "ss2022" && !c.DisableWait && c.clientNative()
}

// hasReply: does the server protocol have a success/failure reply at all?
func (c casePlan) hasReply() bool { return c.Server == "socks5" || c.Server == "http" }

// failureVisible: can the front relay learn that the onward connection failed?
// Through a none / ss2022 upstream proxy it cannot: those protocols have no reply, the TCP
// connection to the upstream proxy succeeds and the upstream just closes.
func (c casePlan) failureVisible(target int) bool {
	if target == tkRejectDomain || target == tkRejectIP {
		return true
	}
	switch c.Client {
	case "direct", "fake":
		return true
	case "socks5", "http":
		// the upstream proxy is the same relay code: if its own initial-payload wait applies it
		// has answered success before dialling, and the failure is hidden from the front relay too
		return !c.backWaitApplies()
	}
	return false
}

// backWaitApplies: the rule of waitApplies for the second instance (its client is always the
// direct client with DialerTFO; an ss2022 back server carries payload natively).
func (c casePlan) backWaitApplies() bool {
	return c.chained() && c.Client != "ss2022" && c.Client != "fake" && !c.BackDisableWait && c.DialerTFO
}

type expectation struct {
	ok          bool   // the data phase works end to end
	replyFail   bool   // DialStream must fail with the protocol's failure reply
	socks5Codes []int  // acceptable SOCKS5 REP values (nil = any non-zero)
	session     bool   // the front relay reaches the copy phase (a stats session is recorded)
	why         string // for messages
	rejected    bool
	forcedReply bool // success was (or had to be) signalled although the onward connection failed
}

func (c casePlan) expect(p connPlan, unreachableCode int) expectation {
	if p.Target == tkOKIP || p.Target == tkOKDomain {
		return expectation{ok: true, session: true, why: "target accepts"}
	}
	rejected := p.Target == tkRejectDomain || p.Target == tkRejectIP
	var e expectation
	e.rejected = rejected
	switch {
	case rejected:
		// the router decides before anything is dialled or waited for
		e.replyFail = c.hasReply()
		e.socks5Codes = []int{2} // connection not allowed by ruleset
		e.why = "router rejects"
	case !c.failureVisible(p.Target):
		e.session = true // the relay believes it is connected and starts copying
		e.forcedReply = true
		e.why = "failure hidden behind an upstream proxy that cannot (or can no longer) signal it"
	case c.waitApplies():
		e.forcedReply = true
		e.why = "success already signalled for the initial-payload wait"
	default:
		e.replyFail = c.hasReply()
		e.why = "onward connection fails before any reply"
		if p.Target == tkFakeErrno {
			e.socks5Codes = socks5Accept(p.Errno)
		}
		if c.Client == "direct" {
			switch p.Target {
			case tkRefused:
				e.socks5Codes = []int{5} // connection refused
			case tkUnreachable:
				e.socks5Codes = []int{unreachableCode} // network (3) or host (4) unreachable, by errno
			case tkNXDomain:
				e.socks5Codes = []int{1} // general failure
			}
		}
	}
	return e
}

// The failures the harness-owned outbound client can be told to produce.
const (
	errDeadline = "context.DeadlineExceeded"
	errDNS      = "dns-error"
	errEOF      = "io.EOF"
)

// conn's result-code table (conn/dialresult.go), plus, as the last entry, "an errno outside it".
var tableErrnos = []string{"EACCES", "ENETDOWN", "ENETUNREACH", "ENETRESET", "ECONNABORTED", "ECONNRESET", "ETIMEDOUT", "ECONNREFUSED", "EHOSTDOWN", "EHOSTUNREACH", "other-errno"}
var otherErrnos = []string{"EINVAL", "EPERM", "EADDRNOTAVAIL", "ENOBUFS"}

// the shapes in which an errno reaches the relay from real dialers
var errWraps = []string{"bare-errno", "os.SyscallError", "net.OpError", "fmt.Errorf-%w"}

// errClass names the row of the result-code table an injected failure belongs to.
func errClass(errno string) string {
	for _, o := range otherErrnos {
		if errno == o {
			return "other-errno"
		}
	}
	return errno
}

// socks5Accept: the REP values (RFC 1928 section 6, as named in socks5/stream.go: 1 general SOCKS
// server failure, 2 connection not allowed by ruleset, 3 Network unreachable, 4 Host unreachable,
// 5 Connection refused, 6 TTL expired) that report a failure of the given kind truthfully. Written
// from those names and from the meaning conn/dialresult.go gives each result code, not from the
// mapping function: one value where a REP exists for exactly that condition, the general failure
// where none does, and both where the nearest REP is a matter of convention (a timeout has no REP
// of its own - "TTL expired" is what several other servers answer; a reset network; an unresolvable
// name, which other servers report as host unreachable). Never success, never 7/8 (command /
// address type not supported), never the REP of a different condition.
func socks5Accept(errno string) []int {
	switch errClass(errno) {
	case "EACCES": // "permission denied" (denied by policy)
		return []int{2}
	case "ENETDOWN", "ENETUNREACH": // "network is down", "network is unreachable"
		return []int{3}
	case "ENETRESET": // "network dropped connection on reset"
		return []int{3, 1}
	case "EHOSTDOWN", "EHOSTUNREACH": // "host is down", "no route to host"
		return []int{4}
	case "ECONNREFUSED":
		return []int{5}
	case "ETIMEDOUT", errDeadline: // "connection timed out"
		return []int{1, 6}
	case errDNS:
		return []int{1, 4}
	}
	return []int{1} // ECONNABORTED, ECONNRESET, errnos outside the table, io.EOF, anything else
}

func (c casePlan) classKey(p connPlan) string {
	sz := func(n int) string {
		b := c.bufSize()
		switch {
		case n == 0:
			return "0"
		case n < b:
			return "<B"
		case n == b:
			return "=B"
		case n <= 2*b+1:
			return "<=2B+1"
		case n < 65535:
			return "<64k"
		default:
			return ">=64k"
		}
	}
	return fmt.Sprintf("%s>%s tfo=%v nowait=%v auth=%v buf=%d | %s at=%s first=%s rest=%d down=%d sf=%v %s extra=%s",
		c.Server, c.Client, c.DialerTFO, c.DisableWait, c.Auth, c.bufSize(),
		targetKindNames[p.Target], firstAtNames[p.FirstAt], sz(p.FirstLen), len(p.UpRest), len(p.Down), p.SpeakFirst, closeModeNames[p.Mode], sz(p.Extra)) +
		fmt.Sprintf(" abort=%d/%v rest-at=%s", p.AbortBy, p.AbortClean, restAtNames[p.RestAt]) + c.extraKey(p)
}

// extraKey: the round-6 dimensions (empty for a plan that uses none of them).
func (c casePlan) extraKey(p connPlan) string {
	s := ""
	if c.Server == "http" && c.TLS {
		s += " server-tls"
	}
	if c.Client == "http" && c.ChainTLS {
		s += fmt.Sprintf(" client-tls(sni=%v)", c.ChainServerName)
	}
	if c.Server == "ss2022" && c.Fallback {
		s += fmt.Sprintf(" fallback(seg=%v)", c.AllowSegmented)
		if p.Visitor != viNone {
			s += fmt.Sprintf(" visitor=%s first=%s dribble=%v", visitorNames[p.Visitor], c.firstSegmentClass(p), p.Dribble > 0)
		}
	}
	if p.Target == tkFakeErrno {
		s += " " + errClass(p.Errno) + "/" + p.ErrWrap
	}
	return s
}

// firstSegmentClass: a visitor's first segment relative to the salt and the header length.
func (c casePlan) firstSegmentClass(p connPlan) string {
	s, h := c.saltLen(), c.fallbackHeaderLen()
	switch n := p.FirstLen; {
	case n < s:
		return "<salt"
	case n == s:
		return "=salt"
	case n < h:
		return "salt..header"
	case n == h:
		return "=header"
	}
	return ">header"
}
