package c13

import (
	"encoding/json"
	"fmt"
	"os"
	"path/filepath"
	"strings"
	"testing"
	"time"

	"pgregory.net/rapid"

	"verif/internal/ev"
	"verif/internal/tcpsvc"
)

func TestMain(m *testing.M) {
	tcpsvc.InstallResolver()
	ev.Main(m)
}

// ---- statistics through the management API ------------------------------------------------------

type apiTraffic struct {
	DownlinkPackets uint64 `json:"downlinkPackets"`
	DownlinkBytes   uint64 `json:"downlinkBytes"`
	UplinkPackets   uint64 `json:"uplinkPackets"`
	UplinkBytes     uint64 `json:"uplinkBytes"`
	TCPSessions     uint64 `json:"tcpSessions"`
	UDPSessions     uint64 `json:"udpSessions"`
}

type apiStats struct {
	apiTraffic
	Users []struct {
		Name string `json:"username"`
		apiTraffic
	} `json:"users"`
}

// statsSource is where a server's statistics are read from: the management API of a running
// instance (*tcpsvc.Instance) or, for a relay assembled around a harness-owned outbound client,
// the collector's snapshot in the API's JSON form.
type statsSource interface {
	APIGet(path string) (int, []byte, error)
}

// want is the ledger row of one accounting subject (a user, or the anonymous remainder).
// Byte counts are intervals: exact for orderly sessions, [received by the far harness side,
// written by the near harness side] for sessions ended by a reset or hidden failures.
type want struct {
	sessions       uint64
	upLo, upHi     uint64
	downLo, downHi uint64
}

func (w *want) add(r connResult) {
	if !r.session {
		return
	}
	w.sessions++
	w.upLo += uint64(r.up)
	w.upHi += uint64(r.upMax)
	w.downLo += uint64(r.down)
	w.downHi += uint64(r.downMax)
}

func (w want) matches(t apiTraffic) bool {
	return t.TCPSessions == w.sessions && t.DownlinkBytes >= w.downLo && t.DownlinkBytes <= w.downHi && t.UplinkBytes >= w.upLo && t.UplinkBytes <= w.upHi &&
		t.UDPSessions == 0 && t.DownlinkPackets == 0 && t.UplinkPackets == 0
}

func (w want) String() string {
	iv := func(lo, hi uint64) string {
		if lo == hi {
			return fmt.Sprint(lo)
		}
		return fmt.Sprintf("%d..%d", lo, hi)
	}
	return fmt.Sprintf("{tcpSessions:%d uplinkBytes:%s downlinkBytes:%s}", w.sessions, iv(w.upLo, w.upHi), iv(w.downLo, w.downHi))
}

func sub(a, b apiTraffic) apiTraffic {
	return apiTraffic{a.DownlinkPackets - b.DownlinkPackets, a.DownlinkBytes - b.DownlinkBytes, a.UplinkPackets - b.UplinkPackets,
		a.UplinkBytes - b.UplinkBytes, a.TCPSessions - b.TCPSessions, a.UDPSessions - b.UDPSessions}
}

// checkServerStats polls GET /servers/<name>/stats until the session count has reached the
// ledger's (sessions are recorded when the relay's copy loops have returned, shortly after the
// harness saw both EOFs) and then compares every subject exactly.
//
// allEnded reports that the instance has logged the end of every expected copy phase. The relay
// hands the session to the collector before it logs, so once that is true a missing session is
// final and reported at once instead of after the liveness bound (if the log texts ever change
// this degrades to the bounded poll).
func checkServerStats(in statsSource, name string, users map[string]want, anon want, allEnded func() bool) (string, bool) {
	var total uint64 = anon.sessions
	for _, w := range users {
		total += w.sessions
	}
	deadline := time.Now().Add(liveBound)
	var last apiStats
	var body []byte
	ended := false
	for {
		code, b, err := in.APIGet("/servers/" + name + "/stats")
		if err != nil || code != 200 {
			if time.Now().After(deadline) {
				return fmt.Sprintf("SIG=C13/stats-api-unavailable GET /servers/%s/stats: status %d err %v", name, code, err), true
			}
			time.Sleep(5 * time.Millisecond)
			continue
		}
		body = b
		last = apiStats{}
		if err := json.Unmarshal(b, &last); err != nil {
			return fmt.Sprintf("SIG=C13/stats-api-body GET /servers/%s/stats: %v body %q", name, err, b), false
		}
		if last.TCPSessions >= total {
			break
		}
		if ended {
			return fmt.Sprintf("SIG=C13/stats-session-missing server %s: %d of %d sessions recorded although the relay has logged the end of every copy phase; ledger users %v anonymous %v; body %s", name, last.TCPSessions, total, users, anon, b), false
		}
		if allEnded() {
			ended = true // one more read: this one is final
			continue
		}
		if time.Now().After(deadline) {
			return fmt.Sprintf("SIG=C13/stats-session-missing server %s: %d of %d sessions recorded %s after the last connection ended; body %s", name, last.TCPSessions, total, liveBound, b), true
		}
		time.Sleep(5 * time.Millisecond)
	}
	var sumUsers apiTraffic
	seen := map[string]bool{}
	for _, u := range last.Users {
		if seen[u.Name] {
			return fmt.Sprintf("SIG=C13/stats-duplicate-user server %s user %q: body %s", name, u.Name, body), false
		}
		seen[u.Name] = true
		w := users[u.Name] // zero want for a user the ledger does not know
		if !w.matches(u.apiTraffic) {
			return fmt.Sprintf("SIG=C13/stats-mismatch server %s user %q: API %+v, ledger %v; body %s", name, u.Name, u.apiTraffic, w, body), false
		}
		sumUsers = apiTraffic{sumUsers.DownlinkPackets + u.DownlinkPackets, sumUsers.DownlinkBytes + u.DownlinkBytes, sumUsers.UplinkPackets + u.UplinkPackets,
			sumUsers.UplinkBytes + u.UplinkBytes, sumUsers.TCPSessions + u.TCPSessions, sumUsers.UDPSessions + u.UDPSessions}
	}
	for name2, w := range users {
		if !seen[name2] && (w.sessions != 0) {
			return fmt.Sprintf("SIG=C13/stats-mismatch server %s user %q missing from the API answer, ledger %v; body %s", name, name2, w, body), false
		}
	}
	if rem := sub(last.apiTraffic, sumUsers); !anon.matches(rem) {
		return fmt.Sprintf("SIG=C13/stats-mismatch server %s anonymous traffic (total - users): API %+v, ledger %v; body %s", name, rem, anon, body), false
	}
	return "", false
}

func hasUsers(proto string) bool { return proto == "socks5" || proto == "http" || proto == "ss2022" }

func copiesEnded(in *tcpsvc.Instance, total int) func() bool {
	return func() bool {
		return in.CountLogs("Bidirectional copy completed")+in.CountLogs("Bidirectional copy failed") >= total
	}
}

func checkStats(c casePlan, front, back *tcpsvc.Instance, conns []connResult) (string, bool) {
	names := frontNames(c)
	frontTotal := 0
	for _, r := range conns {
		if r.session {
			frontTotal++
		}
	}
	frontEnded := copiesEnded(front, frontTotal) // (all servers of the instance together)
	for _, name := range names {
		users := map[string]want{}
		var anon want
		for i, r := range conns {
			if frontServerOf(c, i) != name {
				continue
			}
			if u, ok := userOf(c, i); ok {
				w := users[u]
				w.add(r)
				users[u] = w
			} else {
				anon.add(r)
			}
		}
		if v, live := checkServerStats(front, name, users, anon, frontEnded); v != "" {
			return v + "\n  (front instance; uplink must include the initial payload exactly once)", live
		}
	}
	if back != nil {
		// the second instance relays exactly the connections whose target accepted
		var w want
		for i, r := range conns {
			if p := c.Conns[i]; (p.Target == tkOKIP || p.Target == tkOKDomain) && r.session && !p.ViaDirect {
				w.add(r)
			}
		}
		users := map[string]want{}
		var anon want
		if c.ChainAuth && (c.Client == "socks5" || c.Client == "http") {
			users[chainUser] = w
		} else {
			anon = w
		}
		if v, live := checkServerStats(back, "back", users, anon, copiesEnded(back, int(w.sessions))); v != "" {
			return v + "\n  (back instance)", live
		}
	}
	return "", false
}

// ---- the property ----------------------------------------------------------------------------------

var recRelay = ev.New("C13", "relay",
	"rapid: one case = two real service instances on loopback built from generated JSON (front: server protocol in {socks5, http CONNECT, none, direct tunnel, ss2022}, "+
		"initialPayloadWaitTimeout 40-250ms, wait buffer {64,1000,1440,4096}, wait disabled 1/5, users per connection or anonymous; client in {direct with/without TFO, socks5, http, none, ss2022} "+
		"chained through the back instance which runs the matching server protocol and dials directly) and 1-10 parallel connections; each connection: own target listener on 127.13.0.x "+
		"(by IP or by name through the owned resolver) or a refused / unreachable / unresolvable / router-rejected destination; first client bytes with the handshake, at 0, T/2, T-10ms, T+10ms, 2T or never; "+
		"chunk sizes around the wait buffer (1, B-1, B, B+1, 2B, 2B+1) plus random and 64k-200k; target speaks first or answers; who half-closes first (client, target, both) and how many bytes the other side still sends after seeing EOF. "+
		"The harness speaks the client protocols with the repo's client packages. Oracle: offset-derived content ledger in both directions, EOF order, failure reply from a protocol table "+
		"unless the documented wait rule (or a reply-less upstream) forced success, GET /servers/{s}/stats of both instances = ledger. "+
		"A fourth close mode ends the session with a reset (SO_LINGER 0) by client or target after bytes were relayed both ways, either after both sides have read everything (statistics exact) "+
		"or as soon as the client has seen a downlink byte (statistics within [received by the far side, written by the near side]); exactly one session for the right user either way. "+
		"Round 6: the front http server may speak HTTP proxy over TLS (enableTLS/certList, certificates from internal/tlsx in files) and the http chain client may use TLS towards the back instance (useTLS/rootCAs, serverName configured or inferred from the address); "+
		"ss2022 front servers may have unsafeFallbackAddress (and allowSegmentedFixedLengthHeader): half of their connections are then non-Shadowsocks visitors (stream starting with an HTTP request, a TLS ClientHello header or random bytes; first segment 1, salt-1, salt, salt+1, header-1, header [43/59/75], header+1, 2*header, 517, larger; written at once or dribbled in two pieces) whose target is the fallback destination: same ledger / EOF / reset / statistics oracle, session anonymous; "+
		"every instance runs with a debug-level logger (all fields encoded, output discarded) with probability 1/2. "+
		"Evaluation = one connection. Non-trivial: a visitor relayed to the fallback destination, or first payload within +-T/2 of the wait deadline on a waiting relay, or one side half-closes first and the other still delivers >0 bytes, or the session is ended by a reset with bytes relayed, or early first bytes on a waiting relay are followed by more upload after the wait deadline (T+50ms, 2T, 4T: idle-open in between); distinct key = configuration class + connection class").
	Require("first-payload-near-deadline", "half-close-then-opposite-flows", "failure-reply", "forced-success-reply", "wait-applies",
		"path:dialled-before-first-bytes", "path:dialled-after-first-bytes", "client-never-sends", "first-exceeds-wait-buffer",
		"server:socks5", "server:http", "server:none", "server:direct", "server:ss2022",
		"client:direct", "client:socks5", "client:http", "client:none", "client:ss2022",
		"target:ok-ip", "target:ok-domain", "target:refused", "target:nxdomain", "target:router-reject-domain",
		"routed:chain", "routed:direct-beside-chain",
		"early-first-bytes-then-upload-after-wait-deadline",
		"session-ended-by-reset-with-bytes-relayed", "reset-by:client", "reset-by:target", "reset:after-everything-was-read", "reset:bytes-possibly-in-flight",
		// round 6
		"server:http+tls", "client:http+tls", "client-tls:server-name-configured", "client-tls:server-name-from-address",
		"fallback-visitor:relayed", "ss2022-client-on-fallback-server",
		"fallback-visitor:http-request", "fallback-visitor:tls-client-hello", "fallback-visitor:random-bytes",
		"fallback-first-segment:<salt", "fallback-first-segment:salt..header", "fallback-first-segment:=header", "fallback-first-segment:>header",
		"fallback:first-segment-dribbled", "fallback:first-segment-one-write", "fallback:allow-segmented-header", "fallback:header-judged-on-first-read",
		"front-logger:debug", "front-logger:info", "back-logger:debug", "back-logger:info")

func workDir(t *testing.T) string {
	if d := os.Getenv("VERIF_WORK"); d != "" {
		return d
	}
	return t.TempDir()
}

func runWithRetry(c casePlan, dir string) (caseResult, bool) {
	res := runCase(c, dir)
	if res.harnessErr != "" || (res.violation != "" && res.liveness) {
		// a missed liveness bound or an environment error is retried once before it counts
		sig := "harness"
		if res.harnessErr == "" {
			sig = strings.TrimPrefix(strings.Fields(res.violation)[0], "SIG=C13/")
		}
		recRelay.Label("first-try-retried:"+sig, 1)
		if os.Getenv("VERIF_C13_TRACE") != "" {
			fmt.Fprintf(os.Stderr, "first try (retried): %s%s\n  case: %s\n", res.harnessErr, res.violation, js(c))
		}
		return runCase(c, dir), true
	}
	return res, false
}

func record(c casePlan, res caseResult, retried bool) {
	for i, r := range res.conns {
		ls := append([]string(nil), r.labels...)
		if retried {
			ls = append(ls, "case-retried")
		}
		v := c.view(i)
		recRelay.Case(v.classKey(c.Conns[i])+fmt.Sprintf(" beside=%v", c.chained() && c.Conns[i].ViaDirect), r.nt, ls...)
		if r.nt {
			recRelay.Sample(map[string]any{"server": c.Server, "client": v.Client, "case_chain_client": c.Client, "t_ms": c.TMs, "buf": c.bufSize(), "tfo": c.DialerTFO, "wait_applies": v.waitApplies(),
				"conn": c.Conns[i], "delivered_up": r.up, "delivered_down": r.down})
		}
	}
}

func TestRelay(t *testing.T) {
	dir := workDir(t)
	if err := setupCerts(dir); err != nil {
		t.Fatalf("SIG=C13/harness-error certificates: %v", err)
	}
	journal := filepath.Join(dir, fmt.Sprintf("journal-c13-%d.json", os.Getpid()))
	rapid.Check(t, func(rt *rapid.T) {
		probeUnreachable()
		c := drawCase(rt, unreachableOK)
		_ = os.WriteFile(journal, []byte(js(c)), 0o644) // a panic inside the service kills the process; the driver keeps this as the replay
		res, retried := runWithRetry(c, dir)
		_ = os.Remove(journal)
		if res.harnessErr != "" {
			// twice in a row: not a transient environment hiccup. Loud on purpose: a harness that
			// silently skips cases would look green while exploring nothing.
			rt.Fatalf("SIG=C13/harness-error (not a finding about the relay) %s\n  case: %s", res.harnessErr, js(c))
		}
		if res.violation != "" {
			rt.Fatalf("%s\n  case: %s", res.violation, js(c))
		}
		record(c, res, retried)
	})
	recRelay.Extra("dns_queries_answered", tcpsvc.QueriesOK.Load())
	recRelay.Extra("dns_queries_nxdomain", tcpsvc.QueriesNX.Load())
	recRelay.Extra("unreachable_kind_generated", unreachableOK)
}

// TestReplayRelay re-runs a journaled plan ($VERIF_REPLAY), e.g. one that crashed the process.
func TestReplayRelay(t *testing.T) {
	p := os.Getenv("VERIF_REPLAY")
	if p == "" {
		t.Skip("VERIF_REPLAY not set")
	}
	b, err := os.ReadFile(p)
	if err != nil {
		t.Fatal(err)
	}
	var probe struct {
		Policy string `json:"policy"`
	}
	if json.Unmarshal(b, &probe) == nil && probe.Policy != "" { // a client-group plan
		var g groupPlan
		if err := json.Unmarshal(b, &g); err != nil {
			t.Fatalf("not a C13 client-group plan: %v", err)
		}
		res := runGroupCase(g, workDir(t))
		if res.violation != "" && res.liveness {
			res = runGroupCase(g, workDir(t))
		}
		if res.harnessErr != "" {
			t.Skipf("environment: %s", res.harnessErr)
		}
		if res.violation != "" {
			t.Fatalf("%s\n  case: %s", res.violation, js(g))
		}
		return
	}
	if err := setupCerts(workDir(t)); err != nil {
		t.Fatalf("SIG=C13/harness-error certificates: %v", err)
	}
	var fp struct {
		Case *casePlan `json:"case"`
	}
	if json.Unmarshal(b, &fp) == nil && fp.Case != nil { // a plan of TestRelayOwnedClient
		var f fakePlan
		if err := json.Unmarshal(b, &f); err != nil {
			t.Fatalf("not a C13 owned-client plan: %v", err)
		}
		res := runFakeCase(f, workDir(t))
		if res.violation != "" && res.liveness {
			res = runFakeCase(f, workDir(t))
		}
		if res.harnessErr != "" {
			t.Skipf("environment: %s", res.harnessErr)
		}
		if res.violation != "" {
			t.Fatalf("%s\n  case: %s", res.violation, js(f))
		}
		return
	}
	var c casePlan
	if err := json.Unmarshal(b, &c); err != nil {
		t.Fatalf("not a C13 plan: %v", err)
	}
	res, _ := runWithRetry(c, workDir(t))
	if res.harnessErr != "" {
		t.Skipf("environment: %s", res.harnessErr)
	}
	if res.violation != "" {
		t.Fatalf("%s\n  case: %s", res.violation, js(c))
	}
}
