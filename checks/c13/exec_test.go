package c13

import (
	"context"
	"encoding/json"
	"errors"
	"fmt"
	"io"
	"net"
	"os"
	"path/filepath"
	"slices"
	"strconv"
	"strings"
	"sync"
	"sync/atomic"
	"syscall"
	"time"

	"github.com/database64128/shadowsocks-go/conn"
	"github.com/database64128/shadowsocks-go/httpproxy"
	"github.com/database64128/shadowsocks-go/netio"
	"github.com/database64128/shadowsocks-go/socks5"
	"github.com/database64128/shadowsocks-go/ss2022"
	"github.com/database64128/shadowsocks-go/ssnone"

	"verif/internal/tcpsvc"
)

// liveBound is the bounded-liveness limit for every single wait of the harness (accept, EOF
// propagation, reply). Observed values are milliseconds; the limit only has to end a case in
// which the relay hangs.
var liveBound = func() time.Duration {
	if ms, err := strconv.Atoi(os.Getenv("VERIF_C13_BOUND_MS")); err == nil && ms > 0 {
		return time.Duration(ms) * time.Millisecond // the -race stage runs with a larger bound
	}
	return 5 * time.Second
}()

// ---- process-wide probes ------------------------------------------------------------------------

var (
	probeOnce       sync.Once
	unreachableOK   bool
	unreachableCode int // SOCKS5 REP for the errno the probe saw (3 network / 4 host unreachable)
)

// A multicast destination: tcp_v4_connect answers ENETUNREACH for multicast/broadcast routes
// locally and deterministically. (240.0.0.1 was tried first: in this sandbox it sometimes
// fails at once and sometimes black-holes, which made the relay - correctly - keep the
// connection open and the check flaky.)
const (
	unreachableIP   = "224.0.0.1"
	unreachableAddr = unreachableIP + ":80"
)

// probeUnreachable finds out, with the harness's own dial, what this machine answers for a
// destination without a route; the kind is only generated if connect(2) itself answers
// ENETUNREACH or EHOSTUNREACH (a timeout is not an errno and disables the kind).
func probeUnreachable() {
	probeOnce.Do(func() {
		c, err := net.DialTimeout("tcp4", unreachableAddr, 5*time.Second)
		if c != nil {
			c.Close()
			return
		}
		var errno syscall.Errno
		if errors.As(err, &errno) {
			switch errno {
			case syscall.ENETUNREACH:
				unreachableOK, unreachableCode = true, 3
			case syscall.EHOSTUNREACH:
				unreachableOK, unreachableCode = true, 4
			}
		}
	})
}

// ---- results ------------------------------------------------------------------------------------

type connResult struct {
	violation string // SIG=... text, empty if the connection behaved
	liveness  bool   // the violation is a missed liveness bound (retried once before it counts)
	labels    []string
	nt        bool
	// ledger (what the harness itself sent and saw delivered)
	session bool
	up      int64 // bytes the client wrote that reached the target (exact when ok)
	upMax   int64 // upper bound (phantom sessions, sessions ended by a reset)
	down    int64 // lower bound = exact value unless downMax differs
	downMax int64
}

func (r *connResult) fail(liveness bool, format string, a ...any) {
	if r.violation == "" {
		r.violation = fmt.Sprintf(format, a...)
		r.liveness = liveness
	}
}

type readDone struct {
	n        int64
	err      error // nil = clean EOF
	mismatch string
}

// content is what one direction of a connection carries: an optional fixed prefix (a visitor's
// HTTP request / ClientHello start) followed by bytes that are a pure function of (seed, offset).
type content struct {
	seed   uint64
	prefix []byte
}

func (s content) fill(off int64, b []byte) {
	n := 0
	if off < int64(len(s.prefix)) {
		n = copy(b, s.prefix[off:])
	}
	if n < len(b) {
		tcpsvc.Fill(s.seed, off+int64(n)-int64(len(s.prefix)), b[n:])
	}
}

// check returns the index of the first byte of b that is not the content at off, or -1.
func (s content) check(off int64, b []byte) int {
	n := 0
	if off < int64(len(s.prefix)) {
		pre := s.prefix[off:]
		for n < len(b) && n < len(pre) {
			if b[n] != pre[n] {
				return n
			}
			n++
		}
	}
	if n < len(b) {
		if i := tcpsvc.Check(s.seed, off+int64(n)-int64(len(s.prefix)), b[n:]); i >= 0 {
			return n + i
		}
	}
	return -1
}

func (p connPlan) upContent() content {
	return content{seed: p.UpSeed, prefix: visitorPrefix(p.Visitor)}
}
func (p connPlan) downContent() content { return content{seed: p.DownSeed} }

// reader consumes everything from c, checking the content against (seed, offset). first is
// closed when the first byte arrives. The bound is an idle bound: every Read may take at most
// idle (progress re-arms it), so large transfers on a busy machine are not mistaken for hangs.
// The drawn (possibly tiny) buffer size is used for the first 8 KiB, where the boundaries are.
func reader(c net.Conn, seed content, bufSize int, idle time.Duration, first chan<- struct{}, progress *atomic.Int64) <-chan readDone {
	ch := make(chan readDone, 1)
	go func() {
		buf := make([]byte, bufSize)
		var d readDone
		for {
			if d.n >= 8192 && len(buf) < 32768 {
				buf = make([]byte, 32768)
			}
			c.SetReadDeadline(time.Now().Add(idle))
			n, err := c.Read(buf)
			if n > 0 {
				if d.n == 0 && first != nil {
					close(first)
					first = nil
				}
				if d.mismatch == "" {
					if i := seed.check(d.n, buf[:n]); i >= 0 {
						d.mismatch = fmt.Sprintf("byte at stream offset %d is wrong (got %#02x)", d.n+int64(i), buf[i])
					}
				}
				d.n += int64(n)
				if progress != nil {
					progress.Store(d.n)
				}
			}
			if err != nil {
				if err != io.EOF {
					d.err = err
				}
				ch <- d
				return
			}
		}
	}()
	return ch
}

func writeChunks(c net.Conn, seed content, off *int64, chunks []int, idle time.Duration) error {
	for _, n := range chunks {
		if n == 0 {
			continue
		}
		b := make([]byte, n)
		seed.fill(*off, b)
		c.SetWriteDeadline(time.Now().Add(idle))
		if _, err := c.Write(b); err != nil {
			return err
		}
		*off += int64(n)
	}
	return nil
}

// writeFirst writes the client's first segment: at once, or (visitors) dribbled in two pieces.
func writeFirst(c net.Conn, p connPlan, off *int64, idle time.Duration) error {
	if p.FirstLen == 0 {
		return nil
	}
	if p.Dribble > 0 && p.Dribble < p.FirstLen {
		if err := writeChunks(c, p.upContent(), off, []int{p.Dribble}, idle); err != nil {
			return err
		}
		time.Sleep(time.Duration(p.DribbleGapMs) * time.Millisecond)
		return writeChunks(c, p.upContent(), off, []int{p.FirstLen - p.Dribble}, idle)
	}
	return writeChunks(c, p.upContent(), off, []int{p.FirstLen}, idle)
}

// waitFor polls cond until it holds, the bound expires or stop is closed.
func waitFor(bound time.Duration, stop <-chan struct{}, cond func() bool) bool {
	deadline := time.Now().Add(bound)
	for !cond() {
		select {
		case <-stop:
			return false
		default:
		}
		if time.Now().After(deadline) {
			return false
		}
		time.Sleep(200 * time.Microsecond)
	}
	return true
}

func isTimeout(err error) bool {
	var ne net.Error
	return errors.As(err, &ne) && ne.Timeout()
}

// ---- one case -------------------------------------------------------------------------------------

type caseResult struct {
	conns      []connResult
	violation  string
	liveness   bool
	harnessErr string
	labels     []string
}

type target struct {
	ln   *net.TCPListener
	addr string // textual destination given to the proxy
}

func targetIP(i int) net.IP { return net.IPv4(127, 13, 0, byte(2+i)) }

// makeTargets opens one listener per connection with a working destination and assigns every
// connection its own destination address and port. The caller closes the listeners.
func makeTargets(conns []connPlan) (targets []target, ports []uint16, harnessErr string) {
	targets = make([]target, len(conns))
	// every connection gets its own destination port, so that the router can be told per
	// connection which client to use (route "to-direct" matches destination ports)
	ports = make([]uint16, len(conns))
	used := map[uint16]bool{}
	for i, p := range conns {
		ip := targetIP(i)
		switch p.Target {
		case tkOKIP, tkOKDomain:
			for try := 0; ; try++ {
				ln, err := net.ListenTCP("tcp4", &net.TCPAddr{IP: ip})
				if err != nil {
					return targets, ports, "listen target: " + err.Error()
				}
				port := uint16(ln.Addr().(*net.TCPAddr).Port)
				if used[port] && try < 20 {
					ln.Close()
					continue
				}
				targets[i].ln, ports[i] = ln, port
				break
			}
			if p.Target == tkOKIP {
				targets[i].addr = fmt.Sprintf("%s:%d", ip, ports[i])
			} else {
				targets[i].addr = fmt.Sprintf("%s:%d", tcpsvc.OKName(ip), ports[i])
			}
		case tkRefused:
			ports[i] = uint16(1 + i) // nothing listens on the low ports of this address
			targets[i].addr = fmt.Sprintf("%s:%d", ip, ports[i])
		case tkUnreachable:
			ports[i] = uint16(2000 + i)
			targets[i].addr = fmt.Sprintf("%s:%d", unreachableIP, ports[i])
		case tkNXDomain:
			ports[i] = uint16(1000 + i)
			targets[i].addr = fmt.Sprintf("%s:%d", tcpsvc.NXName(fmt.Sprintf("c%d", i)), ports[i])
		case tkRejectDomain:
			ports[i] = uint16(3000 + i)
			targets[i].addr = fmt.Sprintf("%s:%d", rejectDomain, ports[i])
		case tkRejectIP:
			ports[i] = uint16(3000 + i)
			targets[i].addr = fmt.Sprintf("%s:%d", rejectIP, ports[i])
		case tkFakeErrno:
			ports[i] = uint16(4000 + i) // never dialled for real: the fake outbound client fails by itself
			targets[i].addr = fmt.Sprintf("%s:%d", ip, ports[i])
		}
		used[ports[i]] = true
	}
	return targets, ports, ""
}

func closeTargets(targets []target) {
	for _, t := range targets {
		if t.ln != nil {
			t.ln.Close()
		}
	}
}

func runCase(c casePlan, workDir string) (res caseResult) {
	probeUnreachable()
	res.conns = make([]connResult, len(c.Conns))

	// 1. targets
	targets, ports, herr := makeTargets(c.Conns)
	defer closeTargets(targets)
	if herr != "" {
		res.harnessErr = herr
		return
	}
	taddrs := make([]string, len(targets))
	for i := range targets {
		taddrs[i] = targets[i].addr
	}

	// 2. instances
	var back *tcpsvc.Instance
	backAddr := ""
	if c.chained() {
		var err error
		back, err = tcpsvc.StartWith(backConfig(c), 1, true, tcpsvc.Options{DebugLog: c.BackDebugLog})
		if err != nil {
			res.harnessErr = "start back instance: " + err.Error()
			return
		}
		defer back.Stop()
		backAddr = back.TCPAddr["back"]
	}
	upskPath := ""
	if c.Server == "ss2022" && c.Auth {
		upskPath = filepath.Join(workDir, fmt.Sprintf("upsks-%d.json", os.Getpid()))
		if err := os.WriteFile(upskPath, upskStore(c), 0o644); err != nil {
			res.harnessErr = "write uPSK store: " + err.Error()
			return
		}
		defer os.Remove(upskPath)
	}
	names := frontNames(c)
	front, err := tcpsvc.StartWith(frontConfig(c, taddrs, ports, backAddr, upskPath), len(names), true, tcpsvc.Options{DebugLog: c.DebugLog})
	if err != nil {
		res.harnessErr = "start front instance: " + err.Error()
		return
	}
	defer front.Stop()

	// 3. connections in parallel
	var wg sync.WaitGroup
	for i := range c.Conns {
		wg.Go(func() {
			runConn(c, i, front.TCPAddr[frontServerOf(c, i)], targets[i], &res.conns[i])
		})
	}
	wg.Wait()

	for i := range res.conns {
		if v := res.conns[i].violation; v != "" && res.violation == "" {
			res.violation = fmt.Sprintf("%s\n  connection %d: %s\n  front log tail:\n%s", v, i, js(c.Conns[i]), indent(front.LogTail(6)))
			res.liveness = res.conns[i].liveness
		}
	}
	if res.violation != "" {
		return
	}

	// 4. statistics through the real management API
	if v, live := checkStats(c, front, back, res.conns); v != "" {
		res.violation, res.liveness = v, live
		return
	}

	// 5. orderly stop
	if !front.Stop() {
		res.violation, res.liveness = "SIG=C13/stop-failed front instance did not stop cleanly within 20s: "+front.LogTail(5), true
		return
	}
	if back != nil && !back.Stop() {
		res.violation, res.liveness = "SIG=C13/stop-failed back instance did not stop cleanly within 20s: "+back.LogTail(5), true
	}
	return
}

func indent(s string) string { return "    " + strings.ReplaceAll(s, "\n", "\n    ") }

func js(v any) string {
	b, _ := json.Marshal(v)
	return string(b)
}

// ---- one connection -----------------------------------------------------------------------------

var plainDialer = conn.DialerSocketOptions{}.Dialer()

// captureClient is the harness's innermost stream client: a plain TCP client that remembers the
// socket it dialled, so that the harness can later end the session abortively (SO_LINGER 0)
// whatever wrappers the protocol client packages put around it. One per connection.
type captureClient struct {
	tcp  *netio.TCPClient
	last *net.TCPConn
}

func (c *captureClient) NewStreamDialer() (netio.StreamDialer, netio.StreamDialerInfo) {
	_, info := c.tcp.NewStreamDialer()
	return c, info
}

func (c *captureClient) DialStream(ctx context.Context, addr conn.Addr, payload []byte) (netio.Conn, error) {
	nc, err := c.tcp.DialStream(ctx, addr, payload)
	if tc, ok := nc.(*net.TCPConn); ok && err == nil {
		c.last = tc
	}
	return nc, err
}

func harnessClient(c casePlan, i int, frontAddr string, inner *captureClient) (dial func(ctx context.Context, target conn.Addr, payload []byte) (netio.Conn, error), err error) {
	tcc := netio.TCPClientConfig{Name: "harness", Network: "tcp4", Dialer: plainDialer}
	inner.tcp = tcc.NewTCPClient()
	fa, err := conn.ParseAddr(frontAddr)
	if err != nil {
		return nil, err
	}
	if c.isVisitor(i) {
		// not a Shadowsocks client: a plain TCP connection to the ss2022 server's port
		return func(ctx context.Context, _ conn.Addr, _ []byte) (netio.Conn, error) {
			return inner.DialStream(ctx, fa, nil)
		}, nil
	}
	switch c.Server {
	case "direct":
		return func(ctx context.Context, _ conn.Addr, payload []byte) (netio.Conn, error) {
			return inner.DialStream(ctx, fa, payload)
		}, nil
	case "socks5":
		scc := socks5.StreamClientConfig{Name: "harness", InnerClient: inner, Addr: fa}
		if c.Auth {
			scc.AuthMsg = socks5.UserInfo{Username: userName(i), Password: userPass(i)}.AppendAuthMsg(nil)
		}
		return scc.NewStreamClient().DialStream, nil
	case "http":
		hcc := httpproxy.ClientConfig{Name: "harness", InnerClient: inner, Addr: fa}
		if c.Auth {
			hcc.Username, hcc.Password, hcc.UseBasicAuth = userName(i), userPass(i), true
		}
		if c.TLS {
			hcc.UseTLS, hcc.ServerName, hcc.RootCAs = true, frontTLSName, tlsFiles.ca.Pool()
		}
		pc, err := hcc.NewProxyClient()
		if err != nil {
			return nil, err
		}
		return pc.DialStream, nil
	case "none":
		scc := ssnone.StreamClientConfig{Name: "harness", InnerClient: inner, Addr: fa}
		return scc.NewStreamClient().DialStream, nil
	case "ss2022":
		var (
			cc  *ss2022.ClientCipherConfig
			err error
		)
		if c.Auth {
			cc, err = ss2022.NewClientCipherConfig(keyFor("upsk-"+userName(i), c.AES256), [][]byte{keyFor("frontpsk", c.AES256)}, false)
		} else {
			cc, err = ss2022.NewClientCipherConfig(keyFor("frontpsk", c.AES256), nil, false)
		}
		if err != nil {
			return nil, err
		}
		scc := ss2022.StreamClientConfig{Name: "harness", InnerClient: inner, Addr: fa, CipherConfig: cc}
		return scc.NewStreamClient().DialStream, nil
	}
	return nil, fmt.Errorf("unknown server protocol %q", c.Server)
}

func firstDelay(c casePlan, at int) time.Duration {
	switch at {
	case faHalf:
		return c.T() / 2
	case faBefore:
		return c.T() - 10*time.Millisecond
	case faAfter:
		return c.T() + 10*time.Millisecond
	case faDouble:
		return 2 * c.T()
	}
	return 0
}

// lateUpload: the wait applies, the first bytes arrive well inside the window (with the handshake,
// at 0 or at T/2) and more upload follows after the wait deadline has passed (T+50ms, 2T, 4T).
func lateUpload(c casePlan, p connPlan) bool {
	return c.waitApplies() && p.FirstLen > 0 && (p.FirstAt == faHandshake || p.FirstAt == faZero || p.FirstAt == faHalf) && p.RestAt != raBehind && len(p.UpRest) > 0
}

func restDelay(c casePlan, at int) time.Duration {
	switch at {
	case raAfterT:
		return c.T() + 50*time.Millisecond
	case raDouble:
		return 2 * c.T()
	case raQuad:
		return 4 * c.T()
	}
	return 0
}

func runConn(c casePlan, i int, frontAddr string, tg target, r *connResult) {
	if c.chained() {
		if c.Conns[i].ViaDirect {
			r.labels = append(r.labels, "routed:direct-beside-chain")
		} else {
			r.labels = append(r.labels, "routed:chain")
		}
	}
	c = c.view(i) // from here on Client is the client routing must choose for this connection
	p := c.Conns[i]
	idle := liveBound + 3*c.T() // no single wait of the harness may exceed this
	exp := c.expect(p, unreachableCode)
	r.labels = append(r.labels,
		"server:"+c.Server, "client:"+c.Client, "target:"+targetKindNames[p.Target], "first-at:"+firstAtNames[p.FirstAt], "close:"+closeModeNames[p.Mode])
	if c.waitApplies() {
		r.labels = append(r.labels, "wait-applies")
	}
	vis := c.isVisitor(i)
	if c.Server == "http" && c.TLS {
		r.labels = append(r.labels, "server:http+tls")
	}
	if c.Client == "http" && c.ChainTLS {
		r.labels = append(r.labels, "client:http+tls")
		if c.ChainServerName {
			r.labels = append(r.labels, "client-tls:server-name-configured")
		} else {
			r.labels = append(r.labels, "client-tls:server-name-from-address")
		}
	}
	if c.Server == "ss2022" && c.Fallback {
		if vis {
			r.labels = append(r.labels, "fallback-visitor")
		} else {
			r.labels = append(r.labels, "ss2022-client-on-fallback-server")
		}
	}
	if c.Client != "fake" && c.Client != "group" {
		if c.DebugLog {
			r.labels = append(r.labels, "front-logger:debug")
		} else {
			r.labels = append(r.labels, "front-logger:info")
		}
		if c.chained() {
			if c.BackDebugLog {
				r.labels = append(r.labels, "back-logger:debug")
			} else {
				r.labels = append(r.labels, "back-logger:info")
			}
		}
	}
	// carried: the first bytes are handed to the client package's DialStream and travel with the
	// handshake. A visitor has no handshake: "with the handshake" means right after connecting.
	carried := p.FirstAt == faHandshake && !vis

	sock := &captureClient{}
	dial, err := harnessClient(c, i, frontAddr, sock)
	if err != nil {
		r.fail(true, "SIG=C13/harness-client %v", err)
		return
	}
	destination, err := conn.ParseAddr(tg.addr)
	if err != nil {
		r.fail(true, "SIG=C13/harness-client bad target %q: %v", tg.addr, err)
		return
	}

	// --- target side (only if the destination is one of our listeners)
	type targetOut struct {
		accepted   bool
		acceptedAt time.Time
		rd         readDone
		err        string
		liveness   bool
		wrote      int64
		attempted  int64 // cmAbort: bytes handed to Write, completed or not
		waitFailed bool  // cmAbort, target resets: the condition for the reset never became true
	}
	tch := make(chan targetOut, 1)
	abortTarget := make(chan struct{})
	// live progress of both harness readers; the side that resets (cmAbort) decides on them
	var clientGot, targetGot atomic.Int64
	resetCond := func() bool {
		if p.AbortClean {
			return clientGot.Load() == p.downTotal() && targetGot.Load() == p.upTotal()
		}
		// a downlink byte at the client proves that the relay (and the upstream proxy, if any) has
		// reached its copy phase, so the session must be recorded whatever happens next
		return clientGot.Load() >= 1
	}
	wantTargetRead := p.upTotal()
	if p.Mode == cmTargetFirst {
		wantTargetRead += int64(p.Extra)
	}
	if tg.ln != nil {
		go func() {
			var out targetOut
			defer func() { tch <- out }()
			go func() { // unblock Accept if the client side gives up
				<-abortTarget
				tg.ln.SetDeadline(time.Unix(1, 0))
			}()
			tg.ln.SetDeadline(time.Now().Add(liveBound + 2*c.T()))
			tc, err := tg.ln.AcceptTCP()
			if err != nil {
				out.err, out.liveness = "target never got a connection: "+err.Error(), true
				return
			}
			defer tc.Close()
			out.accepted, out.acceptedAt = true, time.Now()
			first := make(chan struct{})
			rdc := reader(tc, p.upContent(), p.ReadBuf, idle, first, &targetGot)
			var rd readDone
			gotRD := false
			waitRD := func() {
				if !gotRD {
					rd, gotRD = <-rdc, true
				}
			}
			if !p.SpeakFirst && p.upTotal() > 0 {
				select {
				case <-first:
				case rd = <-rdc:
					gotRD = true
				}
			}
			out.attempted = p.downTotal()
			if err := writeChunks(tc, p.downContent(), &out.wrote, p.Down, idle); err != nil && !(p.Mode == cmAbort && p.AbortBy == abClient && !isTimeout(err)) {
				// (when the client is the one that resets, the relay may already have torn the session down)
				out.err, out.liveness = "target write: "+err.Error(), isTimeout(err)
				waitRD()
				out.rd = rd
				return
			}
			switch p.Mode {
			case cmAbort:
				if p.AbortBy == abTarget {
					if !waitFor(idle+2*c.T(), abortTarget, resetCond) {
						out.waitFailed = true
					}
					tc.SetLinger(0)
					tc.Close() // RST
				}
				// otherwise: just read until the relay ends the connection (EOF or reset)
			case cmTargetFirst, cmBoth:
				tc.CloseWrite()
			case cmClientFirst:
				waitRD()
				if rd.err == nil && rd.mismatch == "" && rd.n == wantTargetRead {
					// the uplink ended cleanly: the opposite direction must still flow
					if err := writeChunks(tc, p.downContent(), &out.wrote, []int{p.Extra}, idle); err != nil {
						out.err, out.liveness = "target write after uplink EOF: "+err.Error(), isTimeout(err)
					}
				}
				tc.CloseWrite()
			}
			waitRD()
			out.rd = rd
		}()
	} else {
		tch <- targetOut{}
	}
	defer func() {
		// runs after cc.Close(): the target goroutine ends (EOF / reset / deadline) before we return
		close(abortTarget)
		<-tch
	}()

	// --- client side
	ctx, cancel := context.WithTimeout(context.Background(), liveBound+2*c.T())
	defer cancel()
	var payload0 []byte
	var upOff int64
	if carried && p.FirstLen > 0 {
		payload0 = make([]byte, p.FirstLen)
		tcpsvc.Fill(p.UpSeed, 0, payload0)
		upOff = int64(p.FirstLen)
	}
	cc, derr := dial(ctx, destination, payload0)
	tReady := time.Now()

	// reply
	if exp.replyFail {
		if derr == nil {
			cc.Close()
			r.fail(false, "SIG=C13/success-reply-for-failed-dial %s>%s target %s (%s): the client got a success reply", c.Server, c.Client, targetKindNames[p.Target], exp.why)
			return
		}
		switch c.Server {
		case "socks5":
			var re socks5.ReplyError
			if !errors.As(derr, &re) {
				r.fail(isTimeout(derr) || errors.Is(derr, context.DeadlineExceeded), "SIG=C13/no-failure-reply socks5 %s (%s): expected a failure reply, got error %v", targetKindNames[p.Target], exp.why, derr)
				return
			}
			if exp.socks5Codes != nil && !slices.Contains(exp.socks5Codes, int(re)) {
				r.fail(false, "SIG=C13/wrong-failure-reply socks5 %s %s (%s): REP=%d, acceptable %v", targetKindNames[p.Target], errDesc(p), exp.why, int(re), exp.socks5Codes)
				return
			}
			r.labels = append(r.labels, fmt.Sprintf("socks5-rep:%d", int(re)))
		case "http":
			var he httpproxy.ConnectNonSuccessfulResponseError
			if !errors.As(derr, &he) {
				r.fail(isTimeout(derr) || errors.Is(derr, context.DeadlineExceeded), "SIG=C13/no-failure-reply http %s (%s): expected 502, got error %v", targetKindNames[p.Target], exp.why, derr)
				return
			}
			if he.StatusCode != 502 {
				r.fail(false, "SIG=C13/wrong-failure-reply http %s (%s): status %d want 502", targetKindNames[p.Target], exp.why, he.StatusCode)
				return
			}
			r.labels = append(r.labels, "http-502")
		}
		r.labels = append(r.labels, "failure-reply")
		if p.Target == tkFakeErrno {
			r.labels = append(r.labels, "failed-dial-reported:"+errClass(p.Errno))
			if p.ErrWrap != "" {
				r.labels = append(r.labels, "failed-dial-reported:"+errClass(p.Errno)+"/"+p.ErrWrap)
			}
			r.nt = true
		}
		if exp.rejected {
			r.labels = append(r.labels, "router-rejection-reported")
		}
		return
	}
	if derr != nil {
		live := isTimeout(derr) || errors.Is(derr, context.DeadlineExceeded)
		if exp.ok {
			r.fail(live, "SIG=C13/handshake-failed %s>%s target %s: DialStream through the proxy failed: %v", c.Server, c.Client, targetKindNames[p.Target], derr)
			return
		}
		var re socks5.ReplyError
		var he httpproxy.ConnectNonSuccessfulResponseError
		switch {
		case errors.As(derr, &re) || errors.As(derr, &he):
			r.fail(false, "SIG=C13/failure-reply-after-forced-success %s>%s target %s (%s): expected success (no failure can be signalled any more), got %v", c.Server, c.Client, targetKindNames[p.Target], exp.why, derr)
		case live:
			r.fail(true, "SIG=C13/not-closed-after-failed-dial %s>%s target %s (%s): handshake neither completed nor failed: %v", c.Server, c.Client, targetKindNames[p.Target], exp.why, derr)
		default:
			// A transport error (EPIPE / reset / EOF) while the client package was still writing the
			// payload it had been given: the relay had already ended the connection, which is what it
			// must do here. Nothing was delivered to the client. (Seen with ss2022 payloads larger than
			// the first chunk: the excess is written after the relay has rejected the request.)
			r.labels = append(r.labels, "closed-without-reply", "closed-while-client-still-writing")
			r.session = exp.session
			r.upMax = int64(len(payload0))
			if exp.session {
				r.labels = append(r.labels, "phantom-session")
			}
		}
		return
	}
	defer cc.Close()

	if !exp.ok {
		// success was signalled (or the protocol has no reply); the relay must now simply end the
		// connection without delivering anything. The client still behaves as planned.
		r.labels = append(r.labels, "closed-without-reply")
		if exp.forcedReply && c.hasReply() {
			r.labels = append(r.labels, "forced-success-reply")
		}
		if !c.hasReply() && !exp.forcedReply {
			r.labels = append(r.labels, "failure-silent-close:"+c.Server)
		}
		rdc := reader(cc, p.downContent(), p.ReadBuf, idle, nil, &clientGot)
		attempted := upOff
		if !carried {
			time.Sleep(time.Until(tReady.Add(firstDelay(c, p.FirstAt))))
			if p.FirstLen > 0 {
				attempted += int64(p.FirstLen)      // a failed Write may still have delivered a prefix
				_ = writeFirst(cc, p, &upOff, idle) // may fail: the relay is allowed to be gone
			}
		}
		rd := <-rdc
		if rd.n != 0 {
			r.fail(false, "SIG=C13/data-after-failed-dial %s>%s target %s (%s): client received %d bytes (first mismatch: %s)", c.Server, c.Client, targetKindNames[p.Target], exp.why, rd.n, rd.mismatch)
			return
		}
		if isTimeout(rd.err) {
			r.fail(true, "SIG=C13/not-closed-after-failed-dial %s>%s target %s (%s): connection still open %s after the last event", c.Server, c.Client, targetKindNames[p.Target], exp.why, idle)
			return
		}
		r.session = exp.session
		r.upMax = attempted
		if exp.session {
			r.labels = append(r.labels, "phantom-session")
		}
		return
	}

	where := fmt.Sprintf("%s>%s (tfo=%v wait=%v T=%s buf=%d) target %s first-at=%s", c.Server, c.Client, c.DialerTFO, c.waitApplies(), c.T(), c.bufSize(), targetKindNames[p.Target], firstAtNames[p.FirstAt])
	if c.extraKey(p) != "" {
		where += " [" + strings.TrimSpace(c.extraKey(p)) + "]"
	}
	if vis {
		where += fmt.Sprintf(" (visitor of an ss2022 server with unsafeFallbackAddress = this target; header length %d, first segment %d bytes, dribble %d)", c.fallbackHeaderLen(), p.FirstLen, p.Dribble)
	}
	// visitorLabels: a visitor was relayed to the fallback destination
	visitorLabels := func() {
		if !vis {
			return
		}
		r.nt = true
		r.labels = append(r.labels, "fallback-visitor:relayed", "fallback-visitor:"+visitorNames[p.Visitor], "fallback-first-segment:"+c.firstSegmentClass(p))
		if p.Dribble > 0 {
			r.labels = append(r.labels, "fallback:first-segment-dribbled")
		} else {
			r.labels = append(r.labels, "fallback:first-segment-one-write")
		}
		if c.AllowSegmented {
			r.labels = append(r.labels, "fallback:allow-segmented-header")
		} else {
			r.labels = append(r.labels, "fallback:header-judged-on-first-read")
		}
	}

	// --- session ended by a reset
	if p.Mode == cmAbort {
		who := [...]string{"client", "target"}[p.AbortBy]
		rdc := reader(cc, p.downContent(), p.ReadBuf, idle, nil, &clientGot)
		attempted := upOff
		var werr error
		if !carried {
			time.Sleep(time.Until(tReady.Add(firstDelay(c, p.FirstAt))))
			attempted += int64(p.FirstLen)
			werr = writeFirst(cc, p, &upOff, idle)
		}
		if werr == nil && p.RestAt != raBehind && len(p.UpRest) > 0 {
			time.Sleep(time.Until(tReady.Add(restDelay(c, p.RestAt)))) // idle-open until the wait deadline has long passed
		}
		for _, n := range p.UpRest {
			if werr != nil {
				break
			}
			attempted += int64(n)
			werr = writeChunks(cc, p.upContent(), &upOff, []int{n}, idle)
		}
		clientWaitFailed := false
		if p.AbortBy == abClient {
			if sock.last == nil {
				r.fail(true, "SIG=C13/harness-client no TCP socket captured for the reset")
				return
			}
			if werr == nil && !waitFor(idle+2*c.T(), nil, resetCond) {
				clientWaitFailed = true
			}
			sock.last.SetLinger(0)
			cc.Close() // RST
		}
		crd := <-rdc
		tout := <-tch
		tch <- tout

		if !tout.accepted {
			r.fail(true, "SIG=C13/target-not-dialled %s: %s", where, tout.err)
			return
		}
		if tout.rd.mismatch != "" {
			r.fail(false, "SIG=C13/uplink-corrupted %s reset-by=%s: target: %s", where, who, tout.rd.mismatch)
			return
		}
		if crd.mismatch != "" {
			r.fail(false, "SIG=C13/downlink-corrupted %s reset-by=%s: client: %s", where, who, crd.mismatch)
			return
		}
		if tout.rd.n > attempted {
			r.fail(false, "SIG=C13/uplink-invented %s reset-by=%s: target received %d bytes, client wrote at most %d", where, who, tout.rd.n, attempted)
			return
		}
		if crd.n > tout.attempted {
			r.fail(false, "SIG=C13/downlink-invented %s reset-by=%s: client received %d bytes, target wrote at most %d", where, who, crd.n, tout.attempted)
			return
		}
		// the side that resets does so only after its own writes succeeded and its condition held
		if p.AbortBy == abClient && werr != nil {
			r.fail(isTimeout(werr), "SIG=C13/client-write-failed %s before its reset: %v (sent %d of %d)", where, werr, upOff, p.upTotal())
			return
		}
		if p.AbortBy == abTarget && tout.err != "" {
			r.fail(tout.liveness, "SIG=C13/target-write-failed %s before its reset: %s", where, tout.err)
			return
		}
		if clientWaitFailed || tout.waitFailed {
			if clientGot.Load() < p.downTotal() && (p.AbortClean || clientGot.Load() == 0) {
				r.fail(true, "SIG=C13/downlink-lost %s mode=reset: client received only %d of the %d bytes the target sent within the bound (no reset had happened yet)", where, clientGot.Load(), p.downTotal())
			} else {
				r.fail(true, "SIG=C13/uplink-lost %s mode=reset: target received only %d of the %d bytes the client sent within the bound (no reset had happened yet)", where, targetGot.Load(), p.upTotal())
			}
			return
		}
		// the other side must notice that the session is over (EOF or reset, either is fine)
		if p.AbortBy == abClient && isTimeout(tout.rd.err) {
			r.fail(true, "SIG=C13/reset-not-propagated %s: %s after the client reset the connection the target side is still open", where, idle)
			return
		}
		if p.AbortBy == abTarget && isTimeout(crd.err) {
			r.fail(true, "SIG=C13/reset-not-propagated %s: %s after the target reset the connection the client side is still open", where, idle)
			return
		}

		// held. Exactly one session must be recorded for this connection's user; each direction's
		// count lies between what the receiving harness side got and what the sending side wrote
		// (data in flight may die with the reset); both coincide when the reset came after
		// everything had been read.
		r.session = true
		r.up, r.upMax = tout.rd.n, attempted
		r.down, r.downMax = crd.n, tout.attempted
		r.nt = true
		r.labels = append(r.labels, "session-ended-by-reset-with-bytes-relayed", "reset-by:"+who)
		if lateUpload(c, p) && (p.AbortBy == abClient || p.AbortClean) {
			r.labels = append(r.labels, "early-first-bytes-then-upload-after-wait-deadline")
		}
		if p.AbortClean {
			r.labels = append(r.labels, "reset:after-everything-was-read")
		} else {
			r.labels = append(r.labels, "reset:bytes-possibly-in-flight")
		}
		if r.up < r.upMax || r.down < r.downMax {
			r.labels = append(r.labels, "reset:bytes-died-in-flight")
		}
		if _, ok := userOf(c, i); ok {
			r.labels = append(r.labels, "reset:authenticated-user:"+c.Server)
		} else {
			r.labels = append(r.labels, "reset:anonymous")
		}
		visitorLabels()
		return
	}

	// --- data phase
	wantClientRead := p.downTotal()
	if p.Mode == cmClientFirst {
		wantClientRead += int64(p.Extra)
	}
	rdc := reader(cc, p.downContent(), p.ReadBuf, idle, nil, &clientGot)
	var crd readDone
	gotCRD := false
	waitCRD := func() {
		if !gotCRD {
			crd, gotCRD = <-rdc, true
		}
	}
	var werr error
	var firstWriteAt time.Time
	if !carried {
		time.Sleep(time.Until(tReady.Add(firstDelay(c, p.FirstAt))))
		firstWriteAt = time.Now()
		werr = writeFirst(cc, p, &upOff, idle)
	} else {
		firstWriteAt = tReady
	}
	if werr == nil {
		if p.RestAt != raBehind && len(p.UpRest) > 0 {
			time.Sleep(time.Until(tReady.Add(restDelay(c, p.RestAt)))) // idle-open until the wait deadline has long passed
		}
		werr = writeChunks(cc, p.upContent(), &upOff, p.UpRest, idle)
	}
	if werr == nil {
		switch p.Mode {
		case cmClientFirst, cmBoth:
			werr = cc.CloseWrite()
		case cmTargetFirst:
			waitCRD()
			if crd.err == nil && crd.mismatch == "" && crd.n == wantClientRead {
				// the downlink ended cleanly: the opposite direction must still flow
				werr = writeChunks(cc, p.upContent(), &upOff, []int{p.Extra}, idle)
			}
			if werr == nil {
				werr = cc.CloseWrite()
			}
		}
	}
	waitCRD()
	tout := <-tch
	tch <- tout

	// --- verdicts, most specific first
	if !tout.accepted {
		r.fail(true, "SIG=C13/target-not-dialled %s: %s", where, tout.err)
		return
	}
	if tout.rd.mismatch != "" {
		r.fail(false, "SIG=C13/uplink-corrupted %s: target: %s (client sent %d bytes, target received %d)", where, tout.rd.mismatch, upOff, tout.rd.n)
		return
	}
	if crd.mismatch != "" {
		r.fail(false, "SIG=C13/downlink-corrupted %s: client: %s (target sent %d bytes, client received %d)", where, crd.mismatch, tout.wrote, crd.n)
		return
	}
	if tout.rd.n > upOff {
		r.fail(false, "SIG=C13/uplink-invented %s: target received %d bytes, client sent %d", where, tout.rd.n, upOff)
		return
	}
	if crd.n > tout.wrote {
		r.fail(false, "SIG=C13/downlink-invented %s: client received %d bytes, target sent %d", where, crd.n, tout.wrote)
		return
	}
	if werr != nil {
		r.fail(isTimeout(werr), "SIG=C13/client-write-failed %s: %v (sent %d of %d)", where, werr, upOff, p.upTotal())
		return
	}
	if tout.err != "" {
		r.fail(tout.liveness, "SIG=C13/target-write-failed %s: %s", where, tout.err)
		return
	}
	// end of stream: each side must see EOF after exactly the bytes the other side wrote. The
	// direction whose FIN comes first is judged first (the second closer withholds its extra
	// bytes when its own reading did not end cleanly, which would otherwise mask the cause).
	checkUp := func() bool {
		switch {
		case tout.rd.err != nil && isTimeout(tout.rd.err) && tout.rd.n < upOff:
			r.fail(true, "SIG=C13/uplink-lost %s mode=%s: target received only %d of the %d bytes the client sent, and no EOF within the bound", where, closeModeNames[p.Mode], tout.rd.n, upOff)
		case tout.rd.err != nil && isTimeout(tout.rd.err):
			r.fail(true, "SIG=C13/uplink-eof-not-mirrored %s mode=%s: target received all %d bytes but never saw EOF after the client's write shutdown", where, closeModeNames[p.Mode], tout.rd.n)
		case tout.rd.err != nil:
			r.fail(false, "SIG=C13/uplink-aborted %s mode=%s: target read error after %d of %d bytes: %v", where, closeModeNames[p.Mode], tout.rd.n, upOff, tout.rd.err)
		case tout.rd.n != upOff:
			r.fail(false, "SIG=C13/uplink-lost %s mode=%s: target saw EOF after %d bytes, client sent %d", where, closeModeNames[p.Mode], tout.rd.n, upOff)
		default:
			return true
		}
		return false
	}
	checkDown := func() bool {
		switch {
		case crd.err != nil && isTimeout(crd.err) && crd.n < tout.wrote:
			r.fail(true, "SIG=C13/downlink-lost %s mode=%s: client received only %d of the %d bytes the target sent, and no EOF within the bound", where, closeModeNames[p.Mode], crd.n, tout.wrote)
		case crd.err != nil && isTimeout(crd.err):
			r.fail(true, "SIG=C13/downlink-eof-not-mirrored %s mode=%s: client received all %d bytes but never saw EOF after the target's write shutdown", where, closeModeNames[p.Mode], crd.n)
		case crd.err != nil:
			r.fail(false, "SIG=C13/downlink-aborted %s mode=%s: client read error after %d of %d bytes: %v", where, closeModeNames[p.Mode], crd.n, tout.wrote, crd.err)
		case crd.n != tout.wrote:
			r.fail(false, "SIG=C13/downlink-lost %s mode=%s: client saw EOF after %d bytes, target sent %d", where, closeModeNames[p.Mode], crd.n, tout.wrote)
		default:
			return true
		}
		return false
	}
	if p.Mode == cmTargetFirst {
		if !checkDown() || !checkUp() {
			return
		}
	} else {
		if !checkUp() || !checkDown() {
			return
		}
	}
	if upOff != wantTargetRead || tout.wrote != wantClientRead {
		// cannot happen when both directions ended cleanly; kept as a guard on the harness itself
		r.fail(true, "SIG=C13/harness-incomplete %s: client sent %d of %d planned bytes, target sent %d of %d", where, upOff, wantTargetRead, tout.wrote, wantClientRead)
		return
	}

	// held
	r.session = true
	r.up, r.upMax, r.down, r.downMax = upOff, upOff, tout.wrote, tout.wrote
	nearDeadline := c.waitApplies() && (p.FirstAt == faHalf || p.FirstAt == faBefore || p.FirstAt == faAfter)
	halfCloseFirst := p.Mode != cmBoth && p.Extra > 0
	r.nt = nearDeadline || halfCloseFirst
	if nearDeadline {
		r.labels = append(r.labels, "first-payload-near-deadline")
	}
	if halfCloseFirst {
		r.labels = append(r.labels, "half-close-then-opposite-flows")
	}
	if c.waitApplies() {
		if tout.acceptedAt.Before(firstWriteAt) && p.FirstAt != faHandshake {
			r.labels = append(r.labels, "path:dialled-before-first-bytes")
		} else {
			r.labels = append(r.labels, "path:dialled-after-first-bytes")
		}
	}
	if lateUpload(c, p) {
		r.labels = append(r.labels, "early-first-bytes-then-upload-after-wait-deadline")
		r.nt = true
	}
	if p.FirstLen == 0 {
		r.labels = append(r.labels, "client-never-sends")
	}
	if p.FirstAt == faHandshake && p.FirstLen > 0 && len(p.UpRest) == 0 && p.Mode != cmTargetFirst {
		r.labels = append(r.labels, "data+FIN")
	}
	if p.FirstLen > c.bufSize() {
		r.labels = append(r.labels, "first-exceeds-wait-buffer")
	}
	visitorLabels()
}

// userOf: the user the statistics must charge connection i to (ok = false: anonymous).
// A visitor that fell back was never authenticated.
func userOf(c casePlan, i int) (string, bool) {
	if c.Auth && hasUsers(c.Server) && !c.isVisitor(i) {
		return userName(i), true
	}
	return "", false
}

func errDesc(p connPlan) string {
	if p.Target != tkFakeErrno {
		return ""
	}
	return "[" + p.Errno + " as " + p.ErrWrap + "]"
}
