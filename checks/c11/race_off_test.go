//go:build !race

package c11

const raceBuild = false
