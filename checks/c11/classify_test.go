package c11

import (
	"os"
	"strings"
	"testing"
)

// TestClassifyCapturedRaces pins the classification of race reports that were captured from real runs: the
// round-6 finding must carry its own signature (so that only exactly this report can be listed as known),
// and the same report with another unpacker type must stay an ordinary data-race.
func TestClassifyCapturedRaces(t *testing.T) {
	b, err := os.ReadFile("testdata/race-newpacker-during-setup.txt")
	if err != nil {
		t.Fatal(err)
	}
	reps := splitRaces(string(b))
	if len(reps) != 1 || reps[0].sig != sigNewPackerRace {
		t.Fatalf("captured report classified as %+v, want one report with signature %q", sigs(reps), sigNewPackerRace)
	}
	other := strings.ReplaceAll(string(b), "direct.(*Socks5PacketServerUnpacker).NewPacker()", "ss2022.(*ShadowPacketServerUnpacker).NewPacker()")
	if reps = splitRaces(other); len(reps) != 1 || reps[0].sig != "data-race" {
		t.Fatalf("the same race on another unpacker type classified as %v, want data-race (it was not analysed and must not be absorbed by the listed finding)", sigs(reps))
	}
}

func sigs(rs []raceReport) (out []string) {
	for _, r := range rs {
		out = append(out, r.sig)
	}
	return
}
