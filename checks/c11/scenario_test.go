package c11

import (
	"encoding/binary"
	"fmt"
	"math/rand/v2"
	"net/netip"
	"os"
	"slices"
	"sort"
	"strings"
	"sync"
	"sync/atomic"
	"time"

	"verif/internal/udpsvc"
)

var scenarioCounter atomic.Uint32

var targetBase = netip.MustParseAddr("127.0.11.2")

const (
	pacedWait  = time.Second
	pacedTries = 3
)

func keyBytes(seed uint64, salt uint64, n int) []byte {
	r := rand.New(rand.NewPCG(seed, salt))
	b := make([]byte, n)
	for i := range b {
		b[i] = byte(r.Uint32())
	}
	return b
}

func keysFor(method string, eih bool, seed, salt uint64) udpsvc.SS2022Keys {
	n := 16
	if strings.Contains(method, "256") {
		n = 32
	}
	k := udpsvc.SS2022Keys{Method: method, PSK: keyBytes(seed, salt, n)}
	if eih {
		k.UPSK = keyBytes(seed, salt+1000, n)
		k.User = "user1"
	}
	return k
}

// ---- garbage: datagrams the server's protocol cannot parse or authenticate ----

type garbageKind struct {
	name string
	make func(x *exec, i int) []byte
}

func v4hdr(port uint16) []byte { return []byte{1, 127, 0, 11, 2, byte(port >> 8), byte(port)} }

func garbageKinds(proto string) []garbageKind {
	switch {
	case proto == "socks5":
		return []garbageKind{
			{"empty", func(*exec, int) []byte { return []byte{} }},
			{"short2", func(*exec, int) []byte { return []byte{0, 0} }},
			{"frag", func(x *exec, _ int) []byte { return append(append([]byte{0, 0, 1}, v4hdr(x.w.Port)...), "fragment"...) }},
			{"atyp0", func(x *exec, _ int) []byte { return append([]byte{0, 0, 0, 0}, v4hdr(x.w.Port)...) }},
			{"atyp5", func(x *exec, _ int) []byte { return append([]byte{0, 0, 0, 5}, v4hdr(x.w.Port)...) }},
			{"trunc-v4", func(*exec, int) []byte { return []byte{0, 0, 0, 1, 127, 0} }},
			{"trunc-name", func(*exec, int) []byte { return []byte{0, 0, 0, 3, 200, 'a', 'b'} }},
			{"trunc-v6", func(*exec, int) []byte { return []byte{0, 0, 0, 4, 0, 0, 0, 0, 0, 0, 0, 0, 0, 0} }},
		}
	case proto == "none":
		return []garbageKind{
			{"empty", func(*exec, int) []byte { return []byte{} }},
			{"one", func(*exec, int) []byte { return []byte{1} }},
			{"atyp0", func(x *exec, _ int) []byte { return append([]byte{0}, v4hdr(x.w.Port)...) }},
			{"atyp2", func(x *exec, _ int) []byte { return append([]byte{2}, v4hdr(x.w.Port)...) }},
			{"trunc-v4", func(*exec, int) []byte { return []byte{1, 127, 0, 11} }},
			{"trunc-name", func(*exec, int) []byte { return []byte{3, 200, 'a', 'b'} }},
		}
	case udpsvc.IsSS2022(proto):
		rnd := func(x *exec, i, n int) []byte { return keyBytes(x.p.Seed, uint64(5000+i), n) }
		valid := func(x *exec, keys udpsvc.SS2022Keys) []byte {
			c, err := udpsvc.NewSS2022ClientCodec(keys, x.spec.ServerAddr, false)
			if err != nil {
				return []byte{1, 2, 3}
			}
			tag := udpsvc.Tag{Kind: udpsvc.KindRequest, Scenario: x.w.Scenario, Session: 0xFFF0, Seq: 1, Target: 0, Responder: udpsvc.NoResponder, Fill: 32}
			b, err := c.Pack(x.w.DestAddr(0), udpsvc.EncodePayload(nil, tag))
			if err != nil {
				return []byte{1, 2, 3}
			}
			return b
		}
		return []garbageKind{
			{"empty", func(*exec, int) []byte { return []byte{} }},
			{"short15", func(x *exec, i int) []byte { return rnd(x, i, 15) }},
			{"random64", func(x *exec, i int) []byte { return rnd(x, i, 64) }},
			{"random1200", func(x *exec, i int) []byte { return rnd(x, i, 1200) }},
			{"bitflip-body", func(x *exec, i int) []byte { b := valid(x, x.spec.ServerKeys); b[len(b)-20] ^= 0x10; return b }},
			{"bitflip-tag", func(x *exec, i int) []byte { b := valid(x, x.spec.ServerKeys); b[len(b)-1] ^= 1; return b }},
			{"truncated", func(x *exec, i int) []byte { b := valid(x, x.spec.ServerKeys); return b[:40] }},
			{"wrong-key", func(x *exec, i int) []byte {
				k := x.spec.ServerKeys
				k.PSK = keyBytes(x.p.Seed, 777, len(k.PSK))
				if k.UPSK != nil {
					k.UPSK = keyBytes(x.p.Seed, 778, len(k.UPSK))
				}
				return valid(x, k)
			}},
			{"replay", func(x *exec, i int) []byte {
				// a datagram of a live session that the relay has already processed (its echo came
				// back), sent again from a foreign address
				b := x.clients[i%len(x.clients)].AckedPacket()
				if len(b) == 0 {
					return rnd(x, i, 64)
				}
				return b
			}},
		}
	}
	return nil // direct: every datagram is a valid payload
}

// ---- execution ----

type exec struct {
	p       *plan
	w       *udpsvc.World
	up      *udpsvc.Upstream
	spec    *udpsvc.Spec
	svc     *svcHandle
	clients []*hclient // the plan's sessions first (index = session id), then helpers and failers
	nsess   int        // number of plan sessions
	helpers map[int]*hclient
	failers []*hclient
	upName  string // peer topology with UpName: the name under which the relay's client reaches the upstream
	nxName  string // the upstream name of the "bad" client: known to the owned resolver as a name without address (NXDOMAIN)
	raws    []*udpsvc.RawSocket
	names   []string

	abort    atomic.Bool             // set at the first missed liveness bound: the run is void (retried or judged on safety only)
	forbid   map[[2]uint32]forbidden // (session, seq) of datagrams that must be observed nowhere
	once     map[[2]uint32]string    // (session, seq) of datagrams that must be observed at their destination exactly once
	atMost   map[[2]uint32]bool      // backlog datagrams beyond the send channel capacity: may be dropped
	mu       sync.Mutex
	liveMiss []string
	labels   map[string]bool
	gLabels  map[string]int
}

func (x *exec) label(l string) { x.mu.Lock(); x.labels[l] = true; x.mu.Unlock() }
func (x *exec) miss(s string) {
	x.abort.Store(true)
	x.mu.Lock()
	x.liveMiss = append(x.liveMiss, s)
	x.mu.Unlock()
}

// forbidden: why a datagram must not be observed. anywhere: not even at the upstream proxy (the relay must
// not have a session for it at all); otherwise only target sockets count (a name the RELAY cannot resolve).
type forbidden struct {
	sig, why string
	anywhere bool
}

type outcome struct {
	violation  string
	liveMiss   []string
	setupErr   error
	labels     []string
	nontrivial bool
	sample     map[string]any
	detector   string
}

// directOut: names are resolved by the relay itself (direct client of the server or of the chained hop).
func (x *exec) directOut() bool { return x.p.Topology != "peer" }

func (x *exec) paceTo(c *hclient, d, fill int, what string) bool {
	if x.abort.Load() {
		return false
	}
	seq, ok, attempts := c.Paced(d, fill, pacedWait, pacedTries+c.TakeTries())
	if attempts > 1 {
		x.label("paced-retried")
		if envSet("VERIF_DEBUG") {
			fmt.Fprintf(os.Stderr, "C11 paced retried: session %d seq %d dest %d (%s): %d datagrams\n", c.ID, seq, d, what, attempts)
		}
	}
	if !ok {
		x.miss(fmt.Sprintf("session %d seq %d to dest %d (%s, %s): no echo after %d datagrams", c.ID, seq, d, x.w.DestAddr(d), what, attempts))
	}
	return ok
}

// tour: one session changes its target again and again.
func (x *exec) tour(c *hclient, t *tourStops, fill int) {
	step := func(d int, label string) bool {
		if !x.paceTo(c, d, fill, label) {
			return false
		}
		x.label("tour:" + label)
		return true
	}
	if x.directOut() {
		// (again) unresolvable; only this session uses the name and it is idle now
		udpsvc.SetName(x.w.Dests[t.F].Name, udpsvc.NameRule{Fail: x.p.Dests[t.F].Fail == "servfail"})
	}
	if !step(t.A, "first-name") || !step(t.B, "name-to-other-name") || !step(t.A, "name-back") {
		return
	}
	if x.directOut() {
		// F does not resolve: datagrams for it must be observed nowhere - in particular not at the
		// address the session resolved last (A's)
		for i := 0; i < 2; i++ {
			seq := c.NextSeq()
			x.mu.Lock()
			x.forbid[[2]uint32{uint32(c.ID), seq}] = forbidden{sig: "unresolvable-name-datagram-delivered", why: "the resolver answered " + x.p.Dests[t.F].Fail + " for that name"}
			x.mu.Unlock()
			c.Send(seq, t.F, fill)
		}
		x.label("tour:name-to-failing-name:" + x.p.Dests[t.F].Fail)
		// fence: the session's uplink is FIFO, so once A echoes again the two datagrams above have been
		// dealt with (dropped) and the name may become resolvable
		if !step(t.A, "failing-name-to-name") {
			return
		}
		udpsvc.SetName(x.w.Dests[t.F].Name, udpsvc.NameRule{IP: x.w.IPs[x.p.Dests[t.F].Sock]})
		if !step(t.F, "failing-name-now-resolvable") {
			return
		}
	} else if !step(t.F, "name-inside-upstream") {
		return
	}
	if !step(t.IP, "name-to-ip") || !step(t.B, "ip-to-name") || !step(t.AP, "same-name-other-port") || !step(t.A, "same-name-first-port") {
		return
	}
}

// backlog: the session's uplink is made to wait inside its packer (held DNS answer for the gated name)
// while N more datagrams arrive for the same session; then the answer is released. Every datagram that
// fits the send channel must reach its destination exactly once, in whatever batches the uplink forms;
// the ones beyond the capacity may be dropped (never corrupted, duplicated or misdirected). After the
// backlog has drained a few datagrams are written back to back: exactly once each.
func (x *exec) backlog(c *hclient, o planOp) {
	capacity := 1024
	if x.p.SendChanCap != 0 {
		capacity = x.p.SendChanCap
	}
	name := x.w.Dests[o.Alt].Name
	ip := x.w.IPs[x.p.Dests[o.Alt].Sock]
	if !x.paceTo(c, o.Prime, o.Fill, "priming the packer's cache with another name") {
		return
	}
	gate := make(chan struct{})
	udpsvc.SetName(name, udpsvc.NameRule{IP: ip, Gate: gate})
	released := false
	release := func() {
		if !released {
			released = true
			close(gate)
			udpsvc.SetName(name, udpsvc.NameRule{IP: ip})
		}
	}
	defer release()
	mark := func(seq uint32, idx int) {
		k := [2]uint32{uint32(c.ID), seq}
		x.mu.Lock()
		if idx < capacity {
			x.once[k] = fmt.Sprintf("datagram %d of a backlog of %d behind a held DNS answer (send channel capacity %d, relay batch %d)", idx, o.N+1, capacity, x.p.RelayBatch)
		} else {
			x.atMost[k] = true
		}
		x.mu.Unlock()
	}
	seq0 := c.NextSeq()
	mark(seq0, 0)
	c.Send(seq0, o.Alt, o.Fill) // the uplink now waits for the answer
	time.Sleep(3 * time.Millisecond)
	dests := make([]int, o.N)
	fills := make([]int, o.N)
	first := c.MaxSeq() + 1
	for i := range dests {
		dests[i] = o.Dest
		if i%3 == 1 {
			dests[i] = o.Alt
		}
		fills[i] = (o.Fill + 53*i) % 1300
		mark(first+uint32(i), i+1)
	}
	c.BurstFills(dests, fills)
	time.Sleep(30 * time.Millisecond)
	release()
	time.Sleep(10 * time.Millisecond) // let the uplink start draining, a full channel would rightly drop the next datagram
	if !x.paceTo(c, o.Dest, 8, "behind the released backlog") {
		return
	}
	// the backlog has drained (the uplink is FIFO): now a few datagrams back to back
	n := 2 + o.N%3
	first = c.MaxSeq() + 1
	pd, pf := make([]int, n), make([]int, n)
	for i := range pd {
		pd[i] = o.Dest
		if i%2 == 1 {
			pd[i] = o.Alt
		}
		pf[i] = (o.Fill + 211*i) % 1300
		x.mu.Lock()
		x.once[[2]uint32{uint32(c.ID), first + uint32(i)}] = "datagram written back to back after the backlog had drained"
		x.mu.Unlock()
	}
	c.BurstFills(pd, pf)
	x.paceTo(c, o.Dest, o.Fill, "after the post-backlog datagrams")
	if o.N+1 > capacity {
		x.label("send-channel-overflow:" + x.p.BatchMode)
	}
	if x.p.BatchMode == "sendmmsg" && x.p.RelayBatch > 0 && o.N >= x.p.RelayBatch {
		x.label("backlog-exceeds-relay-batch:sendmmsg")
	}
	batch := x.p.RelayBatch
	if batch == 0 {
		batch = 256
	}
	if x.p.BatchMode == "sendmmsg" && batch > capacity && o.N+1 >= capacity {
		x.label("batch>send-channel-capacity/backlog>=capacity")
	}
	x.label("backlog:" + x.p.BatchMode)
}

// garbageFirst makes the first datagram of the client's current socket one the server cannot accept.
func (x *exec) garbageFirst(c *hclient, kind int) {
	var b []byte
	if udpsvc.IsSS2022(x.p.ServerProto) {
		// this session's own packet (its client session id is in the clear part), body damaged
		tag := udpsvc.Tag{Kind: udpsvc.KindRequest, Scenario: x.w.Scenario, Session: 0xFFF0, Seq: 1, Responder: udpsvc.NoResponder, Fill: 16}
		pkt, err := c.Codec.Pack(x.w.DestAddr(0), udpsvc.EncodePayload(nil, tag))
		if err != nil {
			return
		}
		pkt[len(pkt)-3] ^= 0x40
		b = pkt
	} else {
		gk := garbageKinds(x.p.ServerProto)
		if len(gk) == 0 {
			return
		}
		b = gk[(kind-1)%len(gk)].make(x, kind)
	}
	c.SendRaw(b)
	x.label("garbage-first-then-valid-same-socket")
	x.label("garbage-first:" + x.p.BatchMode)
}

func (x *exec) relayKind() string {
	if udpsvc.IsSS2022(x.p.ServerProto) {
		return "ss2022"
	}
	return "nat"
}

// sessClients are the clients of the plan's sessions (helpers and failers come after them).
func (x *exec) sessClients() []*hclient {
	if x.nsess == 0 || x.nsess > len(x.clients) {
		return x.clients
	}
	return x.clients[:x.nsess]
}

func (x *exec) failDest(kind int) int {
	if kind == failReject {
		return x.p.RejectDest
	}
	return x.p.BadDest
}

// failFirst (round 6, gap 1): the first well-formed datagram(s) of the client's current socket (ss2022: of the
// session) go to a destination for which the relay cannot set a session up - the router rejects it, or the
// route's client cannot create a session. They must be observed nowhere, and the set-up that failed must
// leave nothing behind: the valid datagrams the caller sends next from the same socket are relayed.
func (x *exec) failFirst(c *hclient, kind int) {
	d := x.failDest(kind)
	if d <= 0 {
		return
	}
	why := "the router rejects sessions that start with this destination"
	name := "reject"
	if kind == failBadClient {
		why = "the route's client (" + x.p.BadClient + ") cannot create a session"
		name = "badclient:" + x.p.BadClient
	}
	n := 1 + (int(c.ID)+c.NSocks())%2
	q0 := udpsvc.NameQueries(x.nxName)
	for i := 0; i < n; i++ {
		seq := c.NextSeq()
		x.mu.Lock()
		x.forbid[[2]uint32{uint32(c.ID), seq}] = forbidden{sig: "datagram-of-failed-setup-delivered", why: why, anywhere: true}
		x.mu.Unlock()
		c.Send(seq, d, 8+i)
	}
	c.AddTries(n)
	// give the failing set-up time to finish; a datagram that meets the dying entry is rightly dropped (the
	// paced rule retransmits), this only keeps the scenario short
	switch {
	case envSet("VERIF_C11_FAILGAP_MS"):
		time.Sleep(failGap())
	case kind == failReject:
		time.Sleep(time.Duration(30+30*(int(c.ID)%2)) * time.Millisecond)
	case x.p.BadClient == "socks5-dead":
		time.Sleep(60 * time.Millisecond)
	default:
		// the failing NewSession looks the upstream's name up: wait until the resolver has been asked
		t0 := time.Now()
		ok := udpsvc.WaitFor(400*time.Millisecond, func() bool { return udpsvc.NameQueries(x.nxName) > q0 })
		if envSet("VERIF_DEBUG") {
			fmt.Fprintf(os.Stderr, "C11 failFirst: session %d waited %v for a lookup of %s (seen=%v, queries %d -> %d)\n", c.ID, time.Since(t0).Round(time.Millisecond), x.nxName, ok, q0, udpsvc.NameQueries(x.nxName))
		}
		time.Sleep(30 * time.Millisecond)
	}
	x.label("setup-fail-then-valid:" + name)
	x.label("setup-fail-then-valid:" + failKindName(kind) + ":" + x.relayKind() + ":" + x.p.BatchMode)
	if x.p.ServerProto == "direct" {
		x.label("setup-fail-then-valid:tunnel-server")
	}
}

// upstreamDown makes the default client's NewSession fail for the duration of f: the name of its upstream
// does not resolve (NXDOMAIN / SERVFAIL), or its SOCKS5 upstream answers UDP ASSOCIATE with a failure.
// Established sessions are not affected. It reports whether the relay was seen trying (a lookup of the
// name / a control connection) while the upstream was down, and waits for that before restoring.
func (x *exec) upstreamDown(expect int, f func()) bool {
	if x.up == nil {
		f()
		return false
	}
	var seen func() int64
	switch {
	case x.p.UpFail == "assoc-failure" && x.p.ClientProto == "socks5":
		acc0, _ := x.up.ControlConns()
		x.up.SetAssocScript(&udpsvc.AssocScript{Mode: "reply-failure"})
		defer x.up.SetAssocScript(nil)
		seen = func() int64 { a, _ := x.up.ControlConns(); return a - acc0 }
	case x.upName != "":
		udpsvc.SetName(x.upName, udpsvc.NameRule{Fail: x.p.UpFail == "servfail"}) // no IP: NXDOMAIN
		defer udpsvc.SetName(x.upName, udpsvc.NameRule{IP: x.up.Addr.Addr()})
		seen = func() int64 { return udpsvc.NameQueries(x.upName) }
	default:
		f()
		return false
	}
	f()
	ok := udpsvc.WaitFor(time.Second, func() bool { return seen() >= int64(expect) })
	time.Sleep(25 * time.Millisecond) // the failing NewSession calls return
	return ok || seen() > 0
}

// phase0 (failUpstreamDown): while the upstream is unavailable the flagged sessions send their first
// datagram(s); the relay cannot create client sessions for them. Afterwards the same sockets carry on.
func (x *exec) phase0() {
	var cs []*hclient
	for i, c := range x.sessClients() {
		if x.p.Sessions[i].FailFirst == failUpstreamDown {
			cs = append(cs, c)
		}
	}
	if len(cs) == 0 || x.up == nil {
		return
	}
	tried := x.upstreamDown(len(cs), func() {
		for _, c := range cs {
			s := x.p.Sessions[c.ID]
			if s.GarbageFirst > 0 {
				x.garbageFirst(c, s.GarbageFirst)
			}
			for i := 0; i < 1+int(c.ID)%2; i++ {
				c.Send(c.NextSeq(), s.D1, 8+i)
				c.AddTries(1)
			}
		}
	})
	if tried {
		x.label("setup-fail-then-valid:upstream-down:" + x.p.UpFail)
		x.label("setup-fail-then-valid:upstream-down:" + x.relayKind() + ":" + x.p.BatchMode)
		if x.p.ServerProto == "direct" {
			x.label("setup-fail-then-valid:tunnel-server")
		}
	}
}

// crowd (round 6, gap 2): failed set-ups, then bursts of several established, idle sessions at the same
// time. A datagram of a burst whose index is below the send channel capacity always finds room (the channel
// is empty when the burst starts and only this burst fills it), so it must be observed at its destination
// exactly once; the others at most once. Content, destination and at-most-once are judged for all of them
// by the general oracle.
func (x *exec) crowd() {
	cr := x.p.Crowd
	cs := x.sessClients()
	if len(cs) > cr.Clients {
		cs = cs[:cr.Clients]
	}
	capacity := 1024
	if x.p.SendChanCap != 0 {
		capacity = x.p.SendChanCap
	}
	each := func(f func(i int, c *hclient)) {
		var wg sync.WaitGroup
		for i, c := range cs {
			wg.Go(func() { f(i, c) })
		}
		wg.Wait()
	}
	// every participant idle, its send channel empty (the uplink is FIFO)
	each(func(i int, c *hclient) { x.paceTo(c, x.p.Sessions[i].D1, 8, "before the crowd") })
	if x.abort.Load() {
		return
	}
	failed := false
	sendFails := func() {
		for _, f := range x.failers {
			for i := 0; i < 1+int(f.ID)%2; i++ {
				seq := f.NextSeq()
				if cr.FailKind == failUpstreamDown {
					f.Send(seq, x.p.Sessions[0].D1, 8)
					continue
				}
				x.mu.Lock()
				x.forbid[[2]uint32{uint32(f.ID), seq}] = forbidden{sig: "datagram-of-failed-setup-delivered", why: "no relay session can be set up for its destination (" + failKindName(cr.FailKind) + ")", anywhere: true}
				x.mu.Unlock()
				f.Send(seq, x.failDest(cr.FailKind), 8)
			}
		}
	}
	switch {
	case len(x.failers) == 0:
	case cr.FailKind == failUpstreamDown:
		failed = x.upstreamDown(len(x.failers), sendFails)
	default:
		sendFails()
		failed = true
	}
	if cr.GapMs > 0 {
		time.Sleep(time.Duration(cr.GapMs) * time.Millisecond)
	}
	total := 0
	type burst struct{ dests, fills []int }
	bursts := make([]burst, len(cs))
	for i, c := range cs {
		s := x.p.Sessions[i]
		n := cr.N[i%len(cr.N)]
		b := burst{make([]int, n), make([]int, n)}
		first := c.MaxSeq() + 1
		bothIP := !x.p.Dests[s.D1].Name && !x.p.Dests[s.D2].Name
		for k := 0; k < n; k++ {
			b.dests[k] = s.D1
			if (bothIP && k%2 == 1) || (!bothIP && k >= n/2) {
				b.dests[k] = s.D2 // names: one change of name per burst (every change is a lookup with its scripted delay)
			}
			b.fills[k] = (cr.Fill + 131*k + 17*i) % 1300
			key := [2]uint32{uint32(c.ID), first + uint32(k)}
			x.mu.Lock()
			if k < capacity {
				x.once[key] = fmt.Sprintf("crowd-datagram-lost: datagram %d of a burst of %d written by session %d while %d sessions burst together (send channel capacity %d)", k, n, c.ID, len(cs), capacity)
			} else {
				x.atMost[key] = true
			}
			x.mu.Unlock()
		}
		bursts[i] = b
		total += n
	}
	each(func(i int, c *hclient) { c.BurstFills(bursts[i].dests, bursts[i].fills) })
	// The fence datagram queues behind the whole burst; its one-second bound is not meant to cover that. Wait
	// until the harness-owned ends have seen the bursts arrive (or arrivals stop for a while), then fence.
	// What is lost is still judged against x.once at the end.
	ids := map[uint16]bool{}
	for _, c := range cs {
		ids[c.ID] = true
	}
	count := func() (n int) {
		for _, a := range x.w.Arrivals() {
			if a.Err == nil && ids[a.Tag.Session] {
				n++
			}
		}
		return
	}
	base, last, lastChange := count(), -1, time.Now()
	for deadline := time.Now().Add(20 * time.Second); time.Now().Before(deadline); time.Sleep(20 * time.Millisecond) {
		n := count()
		if n != last {
			last, lastChange = n, time.Now()
		}
		if n-base >= total || time.Since(lastChange) > 500*time.Millisecond {
			break
		}
	}
	// drained: the uplink of a session is FIFO
	each(func(i int, c *hclient) { x.paceTo(c, x.p.Sessions[i].D1, 8, "behind the crowd burst") })
	kind := "no-failed-setup"
	if failed {
		kind = "after-failed-setup"
		x.label("crowd-after-failed-setup:" + failKindName(cr.FailKind))
	}
	x.label("crowd-" + kind + ":" + x.relayKind() + ":" + x.p.BatchMode)
	if len(cs) >= 4 {
		x.label("crowd:clients>=4")
	}
	if total >= 400 {
		x.label("crowd:datagrams-in-flight>=400")
	}
}

// interleave (round 6, gap 3; wildcard listener): this session gets an echo through its relay address, then
// ANOTHER client talks to the relay through a different local address (another 127.0.0.x, or ::1 against
// 127.0.0.x on a dual-stack listener), then the destination sends more replies for this session and the
// session sends again. Every reply is judged by the general oracle: it must leave from a relay address this
// session has talked to at or after that datagram.
func (x *exec) interleave(c *hclient, o planOp) {
	h := x.helpers[int(c.ID)]
	addrs := x.spec.RelayAddrs
	if h == nil || len(addrs) < 2 {
		return
	}
	mine := c.CurrentServer()
	mixed := false
	hd := o.Dest
	if excludeSharedPacker() && x.p.ServerProto != "direct" && x.p.Dests[hd].Name {
		hd = x.p.Dests[hd].Sock // the known packer class is excluded by construction: no second name-using session
	}
	for round := 0; round < 2; round++ {
		if !x.paceTo(c, o.Dest, o.Fill, "interleave: own datagram") {
			return
		}
		// the other address: the last one first (::1 on a dual-stack listener)
		var others []netip.AddrPort
		for i := len(addrs) - 1; i >= 0; i-- {
			if addrs[i] != mine {
				others = append(others, addrs[i])
			}
		}
		other := others[round%len(others)]
		h.SetServer(other)
		mixed = mixed || other.Addr().Is4() != mine.Addr().Is4()
		for k := 0; k < 1+round; k++ {
			if !x.paceTo(h, hd, (o.Fill+7*k)%1300, "interleave: the other client") {
				return
			}
		}
		x.w.Flood(c.ID, max(1, o.N/2), 0, nil)
		time.Sleep(10 * time.Millisecond)
	}
	if !x.paceTo(c, o.Dest, o.Fill, "interleave: own datagram after the other client's") {
		return
	}
	x.label("pktinfo-interleave:" + x.relayKind() + ":" + x.p.BatchMode)
	if mixed {
		x.label("pktinfo-interleave:v4+v6:" + x.p.BatchMode)
	}
}

func (x *exec) runOps(c *hclient, ops []planOp, sess planSession) {
	gf := sess.GarbageFirst
	// a fresh client socket is a fresh session only for the address-keyed relays
	ff := 0
	if (sess.FailFirst == failReject || sess.FailFirst == failBadClient) && !udpsvc.IsSS2022(x.p.ServerProto) {
		ff = sess.FailFirst
	}
	for _, o := range ops {
		if x.abort.Load() {
			return
		}
		switch o.Kind {
		case "tour":
			x.tour(c, o.Tour, o.Fill)
		case "rebind":
			c.Rebind()
			x.label("rebind")
			if gf > 0 {
				x.garbageFirst(c, gf)
			}
			if ff > 0 {
				x.failFirst(c, ff)
			}
		case "interleave":
			x.interleave(c, o)
		case "relayswitch":
			// talk to another local address of the relay: one echo (a reply batch of one), then the
			// destination sends a burst of replies (a larger batch) - all must leave from the new address
			addrs := x.spec.RelayAddrs
			next := addrs[len(c.Epochs())%len(addrs)]
			if next == c.CurrentServer() {
				next = addrs[(len(c.Epochs())+1)%len(addrs)]
			}
			if c.SetServer(next) {
				x.label("relay-switch:other-family:" + x.relayKind())
			}
			if !x.paceTo(c, o.Dest, o.Fill, "after switching the relay address") {
				return
			}
			x.w.Flood(c.ID, o.N, 0, nil)
			time.Sleep(15 * time.Millisecond)
			kind := "nat"
			if udpsvc.IsSS2022(x.p.ServerProto) {
				kind = "ss2022"
			}
			x.label("relay-switch:" + kind + ":" + x.p.BatchMode)
		case "backlog":
			x.backlog(c, o)
		case "freshburst":
			// a new client address whose first datagrams arrive as one burst while the session is being set
			// up; some of them cannot be sent by the relay (target port 0)
			c.Rebind()
			if gf > 0 {
				x.garbageFirst(c, gf)
			}
			if ff > 0 {
				x.failFirst(c, ff)
			}
			dests := make([]int, o.N)
			fills := make([]int, o.N)
			for i := range dests {
				dests[i] = o.Dest
				if i >= 3 && (i%4 == 3 || i%7 == 5) {
					dests[i] = o.Alt
				}
				fills[i] = (o.Fill + 37*i) % 1300
			}
			c.BurstFills(dests, fills)
			x.paceTo(c, o.Dest, o.Fill, "after a burst with unsendable datagrams")
			x.label("burst-with-unsendable:" + x.p.BatchMode)
		case "paced":
			for i := 0; i < o.N && !x.abort.Load(); i++ {
				d := o.Dest
				if i%2 == 1 {
					d = o.Alt
				}
				seq, ok, attempts := c.Paced(d, o.Fill, pacedWait, pacedTries+c.TakeTries())
				if attempts > 1 {
					x.label("paced-retried")
					if envSet("VERIF_DEBUG") {
						fmt.Fprintf(os.Stderr, "C11 paced retried: session %d seq %d dest %d (op paced, socket %d): %d datagrams\n", c.ID, seq, d, c.NSocks()-1, attempts)
					}
				}
				if !ok {
					x.miss(fmt.Sprintf("session %d seq %d to dest %d: no echo after %d datagrams", c.ID, seq, d, attempts))
				}
			}
		case "burst":
			x.label("burst")
			dests := make([]int, o.N)
			for i := range dests {
				dests[i] = o.Dest
				if i%2 == 1 {
					dests[i] = o.Alt
				}
			}
			c.Burst(dests, o.Fill)
		}
	}
}

func (x *exec) sendGarbage(kinds []int, fromLive bool) {
	gk := garbageKinds(x.p.ServerProto)
	for i, k := range kinds {
		g := gk[k]
		b := g.make(x, i)
		x.mu.Lock()
		x.gLabels["garbage:"+g.name]++
		x.mu.Unlock()
		if fromLive && i%3 == 2 && !udpsvc.IsSS2022(x.p.ServerProto) {
			// from the address of a live session: must be dropped without hurting that session
			cs := x.sessClients()
			cs[i%len(cs)].SendRaw(b)
			continue
		}
		x.raws[i%len(x.raws)].Send(b, x.spec.ServerAddr)
	}
}

func runPlan(p *plan, workDir string) (out outcome) {
	x := &exec{p: p, labels: map[string]bool{}, gLabels: map[string]int{}, forbid: map[[2]uint32]forbidden{}, once: map[[2]uint32]string{}, atMost: map[[2]uint32]bool{}}
	scn := scenarioCounter.Add(1) + uint32(os.Getpid())<<12
	fail := func(sig, format string, args ...any) {
		if out.violation == "" {
			out.violation = "SIG=C11/" + sig + " " + fmt.Sprintf(format, args...)
		}
	}

	// baseline before anything of this scenario exists
	if !udpsvc.WaitFor(5*time.Second, func() bool { return len(udpsvc.RepoGoroutines()) == 0 }) {
		out.setupErr = fmt.Errorf("repo goroutines alive before the scenario:\n%s", udpsvc.Summaries(udpsvc.RepoGoroutines()))
		return
	}
	// the runtime creates its poller descriptors with the first socket of the process: before the baseline
	if r, err := udpsvc.NewRawSocket(); err == nil {
		r.Close()
	}
	fdBase, _ := udpsvc.FDs()

	n4 := p.NSock
	if p.V6 {
		n4--
	}
	w, err := udpsvc.NewWorld(scn, targetBase, n4, p.V6)
	if err != nil {
		out.setupErr = err
		return
	}
	x.w = w
	defer w.Close()
	for i, d := range p.Dests {
		name := ""
		switch {
		case d.Port0:
			w.AddDestPort0(d.Sock)
			continue
		case d.AltPort && d.SetupFail != "":
			// the target's IP with the port of its second socket: sessions that start here cannot be set up
			w.AddDestAltPort(d.Sock, "")
			continue
		case d.AltPort:
			// the very same name as another dest, other port
			w.AddDestAltPort(d.Sock, w.Dests[d.SameAs].Name)
			continue
		case d.Flaky && p.Topology != "peer":
			name = fmt.Sprintf("f%d-%x.c11.test", i, scn)
			udpsvc.SetName(name, udpsvc.NameRule{Fail: d.Fail == "servfail"}) // no IP: NXDOMAIN
			x.names = append(x.names, name)
		case d.Name:
			name = fmt.Sprintf("n%d-%x.c11.test", i, scn)
			udpsvc.SetName(name, udpsvc.NameRule{IP: w.IPs[d.Sock], Delay: time.Duration(d.DelayMs) * time.Millisecond})
			x.names = append(x.names, name)
		}
		w.AddDest(d.Sock, name)
	}
	defer func() {
		for _, n := range x.names {
			udpsvc.DelName(n)
		}
	}()
	w.SetAltEvery(p.AltEvery)
	w.SetDropFirst(p.DropFirst)

	spec := &udpsvc.Spec{ServerProto: p.ServerProto, BatchMode: p.BatchMode, NATTimeout: "60s",
		RelayBatchSize: p.RelayBatch, ServerRecvBatchSize: p.RecvBatch, SendChannelCapacity: p.SendChanCap, ClientProto: p.ClientProto, ListenWildcard: p.Wildcard}
	x.spec = spec
	if udpsvc.IsSS2022(p.ServerProto) {
		spec.ServerKeys = keysFor(p.ServerProto, p.ServerEIH, p.Seed, 1)
		if p.ServerPad {
			spec.ServerPadding = "PadAll"
		} else {
			spec.ServerPadding = "NoPadding"
		}
	}
	if p.ServerProto == "direct" {
		spec.TunnelTarget = w.DestAddr(p.TunnelDest).String()
		spec.TunnelTargetOnly = p.TargetOnly
	}
	if udpsvc.IsSS2022(p.ClientProto) {
		spec.ClientKeys = keysFor(p.ClientProto, p.ClientEIH, p.Seed, 2)
	}
	switch p.Topology {
	case "peer":
		x.up, err = w.StartUpstream(p.ClientProto, spec.ClientKeys)
		if err != nil {
			out.setupErr = err
			return
		}
		spec.ClientEndpoint = x.up.Addr.String()
		if p.UpName {
			// the relay's client resolves its upstream's name whenever it creates a session
			x.upName = fmt.Sprintf("up-%x.c11.test", scn)
			udpsvc.SetName(x.upName, udpsvc.NameRule{IP: x.up.Addr.Addr()})
			x.names = append(x.names, x.upName)
			spec.ClientEndpoint = fmt.Sprintf("%s:%d", x.upName, x.up.Addr.Port())
		}
	case "chain":
		spec.Chain = true
	}
	if p.BadDest > 0 {
		// registered without an address: the answer is NXDOMAIN and the questions are counted
		x.nxName = fmt.Sprintf("nx-%x.c11.test", scn)
		udpsvc.SetName(x.nxName, udpsvc.NameRule{})
		x.names = append(x.names, x.nxName)
	}
	svc, err := startService(spec, workDir, func(doc map[string]any) { x.amendConfig(doc) })
	if err != nil {
		out.setupErr = err
		return
	}
	x.svc = svc
	stopped := false
	defer func() {
		if !stopped {
			svc.Stop(90 * time.Second)
		}
	}()

	newClient := func(home int) (*hclient, error) {
		codec, err := udpsvc.NewClientCodec(p.ServerProto, spec.ServerKeys, spec.ServerAddr, p.ClientPad)
		if err != nil {
			return nil, err
		}
		c, err := newHClient(w, uint16(len(x.clients)), codec, spec.RelayAddrs[home%len(spec.RelayAddrs)])
		if err != nil {
			return nil, err
		}
		x.clients = append(x.clients, c)
		return c, nil
	}
	defer func() {
		for _, c := range x.clients {
			c.Close()
		}
	}()
	x.nsess = len(p.Sessions)
	x.helpers = map[int]*hclient{}
	for _, s := range p.Sessions {
		if _, err := newClient(s.Home); err != nil {
			out.setupErr = err
			return
		}
	}
	for i, s := range p.Sessions {
		// a second client for the sessions that have another client's datagrams interleaved with their replies
		for _, o := range append(append([]planOp{}, s.A...), s.B...) {
			if o.Kind == "interleave" && x.helpers[i] == nil && len(spec.RelayAddrs) > 1 {
				if x.helpers[i], err = newClient(s.Home + 1); err != nil {
					out.setupErr = err
					return
				}
			}
		}
	}
	if p.Crowd != nil && p.Crowd.FailKind != 0 {
		// clients that only ever send datagrams for which no relay session can be set up
		for i := 0; i < p.Crowd.Fails; i++ {
			f, err := newClient(i)
			if err != nil {
				out.setupErr = err
				return
			}
			x.failers = append(x.failers, f)
		}
	}
	if p.Wildcard != "" {
		homes := map[netip.AddrPort]bool{}
		v4, v6 := false, false
		for _, c := range x.sessClients() {
			homes[c.Server] = true
			v4 = v4 || c.Server.Addr().Is4()
			v6 = v6 || !c.Server.Addr().Is4()
		}
		if len(homes) > 1 {
			x.label("sessions-on-different-relay-addresses:" + p.BatchMode)
		}
		if v4 && v6 {
			x.label("sessions-on-127.0.0.x-and-::1:" + p.BatchMode)
		}
	}
	for i := 0; i < 3; i++ {
		r, err := udpsvc.NewRawSocket()
		if err != nil {
			out.setupErr = err
			return
		}
		x.raws = append(x.raws, r)
		defer r.Close()
	}

	phase := func(get func(planSession) []planOp, garbage []int, first bool) {
		var wg sync.WaitGroup
		start := make(chan struct{})
		for i, c := range x.sessClients() {
			sess := p.Sessions[i]
			ops := get(sess)
			wg.Go(func() {
				<-start
				if first && sess.FailFirst != failUpstreamDown {
					// (with failUpstreamDown the first datagrams of the socket were sent in phase 0)
					if sess.GarbageFirst > 0 {
						x.garbageFirst(c, sess.GarbageFirst)
					}
					if sess.FailFirst != 0 {
						x.failFirst(c, sess.FailFirst)
					}
				}
				x.runOps(c, ops, sess)
			})
		}
		if len(garbage) > 0 {
			wg.Go(func() { <-start; x.sendGarbage(garbage, true) })
		}
		close(start)
		wg.Wait()
	}

	tPhase := time.Now()
	lap := func(what string) {
		if envSet("VERIF_DEBUG_PHASES") {
			fmt.Fprintf(os.Stderr, "C11 phase %s: %v\n", what, time.Since(tPhase).Round(time.Millisecond))
		}
		tPhase = time.Now()
	}
	// phase 0: first datagrams of some sessions while the default client's upstream is unavailable
	x.phase0()
	lap("0")

	// phase A: all sessions concurrently
	phase(func(s planSession) []planOp { return s.A }, nil, true)

	lap("A")
	// crowd: failed set-ups, then established sessions burst at the same time
	if p.Crowd != nil && !x.abort.Load() {
		x.crowd()
		lap("crowd")
	}

	// fenced garbage check: with every session established and idle, garbage must not change the
	// number of relay goroutines or sockets. The fence is an echo on every live session: the
	// listener socket is FIFO and read by one goroutine, so the garbage was processed before it.
	fence := func(tag string) {
		var wg sync.WaitGroup
		for i, c := range x.sessClients() {
			d := lastDest(p.Sessions[i])
			wg.Go(func() {
				if x.abort.Load() {
					return
				}
				seq, ok, n := c.Paced(d, 8, pacedWait, pacedTries+c.TakeTries())
				if n > 1 {
					x.label("paced-retried")
					if envSet("VERIF_DEBUG") {
						fmt.Fprintf(os.Stderr, "C11 paced retried: session %d seq %d dest %d (%s fence): %d datagrams\n", c.ID, seq, d, tag, n)
					}
				}
				if !ok {
					x.miss(fmt.Sprintf("%s fence: session %d seq %d: no echo after %d datagrams", tag, c.ID, seq, n))
				}
			})
		}
		wg.Wait()
	}
	if len(p.Garbage) > 0 && !x.abort.Load() {
		fence("pre-garbage") // drains bursts of phase A
		time.Sleep(20 * time.Millisecond)
		gBefore := udpsvc.RepoGoroutines()
		_, sBefore := udpsvc.FDs()
		x.sendGarbage(p.Garbage, true)
		fence("post-garbage")
		gAfter := udpsvc.RepoGoroutines()
		_, sAfter := udpsvc.FDs()
		if x.abort.Load() {
			// a fence echo is missing: the counts are not comparable in this run
		} else if len(gAfter) != len(gBefore) || sAfter != sBefore {
			// confirm it is not a transient (a goroutine in the middle of exiting)
			time.Sleep(100 * time.Millisecond)
			gAfter = udpsvc.RepoGoroutines()
			_, sAfter = udpsvc.FDs()
			if len(gAfter) > len(gBefore) || sAfter > sBefore {
				fail("garbage-created-session", "garbage %v changed relay goroutines %d->%d, sockets %d->%d\nafter:\n%s",
					garbageNames(p.ServerProto, p.Garbage), len(gBefore), len(gAfter), sBefore, sAfter, udpsvc.Summaries(gAfter))
			}
		}
		x.label("fenced-garbage")
	}

	lap("garbage fence")
	// phase B: sessions concurrently, garbage interleaved
	phase(func(s planSession) []planOp { return s.B }, p.GarbageB, false)
	lap("B")
	fence("final")
	lap("final fence")
	time.Sleep(30 * time.Millisecond) // let late echoes of bursts arrive before judging

	x.judge(&out, fail)

	// stop and account
	dur, ok := svc.Stop(90 * time.Second)
	stopped = true
	lap("judge+stop")
	if !ok {
		fail("stop-did-not-return", "Manager.Run still running %v after cancel", dur)
		return
	}
	for _, c := range x.clients {
		c.Close()
	}
	for _, r := range x.raws {
		r.Close()
	}
	w.Close()
	if !udpsvc.WaitFor(5*time.Second, func() bool { return len(udpsvc.RepoGoroutines()) == 0 }) {
		fail("resources-after-stop", "relay goroutines remain after Run returned:\n%s", udpsvc.Summaries(udpsvc.RepoGoroutines()))
	}
	if !udpsvc.WaitFor(5*time.Second, func() bool { n, _ := udpsvc.FDs(); return n <= fdBase }) {
		n, s := udpsvc.FDs()
		fail("resources-after-stop", "descriptors remain after Run returned: %d (sockets %d), baseline %d: %v", n, s, fdBase, fdLinks())
	}

	out.liveMiss = x.liveMiss
	for l := range x.labels {
		out.labels = append(out.labels, l)
	}
	sort.Strings(out.labels)
	x.finishEvidence(&out)
	return
}

// amendConfig adds what udpsvc.Spec cannot say (round 6): the routes and the client behind the SetupFail
// destinations. The routes apply to the client-facing server only ("srv"; a chained hop keeps its own route).
func (x *exec) amendConfig(doc map[string]any) {
	p, w := x.p, x.w
	if p.RejectDest <= 0 && p.BadDest <= 0 {
		return
	}
	router, _ := doc["router"].(map[string]any)
	if router == nil {
		router = map[string]any{}
		doc["router"] = router
	}
	routes, _ := router["routes"].([]any)
	clients, _ := doc["clients"].([]any)
	altPort := func(dest int) uint16 { return w.SockAddr(w.NSock() + p.Dests[dest].Sock).Port() }
	if p.RejectDest > 0 {
		routes = append(routes, map[string]any{"name": "rej-port", "network": "udp", "fromServers": []string{"srv"}, "toPorts": []uint16{altPort(p.RejectDest)}, "client": "reject"})
	}
	if p.BadDest > 0 {
		// an upstream name nobody knows: the owned resolver answers NXDOMAIN; 127.0.0.1:1: nothing listens there
		nx := x.nxName + ":9"
		bad := map[string]any{"name": "bad", "enableUDP": true, "mtu": 1500}
		switch p.BadClient {
		case "ss2022-nxname":
			bad["protocol"], bad["endpoint"], bad["psk"] = "2022-blake3-aes-128-gcm", nx, keyBytes(p.Seed, 31, 16)
		case "socks5-dead":
			bad["protocol"], bad["endpoint"] = "socks5", "127.0.0.1:1"
		default:
			bad["protocol"], bad["endpoint"] = "none", nx
		}
		clients = append(clients, bad)
		routes = append(routes, map[string]any{"name": "to-bad", "network": "udp", "fromServers": []string{"srv"}, "toPorts": []uint16{altPort(p.BadDest)}, "client": "bad"})
		// with more than one client the default must be named
		router["defaultUDPClientName"] = "out"
	}
	router["routes"] = routes
	doc["clients"] = clients
}

func lastDest(s planSession) int {
	for _, ops := range [][]planOp{s.B, s.A} {
		for i := len(ops) - 1; i >= 0; i-- {
			if ops[i].Kind == "tour" {
				return ops[i].Tour.A
			}
			if ops[i].Kind != "rebind" {
				return ops[i].Dest
			}
		}
	}
	return 0
}

func garbageNames(proto string, kinds []int) []string {
	gk := garbageKinds(proto)
	var out []string
	for _, k := range kinds {
		out = append(out, gk[k].name)
	}
	return out
}

// usesSharedPacker: is the workload in the class that the known finding names (two or more sessions
// sending to names through a `direct` client)?
func (x *exec) nameSessionsThroughDirect() int {
	if x.p.Topology == "peer" {
		return 0
	}
	n := 0
	for _, s := range x.p.Sessions {
		uses := false
		for _, ops := range [][]planOp{s.A, s.B} {
			for _, o := range ops {
				if o.Kind == "tour" || o.Kind == "backlog" || (o.Kind != "rebind" && (x.p.Dests[o.Dest].Name || x.p.Dests[o.Alt].Name)) {
					uses = true
				}
			}
		}
		if uses {
			n++
		}
	}
	return n
}

// judge applies the safety oracle to everything the harness-owned endpoints saw.
func (x *exec) judge(out *outcome, fail func(sig, format string, args ...any)) {
	p, w := x.p, x.w
	ss := udpsvc.IsSS2022(p.ServerProto)

	// --- datagrams at targets / at the upstream proxy ---
	type skey struct {
		session uint16
		sock    int
	}
	// relay-side socket of each client-side session, identified by its port (the socket is a dual-stack
	// wildcard socket: the same socket shows as 127.0.0.1:p at IPv4 targets and [::1]:p at the IPv6 one)
	relaySock := map[skey]uint16{}
	owner := map[uint16]skey{}
	socksUsed := map[uint16]map[int]bool{} // session -> target sockets reached
	nameUsed := false
	seen := map[[2]uint32]int{}
	for _, a := range w.Arrivals() {
		where := fmt.Sprintf("target socket %d (%s)", a.Sock, "")
		if a.Sock >= 0 {
			where = fmt.Sprintf("target socket %d (%s)", a.Sock, w.SockAddr(a.Sock))
		} else {
			where = "upstream proxy " + x.up.Addr.String()
		}
		if a.Err != nil {
			sig := "payload-modified"
			if a.Err == udpsvc.ErrNotTagged {
				sig = "foreign-datagram-at-destination"
			}
			fail(sig, "%s received a %d-byte datagram from %s: %v", where, a.Len, a.From, a.Err)
			continue
		}
		t := a.Tag
		if t.Scenario != w.Scenario || t.Kind != udpsvc.KindRequest || int(t.Session) >= len(x.clients) {
			if t.Session == 0xFFF0 && t.Scenario == w.Scenario {
				fail("garbage-delivered", "%s received the payload of an unauthenticated/garbage datagram: %+v from %s", where, t, a.From)
			} else {
				fail("foreign-datagram-at-destination", "%s received %+v from %s", where, t, a.From)
			}
			continue
		}
		c := x.clients[t.Session]
		seen[[2]uint32{uint32(t.Session), t.Seq}]++
		if n, m := seen[[2]uint32{uint32(t.Session), t.Seq}], c.Transmissions(t.Seq); n > m {
			fail("duplicate-delivery", "%s received session %d seq %d for the %d. time, the client put it on the wire %d time(s) (from %s)", where, t.Session, t.Seq, n, m, a.From)
			continue
		}
		dest, fill, sent := c.SentInfo(t.Seq)
		if !sent || dest != int(t.Target) || fill != int(t.Fill) {
			fail("payload-modified", "%s received %+v which session %d never sent (sent=%v dest=%d fill=%d)", where, t, t.Session, sent, dest, fill)
			continue
		}
		d := w.Dests[t.Target]
		if d.Name != "" {
			nameUsed = true
		}
		if f, bad := x.forbid[[2]uint32{uint32(t.Session), t.Seq}]; bad && (a.Sock >= 0 || f.anywhere) {
			fail(f.sig, "session %d seq %d was addressed to %s while %s, yet it arrived at %s from %s",
				t.Session, t.Seq, w.DestAddr(int(t.Target)), f.why, where, a.From)
			continue
		}
		if a.Sock >= 0 {
			if w.DestSock(int(t.Target)) != a.Sock {
				sig := "misdelivered"
				out.detector = "misdelivery"
				fail(sig, "datagram of session %d seq %d addressed to dest %d (%s -> socket %d %s) arrived at socket %d %s (from %s)",
					t.Session, t.Seq, t.Target, w.DestAddr(int(t.Target)), w.DestSock(int(t.Target)), w.SockAddr(w.DestSock(int(t.Target))), a.Sock, w.SockAddr(a.Sock), a.From)
				continue
			}
		} else {
			want := w.DestAddr(int(t.Target))
			if !sameAddr(a.Inside.String(), want.String()) {
				fail("misdelivered", "upstream proxy received session %d seq %d with %s inside, client addressed %s", t.Session, t.Seq, a.Inside, want)
				continue
			}
		}
		if socksUsed[t.Session] == nil {
			socksUsed[t.Session] = map[int]bool{}
		}
		socksUsed[t.Session][d.Sock] = true
		// one relay socket per session; sessions never share one
		k := skey{session: t.Session}
		if !ss {
			k.sock, _ = c.SentOn(t.Seq)
		}
		if prev, ok := relaySock[k]; ok && prev != a.From.Port() {
			fail("session-split", "datagrams of session %d (client socket %d) left the relay from port %d and from %s", k.session, k.sock, prev, a.From)
		}
		relaySock[k] = a.From.Port()
		if o, ok := owner[a.From.Port()]; ok && o != k {
			fail("relay-socket-shared", "relay socket %s carried session %d/%d and session %d/%d", a.From, o.session, o.sock, k.session, k.sock)
		}
		owner[a.From.Port()] = k
	}

	// --- exactly-once expectations (backlog within the send channel capacity, traffic after it drained) ---
	dropped := 0
	for k := range x.atMost {
		if seen[k] == 0 {
			dropped++
		}
	}
	if dropped > 0 {
		x.mu.Lock()
		x.gLabels["dropped-by-full-channel"] += dropped
		x.mu.Unlock()
	}
	if !x.abort.Load() {
		var lost []string
		for k, why := range x.once {
			if seen[k] == 0 {
				lost = append(lost, fmt.Sprintf("session %d seq %d (%s)", k[0], k[1], why))
			}
		}
		if len(lost) > 0 {
			sort.Strings(lost)
			if len(lost) > 6 {
				lost = append(lost[:6], fmt.Sprintf("... %d in total", len(lost)))
			}
			sig := "backlog-datagram-lost"
			if strings.Contains(strings.Join(lost, " "), "crowd-datagram-lost") {
				sig = "crowd-datagram-lost"
			}
			x.miss(sig + ": never observed at its destination: " + strings.Join(lost, "; "))
		}
	}

	// --- replies at client sockets ---
	for _, c := range x.clients {
		for _, r := range c.Replies() {
			at := fmt.Sprintf("session %d socket %d (%s)", c.ID, r.SockIdx, c.LocalAddr(r.SockIdx))
			if !slices.Contains(x.spec.RelayAddrs, r.From) {
				fail("reply-foreign-sender", "%s received a datagram from %s, not from the relay %v", at, r.From, x.spec.RelayAddrs)
				continue
			}
			if r.Err != nil {
				fail("reply-undecodable", "%s received a %d-byte datagram it cannot decode: %v", at, r.Len, r.Err)
				continue
			}
			t := r.Tag
			if t.Scenario != w.Scenario || (t.Kind != udpsvc.KindReply && t.Kind != udpsvc.KindReplyExtra) {
				fail("reply-undecodable", "%s received %+v", at, t)
				continue
			}
			if t.Kind == udpsvc.KindReplyExtra {
				x.label("extra-reply-delivered-intact")
			}
			if p.TargetOnly && int(t.Responder) >= w.NSock() {
				fail("target-only-violated", "%s: tunnelUDPTargetOnly is set, yet a reply produced by the non-target socket %d (%s) was relayed", at, t.Responder, w.SockAddr(int(t.Responder)))
				continue
			}
			if t.Session != c.ID {
				fail("reply-cross-session", "%s received the reply of session %d seq %d", at, t.Session, t.Seq)
				continue
			}
			sentIdx, ok := c.SentOn(t.Seq)
			if !ok {
				fail("reply-undecodable", "%s received a reply to seq %d that was never sent", at, t.Seq)
				continue
			}
			// the reply must leave from the relay address this client talked to when it sent the seq, or
			// from one it switched to later - never from one it had abandoned before
			eps, e0, fromOK := c.Epochs(), c.SentTo(t.Seq), false
			for e := e0; e < len(eps); e++ {
				if eps[e] == r.From {
					fromOK = true
				}
			}
			if !fromOK && !slices.Contains(eps, r.From) {
				fail("reply-from-another-clients-relay-address", "%s: the reply to seq %d came from relay address %s, which this client has never talked to (it sent that datagram to %s; relay addresses used by this client in order: %v)",
					at, t.Seq, r.From, eps[e0], eps)
				continue
			}
			if !fromOK {
				fail("reply-from-abandoned-relay-address", "%s: the reply to seq %d came from relay address %s, but that datagram was sent to %s (relay addresses used by this client in order: %v)",
					at, t.Seq, r.From, eps[e0], eps)
				continue
			}
			if r.SockIdx < sentIdx || (!ss && r.SockIdx != sentIdx) {
				fail("reply-wrong-address", "%s received the reply to seq %d, which was sent from socket %d (%s)", at, t.Seq, sentIdx, c.LocalAddr(sentIdx))
				continue
			}
			if int(t.Responder) >= 2*w.NSock() || int(t.Responder)%w.NSock() != w.Dests[t.Target].Sock {
				fail("reply-wrong-source", "%s: reply to seq %d for dest %d was produced by socket %d", at, t.Seq, t.Target, t.Responder)
				continue
			}
			if int(t.Responder) >= w.NSock() {
				x.label("reply-from-non-target-source")
			}
			if c.Codec.CarriesSource() {
				want := w.SockAddr(int(t.Responder))
				if r.Src != want {
					fail("reply-wrong-source", "%s: reply to seq %d came from %s but the relay attached source %s", at, t.Seq, want, r.Src)
				}
			}
		}
		if c.NSocks() > 1 {
			if ss {
				x.label("ss2022-address-change")
			} else {
				x.label("nat-new-client-address")
			}
		}
	}
	for i, r := range x.raws {
		if n := r.Received(); n > 0 {
			fail("garbage-answered", "raw socket %d, which only sent garbage/replays %v, received %d datagrams", i, garbageNames(p.ServerProto, append(append([]int{}, p.Garbage...), p.GarbageB...)), n)
		}
	}

	// non-trivial rule: >=2 concurrent sessions with different targets, >=1 of them a name
	distinct := map[int]bool{}
	multi := 0
	for _, m := range socksUsed {
		for s := range m {
			distinct[s] = true
		}
		multi++
	}
	out.nontrivial = multi >= 2 && len(distinct) >= 2 && nameUsed
	if nameUsed {
		x.label("name-target")
	}
	if x.nameSessionsThroughDirect() >= 2 {
		x.label("two-name-sessions-through-direct-client")
	}
}

func sameAddr(a, b string) bool { return strings.EqualFold(a, b) }

func (x *exec) finishEvidence(out *outcome) {
	p := x.p
	out.labels = append(out.labels,
		"server:"+p.ServerProto, "client:"+p.ClientProto, "batch:"+p.BatchMode, "topology:"+p.Topology,
		fmt.Sprintf("sessions:%d", len(p.Sessions)))
	if p.ServerEIH {
		out.labels = append(out.labels, "server-eih")
	}
	if p.V6 {
		out.labels = append(out.labels, "ipv6-target")
	}
	if p.DropFirst != 0 {
		out.labels = append(out.labels, fmt.Sprintf("drop-first:%d", p.DropFirst), "drop-first:"+p.BatchMode)
	}
	if p.TargetOnly {
		out.labels = append(out.labels, "tunnel-target-only")
	}
	if p.Wildcard != "" {
		out.labels = append(out.labels, "wildcard-listener:"+p.Wildcard)
	}
	if p.ClientEIH {
		out.labels = append(out.labels, "client-eih")
	}
	for l := range x.gLabels {
		out.labels = append(out.labels, l)
	}
	arr := x.w.Arrivals()
	nrep := 0
	for _, c := range x.clients {
		nrep += len(c.Replies())
	}
	out.sample = map[string]any{"class": p.class(), "arrivals": len(arr), "replies": nrep, "liveMiss": len(x.liveMiss)}
	_ = binary.BigEndian
}

// failGap: development knob VERIF_C11_FAILGAP_MS - a fixed wait for the failing set-up to finish.
func failGap() time.Duration {
	var ms int
	fmt.Sscan(os.Getenv("VERIF_C11_FAILGAP_MS"), &ms)
	return time.Duration(ms) * time.Millisecond
}

// fdLinks lists what the open descriptors are (for the resources-after-stop message).
func fdLinks() []string {
	var out []string
	ents, _ := os.ReadDir("/proc/self/fd")
	for _, e := range ents {
		if l, err := os.Readlink("/proc/self/fd/" + e.Name()); err == nil {
			out = append(out, e.Name()+"="+l)
		}
	}
	return out
}
