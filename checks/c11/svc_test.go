package c11

// A local way to start the real service: udpsvc.Start renders exactly one outbound client, the round-6
// scenarios need additional clients (whose NewSession fails) and routes to them. startService takes the
// document udpsvc.Spec renders, lets the caller amend it, and then does what udpsvc.Start does: decode it
// like the program (unknown fields are errors), build the manager, run it, wait for the listeners.

import (
	"bytes"
	"context"
	"encoding/json"
	"errors"
	"fmt"
	"net/netip"
	"os"
	"sync"
	"time"

	"github.com/database64128/shadowsocks-go/service"
	"go.uber.org/zap"

	"verif/internal/udpsvc"
)

type svcHandle struct {
	JSON   []byte
	cancel context.CancelFunc
	done   chan struct{}
	ok     bool
	once   sync.Once
	stopAt time.Time
}

var errSvcNotBound = errors.New("listener did not come up")

func startService(sp *udpsvc.Spec, dir string, amend func(doc map[string]any)) (*svcHandle, error) {
	udpsvc.InstallResolver()
	for attempt := 0; ; attempt++ {
		s, err := startServiceOnce(sp, dir, amend)
		if err == nil {
			return s, nil
		}
		if attempt >= 3 || !errors.Is(err, errSvcNotBound) {
			return nil, err
		}
	}
}

func startServiceOnce(sp *udpsvc.Spec, dir string, amend func(doc map[string]any)) (*svcHandle, error) {
	lo := netip.MustParseAddr("127.0.0.1")
	p, err := udpsvc.FreePort(lo, false)
	if err != nil {
		return nil, err
	}
	sp.ServerAddr = netip.AddrPortFrom(lo, p)
	sp.RelayAddrs = []netip.AddrPort{sp.ServerAddr}
	if sp.ListenWildcard != "" {
		sp.RelayAddrs = append(sp.RelayAddrs, netip.AddrPortFrom(netip.MustParseAddr("127.0.0.2"), p), netip.AddrPortFrom(netip.MustParseAddr("127.0.0.3"), p))
	}
	if sp.ListenWildcard == "[::]" {
		// the dual-stack socket is reachable at ::1 as well
		sp.RelayAddrs = append(sp.RelayAddrs, netip.AddrPortFrom(netip.IPv6Loopback(), p))
	}
	if sp.Chain {
		hp, err := udpsvc.FreePort(lo, sp.ClientProto == "socks5")
		if err != nil {
			return nil, err
		}
		sp.HopAddr = netip.AddrPortFrom(lo, hp)
		sp.ClientEndpoint = sp.HopAddr.String()
	}
	raw, err := sp.ToJSON(dir)
	if err != nil {
		return nil, err
	}
	doc := raw
	if amend != nil {
		var m map[string]any
		if err := json.Unmarshal(raw, &m); err != nil {
			return nil, err
		}
		amend(m)
		if doc, err = json.MarshalIndent(m, "", " "); err != nil {
			return nil, err
		}
	}
	var cfg service.Config
	dec := json.NewDecoder(bytes.NewReader(doc))
	dec.DisallowUnknownFields()
	if err := dec.Decode(&cfg); err != nil {
		return nil, fmt.Errorf("config rejected by decoder: %w\n%s", err, doc)
	}
	mgr, err := cfg.Manager(svcLogger)
	if err != nil {
		return nil, fmt.Errorf("config rejected by Manager: %w\n%s", err, doc)
	}
	ctx, cancel := context.WithCancel(context.Background())
	s := &svcHandle{JSON: doc, cancel: cancel, done: make(chan struct{})}
	go func() {
		s.ok = mgr.Run(ctx)
		mgr.Close()
		close(s.done)
	}()
	ports := []uint16{sp.ServerAddr.Port()}
	if sp.Chain {
		ports = append(ports, sp.HopAddr.Port())
	}
	deadline := time.Now().Add(10 * time.Second)
	for {
		all := true
		for _, p := range ports {
			if !udpsvc.UDPPortBound(p) {
				all = false
			}
		}
		if all {
			return s, nil
		}
		select {
		case <-s.done:
			return nil, fmt.Errorf("%w: Run returned early (ok=%v)", errSvcNotBound, s.ok)
		default:
		}
		if time.Now().After(deadline) {
			s.cancel()
			<-s.done
			return nil, errSvcNotBound
		}
		time.Sleep(2 * time.Millisecond)
	}
}

func envSet(k string) bool { return os.Getenv(k) != "" }

var svcLogger = func() *zap.Logger {
	if envSet("VERIF_UDPSVC_LOG") {
		cfg := zap.NewDevelopmentConfig()
		cfg.DisableStacktrace = true // symbolising the first stack trace takes hundreds of milliseconds and distorts the timeline
		if l, err := cfg.Build(); err == nil {
			return l
		}
	}
	return zap.NewNop()
}()

// Stop cancels the run context (what the program does on SIGTERM), waits up to max for Run to return and
// reports how long it took.
func (s *svcHandle) Stop(max time.Duration) (time.Duration, bool) {
	s.once.Do(func() {
		s.stopAt = time.Now()
		s.cancel()
	})
	select {
	case <-s.done:
		return time.Since(s.stopAt), true
	case <-time.After(max):
		return time.Since(s.stopAt), false
	}
}
