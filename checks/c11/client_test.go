package c11

// hclient is the harness client session of the C11 scenarios. It is udpsvc.Client (which binds every
// socket to 127.0.0.1) re-written inside this check so that a session can sit on ::1 as well: the local
// address of a socket follows the address family of the relay address the session talks to, and
// SetServer opens a socket of the other family when the new relay address needs one (round 6, gap 3).

import (
	"net"
	"net/netip"
	"sync"
	"time"

	"verif/internal/udpsvc"
)

// hreply is one datagram that reached a client-side socket of the harness.
type hreply struct {
	SockIdx int            // which of the client's sockets (0 = first, +1 per address change)
	From    netip.AddrPort // the relay address the datagram left from
	Src     netip.AddrPort // source attached by the protocol (zero if none)
	Tag     udpsvc.Tag
	Err     error // protocol or payload decode error
	Len     int   // wire length
	PLen    int   // payload length after removing the protocol's framing
}

type hclient struct {
	ID     uint16
	Codec  udpsvc.ClientCodec
	Server netip.AddrPort
	world  *udpsvc.World

	mu      sync.Mutex
	cond    *sync.Cond
	socks   []*net.UDPConn
	seq     uint32
	sentOn  map[uint32]int // seq -> index of the socket that sent it
	replies []hreply
	got     map[uint32]int // seq -> number of well-formed replies
	wg      sync.WaitGroup
	Sent    int
	sentTo  map[uint32]int   // seq -> relay-address epoch in which it was first sent
	epochs  []netip.AddrPort // relay address of each epoch (a new epoch starts with every SetServer)
	nsent   map[uint32]int   // seq -> number of transmissions
	lastPkt []byte
	ackPkt  []byte            // wire bytes of the latest datagram that was echoed on its first transmission
	sent    map[uint32][2]int // seq -> (dest, fill) of the first transmission
	// extraTries: transmissions the next paced datagram may use on top of the usual ones - one per datagram
	// this socket sent into a set-up that fails (each may leave a dying entry that rightly swallows one datagram)
	extraTries int
}

// AddTries / TakeTries manage the credit described at extraTries.
func (c *hclient) AddTries(n int) { c.mu.Lock(); c.extraTries += n; c.mu.Unlock() }
func (c *hclient) TakeTries() int {
	c.mu.Lock()
	defer c.mu.Unlock()
	n := c.extraTries
	c.extraTries = 0
	return n
}

// newHClient opens the first socket of a session; server is the relay address it talks to first.
func newHClient(w *udpsvc.World, id uint16, codec udpsvc.ClientCodec, server netip.AddrPort) (*hclient, error) {
	c := &hclient{ID: id, Codec: codec, Server: server, world: w, sentOn: map[uint32]int{}, got: map[uint32]int{}, sent: map[uint32][2]int{},
		sentTo: map[uint32]int{}, nsent: map[uint32]int{}, epochs: []netip.AddrPort{server}}
	c.cond = sync.NewCond(&c.mu)
	if err := c.Rebind(); err != nil {
		return nil, err
	}
	return c, nil
}

func loopbackFor(server netip.AddrPort) netip.Addr {
	if server.Addr().Is6() && !server.Addr().Is4In6() {
		return netip.IPv6Loopback()
	}
	return netip.MustParseAddr("127.0.0.1")
}

// Rebind opens a fresh socket (same family as the current relay address); later datagrams leave from it.
func (c *hclient) Rebind() error {
	c.mu.Lock()
	local := loopbackFor(c.Server)
	c.mu.Unlock()
	s, err := net.ListenUDP("udp", net.UDPAddrFromAddrPort(netip.AddrPortFrom(local, 0)))
	if err != nil {
		return err
	}
	s.SetReadBuffer(4 << 20)
	c.mu.Lock()
	idx := len(c.socks)
	c.socks = append(c.socks, s)
	c.mu.Unlock()
	c.wg.Go(func() { c.recvLoop(idx, s) })
	return nil
}

func (c *hclient) NSocks() int { c.mu.Lock(); defer c.mu.Unlock(); return len(c.socks) }

func (c *hclient) LocalAddr(i int) netip.AddrPort {
	c.mu.Lock()
	defer c.mu.Unlock()
	return c.socks[i].LocalAddr().(*net.UDPAddr).AddrPort()
}

func (c *hclient) recvLoop(idx int, s *net.UDPConn) {
	buf := make([]byte, 65536)
	for {
		n, from, err := s.ReadFromUDPAddrPort(buf)
		if err != nil {
			return
		}
		from = netip.AddrPortFrom(from.Addr().Unmap(), from.Port())
		r := hreply{SockIdx: idx, From: from, Len: n}
		src, payload, err := c.Codec.Unpack(buf[:n], from)
		if err != nil {
			r.Err = err
		} else {
			r.Src = netip.AddrPortFrom(src.Addr().Unmap(), src.Port())
			r.PLen = len(payload)
			r.Tag, r.Err = udpsvc.DecodePayload(payload)
		}
		c.mu.Lock()
		c.replies = append(c.replies, r)
		if r.Err == nil && r.Tag.Session == c.ID && r.Tag.Kind == udpsvc.KindReply {
			c.got[r.Tag.Seq]++
		}
		c.cond.Broadcast()
		c.mu.Unlock()
	}
}

func (c *hclient) NextSeq() uint32 { c.mu.Lock(); defer c.mu.Unlock(); c.seq++; return c.seq }

func (c *hclient) pack(seq uint32, dest, fill int) ([]byte, error) {
	tag := udpsvc.Tag{Kind: udpsvc.KindRequest, Scenario: c.world.Scenario, Session: c.ID, Seq: seq, Target: uint16(dest), Responder: udpsvc.NoResponder, Fill: uint16(fill)}
	return c.Codec.Pack(c.world.DestAddr(dest), udpsvc.EncodePayload(nil, tag))
}

// Send emits one datagram with the given seq to dest from the current socket.
func (c *hclient) Send(seq uint32, dest int, fill int) error {
	pkt, err := c.pack(seq, dest, fill)
	if err != nil {
		return err
	}
	c.mu.Lock()
	idx := len(c.socks) - 1
	s := c.socks[idx]
	if _, ok := c.sentOn[seq]; !ok {
		c.sentOn[seq] = idx
		c.sent[seq] = [2]int{dest, fill}
		c.sentTo[seq] = len(c.epochs) - 1
	}
	c.nsent[seq]++
	c.Sent++
	c.lastPkt = pkt
	server := c.Server
	c.mu.Unlock()
	_, err = s.WriteToUDPAddrPort(pkt, server)
	return err
}

// Burst packs one datagram per entry of dests first and then writes them back to back.
func (c *hclient) Burst(dests []int, fill int) {
	fills := make([]int, len(dests))
	for i := range fills {
		fills[i] = fill
	}
	c.BurstFills(dests, fills)
}

// BurstFills is Burst with one filler length per datagram. It returns the seq of the first datagram.
func (c *hclient) BurstFills(dests []int, fills []int) {
	pkts := make([][]byte, 0, len(dests))
	c.mu.Lock()
	idx := len(c.socks) - 1
	s := c.socks[idx]
	c.mu.Unlock()
	for i, dest := range dests {
		fill := fills[i]
		seq := c.NextSeq()
		pkt, err := c.pack(seq, dest, fill)
		if err != nil {
			continue
		}
		c.mu.Lock()
		c.sentOn[seq] = idx
		c.sent[seq] = [2]int{dest, fill}
		c.sentTo[seq] = len(c.epochs) - 1
		c.nsent[seq]++
		c.Sent++
		c.mu.Unlock()
		pkts = append(pkts, pkt)
	}
	c.mu.Lock()
	server := c.Server
	c.mu.Unlock()
	for _, pkt := range pkts {
		s.WriteToUDPAddrPort(pkt, server)
	}
}

// SendRaw emits arbitrary bytes from the current socket.
func (c *hclient) SendRaw(b []byte) error {
	c.mu.Lock()
	s := c.socks[len(c.socks)-1]
	server := c.Server
	c.mu.Unlock()
	_, err := s.WriteToUDPAddrPort(b, server)
	return err
}

func (c *hclient) WaitReply(seq uint32, d time.Duration) bool {
	deadline := time.Now().Add(d)
	t := time.AfterFunc(d, func() { c.mu.Lock(); c.cond.Broadcast(); c.mu.Unlock() })
	defer t.Stop()
	c.mu.Lock()
	defer c.mu.Unlock()
	for c.got[seq] == 0 {
		if !time.Now().Before(deadline) {
			return false
		}
		c.cond.Wait()
	}
	return true
}

// Paced sends one datagram and waits up to wait for its echo, retrying (same seq) up to tries times.
func (c *hclient) Paced(dest, fill int, wait time.Duration, tries int) (seq uint32, ok bool, attempts int) {
	seq = c.NextSeq()
	for attempts < tries {
		attempts++
		if err := c.Send(seq, dest, fill); err != nil {
			continue
		}
		if c.WaitReply(seq, wait) {
			if attempts == 1 {
				c.mu.Lock()
				c.ackPkt = c.lastPkt
				c.mu.Unlock()
			}
			return seq, true, attempts
		}
	}
	return seq, false, attempts
}

func (c *hclient) Replies() []hreply {
	c.mu.Lock()
	defer c.mu.Unlock()
	return append([]hreply(nil), c.replies...)
}

func (c *hclient) SentOn(seq uint32) (int, bool) {
	c.mu.Lock()
	defer c.mu.Unlock()
	i, ok := c.sentOn[seq]
	return i, ok
}

func (c *hclient) ReplyCount(seq uint32) int { c.mu.Lock(); defer c.mu.Unlock(); return c.got[seq] }

// SetServer makes later datagrams go to another client-facing address of the relay (new epoch). When the
// address is of the other family than the current socket, a socket of that family is opened (for an
// address-keyed relay that is a new session, for ss2022 the same session from a new address).
func (c *hclient) SetServer(a netip.AddrPort) (newSocket bool) {
	c.mu.Lock()
	cur := c.socks[len(c.socks)-1].LocalAddr().(*net.UDPAddr).AddrPort().Addr().Unmap()
	c.Server = a
	c.epochs = append(c.epochs, a)
	c.mu.Unlock()
	if cur.Is4() != loopbackFor(a).Is4() {
		if c.Rebind() == nil {
			return true
		}
	}
	return false
}

// CurrentServer returns the relay address the session talks to now.
func (c *hclient) CurrentServer() netip.AddrPort { c.mu.Lock(); defer c.mu.Unlock(); return c.Server }

func (c *hclient) SentTo(seq uint32) int { c.mu.Lock(); defer c.mu.Unlock(); return c.sentTo[seq] }
func (c *hclient) Epochs() []netip.AddrPort {
	c.mu.Lock()
	defer c.mu.Unlock()
	return append([]netip.AddrPort(nil), c.epochs...)
}

func (c *hclient) Transmissions(seq uint32) int {
	c.mu.Lock()
	defer c.mu.Unlock()
	return c.nsent[seq]
}

func (c *hclient) SentInfo(seq uint32) (dest, fill int, ok bool) {
	c.mu.Lock()
	defer c.mu.Unlock()
	v, ok := c.sent[seq]
	return v[0], v[1], ok
}

func (c *hclient) AckedPacket() []byte {
	c.mu.Lock()
	defer c.mu.Unlock()
	return append([]byte(nil), c.ackPkt...)
}

func (c *hclient) MaxSeq() uint32 { c.mu.Lock(); defer c.mu.Unlock(); return c.seq }

func (c *hclient) Close() {
	c.mu.Lock()
	ss := append([]*net.UDPConn(nil), c.socks...)
	c.mu.Unlock()
	for _, s := range ss {
		s.Close()
	}
	c.wg.Wait()
}
