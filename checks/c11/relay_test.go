package c11

import (
	"encoding/json"
	"fmt"
	"os"
	"path/filepath"
	"strings"
	"testing"
	"time"

	"pgregory.net/rapid"

	"verif/internal/ev"
)

const sigSharedPacker = "shared-direct-packer-race"

var recRelay = ev.New("C11", "relay-scenarios",
	"rapid: one scenario = real service on loopback built from generated JSON (server protocol x client protocol x batch mode x "+
		"topology {direct out, harness upstream proxy, chained second server}), 1..8 concurrent client sessions driven by the harness through "+
		"the server protocol, 2..4 target sockets with the SAME port on different loopback IPs plus 1..3 names resolved by an owned resolver "+
		"with scripted delays, paced and burst traffic, client address changes, garbage/unauthenticated/replayed datagrams (fenced and interleaved), "+
		"replies from non-target sources; (round 6) first datagrams of a socket/session for which no relay session can be set up, then valid traffic from the same socket; "+
		"2..6 established sessions bursting 20..200 datagrams each at the same time right after failed set-ups (exactly-once); sessions on different local addresses "+
		"(127.0.0.1/.2/.3, ::1) of a wildcard listener with another client's datagrams between a session's datagram and its replies. Oracle: tagged payloads (session, seq, intended destination, checksum) judged at every harness-owned socket. "+
		"Non-trivial: >=2 concurrent sessions reaching different target sockets with >=1 destination addressed by name; distinct key = configuration class").
	Require("name-target", "ss2022-address-change", "fenced-garbage", "topology:peer", "topology:direct", "batch:no", "batch:sendmmsg",
		"tour:name-to-other-name", "tour:name-to-failing-name:servfail", "tour:name-to-failing-name:nxdomain", "tour:failing-name-now-resolvable",
		"tour:name-to-ip", "tour:ip-to-name", "tour:same-name-other-port", "drop-first:sendmmsg", "tunnel-target-only",
		"garbage-first-then-valid-same-socket", "garbage-first:no", "garbage-first:sendmmsg",
		"relay-switch:ss2022:sendmmsg", "relay-switch:ss2022:no", "relay-switch:nat:sendmmsg", "relay-switch:nat:no",
		"burst-with-unsendable:sendmmsg", "burst-with-unsendable:no",
		"backlog-exceeds-relay-batch:sendmmsg", "send-channel-overflow:no", "send-channel-overflow:sendmmsg",
		"batch>send-channel-capacity/backlog>=capacity").
	// round 6: set-ups that fail (router rejects / the route's client cannot create a session / the default client's
	// upstream is unavailable for a while) followed by valid traffic from the same socket or session; bursts of several
	// established sessions right after failed set-ups; clients on different local addresses of a wildcard listener
	Require("setup-fail-then-valid:reject:nat:no", "setup-fail-then-valid:reject:nat:sendmmsg", "setup-fail-then-valid:reject:ss2022:no", "setup-fail-then-valid:reject:ss2022:sendmmsg",
		"setup-fail-then-valid:badclient:nat:no", "setup-fail-then-valid:badclient:nat:sendmmsg", "setup-fail-then-valid:badclient:ss2022:no", "setup-fail-then-valid:badclient:ss2022:sendmmsg",
		"setup-fail-then-valid:upstream-down:nat:no", "setup-fail-then-valid:upstream-down:nat:sendmmsg", "setup-fail-then-valid:upstream-down:ss2022:no", "setup-fail-then-valid:upstream-down:ss2022:sendmmsg",
		"setup-fail-then-valid:badclient:none-nxname", "setup-fail-then-valid:badclient:ss2022-nxname", "setup-fail-then-valid:badclient:socks5-dead", "setup-fail-then-valid:tunnel-server",
		"crowd-after-failed-setup:nat:no", "crowd-after-failed-setup:nat:sendmmsg", "crowd-after-failed-setup:ss2022:no", "crowd-after-failed-setup:ss2022:sendmmsg",
		"crowd:clients>=4", "crowd:datagrams-in-flight>=400",
		"pktinfo-interleave:nat:no", "pktinfo-interleave:nat:sendmmsg", "pktinfo-interleave:ss2022:no", "pktinfo-interleave:ss2022:sendmmsg",
		"pktinfo-interleave:v4+v6:no", "pktinfo-interleave:v4+v6:sendmmsg", "sessions-on-127.0.0.x-and-::1:no", "sessions-on-127.0.0.x-and-::1:sendmmsg")

func workDir(t interface{ TempDir() string }) string {
	if d := os.Getenv("VERIF_WORK"); d != "" {
		return d
	}
	return t.TempDir()
}

func journalPath(name string) string {
	d := os.Getenv("VERIF_WORK")
	if d == "" {
		return ""
	}
	return filepath.Join(d, fmt.Sprintf("journal-%s-%d.json", name, os.Getpid()))
}

func writeJournal(name string, v any) func() {
	p := journalPath(name)
	if p == "" {
		return func() {}
	}
	b, _ := json.Marshal(v)
	os.WriteFile(p, b, 0o644)
	return func() { os.Remove(p) }
}

// checkPlan runs a plan, applies the retry-once rule to missed liveness bounds and reports.
func checkPlan(t interface {
	Fatalf(string, ...any)
	Logf(string, ...any)
}, p *plan, dir string) {
	done := writeJournal("c11", p)
	out := runPlan(p, dir)
	if out.setupErr == nil && out.violation == "" && len(out.liveMiss) > 0 {
		recRelay.Label("liveness-retried", 1)
		if os.Getenv("VERIF_DEBUG") != "" {
			pj, _ := json.Marshal(p)
			fmt.Fprintf(os.Stderr, "C11 liveness miss (will retry): %v\nplan=%s\n", out.liveMiss, pj)
		}
		first := out.liveMiss
		out = runPlan(p, dir)
		if out.setupErr == nil && out.violation == "" && len(out.liveMiss) > 0 {
			sig, what := "paced-no-reply", "paced datagrams got no echo"
			for _, lost := range []string{"backlog-datagram-lost", "crowd-datagram-lost"} {
				if strings.HasPrefix(first[0], lost) && strings.HasPrefix(out.liveMiss[0], lost) {
					sig, what = lost, "datagrams that fitted the send channel never reached their destination"
				}
			}
			out.violation = fmt.Sprintf("SIG=C11/%s %s in two runs of the scenario; first run: %v; second run: %v", sig, what, first, out.liveMiss)
		}
	}
	done()
	if out.setupErr != nil {
		// the harness could not build the scenario (ports, sockets): not a verdict about the relay
		recRelay.Label("setup-failed", 1)
		fmt.Fprintf(os.Stderr, "C11 scenario setup failed (no verdict): %v\n", out.setupErr)
		t.Logf("scenario setup failed: %v", out.setupErr)
		return
	}
	if out.violation != "" {
		sig := strings.TrimPrefix(strings.Fields(out.violation)[0], "SIG=C11/")
		if ev.IsKnown("C11", sig) {
			recRelay.KnownHit(sig)
			recRelay.Label("known:"+sig+":"+out.detector, 1)
			return
		}
		pj, _ := json.Marshal(p)
		t.Fatalf("%s\nplan=%s", out.violation, pj)
	}
	recRelay.Case(p.class(), out.nontrivial, out.labels...)
	if out.nontrivial {
		recRelay.Sample(out.sample)
	}
}

func TestRelayScenarios(t *testing.T) {
	dir := workDir(t)
	rapid.Check(t, func(rt *rapid.T) {
		p := drawPlan(rt)
		checkPlan(rt, p, dir)
	})
}

// TestReplayC11 re-runs a journaled plan (written before execution; kept by the driver when the
// process died).
func TestReplayC11(t *testing.T) {
	f := os.Getenv("VERIF_REPLAY")
	if f == "" {
		t.Skip("VERIF_REPLAY not set")
	}
	b, err := os.ReadFile(f)
	if err != nil {
		t.Fatal(err)
	}
	var p plan
	if err := json.Unmarshal(b, &p); err != nil {
		t.Skipf("not a C11 plan: %v", err)
	}
	if p.ServerProto == "" {
		t.Skip("not a C11 relay plan")
	}
	checkPlan(t, &p, t.TempDir())
}

// fixedPlans are regression plans that do not depend on the generator:
//   - a single session walking through several targets with a failing lookup in between (direct client:
//     the packer's resolution cache must not send "B" to A's address after B failed to resolve);
//   - a reply that the relay has to drop immediately followed by the genuine echo, many rounds, on the
//     sendmmsg downlink (the dropped datagram and the genuine one tend to share a recvmmsg batch: the
//     send vector must be compacted correctly) and, for comparison, on the generic one.
func fixedPlans() []*plan {
	dests := func() []planDest {
		return []planDest{{Sock: 0}, {Sock: 1}, {Sock: 2}, {Sock: 0, Name: true}, {Sock: 1, Name: true, DelayMs: 3}}
	}
	tourPlan := func(seed uint64, server, batch, client, topo, fail string) *plan {
		d := append(dests(), planDest{Sock: 1, Name: true, Flaky: true, Fail: fail}, planDest{Sock: 0, Name: true, AltPort: true, SameAs: 3})
		return &plan{Seed: seed, ServerProto: server, BatchMode: batch, ClientProto: client, Topology: topo, NSock: 3, Dests: d,
			Sessions: []planSession{
				{A: []planOp{{Kind: "paced", Dest: 3, Alt: 3, N: 1}, {Kind: "tour", Fill: 40, Tour: &tourStops{A: 3, B: 4, F: 5, IP: 2, AP: 6}}},
					B: []planOp{{Kind: "tour", Fill: 300, Tour: &tourStops{A: 4, B: 3, F: 5, IP: 0, AP: 6}}}},
				{A: []planOp{{Kind: "paced", Dest: 4, Alt: 1, N: 3}}, B: []planOp{{Kind: "paced", Dest: 1, Alt: 4, N: 3}}},
			}}
	}
	dropPlan := func(seed uint64, server, batch string, mode int, targetOnly bool) *plan {
		p := &plan{Seed: seed, ServerProto: server, BatchMode: batch, ClientProto: "direct", Topology: "direct", NSock: 3, Dests: dests(),
			DropFirst: mode, TargetOnly: targetOnly, TunnelDest: 1,
			Sessions: []planSession{
				{A: []planOp{{Kind: "paced", Dest: 0, Alt: 1, N: 60, Fill: 20}}, B: []planOp{{Kind: "paced", Dest: 1, Alt: 0, N: 20, Fill: 700}}},
				{A: []planOp{{Kind: "paced", Dest: 2, Alt: 2, N: 60, Fill: 0}}, B: []planOp{{Kind: "paced", Dest: 2, Alt: 0, N: 20, Fill: 100}}},
			}}
		if server == "direct" {
			for i := range p.Sessions {
				for _, ops := range [][]planOp{p.Sessions[i].A, p.Sessions[i].B} {
					for j := range ops {
						ops[j].Dest, ops[j].Alt = 1, 1
					}
				}
			}
		}
		return p
	}
	// the first datagram from each client address is garbage; then valid traffic, a rebind (garbage first
	// again on the new socket), valid traffic
	garbageFirstPlan := func(seed uint64, server, batch string, kind int) *plan {
		return &plan{Seed: seed, ServerProto: server, BatchMode: batch, ClientProto: "direct", Topology: "direct", NSock: 3, Dests: dests(),
			Sessions: []planSession{
				{GarbageFirst: kind, A: []planOp{{Kind: "paced", Dest: 0, Alt: 3, N: 3, Fill: 10}, {Kind: "rebind"}, {Kind: "paced", Dest: 1, Alt: 1, N: 2}},
					B: []planOp{{Kind: "paced", Dest: 4, Alt: 0, N: 2, Fill: 200}}},
				{GarbageFirst: kind, A: []planOp{{Kind: "paced", Dest: 2, Alt: 2, N: 2}}, B: []planOp{{Kind: "rebind"}, {Kind: "paced", Dest: 2, Alt: 4, N: 2}}},
				{A: []planOp{{Kind: "paced", Dest: 1, Alt: 1, N: 2}}},
			}}
	}
	// one live session talks to relay address A, switches to B (one echo, then a reply burst), then to C
	relaySwitchPlan := func(seed uint64, server, batch, wildcard string) *plan {
		p := &plan{Seed: seed, ServerProto: server, BatchMode: batch, ClientProto: "direct", Topology: "direct", NSock: 3, Dests: dests(), Wildcard: wildcard, TunnelDest: 1,
			Sessions: []planSession{
				{A: []planOp{{Kind: "paced", Dest: 0, Alt: 0, N: 2}, {Kind: "relayswitch", Dest: 0, N: 24, Fill: 30}, {Kind: "paced", Dest: 0, Alt: 0, N: 1}, {Kind: "relayswitch", Dest: 0, N: 32}},
					B: []planOp{{Kind: "burst", Dest: 0, Alt: 0, N: 16}, {Kind: "relayswitch", Dest: 0, N: 12, Fill: 500}}},
				{A: []planOp{{Kind: "paced", Dest: 2, Alt: 2, N: 1}, {Kind: "relayswitch", Dest: 2, N: 20}}, B: []planOp{{Kind: "paced", Dest: 2, Alt: 2, N: 2}}},
			}}
		if server == "direct" {
			for i := range p.Sessions {
				for _, ops := range [][]planOp{p.Sessions[i].A, p.Sessions[i].B} {
					for j := range ops {
						ops[j].Dest, ops[j].Alt = 1, 1
					}
				}
			}
		}
		return p
	}
	// new client sockets whose first datagrams come as one burst, some of them unsendable (target port 0)
	unsendablePlan := func(seed uint64, server, batch string) *plan {
		d := append(dests(), planDest{Sock: 0, Port0: true})
		return &plan{Seed: seed, ServerProto: server, BatchMode: batch, ClientProto: "direct", Topology: "direct", NSock: 3, Dests: d,
			Sessions: []planSession{
				{A: []planOp{{Kind: "freshburst", Dest: 0, Alt: 5, N: 24, Fill: 10}, {Kind: "freshburst", Dest: 1, Alt: 5, N: 40, Fill: 300}},
					B: []planOp{{Kind: "freshburst", Dest: 3, Alt: 5, N: 12}}},
				{A: []planOp{{Kind: "paced", Dest: 2, Alt: 2, N: 1}, {Kind: "freshburst", Dest: 2, Alt: 5, N: 30, Fill: 64}}, B: []planOp{{Kind: "freshburst", Dest: 2, Alt: 5, N: 8}}},
			}}
	}
	// the resolver holds the answer for a name: the session's uplink waits while k more datagrams arrive
	backlogPlan := func(seed uint64, server, batch string, relayBatch, capacity, k int) *plan {
		d := append(dests(), planDest{Sock: 2, Name: true, Gated: true}, planDest{Sock: 0, Name: true, Gated: true})
		return &plan{Seed: seed, ServerProto: server, BatchMode: batch, RelayBatch: relayBatch, SendChanCap: capacity, ClientProto: "direct", Topology: "direct", NSock: 3, Dests: d,
			Sessions: []planSession{
				{A: []planOp{{Kind: "paced", Dest: 0, Alt: 0, N: 1}, {Kind: "backlog", Dest: 1, Alt: 5, Prime: 3, N: k, Fill: 20}},
					B: []planOp{{Kind: "backlog", Dest: 0, Alt: 5, Prime: 4, N: k + 7, Fill: 400}}},
				{A: []planOp{{Kind: "paced", Dest: 2, Alt: 2, N: 1}, {Kind: "backlog", Dest: 2, Alt: 6, Prime: 4, N: k / 2, Fill: 0}}, B: []planOp{{Kind: "paced", Dest: 2, Alt: 3, N: 2}}},
			}}
	}
	ss := "2022-blake3-aes-128-gcm"
	return []*plan{
		tourPlan(1, "socks5", "no", "direct", "direct", "servfail"),
		tourPlan(2, "none", "sendmmsg", "direct", "direct", "nxdomain"),
		tourPlan(3, ss, "sendmmsg", "none", "chain", "servfail"),
		dropPlan(11, "socks5", "sendmmsg", 1, false),
		dropPlan(12, ss, "sendmmsg", 1, false),
		dropPlan(13, "none", "sendmmsg", 2, false),
		dropPlan(14, "direct", "sendmmsg", 3, true),
		dropPlan(15, "socks5", "no", 1, false),
		garbageFirstPlan(21, "socks5", "no", 3),       // FRAG != 0
		garbageFirstPlan(22, "socks5", "sendmmsg", 2), // 2 bytes
		garbageFirstPlan(23, "none", "sendmmsg", 5),   // truncated address
		garbageFirstPlan(24, "none", "no", 1),         // empty datagram
		garbageFirstPlan(25, ss, "no", 1),             // own packet, damaged body
		garbageFirstPlan(26, ss, "sendmmsg", 1),
		relaySwitchPlan(31, ss, "sendmmsg", "0.0.0.0"),
		relaySwitchPlan(32, ss, "sendmmsg", "[::]"),
		relaySwitchPlan(33, ss, "no", "0.0.0.0"),
		relaySwitchPlan(34, "socks5", "sendmmsg", "[::]"),
		relaySwitchPlan(35, "none", "no", "0.0.0.0"),
		relaySwitchPlan(36, "direct", "sendmmsg", "0.0.0.0"),
		unsendablePlan(41, "socks5", "sendmmsg"),
		unsendablePlan(42, "none", "sendmmsg"),
		unsendablePlan(43, ss, "sendmmsg"),
		unsendablePlan(44, "socks5", "no"),
		backlogPlan(51, "socks5", "sendmmsg", 4, 0, 40),
		backlogPlan(52, "none", "sendmmsg", 16, 64, 60),
		backlogPlan(53, ss, "sendmmsg", 8, 0, 50),
		backlogPlan(54, "socks5", "sendmmsg", 8, 64, 100),
		backlogPlan(55, "socks5", "no", 0, 64, 100),
		backlogPlan(56, "none", "no", 0, 64, 90),
		backlogPlan(57, ss, "no", 0, 64, 100),
		// send channel capacity (64) smaller than the relay batch size (default 256, 128, 1024), backlog >= capacity
		backlogPlan(58, "socks5", "sendmmsg", 0, 64, 100),
		backlogPlan(59, "none", "sendmmsg", 128, 64, 70),
		backlogPlan(60, ss, "sendmmsg", 1024, 64, 64),
	}
}

// fixedPlansRound6 pin the round-6 classes (set-ups that fail, crowds after failed set-ups, clients on
// different local addresses of a wildcard listener) for every relay kind and batch mode.
func fixedPlansRound6() []*plan {
	dests := func() []planDest {
		return []planDest{{Sock: 0}, {Sock: 1}, {Sock: 2}, {Sock: 0, Name: true}, {Sock: 1, Name: true, DelayMs: 3}}
	}
	// dests 0..4 as above, 5 = reject (alt port of target 0), 6 = bad client (alt port of target 1)
	failDests := func() []planDest {
		return append(dests(), planDest{Sock: 0, AltPort: true, SetupFail: "reject"}, planDest{Sock: 1, AltPort: true, SetupFail: "badclient"})
	}
	withFailDests := func(p *plan, bad string) *plan {
		if p.ServerProto != "direct" {
			p.Dests, p.RejectDest, p.BadDest, p.BadClient = failDests(), 5, 6, bad
		}
		return p
	}
	tunnelise := func(p *plan) *plan {
		if p.ServerProto == "direct" {
			for i := range p.Sessions {
				p.Sessions[i].D1, p.Sessions[i].D2 = p.TunnelDest, p.TunnelDest
				for _, ops := range [][]planOp{p.Sessions[i].A, p.Sessions[i].B} {
					for j := range ops {
						ops[j].Dest, ops[j].Alt = p.TunnelDest, p.TunnelDest
					}
				}
			}
		}
		return p
	}
	// the first datagram of every client socket (ss2022: of the session) cannot get a relay session; valid
	// traffic follows from the same socket; new sockets (rebind, fresh burst) start the same way
	setupFailPlan := func(seed uint64, server, batch, client, topo, bad string) *plan {
		p := &plan{Seed: seed, ServerProto: server, BatchMode: batch, ClientProto: client, Topology: topo, NSock: 3,
			Sessions: []planSession{
				{FailFirst: failReject, D1: 0, D2: 3, A: []planOp{{Kind: "paced", Dest: 0, Alt: 3, N: 3, Fill: 10}, {Kind: "rebind"}, {Kind: "paced", Dest: 1, Alt: 1, N: 2}},
					B: []planOp{{Kind: "paced", Dest: 4, Alt: 0, N: 2, Fill: 200}}},
				{FailFirst: failBadClient, D1: 2, D2: 2, A: []planOp{{Kind: "paced", Dest: 2, Alt: 2, N: 2}}, B: []planOp{{Kind: "rebind"}, {Kind: "paced", Dest: 2, Alt: 4, N: 2}}},
				{FailFirst: failBadClient, GarbageFirst: 1, D1: 1, D2: 3, A: []planOp{{Kind: "paced", Dest: 1, Alt: 3, N: 2}, {Kind: "burst", Dest: 1, Alt: 3, N: 12}}, B: []planOp{{Kind: "paced", Dest: 3, Alt: 1, N: 2}}},
				{FailFirst: failReject, D1: 4, D2: 0, A: []planOp{{Kind: "burst", Dest: 4, Alt: 0, N: 8}, {Kind: "paced", Dest: 4, Alt: 0, N: 2}}},
				{D1: 1, D2: 1, A: []planOp{{Kind: "paced", Dest: 1, Alt: 1, N: 2}}},
			}}
		return withFailDests(p, bad)
	}
	// the default client's upstream is unavailable while the first datagrams of some sessions arrive
	upstreamDownPlan := func(seed uint64, server, batch, client, upFail string) *plan {
		p := &plan{Seed: seed, ServerProto: server, BatchMode: batch, ClientProto: client, Topology: "peer", UpName: true, UpFail: upFail, NSock: 3, Dests: dests(), TunnelDest: 3,
			Sessions: []planSession{
				{FailFirst: failUpstreamDown, D1: 0, D2: 3, A: []planOp{{Kind: "paced", Dest: 0, Alt: 3, N: 3, Fill: 10}}, B: []planOp{{Kind: "paced", Dest: 4, Alt: 0, N: 2, Fill: 200}}},
				{FailFirst: failUpstreamDown, D1: 2, D2: 2, A: []planOp{{Kind: "paced", Dest: 2, Alt: 2, N: 2}, {Kind: "burst", Dest: 2, Alt: 2, N: 10}}, B: []planOp{{Kind: "paced", Dest: 2, Alt: 4, N: 2}}},
				{D1: 1, D2: 1, A: []planOp{{Kind: "paced", Dest: 1, Alt: 1, N: 2}}},
			},
			Crowd: &planCrowd{Clients: 3, N: []int{40, 64, 20}, Fails: 2, FailKind: failUpstreamDown, Fill: 100}}
		return tunnelise(p)
	}
	// failed set-ups, then six established sessions burst together
	crowdPlan := func(seed uint64, server, batch, client, topo string, kind int, bad, wildcard string, capacity int) *plan {
		p := &plan{Seed: seed, ServerProto: server, BatchMode: batch, ClientProto: client, Topology: topo, NSock: 3, Dests: dests(), TunnelDest: 1, Wildcard: wildcard, SendChanCap: capacity,
			Crowd: &planCrowd{Clients: 6, N: []int{200, 150, 100, 65, 64, 33}, Fails: 3, FailKind: kind, Fill: 20, GapMs: int(seed % 2)}}
		for i := 0; i < 6; i++ {
			d1, d2 := i%3, (i+1)%3
			if i == 4 {
				d1, d2 = 3, 4 // two names
			}
			p.Sessions = append(p.Sessions, planSession{Home: i, D1: d1, D2: d2, A: []planOp{{Kind: "paced", Dest: d1, Alt: d2, N: 2, Fill: 30 * i}}, B: []planOp{{Kind: "paced", Dest: d2, Alt: d1, N: 1}}})
		}
		if topo == "peer" {
			p.UpName, p.UpFail = true, "nxdomain"
		}
		return tunnelise(withFailDests(p, bad))
	}
	// clients on different local addresses of a wildcard listener; another client's datagram between a
	// session's datagram and further replies for that session
	interleavePlan := func(seed uint64, server, batch, wildcard string) *plan {
		p := &plan{Seed: seed, ServerProto: server, BatchMode: batch, ClientProto: "direct", Topology: "direct", NSock: 3, Dests: dests(), Wildcard: wildcard, TunnelDest: 1,
			Sessions: []planSession{
				{Home: 0, D1: 0, D2: 0, A: []planOp{{Kind: "paced", Dest: 0, Alt: 0, N: 2}, {Kind: "interleave", Dest: 0, Alt: 0, N: 16, Fill: 30}, {Kind: "burst", Dest: 0, Alt: 1, N: 16}},
					B: []planOp{{Kind: "interleave", Dest: 0, Alt: 0, N: 8, Fill: 500}, {Kind: "relayswitch", Dest: 0, N: 12}, {Kind: "interleave", Dest: 0, Alt: 0, N: 6}}},
				{Home: 3, D1: 2, D2: 2, A: []planOp{{Kind: "paced", Dest: 2, Alt: 2, N: 1}, {Kind: "interleave", Dest: 2, Alt: 2, N: 20}, {Kind: "burst", Dest: 2, Alt: 2, N: 16}}, B: []planOp{{Kind: "paced", Dest: 2, Alt: 2, N: 2}}},
				{Home: 1, D1: 1, D2: 3, A: []planOp{{Kind: "paced", Dest: 1, Alt: 3, N: 2}, {Kind: "burst", Dest: 1, Alt: 3, N: 16}}, B: []planOp{{Kind: "interleave", Dest: 1, Alt: 1, N: 10}}},
			}}
		return tunnelise(p)
	}
	ss := "2022-blake3-aes-128-gcm"
	ss256 := "2022-blake3-aes-256-gcm"
	return []*plan{
		setupFailPlan(61, "socks5", "no", "direct", "direct", "none-nxname"),
		setupFailPlan(62, "none", "sendmmsg", "direct", "direct", "socks5-dead"),
		setupFailPlan(63, ss, "no", "direct", "direct", "ss2022-nxname"),
		setupFailPlan(64, ss256, "sendmmsg", "none", "peer", "socks5-dead"),
		setupFailPlan(65, "socks5", "sendmmsg", "none", "chain", "ss2022-nxname"),
		setupFailPlan(66, "none", "no", "socks5", "peer", "none-nxname"),
		upstreamDownPlan(71, "direct", "no", "none", "nxdomain"),
		upstreamDownPlan(72, "direct", "sendmmsg", "socks5", "assoc-failure"),
		upstreamDownPlan(73, "socks5", "sendmmsg", ss, "servfail"),
		upstreamDownPlan(74, "none", "no", "socks5", "nxdomain"),
		upstreamDownPlan(75, ss, "no", "none", "servfail"),
		upstreamDownPlan(76, ss, "sendmmsg", "socks5", "assoc-failure"),
		crowdPlan(81, "socks5", "no", "direct", "direct", failReject, "none-nxname", "[::]", 0),
		crowdPlan(82, "none", "sendmmsg", "direct", "direct", failBadClient, "socks5-dead", "0.0.0.0", 0),
		crowdPlan(83, ss, "no", "direct", "direct", failBadClient, "ss2022-nxname", "", 64),
		crowdPlan(84, ss, "sendmmsg", "direct", "direct", failReject, "none-nxname", "[::]", 0),
		crowdPlan(85, "direct", "sendmmsg", "none", "peer", failUpstreamDown, "", "[::]", 0),
		crowdPlan(86, "direct", "no", "socks5", "peer", failUpstreamDown, "", "", 64),
		crowdPlan(87, "socks5", "sendmmsg", "none", "chain", failBadClient, "none-nxname", "", 0),
		interleavePlan(91, ss, "sendmmsg", "[::]"),
		interleavePlan(92, ss, "no", "[::]"),
		interleavePlan(93, "socks5", "sendmmsg", "[::]"),
		interleavePlan(94, "none", "no", "[::]"),
		interleavePlan(95, "direct", "sendmmsg", "0.0.0.0"),
		interleavePlan(96, "socks5", "no", "0.0.0.0"),
	}
}

func TestFixedRegressions(t *testing.T) { runFixed(t, fixedPlans()) }

// TestFixedRound6 runs the round-6 plans (a job of the race stage as well).
func TestFixedRound6(t *testing.T) { runFixed(t, fixedPlansRound6()) }

func runFixed(t *testing.T, plans []*plan) {
	dir := workDir(t)
	only := os.Getenv("VERIF_C11_FIXED") // development: comma separated plan seeds
	for i, p := range plans {
		if only != "" && !strings.Contains(","+only+",", fmt.Sprintf(",%d,", p.Seed)) {
			continue
		}
		before := t.Failed()
		t0 := time.Now()
		checkPlan(t, p, dir)
		if os.Getenv("VERIF_DEBUG") != "" {
			fmt.Fprintf(os.Stderr, "fixed plan %d (%s/%s seed %d): %v\n", i, p.ServerProto, p.BatchMode, p.Seed, time.Since(t0).Round(time.Millisecond))
		}
		if !before && t.Failed() {
			t.Fatalf("fixed plan %d failed", i)
		}
	}
}
