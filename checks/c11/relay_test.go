package c11

import (
	"encoding/json"
	"fmt"
	"os"
	"path/filepath"
	"strings"
	"testing"

	"pgregory.net/rapid"

	"verif/internal/ev"
)

const sigSharedPacker = "shared-direct-packer-race"

var recRelay = ev.New("C11", "relay-scenarios",
	"rapid: one scenario = real service on loopback built from generated JSON (server protocol x client protocol x batch mode x "+
		"topology {direct out, harness upstream proxy, chained second server}), 1..8 concurrent client sessions driven by the harness through "+
		"the server protocol, 2..4 target sockets with the SAME port on different loopback IPs plus 1..3 names resolved by an owned resolver "+
		"with scripted delays, paced and burst traffic, client address changes, garbage/unauthenticated/replayed datagrams (fenced and interleaved), "+
		"replies from non-target sources. Oracle: tagged payloads (session, seq, intended destination, checksum) judged at every harness-owned socket. "+
		"Non-trivial: >=2 concurrent sessions reaching different target sockets with >=1 destination addressed by name; distinct key = configuration class").
	Require("name-target", "ss2022-address-change", "fenced-garbage", "topology:peer", "topology:direct", "batch:no", "batch:sendmmsg")

func workDir(t interface{ TempDir() string }) string {
	if d := os.Getenv("VERIF_WORK"); d != "" {
		return d
	}
	return t.TempDir()
}

func journalPath(name string) string {
	d := os.Getenv("VERIF_WORK")
	if d == "" {
		return ""
	}
	return filepath.Join(d, fmt.Sprintf("journal-%s-%d.json", name, os.Getpid()))
}

func writeJournal(name string, v any) func() {
	p := journalPath(name)
	if p == "" {
		return func() {}
	}
	b, _ := json.Marshal(v)
	os.WriteFile(p, b, 0o644)
	return func() { os.Remove(p) }
}

// checkPlan runs a plan, applies the retry-once rule to missed liveness bounds and reports.
func checkPlan(t interface {
	Fatalf(string, ...any)
	Logf(string, ...any)
}, p *plan, dir string) {
	done := writeJournal("c11", p)
	out := runPlan(p, dir)
	if out.setupErr == nil && out.violation == "" && len(out.liveMiss) > 0 {
		recRelay.Label("liveness-retried", 1)
		if os.Getenv("VERIF_DEBUG") != "" {
			pj, _ := json.Marshal(p)
			fmt.Fprintf(os.Stderr, "C11 liveness miss (will retry): %v\nplan=%s\n", out.liveMiss, pj)
		}
		first := out.liveMiss
		out = runPlan(p, dir)
		if out.setupErr == nil && out.violation == "" && len(out.liveMiss) > 0 {
			out.violation = fmt.Sprintf("SIG=C11/paced-no-reply paced datagrams got no echo in two runs of the scenario; first run: %v; second run: %v", first, out.liveMiss)
		}
	}
	done()
	if out.setupErr != nil {
		// the harness could not build the scenario (ports, sockets): not a verdict about the relay
		recRelay.Label("setup-failed", 1)
		fmt.Fprintf(os.Stderr, "C11 scenario setup failed (no verdict): %v\n", out.setupErr)
		t.Logf("scenario setup failed: %v", out.setupErr)
		return
	}
	if out.violation != "" {
		sig := strings.TrimPrefix(strings.Fields(out.violation)[0], "SIG=C11/")
		if ev.IsKnown("C11", sig) {
			recRelay.KnownHit(sig)
			recRelay.Label("known:"+sig+":"+out.detector, 1)
			return
		}
		pj, _ := json.Marshal(p)
		t.Fatalf("%s\nplan=%s", out.violation, pj)
	}
	recRelay.Case(p.class(), out.nontrivial, out.labels...)
	if out.nontrivial {
		recRelay.Sample(out.sample)
	}
}

func TestRelayScenarios(t *testing.T) {
	dir := workDir(t)
	rapid.Check(t, func(rt *rapid.T) {
		p := drawPlan(rt)
		checkPlan(rt, p, dir)
	})
}

// TestReplayC11 re-runs a journaled plan (written before execution; kept by the driver when the
// process died).
func TestReplayC11(t *testing.T) {
	f := os.Getenv("VERIF_REPLAY")
	if f == "" {
		t.Skip("VERIF_REPLAY not set")
	}
	b, err := os.ReadFile(f)
	if err != nil {
		t.Fatal(err)
	}
	var p plan
	if err := json.Unmarshal(b, &p); err != nil {
		t.Skipf("not a C11 plan: %v", err)
	}
	if p.ServerProto == "" {
		t.Skip("not a C11 relay plan")
	}
	checkPlan(t, &p, t.TempDir())
}
