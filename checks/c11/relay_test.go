package c11

import (
	"encoding/json"
	"fmt"
	"os"
	"path/filepath"
	"strings"
	"testing"
	"time"

	"pgregory.net/rapid"

	"verif/internal/ev"
)

const sigSharedPacker = "shared-direct-packer-race"

var recRelay = ev.New("C11", "relay-scenarios",
	"rapid: one scenario = real service on loopback built from generated JSON (server protocol x client protocol x batch mode x "+
		"topology {direct out, harness upstream proxy, chained second server}), 1..8 concurrent client sessions driven by the harness through "+
		"the server protocol, 2..4 target sockets with the SAME port on different loopback IPs plus 1..3 names resolved by an owned resolver "+
		"with scripted delays, paced and burst traffic, client address changes, garbage/unauthenticated/replayed datagrams (fenced and interleaved), "+
		"replies from non-target sources. Oracle: tagged payloads (session, seq, intended destination, checksum) judged at every harness-owned socket. "+
		"Non-trivial: >=2 concurrent sessions reaching different target sockets with >=1 destination addressed by name; distinct key = configuration class").
	Require("name-target", "ss2022-address-change", "fenced-garbage", "topology:peer", "topology:direct", "batch:no", "batch:sendmmsg",
		"tour:name-to-other-name", "tour:name-to-failing-name:servfail", "tour:name-to-failing-name:nxdomain", "tour:failing-name-now-resolvable",
		"tour:name-to-ip", "tour:ip-to-name", "tour:same-name-other-port", "drop-first:sendmmsg", "tunnel-target-only",
		"garbage-first-then-valid-same-socket", "garbage-first:no", "garbage-first:sendmmsg",
		"relay-switch:ss2022:sendmmsg", "relay-switch:ss2022:no", "relay-switch:nat:sendmmsg", "relay-switch:nat:no",
		"burst-with-unsendable:sendmmsg", "burst-with-unsendable:no",
		"backlog-exceeds-relay-batch:sendmmsg", "send-channel-overflow:no", "send-channel-overflow:sendmmsg",
		"batch>send-channel-capacity/backlog>=capacity")

func workDir(t interface{ TempDir() string }) string {
	if d := os.Getenv("VERIF_WORK"); d != "" {
		return d
	}
	return t.TempDir()
}

func journalPath(name string) string {
	d := os.Getenv("VERIF_WORK")
	if d == "" {
		return ""
	}
	return filepath.Join(d, fmt.Sprintf("journal-%s-%d.json", name, os.Getpid()))
}

func writeJournal(name string, v any) func() {
	p := journalPath(name)
	if p == "" {
		return func() {}
	}
	b, _ := json.Marshal(v)
	os.WriteFile(p, b, 0o644)
	return func() { os.Remove(p) }
}

// checkPlan runs a plan, applies the retry-once rule to missed liveness bounds and reports.
func checkPlan(t interface {
	Fatalf(string, ...any)
	Logf(string, ...any)
}, p *plan, dir string) {
	done := writeJournal("c11", p)
	out := runPlan(p, dir)
	if out.setupErr == nil && out.violation == "" && len(out.liveMiss) > 0 {
		recRelay.Label("liveness-retried", 1)
		if os.Getenv("VERIF_DEBUG") != "" {
			pj, _ := json.Marshal(p)
			fmt.Fprintf(os.Stderr, "C11 liveness miss (will retry): %v\nplan=%s\n", out.liveMiss, pj)
		}
		first := out.liveMiss
		out = runPlan(p, dir)
		if out.setupErr == nil && out.violation == "" && len(out.liveMiss) > 0 {
			sig, what := "paced-no-reply", "paced datagrams got no echo"
			if strings.HasPrefix(first[0], "backlog-datagram-lost") && strings.HasPrefix(out.liveMiss[0], "backlog-datagram-lost") {
				sig, what = "backlog-datagram-lost", "datagrams that fitted the send channel never reached their destination"
			}
			out.violation = fmt.Sprintf("SIG=C11/%s %s in two runs of the scenario; first run: %v; second run: %v", sig, what, first, out.liveMiss)
		}
	}
	done()
	if out.setupErr != nil {
		// the harness could not build the scenario (ports, sockets): not a verdict about the relay
		recRelay.Label("setup-failed", 1)
		fmt.Fprintf(os.Stderr, "C11 scenario setup failed (no verdict): %v\n", out.setupErr)
		t.Logf("scenario setup failed: %v", out.setupErr)
		return
	}
	if out.violation != "" {
		sig := strings.TrimPrefix(strings.Fields(out.violation)[0], "SIG=C11/")
		if ev.IsKnown("C11", sig) {
			recRelay.KnownHit(sig)
			recRelay.Label("known:"+sig+":"+out.detector, 1)
			return
		}
		pj, _ := json.Marshal(p)
		t.Fatalf("%s\nplan=%s", out.violation, pj)
	}
	recRelay.Case(p.class(), out.nontrivial, out.labels...)
	if out.nontrivial {
		recRelay.Sample(out.sample)
	}
}

func TestRelayScenarios(t *testing.T) {
	dir := workDir(t)
	rapid.Check(t, func(rt *rapid.T) {
		p := drawPlan(rt)
		checkPlan(rt, p, dir)
	})
}

// TestReplayC11 re-runs a journaled plan (written before execution; kept by the driver when the
// process died).
func TestReplayC11(t *testing.T) {
	f := os.Getenv("VERIF_REPLAY")
	if f == "" {
		t.Skip("VERIF_REPLAY not set")
	}
	b, err := os.ReadFile(f)
	if err != nil {
		t.Fatal(err)
	}
	var p plan
	if err := json.Unmarshal(b, &p); err != nil {
		t.Skipf("not a C11 plan: %v", err)
	}
	if p.ServerProto == "" {
		t.Skip("not a C11 relay plan")
	}
	checkPlan(t, &p, t.TempDir())
}

// fixedPlans are regression plans that do not depend on the generator:
//   - a single session walking through several targets with a failing lookup in between (direct client:
//     the packer's resolution cache must not send "B" to A's address after B failed to resolve);
//   - a reply that the relay has to drop immediately followed by the genuine echo, many rounds, on the
//     sendmmsg downlink (the dropped datagram and the genuine one tend to share a recvmmsg batch: the
//     send vector must be compacted correctly) and, for comparison, on the generic one.
func fixedPlans() []*plan {
	dests := func() []planDest {
		return []planDest{{Sock: 0}, {Sock: 1}, {Sock: 2}, {Sock: 0, Name: true}, {Sock: 1, Name: true, DelayMs: 3}}
	}
	tourPlan := func(seed uint64, server, batch, client, topo, fail string) *plan {
		d := append(dests(), planDest{Sock: 1, Name: true, Flaky: true, Fail: fail}, planDest{Sock: 0, Name: true, AltPort: true, SameAs: 3})
		return &plan{Seed: seed, ServerProto: server, BatchMode: batch, ClientProto: client, Topology: topo, NSock: 3, Dests: d,
			Sessions: []planSession{
				{A: []planOp{{Kind: "paced", Dest: 3, Alt: 3, N: 1}, {Kind: "tour", Fill: 40, Tour: &tourStops{A: 3, B: 4, F: 5, IP: 2, AP: 6}}},
					B: []planOp{{Kind: "tour", Fill: 300, Tour: &tourStops{A: 4, B: 3, F: 5, IP: 0, AP: 6}}}},
				{A: []planOp{{Kind: "paced", Dest: 4, Alt: 1, N: 3}}, B: []planOp{{Kind: "paced", Dest: 1, Alt: 4, N: 3}}},
			}}
	}
	dropPlan := func(seed uint64, server, batch string, mode int, targetOnly bool) *plan {
		p := &plan{Seed: seed, ServerProto: server, BatchMode: batch, ClientProto: "direct", Topology: "direct", NSock: 3, Dests: dests(),
			DropFirst: mode, TargetOnly: targetOnly, TunnelDest: 1,
			Sessions: []planSession{
				{A: []planOp{{Kind: "paced", Dest: 0, Alt: 1, N: 60, Fill: 20}}, B: []planOp{{Kind: "paced", Dest: 1, Alt: 0, N: 20, Fill: 700}}},
				{A: []planOp{{Kind: "paced", Dest: 2, Alt: 2, N: 60, Fill: 0}}, B: []planOp{{Kind: "paced", Dest: 2, Alt: 0, N: 20, Fill: 100}}},
			}}
		if server == "direct" {
			for i := range p.Sessions {
				for _, ops := range [][]planOp{p.Sessions[i].A, p.Sessions[i].B} {
					for j := range ops {
						ops[j].Dest, ops[j].Alt = 1, 1
					}
				}
			}
		}
		return p
	}
	// the first datagram from each client address is garbage; then valid traffic, a rebind (garbage first
	// again on the new socket), valid traffic
	garbageFirstPlan := func(seed uint64, server, batch string, kind int) *plan {
		return &plan{Seed: seed, ServerProto: server, BatchMode: batch, ClientProto: "direct", Topology: "direct", NSock: 3, Dests: dests(),
			Sessions: []planSession{
				{GarbageFirst: kind, A: []planOp{{Kind: "paced", Dest: 0, Alt: 3, N: 3, Fill: 10}, {Kind: "rebind"}, {Kind: "paced", Dest: 1, Alt: 1, N: 2}},
					B: []planOp{{Kind: "paced", Dest: 4, Alt: 0, N: 2, Fill: 200}}},
				{GarbageFirst: kind, A: []planOp{{Kind: "paced", Dest: 2, Alt: 2, N: 2}}, B: []planOp{{Kind: "rebind"}, {Kind: "paced", Dest: 2, Alt: 4, N: 2}}},
				{A: []planOp{{Kind: "paced", Dest: 1, Alt: 1, N: 2}}},
			}}
	}
	// one live session talks to relay address A, switches to B (one echo, then a reply burst), then to C
	relaySwitchPlan := func(seed uint64, server, batch, wildcard string) *plan {
		p := &plan{Seed: seed, ServerProto: server, BatchMode: batch, ClientProto: "direct", Topology: "direct", NSock: 3, Dests: dests(), Wildcard: wildcard, TunnelDest: 1,
			Sessions: []planSession{
				{A: []planOp{{Kind: "paced", Dest: 0, Alt: 0, N: 2}, {Kind: "relayswitch", Dest: 0, N: 24, Fill: 30}, {Kind: "paced", Dest: 0, Alt: 0, N: 1}, {Kind: "relayswitch", Dest: 0, N: 32}},
					B: []planOp{{Kind: "burst", Dest: 0, Alt: 0, N: 16}, {Kind: "relayswitch", Dest: 0, N: 12, Fill: 500}}},
				{A: []planOp{{Kind: "paced", Dest: 2, Alt: 2, N: 1}, {Kind: "relayswitch", Dest: 2, N: 20}}, B: []planOp{{Kind: "paced", Dest: 2, Alt: 2, N: 2}}},
			}}
		if server == "direct" {
			for i := range p.Sessions {
				for _, ops := range [][]planOp{p.Sessions[i].A, p.Sessions[i].B} {
					for j := range ops {
						ops[j].Dest, ops[j].Alt = 1, 1
					}
				}
			}
		}
		return p
	}
	// new client sockets whose first datagrams come as one burst, some of them unsendable (target port 0)
	unsendablePlan := func(seed uint64, server, batch string) *plan {
		d := append(dests(), planDest{Sock: 0, Port0: true})
		return &plan{Seed: seed, ServerProto: server, BatchMode: batch, ClientProto: "direct", Topology: "direct", NSock: 3, Dests: d,
			Sessions: []planSession{
				{A: []planOp{{Kind: "freshburst", Dest: 0, Alt: 5, N: 24, Fill: 10}, {Kind: "freshburst", Dest: 1, Alt: 5, N: 40, Fill: 300}},
					B: []planOp{{Kind: "freshburst", Dest: 3, Alt: 5, N: 12}}},
				{A: []planOp{{Kind: "paced", Dest: 2, Alt: 2, N: 1}, {Kind: "freshburst", Dest: 2, Alt: 5, N: 30, Fill: 64}}, B: []planOp{{Kind: "freshburst", Dest: 2, Alt: 5, N: 8}}},
			}}
	}
	// the resolver holds the answer for a name: the session's uplink waits while k more datagrams arrive
	backlogPlan := func(seed uint64, server, batch string, relayBatch, capacity, k int) *plan {
		d := append(dests(), planDest{Sock: 2, Name: true, Gated: true}, planDest{Sock: 0, Name: true, Gated: true})
		return &plan{Seed: seed, ServerProto: server, BatchMode: batch, RelayBatch: relayBatch, SendChanCap: capacity, ClientProto: "direct", Topology: "direct", NSock: 3, Dests: d,
			Sessions: []planSession{
				{A: []planOp{{Kind: "paced", Dest: 0, Alt: 0, N: 1}, {Kind: "backlog", Dest: 1, Alt: 5, Prime: 3, N: k, Fill: 20}},
					B: []planOp{{Kind: "backlog", Dest: 0, Alt: 5, Prime: 4, N: k + 7, Fill: 400}}},
				{A: []planOp{{Kind: "paced", Dest: 2, Alt: 2, N: 1}, {Kind: "backlog", Dest: 2, Alt: 6, Prime: 4, N: k / 2, Fill: 0}}, B: []planOp{{Kind: "paced", Dest: 2, Alt: 3, N: 2}}},
			}}
	}
	ss := "2022-blake3-aes-128-gcm"
	return []*plan{
		tourPlan(1, "socks5", "no", "direct", "direct", "servfail"),
		tourPlan(2, "none", "sendmmsg", "direct", "direct", "nxdomain"),
		tourPlan(3, ss, "sendmmsg", "none", "chain", "servfail"),
		dropPlan(11, "socks5", "sendmmsg", 1, false),
		dropPlan(12, ss, "sendmmsg", 1, false),
		dropPlan(13, "none", "sendmmsg", 2, false),
		dropPlan(14, "direct", "sendmmsg", 3, true),
		dropPlan(15, "socks5", "no", 1, false),
		garbageFirstPlan(21, "socks5", "no", 3),       // FRAG != 0
		garbageFirstPlan(22, "socks5", "sendmmsg", 2), // 2 bytes
		garbageFirstPlan(23, "none", "sendmmsg", 5),   // truncated address
		garbageFirstPlan(24, "none", "no", 1),         // empty datagram
		garbageFirstPlan(25, ss, "no", 1),             // own packet, damaged body
		garbageFirstPlan(26, ss, "sendmmsg", 1),
		relaySwitchPlan(31, ss, "sendmmsg", "0.0.0.0"),
		relaySwitchPlan(32, ss, "sendmmsg", "[::]"),
		relaySwitchPlan(33, ss, "no", "0.0.0.0"),
		relaySwitchPlan(34, "socks5", "sendmmsg", "[::]"),
		relaySwitchPlan(35, "none", "no", "0.0.0.0"),
		relaySwitchPlan(36, "direct", "sendmmsg", "0.0.0.0"),
		unsendablePlan(41, "socks5", "sendmmsg"),
		unsendablePlan(42, "none", "sendmmsg"),
		unsendablePlan(43, ss, "sendmmsg"),
		unsendablePlan(44, "socks5", "no"),
		backlogPlan(51, "socks5", "sendmmsg", 4, 0, 40),
		backlogPlan(52, "none", "sendmmsg", 16, 64, 60),
		backlogPlan(53, ss, "sendmmsg", 8, 0, 50),
		backlogPlan(54, "socks5", "sendmmsg", 8, 64, 100),
		backlogPlan(55, "socks5", "no", 0, 64, 100),
		backlogPlan(56, "none", "no", 0, 64, 90),
		backlogPlan(57, ss, "no", 0, 64, 100),
		// send channel capacity (64) smaller than the relay batch size (default 256, 128, 1024), backlog >= capacity
		backlogPlan(58, "socks5", "sendmmsg", 0, 64, 100),
		backlogPlan(59, "none", "sendmmsg", 128, 64, 70),
		backlogPlan(60, ss, "sendmmsg", 1024, 64, 64),
	}
}

func TestFixedRegressions(t *testing.T) {
	dir := workDir(t)
	for i, p := range fixedPlans() {
		before := t.Failed()
		t0 := time.Now()
		checkPlan(t, p, dir)
		if os.Getenv("VERIF_DEBUG") != "" {
			fmt.Fprintf(os.Stderr, "fixed plan %d (%s/%s seed %d): %v\n", i, p.ServerProto, p.BatchMode, p.Seed, time.Since(t0).Round(time.Millisecond))
		}
		if !before && t.Failed() {
			t.Fatalf("fixed plan %d failed", i)
		}
	}
}
