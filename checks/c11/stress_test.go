package c11

import (
	"fmt"
	"os"
	"strconv"
	"sync"
	"testing"
	"time"

	"verif/internal/ev"
	"verif/internal/udpsvc"
)

var recStress = ev.New("C11", "two-names-stress",
	"plain: high-rate workload aimed at the state the property names (direct/packet.go cachedDomain/cachedDomainIP shared by all sessions of a `direct` client): "+
		"2k sessions, half sending to name A (socket 0) and half to name B (socket 1, same port, other IP) as fast as the sockets take them, "+
		"both batch modes; every datagram seen at a target must carry that target's tag. Non-trivial: both names were resolved repeatedly and >=10k datagrams arrived")

func envInt(name string, def int) int {
	if v, err := strconv.Atoi(os.Getenv(name)); err == nil {
		return v
	}
	return def
}

// runStress returns (arrivals, misdelivered, first misdelivery description).
func runStress(t *testing.T, batch string, nSess int, dur time.Duration, serverProto string) (int, int, string) {
	scn := scenarioCounter.Add(1) + uint32(os.Getpid())<<12
	w, err := udpsvc.NewWorld(scn, targetBase, 2, false)
	if err != nil {
		t.Skipf("setup: %v", err)
	}
	defer w.Close()
	w.SetReplies(false)
	nameA := fmt.Sprintf("aa-%x.c11.test", scn)
	nameB := fmt.Sprintf("bb-%x.c11.test", scn)
	nameA2 := fmt.Sprintf("ab-%x.c11.test", scn)
	nameB2 := fmt.Sprintf("ba-%x.c11.test", scn)
	udpsvc.InstallResolver()
	udpsvc.SetName(nameA, udpsvc.NameRule{IP: w.IPs[0]})
	udpsvc.SetName(nameB, udpsvc.NameRule{IP: w.IPs[1]})
	udpsvc.SetName(nameA2, udpsvc.NameRule{IP: w.IPs[0]})
	udpsvc.SetName(nameB2, udpsvc.NameRule{IP: w.IPs[1]})
	defer udpsvc.DelName(nameA)
	defer udpsvc.DelName(nameB)
	defer udpsvc.DelName(nameA2)
	defer udpsvc.DelName(nameB2)
	dA := w.AddDest(0, nameA)
	dB := w.AddDest(1, nameB)
	dA2 := w.AddDest(0, nameA2)
	dB2 := w.AddDest(1, nameB2)
	thrash := os.Getenv("VERIF_C11_STRESS_MODE") == "thrash"
	spec := &udpsvc.Spec{ServerProto: serverProto, BatchMode: batch, NATTimeout: "60s", ClientProto: "direct", ClientNetwork: "ip4"}
	svc, err := udpsvc.Start(spec, t.TempDir())
	if err != nil {
		t.Skipf("setup: %v", err)
	}
	defer svc.Stop(90 * time.Second)
	var clients []*udpsvc.Client
	for i := 0; i < nSess; i++ {
		codec, _ := udpsvc.NewClientCodec(serverProto, udpsvc.SS2022Keys{}, spec.ServerAddr, false)
		c, err := udpsvc.NewClient(w, uint16(i), codec, spec.ServerAddr)
		if err != nil {
			t.Skipf("setup: %v", err)
		}
		clients = append(clients, c)
		defer c.Close()
	}
	stop := make(chan struct{})
	var wg sync.WaitGroup
	for i, c := range clients {
		d, d2 := dA, dA2
		if i%2 == 1 {
			d, d2 = dB, dB2
		}
		wg.Go(func() {
			n := 0
			for {
				select {
				case <-stop:
					return
				default:
				}
				if thrash {
					// alternate two names of the same socket: every datagram misses the cache, so every
					// datagram makes its session store (name, IP) into the shared packer
					if n%2 == 0 {
						c.Send(c.NextSeq(), d, 0)
					} else {
						c.Send(c.NextSeq(), d2, 0)
					}
					n++
					time.Sleep(300 * time.Microsecond)
					continue
				}
				c.Send(c.NextSeq(), d, 0)
				n++
				if n%8 == 0 {
					time.Sleep(50 * time.Microsecond) // leave CPU to the relay and the resolver
				}
			}
		})
	}
	time.Sleep(dur)
	close(stop)
	wg.Wait()
	time.Sleep(100 * time.Millisecond)
	arr := w.Arrivals()
	bad, first := 0, ""
	for _, a := range arr {
		if a.Err != nil || a.Sock < 0 || int(a.Tag.Target) >= len(w.Dests) {
			bad++
			if first == "" {
				first = fmt.Sprintf("undecodable datagram at socket %d: %v", a.Sock, a.Err)
			}
			continue
		}
		if w.Dests[a.Tag.Target].Sock != a.Sock {
			bad++
			if first == "" {
				first = fmt.Sprintf("session %d seq %d addressed to %s (socket %d, %s) arrived at socket %d (%s)", a.Tag.Session, a.Tag.Seq,
					w.DestAddr(int(a.Tag.Target)), w.Dests[a.Tag.Target].Sock, w.SockAddr(w.Dests[a.Tag.Target].Sock), a.Sock, w.SockAddr(a.Sock))
			}
		}
	}
	t.Logf("batch=%s sessions=%d arrivals=%d misdelivered=%d queriesA=%d queriesB=%d", batch, nSess, len(arr), bad, udpsvc.NameQueries(nameA), udpsvc.NameQueries(nameB))
	recStress.Label("arrivals", int64(len(arr)))
	recStress.Label("resolver-queries", udpsvc.NameQueries(nameA)+udpsvc.NameQueries(nameB))
	return len(arr), bad, first
}

func TestTwoNamesStress(t *testing.T) {
	ms := envInt("VERIF_C11_STRESS_MS", 2500)
	nSess := envInt("VERIF_C11_STRESS_SESSIONS", 16)
	for _, batch := range []string{"no", "sendmmsg"} {
		n, bad, first := runStress(t, batch, nSess, time.Duration(ms)*time.Millisecond, "socks5")
		if bad > 0 {
			t.Fatalf("SIG=C11/misdelivered detector=misdelivery under the two-names stress (the workload aimed at the packer's shared resolution cache): %d of %d datagrams reached the wrong target; first: %s", bad, n, first)
		}
		recStress.Case(fmt.Sprintf("%s|%d", batch, nSess), n >= 10000, "batch:"+batch)
	}
}
