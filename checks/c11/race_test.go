package c11

import (
	"flag"
	"fmt"
	"os"
	osexec "os/exec"
	"regexp"
	"strings"
	"sync"
	"testing"
	"time"

	"verif/internal/ev"
)

var recRace = ev.New("C11", "race-stage",
	"parent/child: the parent re-executes this test binary (built with -race) on the generated multi-session workloads (TestRelayScenarios) and on the "+
		"two-names stress; a race report whose stack is in repository code is a violation; if it is on direct.(*DirectPacketClientPacker) state it carries "+
		"the signature C11/shared-direct-packer-race. When that signature is a listed finding the child is run again with the triggering class excluded by construction "+
		"(at most one name-using session per `direct` client) so that other races are still searched for.")

var raceHeader = regexp.MustCompile(`(?m)^WARNING: DATA RACE`)
var accessLine = regexp.MustCompile(`^(Previous )?(read|write|Read|Write|atomic read|atomic write) at 0x[0-9a-f]+ by goroutine`)

// runChild runs one test function of this binary in a child process; the race detector keeps
// going after a report so that every distinct race of the workload is collected.
func runChild(t *testing.T, test string, extraEnv []string, args ...string) (string, error) {
	cmd := osexec.Command(os.Args[0], append([]string{"-test.run", "^" + test + "$", "-test.count=1", "-test.timeout", "900s"}, args...)...)
	cmd.Env = append(os.Environ(), "GORACE=halt_on_error=0 exitcode=66", "VERIF_C11_CHILD=1")
	cmd.Env = append(cmd.Env, extraEnv...)
	out, err := cmd.CombinedOutput()
	return string(out), err
}

func flagOr(name, def string) string {
	if f := flag.Lookup(name); f != nil && f.Value.String() != "" && f.Value.String() != "0" {
		return f.Value.String()
	}
	return def
}

const sigReadAfterPut = "queued-packet-read-after-put"

// sigNewPackerRace (found in round 6 on the unchanged tree): the set-up goroutine of a NAT entry calls
// entry.serverConnUnpacker.NewPacker() without the relay mutex after the entry was published, while the
// receive loop (under the mutex) unpacks the entry's next datagram; for the SOCKS5 server unpacker the
// value-receiver call copies the struct whose domain cache pointer UnpackInPlace initialises lazily.
const sigNewPackerRace = "socks5-unpacker-newpacker-during-setup-race"

type raceReport struct {
	text string
	sig  string // "" = not in repository code
}

// splitRaces cuts the child's output into race reports and classifies each by the state involved.
func splitRaces(out string) []raceReport {
	var reps []raceReport
	for _, blk := range strings.Split(out, "==================") {
		if !raceHeader.MatchString(blk) {
			continue
		}
		blk = strings.TrimSpace(blk[strings.Index(blk, "WARNING: DATA RACE"):])
		r := raceReport{text: blk}
		// top frame of each of the two accesses
		var tops []string
		lines := strings.Split(blk, "\n")
		for i, l := range lines {
			if accessLine.MatchString(strings.TrimSpace(l)) && i+1 < len(lines) {
				tops = append(tops, strings.TrimSpace(lines[i+1]))
			}
		}
		uplink, recv := false, false
		for _, tp := range tops {
			if strings.Contains(tp, ").relayServerConnToNatConnGeneric()") || strings.Contains(tp, ").relayServerConnToNatConnSendmmsg()") {
				uplink = true // an access made by the uplink function itself, not by a callee
			}
		}
		recv = strings.Contains(blk, ").recvFromServerConnGeneric()") || strings.Contains(blk, ").recvFromServerConnRecvmmsg()")
		switch {
		case strings.Contains(blk, "direct.(*DirectPacketClientPacker)."):
			r.sig = sigSharedPacker
		case strings.Contains(blk, "direct.(*Socks5PacketServerUnpacker).NewPacker()") && strings.Contains(blk, "socks5.(*DomainCache).ConnAddrFromSlice()"):
			// exactly the two accesses that were analysed; any other unpacker type stays "data-race"
			r.sig = sigNewPackerRace
		case uplink && recv && len(tops) == 2:
			// the uplink goroutine touches a queued packet that the receive loop has already taken
			// back from the pool (the uplink reads queuedPacket.length for its statistics after
			// putQueuedPacket)
			r.sig = sigReadAfterPut
		case strings.Contains(blk, "github.com/database64128/shadowsocks-go/"):
			r.sig = "data-race"
		}
		reps = append(reps, r)
	}
	return reps
}

func TestRaceStage(t *testing.T) {
	if os.Getenv("VERIF_C11_CHILD") != "" {
		t.Skip("child process")
	}
	if !raceBuild {
		t.Skip("not a -race build: this stage only means something with the race detector")
	}
	checks := flagOr("rapid.checks", "40")
	seed := flagOr("rapid.seed", "1")
	type job struct {
		name string
		test string
		env  []string
		args []string
	}
	jobs := []job{
		{"scenarios", "TestRelayScenarios", nil, []string{"-rapid.checks=" + checks, "-rapid.seed=" + seed, "-rapid.shrinktime=1s"}},
		{"stress", "TestTwoNamesStress", []string{"VERIF_C11_STRESS_MS=1500", "VERIF_C11_STRESS_SESSIONS=8"}, nil},
		{"fixed", "TestFixedRegressions", nil, nil},
		{"fixed6", "TestFixedRound6", nil, nil},
		{"stats", "(TestFixedStats|TestStatsScenarios)", nil, []string{"-rapid.checks=" + statsChecks(checks), "-rapid.seed=" + seed, "-rapid.shrinktime=1s"}},
	}
	// judge returns whether the known packer finding was hit; any unlisted report fails the test
	judge := func(name, out string, err error, excluded bool) (packerHit bool) {
		reps := splitRaces(out)
		if len(reps) == 0 {
			if err != nil {
				t.Fatalf("child %s failed without a race report:\n%s\n...\n%s", name, sigLines(out), tailLines(out, 40))
			}
			recRace.Case(name, true, "child-clean:"+name)
			return false
		}
		seen := map[string]bool{}
		for _, r := range reps {
			if seen[r.sig] {
				continue
			}
			seen[r.sig] = true
			switch {
			case r.sig == "":
				t.Fatalf("race report outside the repository (harness bug?) in workload %s\n%s", name, r.text)
			case r.sig == sigSharedPacker && excluded:
				t.Fatalf("SIG=C11/%s-not-excluded race report although the known class was excluded (workload %s)\n%s", sigSharedPacker, name, r.text)
			case ev.IsKnown("C11", r.sig):
				recRace.KnownHit(r.sig)
				recRace.Label("known:"+r.sig+":race-report", 1)
				if r.sig == sigSharedPacker {
					packerHit = true
				}
			case r.sig == sigSharedPacker:
				t.Fatalf("SIG=C11/%s detector=race-report (workload %s): sessions of one `direct` client share one DirectPacketClientPacker; its cachedDomain/cachedDomainIP "+
					"are read and written by the uplink goroutines of different sessions without synchronisation, so one session can send to the IP another session resolved\n%s",
					sigSharedPacker, name, r.text)
			case r.sig == sigNewPackerRace:
				t.Fatalf("SIG=C11/%s detector=race-report (workload %s): the session set-up goroutine calls serverConnUnpacker.NewPacker() without the relay mutex while the receive loop "+
					"already unpacks the same entry's next datagram (lazy initialisation of the SOCKS5 unpacker's domain cache)\n%s", sigNewPackerRace, name, r.text)
			case r.sig == sigReadAfterPut:
				t.Fatalf("SIG=C11/%s detector=race-report (workload %s): the uplink goroutine reads a queued packet after handing it back to the pool while the receive loop "+
					"already refills it\n%s", sigReadAfterPut, name, r.text)
			default:
				t.Fatalf("SIG=C11/data-race race report in repository code (workload %s)\n%s", name, r.text)
			}
		}
		// only listed findings: the child's failure is explained by them, unless its own oracle also failed
		if strings.Contains(out, "SIG=C11/") {
			t.Fatalf("child %s reported an oracle violation:\n%s\n...\n%s", name, sigLines(out), tailLines(out, 40))
		}
		return packerHit
	}
	sel := os.Getenv("VERIF_C11_RACE_JOBS") // comma separated job names; empty = all
	// the children are separate processes (process-wide fd / goroutine accounting stays valid): run them side by side
	type result struct {
		out string
		err error
		dur time.Duration
	}
	results := make([]result, len(jobs))
	var wg sync.WaitGroup
	for i, j := range jobs {
		if sel != "" && !strings.Contains(","+sel+",", ","+j.name+",") {
			continue
		}
		wg.Go(func() {
			t0 := time.Now()
			out, err := runChild(t, j.test, j.env, j.args...)
			results[i] = result{out, err, time.Since(t0)}
		})
	}
	wg.Wait()
	for i, j := range jobs {
		if sel != "" && !strings.Contains(","+sel+",", ","+j.name+",") {
			continue
		}
		out, err := results[i].out, results[i].err
		t.Logf("child %s: err=%v reports=%d in %v", j.name, err, len(splitRaces(out)), results[i].dur.Round(time.Millisecond))
		if judge(j.name, out, err, false) && j.name == "scenarios" {
			// continue past the finding with the triggering class excluded by construction
			out2, err2 := runChild(t, j.test, append(j.env, "VERIF_C11_EXCLUDE_SHARED_PACKER=1"), j.args...)
			t.Logf("child %s (known class excluded): err=%v reports=%d", j.name, err2, len(splitRaces(out2)))
			judge(j.name+"-excluded", out2, err2, true)
			recRace.Excluded(1)
		}
	}
}

func statsChecks(checks string) string {
	n := 0
	fmt.Sscan(checks, &n)
	return fmt.Sprint(max(5, n/4))
}

// sigLines returns the lines of the child's output that carry a violation signature or a panic.
func sigLines(s string) string {
	var out []string
	for _, l := range strings.Split(s, "\n") {
		if strings.Contains(l, "SIG=") || strings.HasPrefix(l, "panic:") || strings.HasPrefix(l, "fatal error:") {
			if len(l) > 1500 {
				l = l[:1500] + "..."
			}
			out = append(out, l)
			if len(out) >= 6 {
				break
			}
		}
	}
	return strings.Join(out, "\n")
}

func tailLines(s string, n int) string {
	ls := strings.Split(strings.TrimRight(s, "\n"), "\n")
	if len(ls) > n {
		ls = ls[len(ls)-n:]
	}
	return strings.Join(ls, "\n")
}

var _ = fmt.Sprintf
