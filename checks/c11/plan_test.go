package c11

import (
	"fmt"
	"os"

	"pgregory.net/rapid"

	"verif/internal/udpsvc"
)

// A plan is everything a scenario does; it is drawn once, JSON-encodable (journal / replay) and
// executed in real time against the real service on loopback.

type planDest struct {
	Sock    int  `json:"sock"`
	Name    bool `json:"name"`    // addressed by domain name (resolved by the owned resolver)
	DelayMs int  `json:"delayMs"` // scripted answer delay of the name
	// Flaky: the name does not resolve at first (Fail: "servfail" | "nxdomain") and is made resolvable by
	// the tour of the one session that uses it.
	Flaky bool   `json:"flaky,omitempty"`
	Fail  string `json:"fail,omitempty"`
	// SameAs >= 0 (with AltPort): the very same name as dest SameAs, but with the port of the target's
	// second socket.
	AltPort bool `json:"altPort,omitempty"`
	SameAs  int  `json:"sameAs,omitempty"`
	// Gated: a name whose answer the owned resolver can hold back (the session's uplink then waits inside
	// its packer and datagrams back up in the send channel); used by the one session that owns it.
	Gated bool `json:"gated,omitempty"`
	// Port0: the target's IP with port 0 - a datagram the relay's outbound socket cannot send (EINVAL).
	Port0 bool `json:"port0,omitempty"`
	// SetupFail ("reject" | "badclient", with AltPort): the IP of target Sock with the port of that target's
	// second socket. A route of the server sends sessions that START with this port to the reject client /
	// to an outbound client whose NewSession always fails, so a client socket (ss2022: a session) whose
	// first datagram goes here gets no relay session (round 6).
	SetupFail string `json:"setupFail,omitempty"`
}

// planCrowd (round 6): after Fails failed session set-ups (fresh client addresses / ss2022 sessions whose
// first datagram cannot get a relay session), the first Clients sessions of the plan - established and
// idle - each write N[i] datagrams back to back, all at the same time. Every one of them must be observed
// at its destination exactly once, byte for byte.
type planCrowd struct {
	Clients  int   `json:"clients"`
	N        []int `json:"n"`
	Fails    int   `json:"fails"`
	FailKind int   `json:"failKind"` // 0 none | failReject | failBadClient | failUpstreamDown
	Fill     int   `json:"fill"`
	GapMs    int   `json:"gapMs"`
}

// kinds of failing session set-up
const (
	failReject       = 1 // the router rejects the first datagram's target
	failBadClient    = 2 // the route's client cannot create a session (unresolvable upstream name, dead SOCKS5 upstream)
	failUpstreamDown = 3 // the default client cannot create a session for a while (its upstream's name does not resolve / its SOCKS5 upstream refuses the association)
)

func failKindName(k int) string {
	return [...]string{"none", "reject", "badclient", "upstream-down"}[k]
}

// tourStops are the destinations one session walks through (a single NAT / ss2022 session that
// changes targets): name A, other name B, back to A, a name F whose lookup fails (twice), A again,
// F once it resolves, an IP, B, then A's name with another port, A.
type tourStops struct {
	A, B, F, IP, AP int
}

type planOp struct {
	// backlog: the resolver holds the answer for a name, the session sends that name (its uplink now waits),
	// then N more datagrams, then the answer is released; afterwards a few datagrams back to back.
	// paced | burst | rebind | tour | relayswitch (send to another client-facing address of the relay, one
	// echo, then a burst of replies) | freshburst (new client socket, burst of N datagrams of which some are
	// addressed to the unsendable destination Alt, then a paced datagram) | interleave (round 6: this session
	// gets an echo, ANOTHER client sends through another local address of the wildcard listener, then the
	// destination sends N more replies to this session: they must leave from the address this session uses)
	Kind string     `json:"kind"`
	Dest int        `json:"dest"` // index into Dests
	Alt  int        `json:"alt"`  // second dest; paced/burst alternate Dest, Alt
	N    int        `json:"n"`
	Fill int        `json:"fill"`
	Tour *tourStops `json:"tour,omitempty"`
	// backlog: Prime is another name (sent first so that the gated name Alt is not the packer's cached one),
	// Alt the gated name, Dest an IP destination, N the number of datagrams sent while the uplink waits.
	Prime int `json:"prime,omitempty"`
}

type planSession struct {
	A []planOp `json:"a"` // phase A, before the fenced garbage check
	B []planOp `json:"b"` // phase B, with garbage interleaved
	// GarbageFirst > 0: the very first datagram every client socket of this session sends (the first one
	// and each one opened by a rebind) is unparsable / unauthenticated: garbage kind GarbageFirst-1 for
	// socks5 and none servers, this session's own first ss2022 packet with a flipped bit for ss2022
	// servers. The valid datagrams that follow from the same address must get a working session.
	GarbageFirst int `json:"garbageFirst,omitempty"`
	// FailFirst (round 6; failReject | failBadClient | failUpstreamDown): the first well-formed datagram of
	// every client socket of this session (ss2022: of the session) cannot get a relay session; the valid
	// datagrams that follow from the same socket / session must be relayed and answered.
	FailFirst int `json:"failFirst,omitempty"`
	// Home: which client-facing address of a wildcard listener the session talks to first (index into the
	// relay's addresses 127.0.0.1, .2, .3 and - dual-stack listener - ::1).
	Home int `json:"home,omitempty"`
	// D1, D2: the session's two ordinary destinations (used by the crowd phase).
	D1 int `json:"d1"`
	D2 int `json:"d2"`
}

type plan struct {
	Seed        uint64        `json:"seed"`
	ServerProto string        `json:"serverProto"`
	ServerEIH   bool          `json:"serverEIH"`
	ServerPad   bool          `json:"serverPad"`
	ClientPad   bool          `json:"clientPad"` // harness ss2022 client pads
	BatchMode   string        `json:"batchMode"`
	RelayBatch  int           `json:"relayBatch"`
	SendChanCap int           `json:"sendChanCap"` // 0 = default (1024) | 64 (the minimum)
	RecvBatch   int           `json:"recvBatch"`
	ClientProto string        `json:"clientProto"`
	ClientEIH   bool          `json:"clientEIH"`
	Topology    string        `json:"topology"` // direct | peer | chain
	NSock       int           `json:"nsock"`    // target sockets (incl. the IPv6 one when V6)
	V6          bool          `json:"v6"`       // the last target socket is on ::1
	Dests       []planDest    `json:"dests"`
	TunnelDest  int           `json:"tunnelDest"` // direct server: the fixed destination
	Sessions    []planSession `json:"sessions"`
	Garbage     []int         `json:"garbage"`  // garbage kinds of the fenced check
	GarbageB    []int         `json:"garbageB"` // garbage kinds interleaved with phase B
	AltEvery    int           `json:"altEvery"` // every n-th reply comes from a non-target socket
	// DropFirst (udpsvc.Drop*): before every genuine echo the destination sends a reply the relay must drop.
	DropFirst int `json:"dropFirst"`
	// TargetOnly: direct (tunnel) server with tunnelUDPTargetOnly (IP tunnel destination only).
	TargetOnly bool `json:"targetOnly,omitempty"`
	// Wildcard: "" | "0.0.0.0" | "[::]": the listener is bound to the wildcard address and clients use
	// several local addresses of the relay (127.0.0.1, .2, .3).
	Wildcard string `json:"wildcard,omitempty"`

	// round 6: set-ups that fail
	// RejectDest / BadDest: indexes of the SetupFail destinations (0 = none; servers that let the client name the target).
	RejectDest int `json:"rejectDest,omitempty"`
	BadDest    int `json:"badDest,omitempty"`
	// BadClient: what the outbound client behind BadDest is: none-nxname | ss2022-nxname | socks5-dead.
	BadClient string `json:"badClient,omitempty"`
	// UpName (peer topology): the relay's client reaches the harness upstream by NAME; UpFail says how the
	// upstream is made unavailable for failUpstreamDown: nxdomain | servfail | assoc-failure (socks5 client).
	UpName bool       `json:"upName,omitempty"`
	UpFail string     `json:"upFail,omitempty"`
	Crowd  *planCrowd `json:"crowd,omitempty"`
}

var badClientKinds = []string{"none-nxname", "ss2022-nxname", "socks5-dead"}

var serverProtos = []string{"socks5", "none", "direct", "2022-blake3-aes-128-gcm", "2022-blake3-aes-256-gcm"}
var clientProtos = []string{"direct", "socks5", "none", "2022-blake3-aes-128-gcm", "2022-blake3-aes-256-gcm"}

var fills = []int{0, 1, 2, 63, 100, 500, 1000, 1200, 1300}

func drawFill(rt *rapid.T) int {
	if rapid.IntRange(0, 9).Draw(rt, "fillKind") < 6 {
		return rapid.SampledFrom(fills).Draw(rt, "fill")
	}
	return rapid.IntRange(0, 1300).Draw(rt, "fillAny")
}

// excludeSharedPacker is set when the known finding C11/shared-direct-packer-race must be excluded
// by construction (race build after the finding was reproduced): then at most one session of a
// scenario may send to a name through a `direct` client, so the shared cache is used by one
// goroutine only.
func excludeSharedPacker() bool { return os.Getenv("VERIF_C11_EXCLUDE_SHARED_PACKER") != "" }

func drawPlan(rt *rapid.T) *plan {
	p := &plan{}
	p.Seed = rapid.Uint64().Draw(rt, "seed")
	p.ServerProto = rapid.SampledFrom(serverProtos).Draw(rt, "serverProto")
	if udpsvc.IsSS2022(p.ServerProto) {
		p.ServerEIH = rapid.Bool().Draw(rt, "serverEIH")
		p.ServerPad = rapid.Bool().Draw(rt, "serverPad")
		p.ClientPad = rapid.Bool().Draw(rt, "clientPad")
	}
	p.BatchMode = rapid.SampledFrom([]string{"no", "sendmmsg"}).Draw(rt, "batchMode")
	if p.BatchMode == "sendmmsg" {
		p.RelayBatch = rapid.SampledFrom([]int{0, 0, 1, 2, 4, 8, 16, 128, 1024}).Draw(rt, "relayBatch") // 0 = default 256
		p.RecvBatch = rapid.SampledFrom([]int{0, 1, 2, 8}).Draw(rt, "recvBatch")
	}
	p.SendChanCap = rapid.SampledFrom([]int{0, 64, 64}).Draw(rt, "sendChanCap")
	p.ClientProto = rapid.SampledFrom(clientProtos).Draw(rt, "clientProto")
	if p.ClientProto == "direct" {
		p.Topology = "direct"
	} else {
		p.Topology = rapid.SampledFrom([]string{"peer", "peer", "chain"}).Draw(rt, "topology")
		if udpsvc.IsSS2022(p.ClientProto) {
			p.ClientEIH = rapid.Bool().Draw(rt, "clientEIH")
		}
	}
	p.NSock = rapid.IntRange(2, 4).Draw(rt, "nsock")
	p.V6 = rapid.IntRange(0, 9).Draw(rt, "v6") < 4 // one of the sockets is [::1]:port
	for s := 0; s < p.NSock; s++ {
		p.Dests = append(p.Dests, planDest{Sock: s})
	}
	nNames := rapid.IntRange(2, 3).Draw(rt, "nNames")
	for i := 0; i < nNames; i++ {
		p.Dests = append(p.Dests, planDest{
			Sock:    rapid.IntRange(0, p.NSock-1).Draw(rt, "nameSock"),
			Name:    true,
			DelayMs: rapid.SampledFrom([]int{0, 0, 1, 3, 10, 25}).Draw(rt, "nameDelay"),
		})
	}
	nd := len(p.Dests)
	p.TunnelDest = rapid.IntRange(0, nd-1).Draw(rt, "tunnelDest")
	p.Wildcard = rapid.SampledFrom([]string{"", "", "0.0.0.0", "[::]"}).Draw(rt, "wildcard")
	port0 := -1
	if p.ServerProto != "direct" {
		port0 = len(p.Dests)
		p.Dests = append(p.Dests, planDest{Sock: 0, Port0: true})
	}
	if p.ServerProto != "direct" {
		p.RejectDest = len(p.Dests)
		p.Dests = append(p.Dests, planDest{Sock: 0, AltPort: true, SetupFail: "reject"})
		p.BadDest = len(p.Dests)
		p.Dests = append(p.Dests, planDest{Sock: 1, AltPort: true, SetupFail: "badclient"})
		p.BadClient = rapid.SampledFrom(badClientKinds).Draw(rt, "badClient")
	}
	if p.Topology == "peer" {
		p.UpName = rapid.Bool().Draw(rt, "upName")
		fails := []string{"nxdomain", "servfail"}
		if p.ClientProto == "socks5" {
			fails = append(fails, "assoc-failure", "assoc-failure")
		}
		p.UpFail = rapid.SampledFrom(fails).Draw(rt, "upFail")
	}
	nSess := rapid.IntRange(1, 8).Draw(rt, "nSessions")
	usesDirectOut := p.Topology == "direct" || p.Topology == "chain"
	nameSessions := 0
	for s := 0; s < nSess; s++ {
		var ps planSession
		// a session has a primary and a secondary destination; biased so that names are common
		pick := func(label string) int {
			if rapid.IntRange(0, 9).Draw(rt, label+"Named") < 5 {
				return p.NSock + rapid.IntRange(0, nNames-1).Draw(rt, label+"Name")
			}
			return rapid.IntRange(0, p.NSock-1).Draw(rt, label+"IP")
		}
		d1, d2 := pick("d1"), pick("d2")
		if p.ServerProto == "direct" {
			d1, d2 = p.TunnelDest, p.TunnelDest
		}
		if excludeSharedPacker() && usesDirectOut && (p.Dests[d1].Name || p.Dests[d2].Name) {
			nameSessions++
			if nameSessions > 1 {
				// excluded by construction: fall back to the IP destination of the same socket
				d1, d2 = p.Dests[d1].Sock, p.Dests[d2].Sock
				if p.ServerProto == "direct" {
					// a tunnel to a name cannot be redirected per session: drop the session
					continue
				}
			}
		}
		drawOps := func(label string, allowRebind bool) []planOp {
			var ops []planOp
			n := rapid.IntRange(1, 4).Draw(rt, label+"nOps")
			for i := 0; i < n; i++ {
				k := rapid.IntRange(0, 9).Draw(rt, label+"opKind")
				switch {
				case k < 5:
					ops = append(ops, planOp{Kind: "paced", Dest: d1, Alt: d2, N: rapid.IntRange(1, 4).Draw(rt, "pacedN"), Fill: drawFill(rt)})
				case k < 7:
					ops = append(ops, planOp{Kind: "burst", Dest: d1, Alt: d2, N: rapid.IntRange(2, 40).Draw(rt, "burstN"), Fill: drawFill(rt)})
				case k == 7 && p.Wildcard != "":
					kind := rapid.SampledFrom([]string{"relayswitch", "interleave"}).Draw(rt, "wildcardOp")
					ops = append(ops, planOp{Kind: kind, Dest: d1, Alt: d1, N: rapid.IntRange(4, 32).Draw(rt, "replyBurst"), Fill: drawFill(rt)})
				case k == 8 && port0 >= 0:
					ops = append(ops, planOp{Kind: "freshburst", Dest: d1, Alt: port0, N: rapid.IntRange(6, 40).Draw(rt, "freshBurstN"), Fill: drawFill(rt)})
				default:
					if allowRebind {
						ops = append(ops, planOp{Kind: "rebind"})
					}
					ops = append(ops, planOp{Kind: "paced", Dest: d1, Alt: d2, N: rapid.IntRange(1, 3).Draw(rt, "pacedN2"), Fill: drawFill(rt)})
				}
			}
			return ops
		}
		// phase A always starts with a paced datagram so that the session exists at the fence
		ps.A = append([]planOp{{Kind: "paced", Dest: d1, Alt: d2, N: 1, Fill: drawFill(rt)}}, drawOps("A", true)...)
		ps.B = drawOps("B", true)
		// a tour: this one session walks through several destinations (needs a server protocol that
		// lets the client name the target per datagram)
		tourOK := p.ServerProto != "direct"
		if excludeSharedPacker() && usesDirectOut {
			usesName := p.Dests[d1].Name || p.Dests[d2].Name
			tourOK = tourOK && (usesName || nameSessions == 0) // the tour must not add a second name-using session
			if tourOK && !usesName {
				nameSessions++
			}
		}
		if tourOK && rapid.IntRange(0, 9).Draw(rt, "tour") < 5 {
			a := p.NSock + rapid.IntRange(0, nNames-1).Draw(rt, "tourA")
			b := p.NSock + (a-p.NSock+1)%nNames
			f := len(p.Dests)
			p.Dests = append(p.Dests, planDest{Sock: (p.Dests[a].Sock + 1) % p.NSock, Name: true, Flaky: true,
				Fail: rapid.SampledFrom([]string{"servfail", "nxdomain"}).Draw(rt, "failKind")})
			ap := len(p.Dests)
			p.Dests = append(p.Dests, planDest{Sock: p.Dests[a].Sock, Name: true, AltPort: true, SameAs: a})
			op := planOp{Kind: "tour", Fill: drawFill(rt), Tour: &tourStops{A: a, B: b, F: f, IP: rapid.IntRange(0, p.NSock-1).Draw(rt, "tourIP"), AP: ap}}
			if rapid.Bool().Draw(rt, "tourInA") {
				ps.A = append(ps.A, op)
			} else {
				ps.B = append(ps.B, op)
			}
		}
		// a backlog while the uplink waits for a held DNS answer (the relay itself must resolve: direct client)
		if p.ServerProto != "direct" && p.Topology == "direct" && !excludeSharedPacker() && rapid.IntRange(0, 9).Draw(rt, "backlog") < 4 {
			g := len(p.Dests)
			p.Dests = append(p.Dests, planDest{Sock: rapid.IntRange(0, p.NSock-1).Draw(rt, "gatedSock"), Name: true, Gated: true})
			capacity := 1024
			if p.SendChanCap != 0 {
				capacity = p.SendChanCap
			}
			k := rapid.SampledFrom([]int{5, 20, 40, 63, 64, 70, 100}).Draw(rt, "backlogN")
			if capacity == 64 && rapid.Bool().Draw(rt, "overflow") {
				k = rapid.SampledFrom([]int{64, 70, 100}).Draw(rt, "overflowN")
			}
			op := planOp{Kind: "backlog", Dest: rapid.IntRange(0, p.NSock-1).Draw(rt, "backlogIP"), Alt: g, Prime: p.NSock + rapid.IntRange(0, nNames-1).Draw(rt, "primeName"), N: k, Fill: drawFill(rt)}
			if rapid.Bool().Draw(rt, "backlogInA") {
				ps.A = append(ps.A, op)
			} else {
				ps.B = append(ps.B, op)
			}
		}
		if p.ServerProto != "direct" && rapid.IntRange(0, 9).Draw(rt, "garbageFirst") < 4 {
			ps.GarbageFirst = 1 + rapid.IntRange(0, len(garbageKinds(p.ServerProto))-1).Draw(rt, "garbageFirstKind")
		}
		// round 6: the first datagram of each client socket / of the session cannot get a relay session
		switch ff := rapid.IntRange(0, 9).Draw(rt, "failFirst"); {
		case ff < 2 && p.RejectDest > 0:
			ps.FailFirst = failReject
		case ff < 4 && p.BadDest > 0:
			ps.FailFirst = failBadClient
		case ff < 6 && p.UpName:
			ps.FailFirst = failUpstreamDown
		}
		if p.Wildcard != "" {
			ps.Home = rapid.IntRange(0, 3).Draw(rt, "home")
			// another client's datagram between this session's datagram and more replies for this session
			if rapid.IntRange(0, 9).Draw(rt, "interleave") < 4 {
				op := planOp{Kind: "interleave", Dest: d1, Alt: d1, N: rapid.IntRange(4, 32).Draw(rt, "interleaveReplies"), Fill: drawFill(rt)}
				if rapid.Bool().Draw(rt, "interleaveInA") {
					ps.A = append(ps.A, op)
				} else {
					ps.B = append(ps.B, op)
				}
			}
		}
		ps.D1, ps.D2 = d1, d2
		p.Sessions = append(p.Sessions, ps)
	}
	if len(p.Sessions) == 0 {
		p.Sessions = append(p.Sessions, planSession{A: []planOp{{Kind: "paced", Dest: p.Dests[p.TunnelDest].Sock, Alt: p.Dests[p.TunnelDest].Sock, N: 1}}})
	}
	// round 6: bursts of several established sessions at the same time, right after failed set-ups
	if len(p.Sessions) >= 2 && rapid.IntRange(0, 9).Draw(rt, "crowd") < 5 {
		c := &planCrowd{Clients: rapid.IntRange(2, 6).Draw(rt, "crowdClients"), Fails: rapid.IntRange(1, 4).Draw(rt, "crowdFails"),
			Fill: drawFill(rt), GapMs: rapid.SampledFrom([]int{0, 0, 1, 5}).Draw(rt, "crowdGap")}
		var kinds []int
		if p.RejectDest > 0 {
			kinds = append(kinds, failReject, failBadClient)
		}
		if p.UpName {
			kinds = append(kinds, failUpstreamDown)
		}
		if len(kinds) > 0 {
			c.FailKind = rapid.SampledFrom(kinds).Draw(rt, "crowdFailKind")
		}
		for i := 0; i < c.Clients; i++ {
			c.N = append(c.N, rapid.SampledFrom([]int{20, 33, 64, 65, 100, 150, 200}).Draw(rt, "crowdN"))
		}
		p.Crowd = c
	}
	kinds := garbageKinds(p.ServerProto)
	if len(kinds) > 0 {
		p.Garbage = rapid.SliceOfN(rapid.IntRange(0, len(kinds)-1), 1, 12).Draw(rt, "garbage")
		p.GarbageB = rapid.SliceOfN(rapid.IntRange(0, len(kinds)-1), 0, 12).Draw(rt, "garbageB")
	}
	p.AltEvery = rapid.SampledFrom([]int{0, 0, 2, 5}).Draw(rt, "altEvery")
	p.DropFirst = rapid.SampledFrom([]int{0, 0, 1, 2}).Draw(rt, "dropFirst")
	if p.ServerProto == "direct" && !p.Dests[p.TunnelDest].Name && rapid.Bool().Draw(rt, "targetOnly") {
		// replies from a non-target source must be dropped: send one before every genuine echo
		p.TargetOnly = true
		p.AltEvery = 0
		p.DropFirst = 3
	}
	return p
}

func (p *plan) class() string {
	names, rebind, burst, tour, backlog := 0, false, false, false, false
	ff, interleave, homes := [4]bool{}, false, map[int]bool{}
	for _, s := range p.Sessions {
		ff[s.FailFirst] = true
		homes[s.Home] = true
		for _, ops := range [][]planOp{s.A, s.B} {
			for _, o := range ops {
				switch o.Kind {
				case "rebind":
					rebind = true
				case "burst":
					burst = true
				}
				interleave = interleave || o.Kind == "interleave"
				if o.Kind == "tour" || o.Kind == "backlog" {
					names++
					tour = tour || o.Kind == "tour"
					backlog = backlog || o.Kind == "backlog"
				} else if o.Kind != "rebind" && (p.Dests[o.Dest].Name || (o.Kind != "freshburst" && p.Dests[o.Alt].Name)) {
					names++
				}
			}
		}
	}
	nb := "names0"
	if names > 0 {
		nb = "names+"
	}
	crowd := "-"
	if p.Crowd != nil {
		crowd = fmt.Sprintf("%d/%s", min(p.Crowd.Clients, len(p.Sessions)), failKindName(p.Crowd.FailKind))
	}
	return fmt.Sprintf("%s|eih=%v|%s|rb=%d,%d|%s|ceih=%v|%s|sess=%d|socks=%d|v6=%v|%s|rebind=%v|burst=%v|g=%d|alt=%d|tour=%v|drop=%d|to=%v|wild=%s|cap=%d|backlog=%v|ff=%v%v%v|homes=%d|il=%v|crowd=%s",
		p.ServerProto, p.ServerEIH, p.BatchMode, p.RelayBatch, p.RecvBatch, p.ClientProto, p.ClientEIH, p.Topology,
		len(p.Sessions), p.NSock, p.V6, nb, rebind, burst, len(p.Garbage), p.AltEvery, tour, p.DropFirst, p.TargetOnly, p.Wildcard, p.SendChanCap, backlog,
		ff[1], ff[2], ff[3], len(homes), interleave, crowd)
}
