package c11

import (
	"encoding/json"
	"fmt"
	"os"
	"sort"
	"strings"
	"sync"
	"testing"
	"time"

	"pgregory.net/rapid"

	"verif/internal/ev"
	"verif/internal/udpsvc"
)

// UDP statistics at service level: what GET /api/ssm/v1/servers/{server}/stats reports after the
// sessions have ended must equal the ledger of datagrams that were actually relayed, as observed at
// the harness-owned ends: packets and payload bytes per direction, UDP session count, charged to the
// ss2022 user when the server has a uPSK store and to the server anonymously otherwise. The relay
// hands a session's counters to the collector when the session ends, so the plan lets every session
// be evicted (short natTimeout; 60 s for ss2022 servers, thorough only) before it asks.

var recStats = ev.New("C11", "udp-stats",
	"rapid: real service with the management API enabled, server socks5/none/direct (natTimeout 400-700 ms; ss2022 ± uPSK store with 60 s only when enabled), "+
		"client direct or a harness upstream proxy, both batch modes (relay batch 2/8/default), 1..4 sessions sending paced datagrams and bursts of MIXED sizes "+
		"(pre-packed, written back to back so that sendmmsg batches form), replies partly dropped by the relay (oversize), garbage interleaved. After all sessions "+
		"were evicted GET stats is compared with the ledger observed at targets/upstream (uplink) and at the client sockets (downlink). "+
		"Non-trivial: >=1 burst with >=2 different payload sizes; distinct key = configuration class").
	Require("batch:sendmmsg", "batch:no", "mixed-size-burst")

type statsOp struct {
	Kind  string `json:"kind"` // paced | burst
	Dest  int    `json:"dest"`
	N     int    `json:"n,omitempty"`
	Fill  int    `json:"fill,omitempty"`
	Fills []int  `json:"fills,omitempty"`
}

type statsPlan struct {
	Seed         uint64      `json:"seed"`
	ServerProto  string      `json:"serverProto"`
	ServerEIH    bool        `json:"serverEIH"`
	BatchMode    string      `json:"batchMode"`
	RelayBatch   int         `json:"relayBatch"`
	ClientProto  string      `json:"clientProto"`
	NATTimeoutMs int         `json:"natTimeoutMs"`
	DropFirst    int         `json:"dropFirst"`
	Garbage      []int       `json:"garbage"`
	Sessions     [][]statsOp `json:"sessions"`
}

func statsSS2022() bool { return os.Getenv("VERIF_C11_STATS_SS2022") != "" }

func drawStatsPlan(rt *rapid.T) *statsPlan {
	p := &statsPlan{Seed: rapid.Uint64().Draw(rt, "seed")}
	if statsSS2022() {
		p.ServerProto = rapid.SampledFrom(serverProtos[3:]).Draw(rt, "serverProto")
		p.ServerEIH = rapid.Bool().Draw(rt, "serverEIH")
		p.NATTimeoutMs = 60000
	} else {
		p.ServerProto = rapid.SampledFrom(serverProtos[:3]).Draw(rt, "serverProto")
		p.NATTimeoutMs = rapid.SampledFrom([]int{400, 500, 700}).Draw(rt, "natTimeout")
	}
	p.BatchMode = rapid.SampledFrom([]string{"sendmmsg", "sendmmsg", "no"}).Draw(rt, "batchMode")
	if p.BatchMode == "sendmmsg" {
		p.RelayBatch = rapid.SampledFrom([]int{0, 2, 8}).Draw(rt, "relayBatch")
	}
	p.ClientProto = rapid.SampledFrom([]string{"direct", "direct", "socks5", "none", "2022-blake3-aes-128-gcm"}).Draw(rt, "clientProto")
	p.DropFirst = rapid.SampledFrom([]int{0, 0, 1, 2}).Draw(rt, "dropFirst")
	if k := garbageKinds(p.ServerProto); len(k) > 0 {
		p.Garbage = rapid.SliceOfN(rapid.IntRange(0, len(k)-1), 0, 6).Draw(rt, "garbage")
	}
	nSess := rapid.IntRange(1, 4).Draw(rt, "nSessions")
	for s := 0; s < nSess; s++ {
		dest := rapid.IntRange(0, 2).Draw(rt, "dest") // 0,1: IP sockets; 2: a name
		ops := []statsOp{{Kind: "paced", Dest: dest, N: 1, Fill: drawFill(rt)}}
		n := rapid.IntRange(1, 4).Draw(rt, "nOps")
		for i := 0; i < n; i++ {
			if rapid.IntRange(0, 9).Draw(rt, "opKind") < 6 {
				m := rapid.IntRange(2, 24).Draw(rt, "burstN")
				fills := make([]int, m)
				for j := range fills {
					fills[j] = rapid.SampledFrom([]int{0, 1, 7, 64, 300, 1000, 1300}).Draw(rt, "burstFill")
				}
				ops = append(ops, statsOp{Kind: "burst", Dest: dest, Fills: fills})
			} else {
				ops = append(ops, statsOp{Kind: "paced", Dest: dest, N: rapid.IntRange(1, 3).Draw(rt, "pacedN"), Fill: drawFill(rt)})
			}
		}
		p.Sessions = append(p.Sessions, ops)
	}
	return p
}

func (p *statsPlan) class() string {
	return fmt.Sprintf("%s|eih=%v|%s|rb=%d|%s|T=%d|drop=%d|g=%d|sess=%d", p.ServerProto, p.ServerEIH, p.BatchMode, p.RelayBatch, p.ClientProto,
		p.NATTimeoutMs, p.DropFirst, len(p.Garbage), len(p.Sessions))
}

type statsOutcome struct {
	violation string
	setupErr  error
	mismatch  string // stats differ from the observed ledger (re-run once: loss between relay and harness is possible in principle)
	liveMiss  []string
	mixed     bool
	labels    []string
	sample    map[string]any
}

func runStatsPlan(p *statsPlan, dir string) (out statsOutcome) {
	scn := scenarioCounter.Add(1) + uint32(os.Getpid())<<12
	T := time.Duration(p.NATTimeoutMs) * time.Millisecond
	if !udpsvc.WaitFor(5*time.Second, func() bool { return len(udpsvc.RepoGoroutines()) == 0 }) {
		out.setupErr = fmt.Errorf("repo goroutines alive before the scenario")
		return
	}
	w, err := udpsvc.NewWorld(scn, targetBase, 2, false)
	if err != nil {
		out.setupErr = err
		return
	}
	defer w.Close()
	udpsvc.InstallResolver()
	name := fmt.Sprintf("st-%x.c11.test", scn)
	udpsvc.SetName(name, udpsvc.NameRule{IP: w.IPs[1], Delay: 2 * time.Millisecond})
	defer udpsvc.DelName(name)
	w.AddDest(0, "")
	w.AddDest(1, "")
	w.AddDest(1, name)
	w.SetDropFirst(p.DropFirst)

	spec := &udpsvc.Spec{ServerProto: p.ServerProto, BatchMode: p.BatchMode, NATTimeout: fmt.Sprintf("%dms", p.NATTimeoutMs),
		RelayBatchSize: p.RelayBatch, ClientProto: p.ClientProto, API: true}
	if udpsvc.IsSS2022(p.ServerProto) {
		spec.ServerKeys = keysFor(p.ServerProto, p.ServerEIH, p.Seed, 1)
	}
	if p.ServerProto == "direct" {
		spec.TunnelTarget = w.DestAddr(1).String()
	}
	var up *udpsvc.Upstream
	if p.ClientProto != "direct" {
		if udpsvc.IsSS2022(p.ClientProto) {
			spec.ClientKeys = keysFor(p.ClientProto, false, p.Seed, 2)
		}
		up, err = w.StartUpstream(p.ClientProto, spec.ClientKeys)
		if err != nil {
			out.setupErr = err
			return
		}
		spec.ClientEndpoint = up.Addr.String()
	}
	svc, err := udpsvc.Start(spec, dir)
	if err != nil {
		out.setupErr = err
		return
	}
	defer svc.Stop(T + 30*time.Second)

	x := &exec{p: &plan{Seed: p.Seed, ServerProto: p.ServerProto, BatchMode: p.BatchMode}, w: w, spec: spec, labels: map[string]bool{}, gLabels: map[string]int{}}
	var clients []*hclient
	for i := range p.Sessions {
		codec, err := udpsvc.NewClientCodec(p.ServerProto, spec.ServerKeys, spec.ServerAddr, false)
		if err != nil {
			out.setupErr = err
			return
		}
		c, err := newHClient(w, uint16(i), codec, spec.ServerAddr)
		if err != nil {
			out.setupErr = err
			return
		}
		clients = append(clients, c)
		defer c.Close()
	}
	x.clients = clients
	for i := 0; i < 2; i++ {
		r, err := udpsvc.NewRawSocket()
		if err != nil {
			out.setupErr = err
			return
		}
		x.raws = append(x.raws, r)
		defer r.Close()
	}
	time.Sleep(5 * time.Millisecond)
	_, sIdle := udpsvc.FDs()

	var mu sync.Mutex
	var wg sync.WaitGroup
	for i, c := range clients {
		ops := p.Sessions[i]
		wg.Go(func() {
			for _, o := range ops {
				d := o.Dest
				if p.ServerProto == "direct" {
					d = 1
				}
				switch o.Kind {
				case "paced":
					for k := 0; k < o.N; k++ {
						if seq, ok, n := c.Paced(d, o.Fill, pacedWait, pacedTries); !ok {
							mu.Lock()
							out.liveMiss = append(out.liveMiss, fmt.Sprintf("session %d seq %d: no echo after %d datagrams", c.ID, seq, n))
							mu.Unlock()
							return
						}
					}
				case "burst":
					dests := make([]int, len(o.Fills))
					sizes := map[int]bool{}
					for j := range dests {
						dests[j] = d
						sizes[o.Fills[j]] = true
					}
					if len(sizes) >= 2 {
						mu.Lock()
						out.mixed = true
						mu.Unlock()
					}
					c.BurstFills(dests, o.Fills)
				}
			}
			// closing echo: everything queued before it has been forwarded
			c.Paced(map[bool]int{true: 1, false: ops[0].Dest}[p.ServerProto == "direct"], 3, pacedWait, pacedTries)
		})
	}
	if len(p.Garbage) > 0 {
		wg.Go(func() { x.sendGarbage(p.Garbage, false) })
	}
	wg.Wait()
	if len(out.liveMiss) > 0 {
		return
	}

	// no client traffic any more: every session must end, then the counters are with the collector
	time.Sleep(50 * time.Millisecond)
	if !udpsvc.WaitFor(T+4*time.Second, func() bool { _, s := udpsvc.FDs(); return s <= sIdle }) {
		out.liveMiss = append(out.liveMiss, fmt.Sprintf("sessions were not evicted %v after the last datagram", T+4*time.Second))
		return
	}
	time.Sleep(30 * time.Millisecond)

	// ledger from the harness-owned ends
	var led udpsvc.Traffic
	ports := map[uint16]bool{}
	for _, a := range w.Arrivals() {
		if a.Err != nil || a.Tag.Scenario != w.Scenario || int(a.Tag.Session) >= len(clients) {
			out.violation = fmt.Sprintf("SIG=C11/foreign-datagram-at-destination %+v", a)
			return
		}
		led.UplinkPackets++
		led.UplinkBytes += uint64(a.Len)
		ports[a.From.Port()] = true
	}
	for _, c := range clients {
		for _, r := range c.Replies() {
			if r.Err != nil {
				out.violation = fmt.Sprintf("SIG=C11/reply-undecodable session %d received a %d-byte datagram it cannot decode: %v", c.ID, r.Len, r.Err)
				return
			}
			led.DownlinkPackets++
			led.DownlinkBytes += uint64(r.PLen)
		}
	}
	led.UDPSessions = uint64(len(ports))

	st, err := svc.Stats("srv")
	if err != nil {
		out.violation = "SIG=C11/stats-api-failed GET stats: " + err.Error()
		return
	}
	sj, _ := json.Marshal(st)
	if st.Traffic != led {
		out.mismatch = fmt.Sprintf("server totals %+v, observed ledger %+v (API document %s)", st.Traffic, led, sj)
	}
	// who is charged
	if p.ServerEIH {
		if len(st.Users) != 1 || st.Users[0].Name != "user1" || st.Users[0].Traffic != st.Traffic {
			out.mismatch += fmt.Sprintf(" | every datagram was sent by user1, users array %s", sj)
		}
	} else if len(st.Users) != 0 {
		out.mismatch += fmt.Sprintf(" | no user exists on this server, yet users are charged: %s", sj)
	}
	out.labels = []string{"server:" + p.ServerProto, "client:" + p.ClientProto, "batch:" + p.BatchMode, fmt.Sprintf("drop-first:%d", p.DropFirst)}
	if out.mixed {
		out.labels = append(out.labels, "mixed-size-burst")
	}
	if p.ServerEIH {
		out.labels = append(out.labels, "per-user")
	}
	sort.Strings(out.labels)
	out.sample = map[string]any{"class": p.class(), "ledger": led}
	return
}

func checkStatsPlan(t failerC11, p *statsPlan, dir string) {
	done := writeJournal("c11stats", p)
	out := runStatsPlan(p, dir)
	if out.setupErr == nil && out.violation == "" && (out.mismatch != "" || len(out.liveMiss) > 0) {
		recStats.Label("retried", 1)
		first := out
		out = runStatsPlan(p, dir)
		if out.setupErr == nil && out.violation == "" {
			switch {
			case out.mismatch != "" && first.mismatch != "":
				out.violation = fmt.Sprintf("SIG=C11/udp-stats-differ-from-relayed-traffic in two runs of the plan; first run: %s; second run: %s", first.mismatch, out.mismatch)
			case len(out.liveMiss) > 0 && len(first.liveMiss) > 0:
				out.violation = fmt.Sprintf("SIG=C11/paced-no-reply in two runs of the stats plan: %v; %v", first.liveMiss, out.liveMiss)
			case out.mismatch != "" || len(out.liveMiss) > 0:
				recStats.Label("unstable-not-judged", 1)
				done()
				return
			}
		}
	}
	done()
	pj, _ := json.Marshal(p)
	if out.setupErr != nil {
		recStats.Label("setup-failed", 1)
		fmt.Fprintf(os.Stderr, "C11 stats scenario setup failed (no verdict): %v\n", out.setupErr)
		return
	}
	if out.violation != "" {
		sig := strings.TrimPrefix(strings.Fields(out.violation)[0], "SIG=C11/")
		if ev.IsKnown("C11", sig) {
			recStats.KnownHit(sig)
			return
		}
		t.Fatalf("%s\nplan=%s", out.violation, pj)
	}
	recStats.Case(p.class(), out.mixed, out.labels...)
	if out.mixed {
		recStats.Sample(out.sample)
	}
}

type failerC11 interface {
	Fatalf(string, ...any)
	Logf(string, ...any)
}

func TestStatsScenarios(t *testing.T) {
	dir := workDir(t)
	rapid.Check(t, func(rt *rapid.T) {
		checkStatsPlan(rt, drawStatsPlan(rt), dir)
	})
}

// fixedStatsPlans: the history of the seeded breakage - one session, bursts of mixed sizes, sendmmsg.
func fixedStatsPlans() []*statsPlan {
	mixed := []int{0, 1300, 7, 1000, 64, 300, 1, 1300, 0, 500, 1200, 3, 900, 17, 1300, 0}
	var ps []*statsPlan
	for i, c := range []struct {
		server, batch, client string
		rb                    int
	}{{"socks5", "sendmmsg", "direct", 0}, {"none", "sendmmsg", "none", 8}, {"direct", "sendmmsg", "direct", 2}, {"socks5", "no", "direct", 0}} {
		ps = append(ps, &statsPlan{Seed: uint64(100 + i), ServerProto: c.server, BatchMode: c.batch, RelayBatch: c.rb, ClientProto: c.client, NATTimeoutMs: 400,
			Sessions: [][]statsOp{
				{{Kind: "paced", Dest: 0, N: 1, Fill: 10}, {Kind: "burst", Dest: 0, Fills: mixed}, {Kind: "burst", Dest: 0, Fills: mixed[3:]}, {Kind: "paced", Dest: 0, N: 2, Fill: 700}},
				{{Kind: "paced", Dest: 2, N: 1}, {Kind: "burst", Dest: 2, Fills: mixed[5:]}},
			}})
	}
	return ps
}

func TestFixedStats(t *testing.T) {
	dir := workDir(t)
	for _, p := range fixedStatsPlans() {
		checkStatsPlan(t, p, dir)
	}
}

// TestStatsSS2022 (thorough, one scenario per shard): Shadowsocks 2022 server, 60 s NAT timeout, with
// and without a uPSK store: per-user and anonymous accounting on the session relay.
func TestStatsSS2022(t *testing.T) {
	shard := 0
	fmt.Sscan(os.Getenv("VERIF_SHARD"), &shard)
	mixed := []int{0, 1300, 7, 1000, 64, 300, 1, 1300, 0, 500, 1200, 3, 900, 17, 1300, 0}
	p := &statsPlan{Seed: uint64(200 + shard), ServerProto: serverProtos[3+shard%2], ServerEIH: shard%3 != 1, BatchMode: []string{"sendmmsg", "no"}[shard/2%2],
		RelayBatch: []int{0, 8, 2}[shard%3], ClientProto: []string{"direct", "none", "direct"}[shard%3], NATTimeoutMs: 60000, DropFirst: shard % 3,
		Sessions: [][]statsOp{
			{{Kind: "paced", Dest: 0, N: 1, Fill: 10}, {Kind: "burst", Dest: 0, Fills: mixed}, {Kind: "burst", Dest: 0, Fills: mixed[2:]}, {Kind: "paced", Dest: 0, N: 2, Fill: 700}},
			{{Kind: "paced", Dest: 2, N: 1}, {Kind: "burst", Dest: 2, Fills: mixed[5:]}},
		}}
	checkStatsPlan(t, p, workDir(t))
}
