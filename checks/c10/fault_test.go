package c10

import (
	"errors"
	"fmt"
	"io"
	"os"
	"sort"
	"strconv"
	"strings"
	"syscall"
	"testing"

	"github.com/database64128/shadowsocks-go/domainset"
	"github.com/database64128/shadowsocks-go/prefixset"

	"verif/internal/ev"
	"verif/internal/routex"
)

// faultWriter accepts `budget` bytes in total. mode 0: the write that crosses the budget stores what
// fits and returns (n, ENOSPC), later writes return (0, ENOSPC) — a full disk. mode 1: the same
// but with a nil error (a short-writing writer; bufio reports io.ErrShortWrite for those).
type faultWriter struct {
	budget    int
	mode      int
	accepted  int
	calls     int
	faultCall int // index of the first call that could not take everything, -1 if none
}

func (w *faultWriter) Write(p []byte) (int, error) {
	call := w.calls
	w.calls++
	room := w.budget - w.accepted
	if len(p) <= room {
		w.accepted += len(p)
		return len(p), nil
	}
	if w.faultCall < 0 {
		w.faultCall = call
	}
	w.accepted += room
	if w.mode == 1 {
		return room, nil
	}
	return room, syscall.ENOSPC
}

// countWriter measures a fault-free run.
type countWriter struct {
	n, calls int
}

func (w *countWriter) Write(p []byte) (int, error) { w.n += len(p); w.calls++; return len(p), nil }

type writerUnderTest struct {
	name    string
	bufio   bool // goes through a 128 KiB bufio.Writer (so the last Write call is the final flush)
	shortOK bool // false: encoding/gob ignores the byte count of a nil-error short write; only observed
	write   func(w io.Writer) error
}

func bigRules(n int) []routex.Rule {
	out := make([]routex.Rule, 0, n)
	for i := 0; i < n; i++ {
		k := []int{routex.KindDomain, routex.KindSuffix, routex.KindSuffix, routex.KindKeyword}[i%4]
		if i%997 == 0 {
			out = append(out, routex.Rule{Kind: routex.KindRegexp, Text: fmt.Sprintf(`^r%d\.example\.`, i)})
			continue
		}
		out = append(out, routex.Rule{Kind: k, Text: fmt.Sprintf("host%d.zone%d.example.org", i, i%37)})
	}
	return out
}

func faultBudgets(total int, calls int, seed uint64) []int {
	set := map[int]bool{}
	add := func(v int) {
		if v >= 0 && v <= total+1 {
			set[v] = true
		}
	}
	if total <= 3000 {
		for v := 0; v <= total+1; v++ {
			add(v)
		}
	} else {
		for _, c := range []int{0, 1, 2, 55, 56, 511, 512, 513, 4095, 4096, 4097, 65535, 65536, 65537} {
			add(c)
		}
		for k := 1; k*128*1024 <= total+128*1024; k++ {
			for d := -2; d <= 2; d++ {
				add(k*128*1024 + d)
			}
		}
		for d := 0; d <= 40; d++ {
			add(total - d)
		}
		add(total + 1)
		r := prng(seed)
		for i := 0; i < 40; i++ {
			add(r.intn(total))
		}
	}
	out := make([]int, 0, len(set))
	for v := range set {
		out = append(out, v)
	}
	sort.Ints(out)
	return out
}

var recFault = ev.New("C10", "write-faults",
	"fault enumeration over every writer the packages export (Builder.WriteText, Builder.WriteGob, BuilderGob.WriteGob on text-built and gob-built builders; PrefixSetWriteText) with small, medium and >128 KiB outputs: "+
		"the destination accepts N bytes and then fails with ENOSPC, or returns short counts with a nil error; N = every value 0..len+1 for outputs <= 3000 B, else 0,1,2,56±,512±1,4096±1,64Ki±1, every multiple of 128 KiB ±2, len-40..len+1 and 40 seeded values. "+
		"Oracle: the call returns a non-nil error whenever the destination refused a byte (never nil with a truncated document), and nil when nothing was refused. "+
		"Non-trivial: the fault hits the last Write call of the fault-free run (for the bufio-based text writers that is the final flush)").
	Require("write-fault-in-final-flush", "fault-in-earlier-write", "no-fault", "enospc", "short-nil", "output>128KiB", "budget=0", "budget=len-1",
		"writer:Builder.WriteText", "writer:Builder.WriteGob", "writer:BuilderGob.WriteGob", "writer:PrefixSetWriteText")

// TestWriteFaults sweeps the failure point of the destination over every exported writer.
func TestWriteFaults(t *testing.T) {
	seed, _ := strconv.ParseUint(os.Getenv("VERIF_SEED"), 10, 64)

	mustBuilder := func(rules []routex.Rule) domainset.Builder {
		b, err := domainset.BuilderFromText(routex.Text(rules, routex.TextOpts{Hint: 1}))
		if err != nil {
			t.Fatalf("harness: %v", err)
		}
		return b
	}
	gobTwin := func(b domainset.Builder) domainset.Builder {
		var sb strings.Builder
		if err := b.WriteGob(&sb); err != nil {
			t.Fatalf("harness: %v", err)
		}
		g, err := domainset.BuilderFromGobString(sb.String())
		if err != nil {
			t.Fatalf("harness: %v", err)
		}
		return g
	}
	mustPrefixes := func(n, v6 int) string {
		var sb strings.Builder
		for _, p := range bigPrefixes(seed+uint64(n), n, v6) {
			sb.WriteString(p.String() + "\n")
		}
		return sb.String()
	}

	var wut []writerUnderTest
	for _, fx := range []struct {
		name  string
		rules []routex.Rule
	}{
		{"small", []routex.Rule{{Kind: 0, Text: "a.b"}, {Kind: 1, Text: "b.c"}, {Kind: 2, Text: "kw"}, {Kind: 3, Text: `^x\.`}}},
		{"medium", bigRules(400)},
		{"large", bigRules(13000)},
	} {
		tb := mustBuilder(fx.rules)
		gb := gobTwin(tb)
		for _, bb := range []struct {
			origin string
			b      domainset.Builder
		}{{"text-built", tb}, {"gob-built", gb}} {
			b := bb.b
			wut = append(wut,
				writerUnderTest{"Builder.WriteText/" + fx.name + "/" + bb.origin, true, true, func(w io.Writer) error { return b.WriteText(w) }},
				writerUnderTest{"Builder.WriteGob/" + fx.name + "/" + bb.origin, false, false, func(w io.Writer) error { return b.WriteGob(w) }},
				writerUnderTest{"BuilderGob.WriteGob/" + fx.name + "/" + bb.origin, false, false, func(w io.Writer) error { return domainset.BuilderGobFromBuilder(b).WriteGob(w) }},
			)
		}
	}
	for _, fx := range []struct {
		name string
		text string
	}{{"small", "10.0.0.0/8\n2001:db8::/32\n192.168.1.0/24\n"}, {"large-v4", mustPrefixes(10000, 0)}, {"large-mixed", mustPrefixes(16000, 50)}} {
		s, err := prefixset.PrefixSetFromText(fx.text)
		if err != nil {
			t.Fatalf("harness: %v", err)
		}
		wut = append(wut, writerUnderTest{"PrefixSetWriteText/" + fx.name, true, true, func(w io.Writer) error { return prefixset.PrefixSetWriteText(s, w) }})
	}

	for _, u := range wut {
		var cw countWriter
		if err := u.write(&cw); err != nil {
			t.Fatalf("SIG=C10/write-failed-without-fault writer=%s err=%v", u.name, err)
		}
		total, cleanCalls := cw.n, cw.calls
		kind := strings.SplitN(u.name, "/", 2)[0]
		for _, mode := range []int{0, 1} {
			for _, n := range faultBudgets(total, cleanCalls, seed^uint64(total)) {
				fw := &faultWriter{budget: n, mode: mode, faultCall: -1}
				err := u.write(fw)
				refused := fw.faultCall >= 0
				labels := []string{"writer:" + kind, map[int]string{0: "enospc", 1: "short-nil"}[mode]}
				if total > 128<<10 {
					labels = append(labels, "output>128KiB")
				}
				switch {
				case n == 0:
					labels = append(labels, "budget=0")
				case n == total-1:
					labels = append(labels, "budget=len-1")
				}
				final := refused && fw.faultCall == cleanCalls-1
				switch {
				case !refused:
					labels = append(labels, "no-fault")
					if err != nil {
						t.Fatalf("SIG=C10/write-error-without-fault writer=%s budget=%d of %d err=%v", u.name, n, total, err)
					}
					if fw.accepted != total {
						t.Fatalf("SIG=C10/write-length-unstable writer=%s accepted=%d clean=%d", u.name, fw.accepted, total)
					}
				case mode == 1 && !u.shortOK:
					// encoding/gob does not look at the count of a nil-error short write (the writer
					// breaks the io.Writer contract); observed, not demanded
					if err == nil {
						labels = append(labels, "short-nil-undetected-by-gob")
					}
				case err == nil:
					where := "an earlier write"
					if final {
						where = "the last write (final flush)"
					}
					t.Fatalf("SIG=C10/write-fault-swallowed writer=%s mode=%s destination accepted %d of %d bytes, refused the rest in %s (call %d of %d), and the call returned nil",
						u.name, map[int]string{0: "ENOSPC", 1: "short-count"}[mode], fw.accepted, total, where, fw.faultCall+1, cleanCalls)
				case mode == 0 && !errors.Is(err, syscall.ENOSPC):
					t.Fatalf("SIG=C10/write-fault-error-replaced writer=%s budget=%d err=%v (want the destination's ENOSPC)", u.name, n, err)
				}
				if refused {
					if final && u.bufio {
						labels = append(labels, "write-fault-in-final-flush")
					} else if final {
						labels = append(labels, "write-fault-in-last-write")
					} else {
						labels = append(labels, "fault-in-earlier-write")
					}
				}
				recFault.Case(fmt.Sprintf("%s|%d|%d", u.name, mode, n), final, labels...)
			}
		}
		recFault.Sample(map[string]any{"writer": u.name, "output_bytes": total, "write_calls": cleanCalls, "budgets": len(faultBudgets(total, cleanCalls, seed^uint64(total)))})
	}
}
