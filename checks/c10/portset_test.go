package c10

import (
	"fmt"
	"sort"
	"strconv"
	"strings"
	"testing"

	"github.com/database64128/shadowsocks-go/portset"
	"pgregory.net/rapid"

	"verif/internal/ev"
)

type portItem struct {
	From, To uint16 // single port when From == To
	Via      int    // 0 Parse string, 1 Add / AddRange
}

var portEdges = []int{1, 2, 62, 63, 64, 65, 127, 128, 129, 1023, 1024, 4095, 4096, 32767, 32768, 65471, 65472, 65534, 65535}

func drawPortItem(rt *rapid.T, prev *portItem) portItem {
	var from int
	switch k := rapid.IntRange(0, 9).Draw(rt, "from-kind"); {
	case prev != nil && k < 3:
		// adjacent to, overlapping with, or just apart from the previous item
		from = int(prev.To) + rapid.SampledFrom([]int{-1, 0, 1, 2}).Draw(rt, "rel")
	case prev != nil && k == 3:
		from = int(prev.From) - rapid.SampledFrom([]int{1, 2, 3, 64}).Draw(rt, "before")
	case k < 8:
		from = rapid.SampledFrom(portEdges).Draw(rt, "edge") + rapid.IntRange(-1, 1).Draw(rt, "edge-d")
	default:
		from = rapid.IntRange(1, 65535).Draw(rt, "from")
	}
	from = min(max(from, 1), 65535)
	w := rapid.SampledFrom([]int{0, 0, 0, 1, 1, 2, 62, 63, 64, 65, 127, 128, 1000, 40000}).Draw(rt, "width")
	to := min(from+w, 65535)
	return portItem{From: uint16(from), To: uint16(to), Via: rapid.IntRange(0, 1).Draw(rt, "via")}
}

var recPorts = ev.New("C10", "portset-model",
	"rapid: 0-40 items (single ports and ranges; positions at 64-bit block edges, port 1 and 65535, adjacent/overlapping/nested relative to the previous item; "+
		"a third of the cases: exactly k = 1..16 disjoint non-adjacent ranges with single-port ranges first / middle / last, i.e. the range list of every length) "+
		"fed through Parse (one comma-separated string) and Add/AddRange; oracle: a [65536]bool model. Compared for all ports: PortSet.Contains (1..65535), RangeSet().Contains (0..65535), "+
		"the single-port form First() when Count()==1, plus Count, RangeCount, First. Non-trivial: >=2 items with an adjacent or overlapping pair and a range crossing a 64-bit block edge; distinct key = item list").
	Require("adjacent", "overlap", "block-cross", "touches-1", "touches-65535", "single-port-form", "ranges<=16", "ranges>16", "ranges=16", "ranges=17", "empty").
	Require("ranges=1", "ranges=2", "ranges=3", "ranges=4", "ranges=5", "ranges=6", "ranges=7", "ranges=8", "ranges=9", "ranges=10", "ranges=11", "ranges=12", "ranges=13", "ranges=14", "ranges=15",
		"list-single-port-first", "list-single-port-middle", "list-single-port-last", "list<=16-ends-at-65535", "list<=16-starts-at-1")

func TestPortSetModel(t *testing.T) {
	rapid.Check(t, func(rt *rapid.T) {
		var items []portItem
		layout := rapid.IntRange(0, 5).Draw(rt, "layout")
		if layout >= 4 {
			// Round 6: the range LIST of every length 1..16 (what the router keeps for <=16 ranges):
			// exactly k disjoint, non-adjacent ranges, single-port ranges at drawn positions
			// (first / middle / last), gaps of one port, of a block, or wide.
			items = drawExactRangeList(rt)
		} else if layout == 0 {
			// spread: k disjoint, non-adjacent items (so the range count is exactly k), around the
			// 16/17 threshold that switches the router's representation
			k := rapid.SampledFrom([]int{15, 16, 17, 18, 30, 40}).Draw(rt, "spread-k")
			step := 65000 / k
			for i := 0; i < k; i++ {
				from := 2 + i*step + rapid.IntRange(0, step/2).Draw(rt, "spread-pos")
				w := min(rapid.SampledFrom([]int{0, 0, 1, 63, 64, 65}).Draw(rt, "spread-w"), step/2-3)
				items = append(items, portItem{From: uint16(from), To: uint16(from + w), Via: rapid.IntRange(0, 1).Draw(rt, "via")})
			}
			if rapid.Bool().Draw(rt, "spread-shuffle") {
				items = rapid.Permutation(items).Draw(rt, "spread-perm")
			}
		}
		n := rapid.SampledFrom([]int{0, 1, 1, 2, 3, 5, 8, 16, 17, 18, 40}).Draw(rt, "n")
		if len(items) > 0 {
			n = rapid.IntRange(0, 2).Draw(rt, "extra")
		}
		for i := 0; i < n; i++ {
			var prev *portItem
			if len(items) > 0 {
				prev = &items[len(items)-1]
			}
			items = append(items, drawPortItem(rt, prev))
		}
		checkPorts(rt, items, recPorts)
	})
}

// drawExactRangeList draws k in 1..16 disjoint non-adjacent items in increasing order (optionally
// shuffled afterwards): the canonical range list of the resulting set has exactly k entries.
func drawExactRangeList(rt *rapid.T) []portItem {
	k := rapid.IntRange(1, 16).Draw(rt, "list-k")
	singles := rapid.IntRange(0, 7).Draw(rt, "list-singles") // bit0 first, bit1 middle, bit2 last
	mid := k / 2
	widths := make([]int, k)
	gaps := make([]int, k) // gap before item i (>=1 missing port, except before the first)
	total := 0
	for i := range k {
		single := (i == 0 && singles&1 != 0) || (i == k-1 && singles&4 != 0) || (i == mid && i != 0 && i != k-1 && singles&2 != 0)
		if !single {
			widths[i] = rapid.SampledFrom([]int{0, 1, 1, 2, 62, 63, 64, 65, 127, 1000}).Draw(rt, "list-w")
		}
		if i > 0 {
			gaps[i] = rapid.SampledFrom([]int{1, 1, 2, 63, 64, 65, 500, 3000}).Draw(rt, "list-gap")
		}
		total += widths[i] + 1 + gaps[i]
	}
	var start int
	switch rapid.IntRange(0, 3).Draw(rt, "list-anchor") {
	case 0:
		start = 1
	case 1:
		start = 65536 - total // the last range ends at 65535
	default:
		start = rapid.IntRange(1, 65536-total).Draw(rt, "list-start")
	}
	items := make([]portItem, 0, k)
	cur := start
	for i := range k {
		cur += gaps[i]
		items = append(items, portItem{From: uint16(cur), To: uint16(cur + widths[i]), Via: rapid.IntRange(0, 1).Draw(rt, "via")})
		cur += widths[i] + 1
	}
	if rapid.IntRange(0, 2).Draw(rt, "list-shuffle") == 0 {
		items = rapid.Permutation(items).Draw(rt, "list-perm")
	}
	return items
}

func checkPorts(rt fataler, items []portItem, rec *ev.Recorder) {
	var model [65536]bool
	var s portset.PortSet
	var parts []string
	adjacent, overlap, cross := false, false, false
	for i, it := range items {
		for j := 0; j < i; j++ {
			o := items[j]
			if int(it.From) <= int(o.To) && int(o.From) <= int(it.To) {
				overlap = true
			} else if int(it.From) == int(o.To)+1 || int(o.From) == int(it.To)+1 {
				adjacent = true
			}
		}
		if it.From/64 != it.To/64 {
			cross = true
		}
		for p := int(it.From); p <= int(it.To); p++ {
			model[p] = true
		}
		switch {
		case it.Via == 1 && it.From == it.To:
			s.Add(it.From)
		case it.Via == 1:
			s.AddRange(it.From, it.To)
		case it.From == it.To:
			parts = append(parts, strconv.Itoa(int(it.From)))
		default:
			parts = append(parts, fmt.Sprintf("%d-%d", it.From, it.To))
		}
	}
	str := strings.Join(parts, ",")
	if err := s.Parse(str); err != nil {
		rt.Fatalf("SIG=C10/port-parse-rejected-valid string=%q err=%v", str, err)
	}
	desc := func() string { return fmt.Sprintf("items=%v parse=%q", items, str) }

	count, ranges, first := 0, 0, 0
	for p := 1; p < 65536; p++ {
		if model[p] {
			count++
			if first == 0 {
				first = p
			}
			if !model[p-1] {
				ranges++
			}
		}
	}
	if got := s.Count(); int(got) != count {
		rt.Fatalf("SIG=C10/port-count got=%d want=%d %s", got, count, desc())
	}
	if got := s.RangeCount(); int(got) != ranges {
		rt.Fatalf("SIG=C10/port-rangecount got=%d want=%d %s", got, ranges, desc())
	}
	if got := s.First(); int(got) != first {
		rt.Fatalf("SIG=C10/port-first got=%d want=%d %s", got, first, desc())
	}
	rs := s.RangeSet()
	if rs.Contains(0) {
		rt.Fatalf("SIG=C10/port-rangeset-contains-0 %s", desc())
	}
	for p := 1; p < 65536; p++ {
		if got := s.Contains(uint16(p)); got != model[p] {
			rt.Fatalf("SIG=C10/port-bitset-mismatch port=%d got=%v want=%v %s", p, got, model[p], desc())
		}
		if got := rs.Contains(uint16(p)); got != model[p] {
			rt.Fatalf("SIG=C10/port-rangeset-mismatch port=%d got=%v want=%v %s", p, got, model[p], desc())
		}
		if count == 1 {
			// the single-port representation the router keeps is First()
			if got := uint16(p) == s.First(); got != model[p] {
				rt.Fatalf("SIG=C10/port-single-mismatch port=%d got=%v want=%v %s", p, got, model[p], desc())
			}
		}
	}
	// the same set written as its ranges and parsed again is the same set
	var canon []string
	for p := 1; p < 65536; p++ {
		if model[p] && !model[p-1] {
			q := p
			for q+1 < 65536 && model[q+1] {
				q++
			}
			if q == p {
				canon = append(canon, strconv.Itoa(p))
			} else {
				canon = append(canon, fmt.Sprintf("%d-%d", p, q))
			}
		}
	}
	var s2 portset.PortSet
	if err := s2.Parse(strings.Join(canon, ",")); err != nil {
		rt.Fatalf("SIG=C10/port-parse-rejected-valid string=%q err=%v", strings.Join(canon, ","), err)
	}
	if s2 != s {
		rt.Fatalf("SIG=C10/port-canonical-differs canonical=%q %s", strings.Join(canon, ","), desc())
	}

	var labels []string
	add := func(c bool, l string) {
		if c {
			labels = append(labels, l)
		}
	}
	add(adjacent, "adjacent")
	add(overlap, "overlap")
	add(cross, "block-cross")
	add(model[1], "touches-1")
	add(model[65535], "touches-65535")
	add(count == 1, "single-port-form")
	add(count == 0, "empty")
	add(count > 1 && ranges <= 16, "ranges<=16")
	add(ranges == 16, "ranges=16")
	add(ranges == 17, "ranges=17")
	add(ranges > 16, "ranges>16")
	// Round 6: every length of the range list, and where its single-port ranges sit
	if ranges >= 1 && ranges <= 15 {
		labels = append(labels, fmt.Sprintf("ranges=%d", ranges))
	}
	if ranges >= 2 && ranges <= 16 {
		idx := 0
		var sf, sm, sl bool
		for p := 1; p < 65536; p++ {
			if model[p] && !model[p-1] {
				single := p == 65535 || !model[p+1]
				sf = sf || (single && idx == 0)
				sl = sl || (single && idx == ranges-1)
				sm = sm || (single && idx > 0 && idx < ranges-1)
				idx++
			}
		}
		add(sf, "list-single-port-first")
		add(sm, "list-single-port-middle")
		add(sl, "list-single-port-last")
		add(model[65535], "list<=16-ends-at-65535")
		add(model[1], "list<=16-starts-at-1")
	}
	sort.Strings(labels)
	nt := len(items) >= 2 && (adjacent || overlap) && cross
	rec.Case(fmt.Sprint(items), nt, labels...)
	rec.Label("port-evaluations", 65535*2)
	if nt && len(items) <= 6 {
		rec.Sample(map[string]any{"items": fmt.Sprint(items), "parse": str, "count": count, "ranges": ranges})
	}
}

// TestPortParseForms checks the documented string forms one by one: what the parser accepts must
// mean exactly the listed ports, what it refuses must be refused with an error (never a set that
// silently matches something else).
func TestPortParseForms(t *testing.T) {
	type form struct {
		s    string
		ok   bool
		want []int // inclusive pairs
	}
	forms := []form{
		{"", true, nil},
		{"1", true, []int{1, 1}},
		{"65535", true, []int{65535, 65535}},
		{"1-65535", true, []int{1, 65535}},
		{"1-2", true, []int{1, 2}},
		{"65534-65535", true, []int{65534, 65535}},
		{"63-64", true, []int{63, 64}},
		{"64-127", true, []int{64, 127}},
		{"80,443,8443", true, []int{80, 80, 443, 443, 8443, 8443}},
		{"12345,32768-60999", true, []int{12345, 12345, 32768, 60999}},
		{"10-20,21-30", true, []int{10, 30}},
		{"10-20,15-25", true, []int{10, 25}},
		{"10-20,12-13", true, []int{10, 20}},
		{"20-30,10-19", true, []int{10, 30}},
		{"5,5,5", true, []int{5, 5}},
		{"5,4-6", true, []int{4, 6}},
		{"0", false, nil},
		{"0-5", false, nil},
		{"7-3", false, nil},
		{"65536", false, nil},
		{"1-65536", false, nil},
		{"70000-70001", false, nil},
		{"a", false, nil},
		{"1-b", false, nil},
		{"-5", false, nil},
		{"5-", false, nil},
		{"1-2-3", false, nil},
		{"1,,2", false, nil},
		{",1", false, nil},
		{"1;2", false, nil},
		{"-1", false, nil},
		{"80,0", false, nil},
		{"80,90-80", false, nil},
	}
	for _, f := range forms {
		var s portset.PortSet
		err := s.Parse(f.s)
		if (err == nil) != f.ok {
			t.Fatalf("SIG=C10/port-parse-form string=%q err=%v wantAccepted=%v", f.s, err, f.ok)
		}
		nt := false
		if f.ok {
			var model [65536]bool
			for i := 0; i+1 < len(f.want); i += 2 {
				for p := f.want[i]; p <= f.want[i+1]; p++ {
					model[p] = true
				}
			}
			rs := s.RangeSet()
			for p := 1; p < 65536; p++ {
				if s.Contains(uint16(p)) != model[p] || rs.Contains(uint16(p)) != model[p] {
					t.Fatalf("SIG=C10/port-parse-form-meaning string=%q port=%d bitset=%v rangeset=%v want=%v", f.s, p, s.Contains(uint16(p)), rs.Contains(uint16(p)), model[p])
				}
			}
			nt = strings.Contains(f.s, ",")
		}
		recPortForms.Case("form:"+f.s, nt, map[bool]string{true: "accepted", false: "refused"}[f.ok])
	}
	// "5-5": the parser refuses an equal-ended range; had it accepted it, it would have to mean {5}
	var s portset.PortSet
	if err := s.Parse("5-5"); err == nil {
		for p := 1; p < 65536; p++ {
			if s.Contains(uint16(p)) != (p == 5) {
				t.Fatalf("SIG=C10/port-parse-form-meaning string=\"5-5\" port=%d", p)
			}
		}
		recPortForms.Case("form:5-5", false, "accepted", "eq-range-accepted")
	} else {
		recPortForms.Case("form:5-5", false, "refused", "eq-range-refused")
	}
}

var recPortForms = ev.New("C10", "port-parse-forms",
	"fixed table of range-string forms (single, adjacent, overlapping, nested, reversed order, duplicates, bounds 1 and 65535; refused: port 0, from>to, >65535, non-numeric, empty element); "+
		"accepted strings must mean exactly the listed ports in both representations, refused ones must return an error. Non-trivial: accepted multi-element string")

// ---- Round 6: the range list of every length, bounded-exhaustive

var recPortLists = ev.New("C10", "port-range-list-exhaustive",
	"bounded-exhaustive: for every list length k = 1..16, every choice of single-port ranges among {first, middle, last} (8) and five layouts (gaps of one port starting at 1; "+
		"ranges starting on 64-bit block edges; ranges ending on block edges; the last range ending at 65535; wide gaps), built through Parse and through Add/AddRange: "+
		"PortSet.Contains and RangeSet().Contains for all 65 535 ports (and port 0 for the list) against a [65536]bool model, RangeCount == k. Non-trivial: k >= 2").
	Require("len=1", "len=2", "len=3", "len=4", "len=5", "len=6", "len=7", "len=8", "len=9", "len=10", "len=11", "len=12", "len=13", "len=14", "len=15", "len=16",
		"single-first", "single-middle", "single-last")

// TestPortRangeListExhaustive makes sure that the binary search of PortRangeSet is compared with
// the bit set on all ports for lists of every length the router can keep (1..16), whatever the
// random generator of TestPortSetModel happens to draw.
func TestPortRangeListExhaustive(t *testing.T) {
	for k := 1; k <= 16; k++ {
		for singles := 0; singles < 8; singles++ {
			for layout := 0; layout < 5; layout++ {
				mid := k / 2
				type rg struct{ from, to int }
				var rs []rg
				cur := 1
				for i := 0; i < k; i++ {
					single := (i == 0 && singles&1 != 0) || (i == k-1 && singles&4 != 0) || (i == mid && i != 0 && i != k-1 && singles&2 != 0)
					w := 0
					if !single {
						w = []int{1, 2, 63, 64, 70}[(i+layout)%5]
					}
					switch layout {
					case 0: // one missing port between ranges, starting at port 1
						if i > 0 {
							cur++
						}
					case 1: // every range starts on a block edge
						cur = (cur/64 + 1) * 64
					case 2: // every range ends on the last port of a block
						cur = (cur/64+3)*64 - 1 - w
					case 3: // computed below: shifted so that the last range ends at 65535
						cur += 1 + (i*37)%90
					default: // wide gaps
						cur += 3000 + (i*911)%800
					}
					rs = append(rs, rg{cur, cur + w})
					cur += w + 1
				}
				if layout == 3 {
					d := 65535 - rs[k-1].to
					for i := range rs {
						rs[i].from += d
						rs[i].to += d
					}
				}
				var model [65536]bool
				var viaParse, viaAdd portset.PortSet
				var parts []string
				for _, r := range rs {
					if r.from < 1 || r.to > 65535 {
						t.Fatalf("harness: layout %d k=%d out of range: %v", layout, k, rs)
					}
					for p := r.from; p <= r.to; p++ {
						model[p] = true
					}
					if r.from == r.to {
						parts = append(parts, strconv.Itoa(r.from))
						viaAdd.Add(uint16(r.from))
					} else {
						parts = append(parts, fmt.Sprintf("%d-%d", r.from, r.to))
						viaAdd.AddRange(uint16(r.from), uint16(r.to))
					}
				}
				str := strings.Join(parts, ",")
				if err := viaParse.Parse(str); err != nil {
					t.Fatalf("SIG=C10/port-parse-rejected-valid string=%q err=%v", str, err)
				}
				if viaParse != viaAdd {
					t.Fatalf("SIG=C10/port-parse-vs-add-differ string=%q", str)
				}
				if got := viaParse.RangeCount(); int(got) != k {
					t.Fatalf("SIG=C10/port-rangecount got=%d want=%d string=%q", got, k, str)
				}
				list := viaParse.RangeSet()
				if list.Contains(0) {
					t.Fatalf("SIG=C10/port-rangeset-contains-0 string=%q", str)
				}
				for p := 1; p < 65536; p++ {
					if got := viaParse.Contains(uint16(p)); got != model[p] {
						t.Fatalf("SIG=C10/port-bitset-mismatch port=%d got=%v want=%v string=%q", p, got, model[p], str)
					}
					if got := list.Contains(uint16(p)); got != model[p] {
						t.Fatalf("SIG=C10/port-rangeset-mismatch port=%d got=%v want=%v list-length=%d string=%q", p, got, model[p], k, str)
					}
				}
				labels := []string{fmt.Sprintf("len=%d", k)}
				if singles&1 != 0 {
					labels = append(labels, "single-first")
				}
				if singles&2 != 0 && mid != 0 && mid != k-1 {
					labels = append(labels, "single-middle")
				}
				if singles&4 != 0 {
					labels = append(labels, "single-last")
				}
				recPortLists.Case(str, k >= 2, labels...)
				recPortLists.Label("port-evaluations", 65535*2)
			}
		}
	}
	recPortLists.Exhaustive(true)
	recPortLists.Sample(map[string]any{"lengths": "1..16", "single-port patterns": 8, "layouts": 5, "ports per list": 65535})
}
