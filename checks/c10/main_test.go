package c10

import (
	"runtime/debug"
	"testing"

	"verif/internal/ev"
)

func TestMain(m *testing.M) {
	// the repo's text writer allocates a 128 KiB buffer per call; collect less often
	debug.SetGCPercent(400)
	ev.Main(m)
}
