package c10

import (
	"bytes"
	"fmt"
	"hash/fnv"
	"os"
	"path/filepath"
	"slices"
	"sort"
	"strings"
	"testing"

	"github.com/database64128/shadowsocks-go/domainset"
	"pgregory.net/rapid"

	"verif/internal/ev"
	"verif/internal/routex"
)

// Label vocabulary: three letters and the empty label (which yields leading, trailing and doubled
// dots). Every rule and every probe is a name of 1..4 labels over it, so rules are suffixes and
// extensions of one another all the time.
var labelVocab = []string{"a", "b", "c", ""}

var probeNames = routex.Names(labelVocab, 4) // 4+16+64+256 = 340 names, "" included

var ruleNames = func() []string {
	var out []string
	for _, n := range probeNames {
		if n != "" { // the text format has no way to write an empty rule
			out = append(out, n)
		}
	}
	return out
}()

var keywordPool = []string{"a", "b", "c.", ".", "..", "a.b", "b.a", ".c", "ab", "c.c", "a..", "b.c.a"}

var regexpPool = []string{`^a\.`, `\.c$`, `^(a|b)\.c$`, `a.*c`, `^\.`, `\.\.`, `^[ab]+$`, `b\.a`, `^c\.b\.a$`, `^$`, `a|^b$`}
var badRegexpPool = []string{`(`, `[a`, `a**`, `\p{Nope}`}

var sizeSteps = []int{0, 1, 4, 5, 16, 17, 100}

// ---- builder inventory: every constructor the package exports, per rule kind

type builderSpec struct {
	name string
	kind int
	// mk builds the matcher builder from the ordered rule list; capacity is the hint passed to
	// the New* constructors (ignored by the From* constructors, which get the true count).
	mk func(rules []string, capacity int) domainset.MatcherBuilder
}

func insertAll(b domainset.MatcherBuilder, rules []string) domainset.MatcherBuilder {
	for _, r := range rules {
		b.Insert(r)
	}
	return b
}

var builderSpecs = []builderSpec{
	{"DomainLinear/New", routex.KindDomain, func(r []string, c int) domainset.MatcherBuilder {
		return insertAll(domainset.NewDomainLinearMatcher(c), r)
	}},
	{"DomainLinear/FromSeq", routex.KindDomain, func(r []string, c int) domainset.MatcherBuilder {
		m := domainset.DomainLinearMatcherFromSeq(len(r), slices.Values(r))
		return &m
	}},
	{"DomainBinarySearch/New", routex.KindDomain, func(r []string, c int) domainset.MatcherBuilder {
		return insertAll(domainset.NewDomainBinarySearchMatcher(c), r)
	}},
	{"DomainBinarySearch/FromSlice", routex.KindDomain, func(r []string, c int) domainset.MatcherBuilder {
		m := domainset.DomainBinarySearchMatcherFromSlice(r)
		return &m
	}},
	{"DomainBinarySearch/FromSeq", routex.KindDomain, func(r []string, c int) domainset.MatcherBuilder {
		m := domainset.DomainBinarySearchMatcherFromSeq(len(r), slices.Values(r))
		return &m
	}},
	{"DomainMap/New", routex.KindDomain, func(r []string, c int) domainset.MatcherBuilder {
		return insertAll(domainset.NewDomainMapMatcher(c), r)
	}},
	{"DomainMap/FromSlice", routex.KindDomain, func(r []string, c int) domainset.MatcherBuilder {
		m := domainset.DomainMapMatcherFromSlice(r)
		return &m
	}},
	{"DomainMap/FromSeq", routex.KindDomain, func(r []string, c int) domainset.MatcherBuilder {
		m := domainset.DomainMapMatcherFromSeq(len(r), slices.Values(r))
		return &m
	}},
	{"SuffixLinear/New", routex.KindSuffix, func(r []string, c int) domainset.MatcherBuilder {
		return insertAll(domainset.NewSuffixLinearMatcher(c), r)
	}},
	{"SuffixLinear/FromSeq", routex.KindSuffix, func(r []string, c int) domainset.MatcherBuilder {
		m := domainset.SuffixLinearMatcherFromSeq(len(r), slices.Values(r))
		return &m
	}},
	{"SuffixMap/New", routex.KindSuffix, func(r []string, c int) domainset.MatcherBuilder {
		return insertAll(domainset.NewSuffixMapMatcher(c), r)
	}},
	{"SuffixMap/FromSlice", routex.KindSuffix, func(r []string, c int) domainset.MatcherBuilder {
		m := domainset.SuffixMapMatcherFromSlice(r)
		return &m
	}},
	{"SuffixMap/FromSeq", routex.KindSuffix, func(r []string, c int) domainset.MatcherBuilder {
		m := domainset.SuffixMapMatcherFromSeq(len(r), slices.Values(r))
		return &m
	}},
	{"SuffixTrie/New", routex.KindSuffix, func(r []string, c int) domainset.MatcherBuilder {
		return insertAll(domainset.NewDomainSuffixTrieMatcherBuilder(c), r)
	}},
	{"SuffixTrie/FromSlice", routex.KindSuffix, func(r []string, c int) domainset.MatcherBuilder {
		m := domainset.DomainSuffixTrieFromSlice(r)
		return &m
	}},
	{"SuffixTrie/FromSeq", routex.KindSuffix, func(r []string, c int) domainset.MatcherBuilder {
		m := domainset.DomainSuffixTrieFromSeq(len(r), slices.Values(r))
		return &m
	}},
	{"KeywordLinear/New", routex.KindKeyword, func(r []string, c int) domainset.MatcherBuilder {
		return insertAll(domainset.NewKeywordLinearMatcher(c), r)
	}},
	{"KeywordLinear/FromSeq", routex.KindKeyword, func(r []string, c int) domainset.MatcherBuilder {
		m := domainset.KeywordLinearMatcherFromSeq(len(r), slices.Values(r))
		return &m
	}},
	{"Regexp/New", routex.KindRegexp, func(r []string, c int) domainset.MatcherBuilder {
		return insertAll(domainset.NewRegexpMatcherBuilder(c), r)
	}},
	{"Regexp/FromSeq", routex.KindRegexp, func(r []string, c int) domainset.MatcherBuilder {
		m := domainset.RegexpMatcherBuilderFromSeq(len(r), slices.Values(r))
		return &m
	}},
}

func specsOfKind(kind int) []builderSpec {
	var out []builderSpec
	for _, s := range builderSpecs {
		if s.kind == kind {
			out = append(out, s)
		}
	}
	return out
}

// ---- generator

type domCase struct {
	rules      []routex.Rule
	opts       routex.TextOpts
	badRegex   bool
	capHint    int // capacity passed to New* constructors: -1 => exact
	custom     [4]int
	clearFirst bool
	files      bool // also load through domainset.Config from files
	reRich     bool // round 6: 2-6 regexp rules from the construct generator
	reInfos    map[string]reInfo
}

func drawChain(rt *rapid.T) []string {
	// a chain of names each extending the previous one to the left: c, b.c, a.b.c, .a.b.c
	n := rapid.IntRange(1, 4).Draw(rt, "chain-len")
	cur := rapid.SampledFrom(labelVocab).Draw(rt, "chain-l0")
	out := []string{cur}
	for i := 1; i < n; i++ {
		cur = rapid.SampledFrom(labelVocab).Draw(rt, "chain-l") + "." + cur
		out = append(out, cur)
	}
	return out
}

// drawNames returns n rule names: chains of names extending one another first, then (so that the
// big sizes really hold that many different rules) distinct names taken with a stride through the
// whole vocabulary, and finally a few deliberate duplicates.
func drawNames(rt *rapid.T, n int) []string {
	if n == 0 {
		return nil
	}
	seen := map[string]bool{}
	var out []string
	add := func(s string) {
		if s != "" && !seen[s] && len(out) < n {
			seen[s] = true
			out = append(out, s)
		}
	}
	chains := rapid.IntRange(0, min(n, 6)).Draw(rt, "chains")
	for i := 0; i < chains; i++ {
		for _, c := range drawChain(rt) {
			if rapid.IntRange(0, 3).Draw(rt, "chain-keep") > 0 {
				add(c)
			}
		}
	}
	start := rapid.IntRange(0, len(ruleNames)-1).Draw(rt, "start")
	stride := rapid.SampledFrom([]int{1, 2, 4, 5, 7, 64, 85}).Draw(rt, "stride") // coprime with len(ruleNames)=339
	for i := 0; len(out) < n; i++ {
		add(ruleNames[(start+i*stride)%len(ruleNames)])
	}
	if n >= 2 && rapid.IntRange(0, 3).Draw(rt, "dups") == 0 {
		k := rapid.IntRange(1, min(3, n-1)).Draw(rt, "dup-n")
		for i := 0; i < k; i++ {
			out[rapid.IntRange(0, n-1).Draw(rt, "dup-at")] = out[rapid.IntRange(0, n-1).Draw(rt, "dup-of")]
		}
	}
	return out
}

func drawSize(rt *rapid.T, label string, steps []int) int {
	// small sizes dominate; 100 is rare because it is the expensive one
	w := rapid.IntRange(0, 99).Draw(rt, label)
	switch {
	case w < 12:
		return steps[0]
	case w < 30:
		return steps[min(1, len(steps)-1)]
	case w < 48:
		return steps[min(2, len(steps)-1)]
	case w < 66:
		return steps[min(3, len(steps)-1)]
	case w < 80:
		return steps[min(4, len(steps)-1)]
	case w < 96:
		return steps[min(5, len(steps)-1)]
	default:
		return steps[len(steps)-1]
	}
}

func genDomCase(rt *rapid.T) *domCase {
	c := &domCase{}
	nd := drawSize(rt, "n-domain", sizeSteps)
	ns := drawSize(rt, "n-suffix", sizeSteps)
	nk := drawSize(rt, "n-keyword", []int{0, 0, 1, 4, 5, 17})
	nr := drawSize(rt, "n-regexp", []int{0, 0, 1, 2, 4})
	// Round 6: a quarter of the cases hold 2-6 regexp rules made of constructs whose meaning depends
	// on the rule standing alone (regexp_gen_test.go); few keywords there, because a keyword like "."
	// matches nearly every name and would hide what the expressions decide.
	c.reRich = rapid.IntRange(0, 3).Draw(rt, "regexp-rich") == 0
	if c.reRich {
		nr = rapid.IntRange(2, 6).Draw(rt, "n-regexp-rich")
		nk = rapid.SampledFrom([]int{0, 0, 0, 1}).Draw(rt, "n-keyword-rich")
		c.reInfos = map[string]reInfo{}
	}
	for _, t := range drawNames(rt, nd) {
		c.rules = append(c.rules, routex.Rule{Kind: routex.KindDomain, Text: t})
	}
	for _, t := range drawNames(rt, ns) {
		c.rules = append(c.rules, routex.Rule{Kind: routex.KindSuffix, Text: t})
	}
	for i := 0; i < nk; i++ {
		c.rules = append(c.rules, routex.Rule{Kind: routex.KindKeyword, Text: rapid.SampledFrom(keywordPool).Draw(rt, "keyword")})
	}
	richBadAt := -1
	if c.reRich && rapid.IntRange(0, 15).Draw(rt, "regexp-rich-bad") == 11 { // rapid favours small values: keep the invalid sets rare
		richBadAt = rapid.IntRange(0, nr-1).Draw(rt, "regexp-rich-bad-at")
	}
	for i := 0; i < nr && c.reRich; i++ {
		if i == richBadAt {
			c.badRegex = true
			c.rules = append(c.rules, routex.Rule{Kind: routex.KindRegexp, Text: rapid.SampledFrom(richBadRegexpPool).Draw(rt, "bad-regexp")})
			continue
		}
		info := drawRichRegexp(rt)
		c.reInfos[info.text] = info
		c.rules = append(c.rules, routex.Rule{Kind: routex.KindRegexp, Text: info.text})
	}
	for i := 0; i < nr && !c.reRich; i++ {
		if rapid.IntRange(0, 39).Draw(rt, "regexp-bad") == 0 {
			c.badRegex = true
			c.rules = append(c.rules, routex.Rule{Kind: routex.KindRegexp, Text: rapid.SampledFrom(badRegexpPool).Draw(rt, "bad-regexp")})
		} else {
			c.rules = append(c.rules, routex.Rule{Kind: routex.KindRegexp, Text: rapid.SampledFrom(regexpPool).Draw(rt, "regexp")})
		}
	}
	// insertion order: kinds interleaved, any order
	if len(c.rules) > 1 {
		c.rules = rapid.Permutation(c.rules).Draw(rt, "order")
	}
	cnt := routex.Count(c.rules)
	c.opts.Hint = rapid.IntRange(0, 2).Draw(rt, "hint")
	for i := range c.opts.HintVals {
		c.opts.HintVals[i] = rapid.SampledFrom([]int{0, cnt[i], max(cnt[i]-1, 0), cnt[i] + 1, 1000}).Draw(rt, "hint-val")
	}
	c.opts.CRLF = rapid.Bool().Draw(rt, "crlf")
	c.opts.NoFinalNL = rapid.Bool().Draw(rt, "no-final-nl")
	c.opts.Decor = make([]uint8, len(c.rules)+1)
	for i := range c.opts.Decor {
		if rapid.IntRange(0, 5).Draw(rt, "decor?") == 0 {
			c.opts.Decor[i] = uint8(rapid.IntRange(1, 7).Draw(rt, "decor"))
		}
	}
	c.capHint = rapid.SampledFrom([]int{-1, 0, 1, 3, 64}).Draw(rt, "cap")
	for i := range c.custom {
		c.custom[i] = rapid.IntRange(0, 7).Draw(rt, "custom-builder")
	}
	c.clearFirst = rapid.IntRange(0, 4).Draw(rt, "clear-first") == 0
	c.files = rapid.IntRange(0, 2).Draw(rt, "files") == 0
	return c
}

func probesFor(rules []routex.Rule) []string {
	probes := slices.Clone(probeNames)
	step := 1
	if len(rules) > 40 {
		step = len(rules) / 40
	}
	for i := 0; i < len(rules); i += step {
		if rules[i].Kind == routex.KindRegexp {
			continue
		}
		probes = append(probes, routex.Mutations(rules[i].Text)...)
	}
	// Round 6: names in the other letter case, when the set holds regexp rules
	probes = append(probes, caseSafeProbes(rules)...)
	return probes
}

var recDomain = ev.New("C10", "domain-differential",
	"rapid: rule sets with per-kind sizes from {0,1,4,5,16,17,100} (keywords/regexps smaller) over the label vocabulary {a,b,c,\"\"} (chains of names extending one another; empty labels give leading/trailing/double dots), "+
		"any insertion order, capacity hint exact/wrong/absent, CRLF, blank and comment lines, optional final newline; probes = all 340 names of <=4 labels + mutations of every rule. "+
		"Oracle: naive matcher from the README vs text-loaded, gob-loaded, text->gob->text, text->text, gob->gob, file-loaded (text, gob), a Builder assembled from drawn builder types, "+
		"and every exported builder/matcher constructor per kind (AppendTo result and raw Match). Invalid regexp => every representation must refuse to build. "+
		"Round 6: a quarter of the cases hold 2-6 regexp rules built from top-level inline flags ((?i) (?s) (?U) (?m)), top-level alternation with per-alternative anchors, anchors at one end, empty alternatives, (named) capture groups, "+
		"scoped / mid-rule flag groups and upper-case literals; probes then include every name in upper case and with only its first / last letter in upper case (for whole sets only where no domain/suffix/keyword rule matches the lower-case form). "+
		"Non-trivial: >=2 rule kinds present and one domain/suffix rule is a proper label-boundary suffix of another, or >=2 regexp rules whose verdicts on the probes differ from the verdicts of the rules joined into one expression / read with hoisted anchors; distinct key = rule list + format options").
	Require("kinds>=2", "suffix-pair", "n-domain=16", "n-domain=17", "n-domain=100", "n-suffix=4", "n-suffix=5", "n-suffix=100", "n-suffix=0", "n-domain=0",
		"distinct-domain>64", "distinct-suffix>64", "duplicate-suffix-rules", "empty-label", "trailing-dot", "leading-dot", "crlf", "hint-absent", "hint-exact", "hint-wrong", "comment-or-blank", "bad-regexp-rejected", "file-loaded", "total=0", "matched", "unmatched").
	Require("re>=2", "re-rich-n=2", "re-rich-n=3", "re-rich-n=4", "re-rich-n=5", "re-rich-n=6", "re-flag-i-in-non-last-rule", "re-flag-sUm-in-non-last-rule", "re-top-level-alternation", "re-anchor-one-end",
		"re-empty-alternative", "re-capture-group", "re-same-group-name-in-two-rules", "re-upper-case-literal", "re-inner-flag-group", "re-joined-rules-would-differ", "re-flag-leak-observable",
		"re-hoisted-anchors-would-differ", "re-letter-case-decides", "re-rich-bad-rejected")

type namedSet struct {
	name string
	ds   domainset.DomainSet
}

func TestDomainSetDifferential(t *testing.T) {
	rapid.Check(t, func(rt *rapid.T) {
		c := genDomCase(rt)
		checkDomCase(rt, c, recDomain)
	})
}

type fataler interface {
	Fatalf(string, ...any)
}

func workDir(t fataler) string {
	base := os.Getenv("VERIF_WORK")
	if base == "" {
		base = os.TempDir()
	}
	d, err := os.MkdirTemp(base, "c10-")
	if err != nil {
		t.Fatalf("harness: %v", err)
	}
	return d
}

func checkDomCase(rt fataler, c *domCase, rec *ev.Recorder) {
	text := routex.Text(c.rules, c.opts)
	cnt := routex.Count(c.rules)
	total := len(c.rules)
	describe := func() string { return fmt.Sprintf("text=%q", text) }

	naive, nerr := routex.NewNaive(c.rules)
	if (nerr != nil) != c.badRegex {
		rt.Fatalf("harness: regexp pool classification wrong: %v", nerr)
	}

	// ---- text
	tb, err := domainset.BuilderFromText(text)
	if err != nil {
		rt.Fatalf("SIG=C10/valid-text-rejected err=%v %s", err, describe())
	}
	var sets []namedSet
	build := func(name string, b domainset.Builder) bool {
		ds, err := b.DomainSet()
		if c.badRegex {
			if err == nil {
				rt.Fatalf("SIG=C10/bad-regexp-accepted representation=%s %s", name, describe())
			}
			return false
		}
		if err != nil {
			rt.Fatalf("SIG=C10/build-failed representation=%s err=%v %s", name, err, describe())
		}
		sets = append(sets, namedSet{name, ds})
		return true
	}
	build("text", tb)

	// ---- gob
	var gobBuf bytes.Buffer
	if err := tb.WriteGob(&gobBuf); err != nil {
		rt.Fatalf("SIG=C10/gob-write-failed err=%v %s", err, describe())
	}
	gb, err := domainset.BuilderFromGob(bytes.NewReader(gobBuf.Bytes()))
	if err != nil {
		rt.Fatalf("SIG=C10/gob-read-failed err=%v %s", err, describe())
	}
	build("text->gob", gb)
	gb2, err := domainset.BuilderFromGobString(gobBuf.String())
	if err != nil {
		rt.Fatalf("SIG=C10/gob-read-failed (string) err=%v %s", err, describe())
	}
	build("text->gob(string)", gb2)

	// ---- gob -> gob
	var gobBuf2 bytes.Buffer
	if err := gb.WriteGob(&gobBuf2); err != nil {
		rt.Fatalf("SIG=C10/gob-write-failed (second) err=%v %s", err, describe())
	}
	gb3, err := domainset.BuilderFromGob(bytes.NewReader(gobBuf2.Bytes()))
	if err != nil {
		rt.Fatalf("SIG=C10/gob-read-failed (second) err=%v %s", err, describe())
	}
	build("text->gob->gob", gb3)

	// ---- text -> gob -> text, text -> text
	emptyRejected := false
	reText := func(name string, b domainset.Builder) {
		var buf bytes.Buffer
		if err := b.WriteText(&buf); err != nil {
			rt.Fatalf("SIG=C10/text-write-failed representation=%s err=%v %s", name, err, describe())
		}
		nb, err := domainset.BuilderFromText(buf.String())
		if err != nil {
			if total == 0 {
				// The writer emits only the capacity hint for an empty set and the loader refuses a
				// file without rules ("empty domain set"): an error, not a wrong match.
				emptyRejected = true
				return
			}
			rt.Fatalf("SIG=C10/written-text-rejected representation=%s err=%v written=%q %s", name, err, buf.String(), describe())
		}
		build(name, nb)
	}
	reText("text->gob->text", gb)
	reText("text->text", tb)

	// ---- files through domainset.Config (what the router does)
	if c.files {
		dir := workDir(rt)
		defer os.RemoveAll(dir)
		tp, gp := filepath.Join(dir, "set.txt"), filepath.Join(dir, "set.gob")
		if err := os.WriteFile(tp, []byte(text), 0o644); err != nil {
			rt.Fatalf("harness: %v", err)
		}
		if err := os.WriteFile(gp, gobBuf.Bytes(), 0o644); err != nil {
			rt.Fatalf("harness: %v", err)
		}
		for _, fc := range []domainset.Config{{Name: "t", Type: "text", Path: tp}, {Name: "t0", Path: tp}, {Name: "g", Type: "gob", Path: gp}} {
			ds, err := fc.DomainSet()
			name := "file:" + fc.Type
			if c.badRegex {
				if err == nil {
					rt.Fatalf("SIG=C10/bad-regexp-accepted representation=%s %s", name, describe())
				}
				continue
			}
			if err != nil {
				rt.Fatalf("SIG=C10/file-load-failed representation=%s err=%v %s", name, err, describe())
			}
			sets = append(sets, namedSet{name, ds})
		}
	}

	// ---- a Builder assembled from drawn builder types, and its gob/text forms
	var custom domainset.Builder
	var customNames []string
	for kind := 0; kind < 4; kind++ {
		specs := specsOfKind(kind)
		s := specs[c.custom[kind]%len(specs)]
		customNames = append(customNames, s.name)
		custom[kind] = s.mk(routex.OfKind(c.rules, kind), capFor(c.capHint, cnt[kind]))
	}
	cname := "custom[" + strings.Join(customNames, ",") + "]"
	if build(cname, custom) {
		var buf bytes.Buffer
		if err := custom.WriteGob(&buf); err != nil {
			rt.Fatalf("SIG=C10/gob-write-failed representation=%s err=%v %s", cname, err, describe())
		}
		cg, err := domainset.BuilderFromGob(&buf)
		if err != nil {
			rt.Fatalf("SIG=C10/gob-read-failed representation=%s err=%v %s", cname, err, describe())
		}
		build(cname+"->gob", cg)
		reText(cname+"->text", custom)
	}

	probes := probesFor(c.rules)
	reProbes := append(slices.Clone(probeNames), caseProbes...)
	matched, unmatched := 0, 0
	if !c.badRegex {
		for _, p := range probes {
			want := naive.Match(p)
			if want {
				matched++
			} else {
				unmatched++
			}
			for _, s := range sets {
				if got := s.ds.Match(p); got != want {
					rt.Fatalf("SIG=C10/domain-mismatch representation=%s probe=%q got=%v want=%v %s", s.name, p, got, want, describe())
				}
			}
		}
	}

	// ---- every builder constructor per kind
	for _, spec := range builderSpecs {
		rules := routex.OfKind(c.rules, spec.kind)
		var b domainset.MatcherBuilder
		if c.clearFirst && strings.HasSuffix(spec.name, "/New") {
			// a builder that was used and cleared must behave like a fresh one (the converter clears
			// the regexp builder for -skipRegexp)
			b = spec.mk([]string{"zz.zz", "a", "b.a"}, capFor(c.capHint, len(rules)))
			b.Clear()
			insertAll(b, rules)
		} else {
			b = spec.mk(rules, capFor(c.capHint, len(rules)))
		}
		ms, err := b.AppendTo(nil)
		if spec.kind == routex.KindRegexp && c.badRegex {
			if err == nil {
				rt.Fatalf("SIG=C10/bad-regexp-accepted builder=%s %s", spec.name, describe())
			}
			continue
		}
		if err != nil {
			rt.Fatalf("SIG=C10/build-failed builder=%s err=%v %s", spec.name, err, describe())
		}
		if c.badRegex {
			continue // no reference matcher for this case
		}
		raw, hasRaw := b.(domainset.Matcher)
		kindProbes := probes
		if spec.kind == routex.KindRegexp && len(rules) > 0 {
			kindProbes = reProbes // letter case is defined for regexp rules: all case variants
		}
		for _, p := range kindProbes {
			want := naive.MatchKind(spec.kind, p)
			got := false
			for _, m := range ms {
				if m.Match(p) {
					got = true
					break
				}
			}
			if got != want {
				rt.Fatalf("SIG=C10/builder-mismatch builder=%s probe=%q got=%v want=%v rules(in order)=%q", spec.name, p, got, want, rules)
			}
			if hasRaw {
				if got := raw.Match(p); got != want {
					rt.Fatalf("SIG=C10/raw-matcher-mismatch builder=%s probe=%q got=%v want=%v rules(in order)=%q", spec.name, p, got, want, rules)
				}
			}
		}
	}

	// ---- evidence
	kinds := 0
	for _, n := range cnt {
		if n > 0 {
			kinds++
		}
	}
	var ds []string
	ds = append(ds, routex.OfKind(c.rules, routex.KindDomain)...)
	ds = append(ds, routex.OfKind(c.rules, routex.KindSuffix)...)
	pair := routex.ProperSuffixPair(ds)
	labels := []string{fmt.Sprintf("n-domain=%d", cnt[0]), fmt.Sprintf("n-suffix=%d", cnt[1]), fmt.Sprintf("n-keyword=%d", cnt[2]), fmt.Sprintf("n-regexp=%d", cnt[3])}
	if kinds >= 2 {
		labels = append(labels, "kinds>=2")
	}
	for kind, name := range []string{"domain", "suffix"} {
		d := map[string]bool{}
		for _, r := range routex.OfKind(c.rules, kind) {
			d[r] = true
		}
		if len(d) > 64 {
			labels = append(labels, "distinct-"+name+">64")
		}
		if len(d) < cnt[kind] {
			labels = append(labels, "duplicate-"+name+"-rules")
		}
	}
	if pair {
		labels = append(labels, "suffix-pair")
	}
	if total == 0 {
		labels = append(labels, "total=0")
	}
	if emptyRejected {
		labels = append(labels, "empty-set-written-text-rejected")
	}
	var el, td, ld bool
	for _, r := range ds {
		el = el || strings.Contains(r, "..")
		td = td || strings.HasSuffix(r, ".")
		ld = ld || strings.HasPrefix(r, ".")
	}
	for f, l := range map[string]bool{"empty-label": el, "trailing-dot": td, "leading-dot": ld, "crlf": c.opts.CRLF, "no-final-newline": c.opts.NoFinalNL,
		"bad-regexp-rejected": c.badRegex, "cleared-builders": c.clearFirst, "file-loaded": c.files, "matched": matched > 0, "unmatched": unmatched > 0} {
		if l {
			labels = append(labels, f)
		}
	}
	switch c.opts.Hint {
	case 0:
		labels = append(labels, "hint-absent")
	case 1:
		labels = append(labels, "hint-exact")
	default:
		if c.opts.HintVals == cnt {
			labels = append(labels, "hint-exact")
		} else {
			labels = append(labels, "hint-wrong")
		}
	}
	for _, d := range c.opts.Decor {
		if d != 0 {
			labels = append(labels, "comment-or-blank")
			break
		}
	}
	// ---- round 6: what the regexp rules of this case contain and whether the probes would notice
	// a matcher that does not keep them apart
	res := routex.OfKind(c.rules, routex.KindRegexp)
	reNT := false
	if len(res) >= 2 && !c.badRegex {
		labels = append(labels, "re>=2")
		if c.reRich {
			labels = append(labels, fmt.Sprintf("re-rich-n=%d", len(res)))
		}
		m := measureRegexps(res, naive, reProbes)
		var flagINonLast, flagOtherNonLast, topAlt, oneEnd, emptyAlt, capture, upperLit, innerFlag bool
		named := 0
		for i, r := range res {
			info := c.reInfos[r]
			if i < len(res)-1 {
				flagINonLast = flagINonLast || strings.Contains(info.topFlags, "i")
				flagOtherNonLast = flagOtherNonLast || strings.ContainsAny(info.topFlags, "sUm")
			}
			topAlt = topAlt || info.topAlt
			oneEnd = oneEnd || info.oneEnd
			emptyAlt = emptyAlt || info.emptyAlt
			capture = capture || info.capture
			upperLit = upperLit || info.upperLit
			innerFlag = innerFlag || info.innerFlag
			if info.named {
				named++
			}
		}
		for l, b := range map[string]bool{"re-flag-i-in-non-last-rule": flagINonLast, "re-flag-sUm-in-non-last-rule": flagOtherNonLast, "re-top-level-alternation": topAlt,
			"re-anchor-one-end": oneEnd, "re-empty-alternative": emptyAlt, "re-capture-group": capture, "re-same-group-name-in-two-rules": named >= 2, "re-upper-case-literal": upperLit,
			"re-inner-flag-group": innerFlag, "re-joined-rules-would-differ": m.joinDiffers, "re-joined-rules-would-not-compile": m.joinNoCompile,
			"re-hoisted-anchors-would-differ": m.hoistDiffers, "re-letter-case-decides": m.caseDecides, "re-flag-leak-observable": flagINonLast && m.joinDiffers} {
			if b {
				labels = append(labels, l)
			}
		}
		reNT = m.joinDiffers || m.hoistDiffers
	}
	if c.badRegex && c.reRich {
		labels = append(labels, "re-rich-bad-rejected")
	}
	sort.Strings(labels)
	nt := (kinds >= 2 && pair && !c.badRegex) || reNT
	h := fnv.New64a()
	h.Write([]byte(text))
	rec.Case(fmt.Sprintf("%v|%x|%s", cnt, h.Sum64(), cname), nt, labels...)
	rec.Label("probe-evaluations", int64(len(probes)*(len(sets)+len(builderSpecs))))
	if nt && total <= 12 {
		rec.Sample(map[string]any{"rules": fmt.Sprint(c.rules), "representations": len(sets), "builders": len(builderSpecs), "probes": len(probes), "matched": matched})
	}
}

func capFor(hint, exact int) int {
	if hint < 0 {
		return exact
	}
	return hint
}

// ---- bounded-exhaustive insertion orders

var recOrder = ev.New("C10", "insertion-order-exhaustive",
	"bounded-exhaustive: every subset of <=K names from a 14-name pool over {a,b,\"\"} (suffix chains, sibling labels, leading/trailing/double dots) in every insertion order, "+
		"as suffix rules through SuffixTrie / SuffixMap / SuffixLinear and the text and gob loaders, and as domain rules through DomainLinear / DomainBinarySearch / DomainMap; "+
		"probes = all 120 names of <=4 labels over {a,b,\"\"}; oracle: naive matcher. Non-trivial: the ordered list contains a rule that is a proper suffix of another")

var orderPool = []string{"a", "b", "a.a", "b.a", "a.b", "a.b.a", "b.b.a", "a.a.b.a", "b.a.b", ".a", "a.", "a..a", ".b.a", "b."}

var orderProbes = routex.Names([]string{"a", "b", ""}, 4)

// TestInsertionOrderExhaustive enumerates all ordered selections of up to VERIF_C10_ORDER_K rules.
func TestInsertionOrderExhaustive(t *testing.T) {
	k := 4
	if v := os.Getenv("VERIF_C10_ORDER_K"); v != "" {
		fmt.Sscan(v, &k)
	}
	shard, shards := 0, 1
	fmt.Sscan(os.Getenv("VERIF_SHARD"), &shard)
	if v := os.Getenv("VERIF_SHARDS"); v != "" {
		fmt.Sscan(v, &shards)
	}
	if shards < 1 {
		shards = 1
	}
	// reference verdicts per pool element, as bitsets over the probes
	type bits []bool
	sufRef := make([]bits, len(orderPool))
	domRef := make([]bits, len(orderPool))
	for i, r := range orderPool {
		sufRef[i] = make(bits, len(orderProbes))
		domRef[i] = make(bits, len(orderProbes))
		for j, p := range orderProbes {
			sufRef[i][j] = routex.SuffixMatch(p, r)
			domRef[i][j] = p == r
		}
	}
	sufSpecs := specsOfKind(routex.KindSuffix)
	domSpecs := specsOfKind(routex.KindDomain)
	var total, nontriv int64
	var idx int64
	sel := make([]int, 0, k)
	used := make([]bool, len(orderPool))
	wantS := make([]bool, len(orderProbes))
	wantD := make([]bool, len(orderProbes))
	var visit func()
	check := func() {
		rules := make([]string, len(sel))
		for i, s := range sel {
			rules[i] = orderPool[s]
		}
		for j := range orderProbes {
			wantS[j], wantD[j] = false, false
			for _, s := range sel {
				wantS[j] = wantS[j] || sufRef[s][j]
				wantD[j] = wantD[j] || domRef[s][j]
			}
		}
		run := func(specs []builderSpec, want []bool) {
			for _, spec := range specs {
				if !strings.HasSuffix(spec.name, "/New") && !strings.HasSuffix(spec.name, "/FromSlice") {
					continue
				}
				b := spec.mk(rules, 0)
				ms, err := b.AppendTo(nil)
				if err != nil {
					t.Fatalf("SIG=C10/build-failed builder=%s rules=%q err=%v", spec.name, rules, err)
				}
				for j, p := range orderProbes {
					got := false
					for _, m := range ms {
						got = got || m.Match(p)
					}
					if got != want[j] {
						t.Fatalf("SIG=C10/order-mismatch builder=%s rules(in order)=%q probe=%q got=%v want=%v", spec.name, rules, p, got, want[j])
					}
				}
			}
		}
		run(sufSpecs, wantS)
		run(domSpecs, wantD)
		// the loaders: suffix lines in this order through text and gob
		var sb strings.Builder
		for _, r := range rules {
			sb.WriteString("suffix:" + r + "\n")
		}
		tb, err := domainset.BuilderFromText(sb.String())
		if err != nil {
			t.Fatalf("SIG=C10/valid-text-rejected text=%q err=%v", sb.String(), err)
		}
		var buf bytes.Buffer
		if err := tb.WriteGob(&buf); err != nil {
			t.Fatalf("SIG=C10/gob-write-failed err=%v", err)
		}
		gb, err := domainset.BuilderFromGob(&buf)
		if err != nil {
			t.Fatalf("SIG=C10/gob-read-failed err=%v", err)
		}
		for name, b := range map[string]domainset.Builder{"text": tb, "gob": gb} {
			ds, err := b.DomainSet()
			if err != nil {
				t.Fatalf("SIG=C10/build-failed representation=%s err=%v", name, err)
			}
			for j, p := range orderProbes {
				if got := ds.Match(p); got != wantS[j] {
					t.Fatalf("SIG=C10/order-mismatch representation=%s rules(in order)=%q probe=%q got=%v want=%v", name, rules, p, got, wantS[j])
				}
			}
		}
		total++
		if routex.ProperSuffixPair(rules) {
			nontriv++
		}
	}
	visit = func() {
		if len(sel) > 0 {
			if int(idx%int64(shards)) == shard {
				check()
			}
			idx++
		}
		if len(sel) == k {
			return
		}
		for i := range orderPool {
			if used[i] {
				continue
			}
			used[i] = true
			sel = append(sel, i)
			visit()
			sel = sel[:len(sel)-1]
			used[i] = false
		}
	}
	visit()
	recOrder.Exhaustive(true)
	recOrder.Extra("K", k)
	recOrder.Extra("ordered_lists", total)
	recOrder.Extra("with_proper_suffix_pair", nontriv)
	// every ordered list is distinct by construction; do not store one hash per list
	for i := int64(0); i < total; i++ {
		nt := i < nontriv
		key := ""
		if nt {
			key = fmt.Sprintf("order-%d-%d", shard, i%2000)
		}
		recOrder.Case(key, nt)
	}
	recOrder.Sample(map[string]any{"K": k, "pool": orderPool, "ordered_lists": total, "with_proper_suffix_pair": nontriv, "probes": len(orderProbes)})
}
