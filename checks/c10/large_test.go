package c10

import (
	"bytes"
	"fmt"
	"net/netip"
	"os"
	"path/filepath"
	"sort"
	"strings"
	"testing"

	"github.com/database64128/shadowsocks-go/domainset"
	"github.com/database64128/shadowsocks-go/prefixset"
	"pgregory.net/rapid"

	"verif/internal/ev"
	"verif/internal/routex"
)

// ---- large prefix sets (text form well beyond the writer's 128 KiB buffer)

// splitmix64: the content of a big set is derived from one drawn 64-bit value.
type prng uint64

func (p *prng) next() uint64 {
	*p += 0x9e3779b97f4a7c15
	z := uint64(*p)
	z = (z ^ (z >> 30)) * 0xbf58476d1ce4e5b9
	z = (z ^ (z >> 27)) * 0x94d049bb133111eb
	return z ^ (z >> 31)
}

func (p *prng) intn(n int) int { return int(p.next() % uint64(n)) }

// prefixModel answers membership by one map lookup per prefix length present.
type prefixModel struct {
	set  map[netip.Prefix]bool
	lens [2][]int // distinct lengths per family (0: v4, 1: v6)
}

func newPrefixModel(ps []netip.Prefix) *prefixModel {
	m := &prefixModel{set: map[netip.Prefix]bool{}}
	seen := [2]map[int]bool{{}, {}}
	for _, p := range ps {
		p = p.Masked()
		m.set[p] = true
		f := 0
		if p.Addr().Is6() {
			f = 1
		}
		if !seen[f][p.Bits()] {
			seen[f][p.Bits()] = true
			m.lens[f] = append(m.lens[f], p.Bits())
		}
	}
	return m
}

func (m *prefixModel) contains(a netip.Addr) bool {
	f := 0
	if a.Is6() {
		f = 1
	}
	for _, l := range m.lens[f] {
		if m.set[netip.PrefixFrom(a, l).Masked()] {
			return true
		}
	}
	return false
}

func bigPrefixes(seed uint64, n int, v6share int) []netip.Prefix {
	r := prng(seed)
	out := make([]netip.Prefix, 0, n)
	for len(out) < n {
		var p netip.Prefix
		if r.intn(100) < v6share {
			var b [16]byte
			hi, lo := r.next(), r.next()
			for i := 0; i < 8; i++ {
				b[i], b[8+i] = byte(hi>>(56-8*i)), byte(lo>>(56-8*i))
			}
			b[0] = 0x20 | b[0]&0x0f // keep clear of ::ffff:0:0/96 and of ::/8
			p = netip.PrefixFrom(netip.AddrFrom16(b), 24+r.intn(105)).Masked()
		} else {
			v := uint32(r.next())
			p = netip.PrefixFrom(netip.AddrFrom4([4]byte{byte(v >> 24), byte(v >> 16), byte(v >> 8), byte(v)}), 12+r.intn(21)).Masked()
		}
		out = append(out, p)
		// now and then a more specific prefix inside the one just added, and an adjacent sibling
		if len(out) < n && p.Bits() < p.Addr().BitLen()-2 && r.intn(8) == 0 {
			out = append(out, netip.PrefixFrom(routex.LastAddr(p), p.Bits()+1+r.intn(2)).Masked())
		}
		if len(out) < n && r.intn(8) == 0 {
			if nx := routex.LastAddr(p).Next(); nx.IsValid() {
				out = append(out, netip.PrefixFrom(nx, p.Bits()).Masked())
			}
		}
	}
	return out
}

var recPrefixLarge = ev.New("C10", "prefixset-large",
	"rapid: 10 000-20 000 prefixes (IPv4 /12-/32 and IPv6 /24-/128 in a drawn proportion, some nested, some adjacent siblings) derived from one drawn 64-bit value, so the text form is 150-450 KiB "+
		"(beyond the writer's 128 KiB buffer, several times); PrefixSetFromText -> PrefixSetToText / PrefixSetWriteText (to memory and to a file read back with LoadPrefixSet) -> PrefixSetFromText; "+
		"compared: every written line parses, number of lines and Size4+Size6 equal the number of distinct prefixes, membership of first/last/first-1/last+1 of 3 000 sampled prefixes against a per-length map model. "+
		"Non-trivial: both families present and written text > 256 KiB; distinct key = seed and size").
	Require("text>128KiB", "text>256KiB", "v4", "v6", "file-roundtrip")

func TestPrefixSetLarge(t *testing.T) {
	rapid.Check(t, func(rt *rapid.T) {
		seed := rapid.Uint64().Draw(rt, "seed")
		n := rapid.IntRange(10000, 20000).Draw(rt, "n")
		v6share := rapid.SampledFrom([]int{0, 10, 50, 90, 100}).Draw(rt, "v6-percent")
		crlf := rapid.Bool().Draw(rt, "crlf")
		ps := bigPrefixes(seed, n, v6share)
		model := newPrefixModel(ps)
		nl := "\n"
		if crlf {
			nl = "\r\n"
		}
		var sb strings.Builder
		sb.WriteString("# large set" + nl)
		for _, p := range ps {
			sb.WriteString(p.String())
			sb.WriteString(nl)
		}
		text := sb.String()
		desc := fmt.Sprintf("seed=%d n=%d v6%%=%d crlf=%v distinct=%d", seed, n, v6share, crlf, len(model.set))

		s1, err := prefixset.PrefixSetFromText(text)
		if err != nil {
			rt.Fatalf("SIG=C10/prefix-valid-text-rejected (large) %s err=%v", desc, err)
		}
		t2 := prefixset.PrefixSetToText(s1)
		var buf bytes.Buffer
		if err := prefixset.PrefixSetWriteText(s1, &buf); err != nil {
			rt.Fatalf("SIG=C10/prefix-write-failed (large) %s err=%v", desc, err)
		}
		dir := workDir(rt)
		defer os.RemoveAll(dir)
		path := filepath.Join(dir, "big.txt")
		f, err := os.Create(path)
		if err != nil {
			rt.Fatalf("harness: %v", err)
		}
		werr := prefixset.PrefixSetWriteText(s1, f)
		f.Close()
		if werr != nil {
			rt.Fatalf("SIG=C10/prefix-write-failed (large, file) %s err=%v", desc, werr)
		}

		type named struct {
			name string
			has  func(netip.Addr) bool
			size int
		}
		sets := []named{{"text", s1.Contains, s1.Size4() + s1.Size6()}}
		reload := func(name string, written []byte) {
			// every written line must be a prefix on its own (glued or truncated lines show here first)
			lines := 0
			for _, ln := range strings.Split(strings.TrimSuffix(string(written), "\n"), "\n") {
				if _, err := netip.ParsePrefix(ln); err != nil {
					rt.Fatalf("SIG=C10/prefix-written-line-corrupt representation=%s line=%q (line %d of the written text, %d bytes) %s", name, ln, lines+1, len(written), desc)
				}
				lines++
			}
			if lines != len(model.set) {
				rt.Fatalf("SIG=C10/prefix-written-count representation=%s lines=%d distinct-prefixes=%d %s", name, lines, len(model.set), desc)
			}
			s, err := prefixset.PrefixSetFromText(string(written))
			if err != nil {
				rt.Fatalf("SIG=C10/prefix-written-text-rejected representation=%s err=%v %s", name, err, desc)
			}
			sets = append(sets, named{name, s.Contains, s.Size4() + s.Size6()})
		}
		reload("text->ToText->text", t2)
		reload("text->WriteText->text", buf.Bytes())
		fs, err := prefixset.Config{Name: "big", Path: path}.LoadPrefixSet()
		if err != nil {
			rt.Fatalf("SIG=C10/prefix-written-text-rejected representation=WriteText-file err=%v %s", err, desc)
		}
		sets = append(sets, named{"text->WriteText(file)->LoadPrefixSet", fs.Contains, fs.Size4() + fs.Size6()})
		for _, s := range sets {
			if s.size != len(model.set) {
				rt.Fatalf("SIG=C10/prefix-count representation=%s size=%d distinct-prefixes=%d %s", s.name, s.size, len(model.set), desc)
			}
		}
		// sampled boundary addresses
		r := prng(seed ^ 0xabcdef)
		step := max(len(ps)/3000, 1)
		probes := 0
		for i := r.intn(step); i < len(ps); i += step {
			for _, a := range routex.Boundary(ps[i]) {
				want := model.contains(a)
				probes++
				for _, s := range sets {
					if got := s.has(a); got != want {
						rt.Fatalf("SIG=C10/prefix-mismatch (large) representation=%s addr=%s got=%v want=%v prefix=%s %s", s.name, a, got, want, ps[i], desc)
					}
				}
			}
		}
		var labels []string
		for l, c := range map[string]bool{"text>128KiB": buf.Len() > 128<<10, "text>256KiB": buf.Len() > 256<<10, "v4": v6share < 100, "v6": v6share > 0,
			"crlf-input": crlf, "file-roundtrip": true} {
			if c {
				labels = append(labels, l)
			}
		}
		sort.Strings(labels)
		nt := v6share > 0 && v6share < 100 && buf.Len() > 256<<10
		recPrefixLarge.Case(fmt.Sprintf("%d|%d|%d", seed, n, v6share), nt, labels...)
		recPrefixLarge.Label("probe-evaluations", int64(probes*len(sets)))
		recPrefixLarge.Label("prefixes-written", int64(len(model.set)*3))
		if nt {
			recPrefixLarge.Sample(map[string]any{"seed": seed, "prefixes": n, "distinct": len(model.set), "v6_percent": v6share, "written_bytes": buf.Len(), "probes": probes})
		}
	})
}

// ---- several sets loaded one after another through the Config loader (what Config.Router does)

var recLoaderSeq = ev.New("C10", "loader-sequence",
	"rapid: k=2-4 domain sets (text / default-type / gob mixed; rule sets from the differential's generator; three quarters of the cases ordered so that later files are not larger than earlier ones) "+
		"written to files and loaded one after another through domainset.Config.DomainSet(), all kept alive; only after the last load every set is probed (340 vocabulary names + rule mutations) against its own naive matcher, "+
		"and each text set against its gob twin. Non-trivial: an earlier text-loaded set is probed after a later text load whose file is not larger; distinct key = the texts").
	Require("earlier-text-set-probed-after-later-load", "k=2", "k=3", "k=4", "gob-between-texts", "later-larger", "earlier>=4KiB")

func TestDomainSetLoaderSequence(t *testing.T) {
	rapid.Check(t, func(rt *rapid.T) {
		k := rapid.IntRange(2, 4).Draw(rt, "k")
		type one struct {
			rules []routex.Rule
			text  string
			typ   string
			naive *routex.Naive
			ds    domainset.DomainSet
			twin  domainset.DomainSet
		}
		sets := make([]*one, k)
		for i := range sets {
			c := genDomCase(rt)
			var rules []routex.Rule
			for _, r := range c.rules {
				if r.Kind == routex.KindRegexp && isBadRegexp(r.Text) {
					continue
				}
				rules = append(rules, r)
			}
			if len(rules) == 0 {
				rules = []routex.Rule{{Kind: routex.KindSuffix, Text: rapid.SampledFrom(ruleNames).Draw(rt, "only-rule")}}
			}
			c.opts.Decor = c.opts.Decor[:min(len(c.opts.Decor), len(rules)+1)]
			if rapid.IntRange(0, 3).Draw(rt, "bulk") == 0 {
				// a file of 8-25 KiB: hundreds of further rules of both indexed kinds
				nb := rapid.IntRange(300, 800).Draw(rt, "bulk-n")
				for j := 0; j < nb; j++ {
					rules = append(rules, routex.Rule{Kind: j % 2, Text: fmt.Sprintf("h%d.bulk%d.filler.example", j, i)})
				}
			}
			naive, err := routex.NewNaive(rules)
			if err != nil {
				rt.Fatalf("harness: %v", err)
			}
			sets[i] = &one{rules: rules, text: routex.Text(rules, c.opts), naive: naive,
				typ: rapid.SampledFrom([]string{"text", "text", "", "gob"}).Draw(rt, "type")}
		}
		if rapid.IntRange(0, 3).Draw(rt, "descending") > 0 {
			sort.SliceStable(sets, func(i, j int) bool { return len(sets[i].text) > len(sets[j].text) })
		}
		dir := workDir(rt)
		defer os.RemoveAll(dir)
		// write everything first, then load in sequence
		for i, s := range sets {
			b, err := domainset.BuilderFromText(strings.Clone(s.text))
			if err != nil {
				rt.Fatalf("SIG=C10/valid-text-rejected err=%v text=%q", err, s.text)
			}
			var gob bytes.Buffer
			if err := b.WriteGob(&gob); err != nil {
				rt.Fatalf("SIG=C10/gob-write-failed err=%v", err)
			}
			if err := os.WriteFile(filepath.Join(dir, fmt.Sprintf("%d.txt", i)), []byte(s.text), 0o644); err != nil {
				rt.Fatalf("harness: %v", err)
			}
			if err := os.WriteFile(filepath.Join(dir, fmt.Sprintf("%d.gob", i)), gob.Bytes(), 0o644); err != nil {
				rt.Fatalf("harness: %v", err)
			}
		}
		for i, s := range sets {
			cfg := domainset.Config{Name: fmt.Sprint(i), Type: s.typ, Path: filepath.Join(dir, fmt.Sprintf("%d.txt", i))}
			if s.typ == "gob" {
				cfg.Path = filepath.Join(dir, fmt.Sprintf("%d.gob", i))
			}
			ds, err := cfg.DomainSet()
			if err != nil {
				rt.Fatalf("SIG=C10/file-load-failed set=%d type=%q err=%v text=%q", i, s.typ, err, s.text)
			}
			s.ds = ds
		}
		// gob twins are loaded last so they cannot disturb the sequence under test
		for i, s := range sets {
			tw, err := domainset.Config{Name: "twin", Type: "gob", Path: filepath.Join(dir, fmt.Sprintf("%d.gob", i))}.DomainSet()
			if err != nil {
				rt.Fatalf("SIG=C10/file-load-failed twin=%d err=%v", i, err)
			}
			s.twin = tw
		}
		describe := func() string {
			var sb strings.Builder
			for i, s := range sets {
				fmt.Fprintf(&sb, " set%d(type=%q,%dB)=%q", i, s.typ, len(s.text), s.text)
			}
			return sb.String()
		}
		for i, s := range sets {
			for _, p := range probesFor(s.rules) {
				want := s.naive.Match(p)
				if got := s.ds.Match(p); got != want {
					rt.Fatalf("SIG=C10/loader-sequence-mismatch set=%d of %d type=%q probe=%q got=%v want=%v (gob twin says %v; probed after all loads)%s",
						i, len(sets), s.typ, p, got, want, s.twin.Match(p), describe())
				}
				if got := s.twin.Match(p); got != want {
					rt.Fatalf("SIG=C10/loader-sequence-mismatch twin of set=%d probe=%q got=%v want=%v%s", i, p, got, want, describe())
				}
			}
		}
		isText := func(s *one) bool { return s.typ != "gob" }
		var earlier, gobBetween, laterLarger, big bool
		for i := range sets {
			for j := i + 1; j < len(sets); j++ {
				if isText(sets[i]) && isText(sets[j]) {
					if len(sets[j].text) <= len(sets[i].text) {
						earlier = true
						big = big || len(sets[i].text) >= 4096
						for m := i + 1; m < j; m++ {
							gobBetween = gobBetween || !isText(sets[m])
						}
					} else {
						laterLarger = true
					}
				}
			}
		}
		labels := []string{fmt.Sprintf("k=%d", k)}
		for l, c := range map[string]bool{"earlier-text-set-probed-after-later-load": earlier, "gob-between-texts": gobBetween, "later-larger": laterLarger, "earlier>=4KiB": big} {
			if c {
				labels = append(labels, l)
			}
		}
		sort.Strings(labels)
		recLoaderSeq.Case(describe(), earlier, labels...)
		if earlier && len(describe()) < 400 {
			recLoaderSeq.Sample(map[string]any{"k": k, "sets": describe()})
		}
	})
}
