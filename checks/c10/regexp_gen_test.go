package c10

import (
	"regexp"
	"strings"

	"pgregory.net/rapid"

	"verif/internal/routex"
)

// Round 6: several regexp: rules in one set, built from RE2 constructs whose meaning depends on the
// rule being compiled on its own: top-level inline flags, top-level alternation with anchors on one
// end only, empty alternatives, (named) capture groups, upper-case literals. The reference
// (routex.Naive) compiles every rule separately with Go's regexp package.

// reInfo is one generated regexp rule and what it contains.
type reInfo struct {
	text      string
	topFlags  string // letters of a leading (?flags) group, "" when there is none
	topAlt    bool   // alternation at the top level
	oneEnd    bool   // some alternative / the rule is anchored at exactly one end
	emptyAlt  bool   // an empty alternative
	capture   bool   // a capturing group
	named     bool   // a named capturing group (the same name in every rule that has one)
	upperLit  bool   // an upper-case literal
	innerFlag bool   // a flag group that is scoped or starts in the middle of the rule
}

// names of 1..3 labels over the vocabulary, the raw material of the literals
var reLitNames = func() []string {
	var out []string
	for _, n := range routex.Names(labelVocab, 3) {
		if strings.Trim(n, ".") != "" { // at least one letter
			out = append(out, n)
		}
	}
	return out
}()

func drawReLit(rt *rapid.T, info *reInfo) string {
	n := rapid.SampledFrom(reLitNames).Draw(rt, "re-lit")
	b := []byte(n)
	if rapid.IntRange(0, 4).Draw(rt, "re-upper") == 0 {
		var at []int
		for i, c := range b {
			if c >= 'a' && c <= 'z' {
				at = append(at, i)
			}
		}
		i := at[rapid.IntRange(0, len(at)-1).Draw(rt, "re-upper-at")]
		b[i] -= 'a' - 'A'
		info.upperLit = true
	}
	lit := regexp.QuoteMeta(string(b))
	switch rapid.IntRange(0, 9).Draw(rt, "re-lit-var") {
	case 0:
		lit = strings.Replace(lit, `\.`, `.`, 1) // any character instead of the dot
	case 1:
		if i := strings.IndexAny(lit, "abc"); i >= 0 {
			lit = lit[:i] + rapid.SampledFrom([]string{`[ab]`, `[^.]`, `[a-c]+`, `.*`}).Draw(rt, "re-class") + lit[i+1:]
		}
	}
	return lit
}

// drawReForm returns a literal with anchors at both ends, one end or none.
func drawReForm(rt *rapid.T, info *reInfo) string {
	lit := drawReLit(rt, info)
	switch rapid.IntRange(0, 5).Draw(rt, "re-anchor") {
	case 0, 1:
		return "^" + lit + "$"
	case 2:
		info.oneEnd = true
		return "^" + lit
	case 3:
		info.oneEnd = true
		return lit + "$"
	default:
		return lit
	}
}

func drawRichRegexp(rt *rapid.T) reInfo {
	var info reInfo
	var body string
	switch rapid.IntRange(0, 11).Draw(rt, "re-shape") {
	case 0, 1:
		body = drawReForm(rt, &info)
	case 2, 3, 4:
		// alternation at the top level; every alternative carries its own anchors
		k := rapid.IntRange(2, 3).Draw(rt, "re-alts")
		parts := make([]string, k)
		for i := range parts {
			parts[i] = drawReForm(rt, &info)
		}
		body = strings.Join(parts, "|")
		info.topAlt = true
	case 5:
		body = "^(" + drawReLit(rt, &info) + "|" + drawReLit(rt, &info) + ")"
		if rapid.Bool().Draw(rt, "re-tail") {
			body += `\.` + drawReLit(rt, &info)
		}
		body += "$"
		info.capture = true
	case 6:
		body = "(?:" + drawReLit(rt, &info) + "|" + drawReLit(rt, &info) + ")"
		switch rapid.IntRange(0, 2).Draw(rt, "re-group-anchor") {
		case 0:
			body = "^" + body + "$"
		case 1:
			body = "^" + body
			info.oneEnd = true
		default:
			body += "$"
			info.oneEnd = true
		}
	case 7:
		info.emptyAlt = true
		switch rapid.IntRange(0, 7).Draw(rt, "re-empty") {
		case 0, 1:
			body = "^(" + drawReLit(rt, &info) + `\.|)` + drawReLit(rt, &info) + "$"
			info.capture = true
		case 2, 3:
			body = "^" + drawReLit(rt, &info) + `(|\.` + drawReLit(rt, &info) + ")$"
			info.capture = true
		case 4, 5:
			body = "^(?:|" + drawReLit(rt, &info) + ")$"
		case 6:
			body = "^" + drawReLit(rt, &info) + "$||^" + drawReLit(rt, &info) + "$" // an empty alternative at the top level matches everything
			info.topAlt = true
		default:
			body = drawReLit(rt, &info) + `\.(?:` + drawReLit(rt, &info) + "||" + drawReLit(rt, &info) + ")$"
			info.oneEnd = true
		}
	case 8, 9:
		info.capture, info.named = true, true
		if rapid.Bool().Draw(rt, "re-named-form") {
			body = "^(?P<l>" + drawReLit(rt, &info) + `)\.(` + drawReLit(rt, &info) + ")$"
		} else {
			body = "(?P<l>" + drawReLit(rt, &info) + "|" + drawReLit(rt, &info) + ")$"
			info.oneEnd = true
		}
	default:
		info.innerFlag = true
		switch rapid.IntRange(0, 2).Draw(rt, "re-inner") {
		case 0:
			body = "(?i:" + drawReLit(rt, &info) + `)\.` + drawReLit(rt, &info)
		case 1:
			body = "^" + drawReLit(rt, &info) + `\.(?i)` + drawReLit(rt, &info) + "$" // the flag holds to the end of the rule
		default:
			body = "^(?i:" + drawReLit(rt, &info) + "|" + drawReLit(rt, &info) + ")$"
		}
	}
	info.topFlags = rapid.SampledFrom([]string{"", "", "", "", "", "", "", "", "i", "i", "i", "i", "i", "s", "U", "m", "is", "iU", "sm"}).Draw(rt, "re-flags")
	if info.topFlags != "" {
		info.text = "(?" + info.topFlags + ")" + body
	} else {
		info.text = body
	}
	return info
}

// Invalid expressions for the rich class: `(a` and `b)` are each invalid but their concatenation
// with "|" is a valid expression, `(?i` is an unterminated flag group.
var richBadRegexpPool = []string{`(a`, `b)`, `^(a\.`, `c)$`, `(?i`, `(?P<l>a`, `a**`}

// ---- probes in the other letter case

func caseVariants(n string) []string {
	var out []string
	up := strings.ToUpper(n)
	if up == n {
		return nil
	}
	out = append(out, up)
	if strings.Count(n, ".") <= 2 {
		b := []byte(n)
		first, last := -1, -1
		for i, c := range b {
			if c >= 'a' && c <= 'z' {
				if first < 0 {
					first = i
				}
				last = i
			}
		}
		f := []byte(n)
		f[first] -= 'a' - 'A'
		out = append(out, string(f))
		if last != first {
			l := []byte(n)
			l[last] -= 'a' - 'A'
			out = append(out, string(l))
		}
	}
	return out
}

// caseProbes: every vocabulary name in upper case, and the names of <=3 labels with only the first
// or only the last letter in upper case.
var caseProbes = func() []string {
	seen := map[string]bool{}
	var out []string
	for _, n := range probeNames {
		for _, v := range caseVariants(n) {
			if !seen[v] {
				seen[v] = true
				out = append(out, v)
			}
		}
	}
	return out
}()

// caseSafeProbes returns the probes in the other letter case that may be put to a whole set: how
// domain:/suffix:/keyword: rules treat letter case is not documented, so a probe is used only when
// no such rule matches its lower-case form (then those rules say "no" under either reading and
// the verdict of the set is the verdict of its regexp rules, for which case is defined by RE2).
func caseSafeProbes(rules []routex.Rule) []string {
	var other []routex.Rule
	hasRe := false
	for _, r := range rules {
		if r.Kind == routex.KindRegexp {
			hasRe = true
		} else {
			other = append(other, r)
		}
	}
	if !hasRe {
		return nil
	}
	n, _ := routex.NewNaive(other)
	var out []string
	for _, p := range caseProbes {
		if !n.Match(strings.ToLower(p)) {
			out = append(out, p)
		}
	}
	return out
}

// ---- measurements: would a matcher that does not keep the rules apart be noticed?

type reMeasure struct {
	joinDiffers   bool // the rules joined with "|" into one expression answer differently (or do not compile)
	joinNoCompile bool
	hoistDiffers  bool // ^alt1|alt2$ read as ^(?:alt1|alt2)$ answers differently
	caseDecides   bool // a probe and its lower-case form get different verdicts from the regexp rules
}

func measureRegexps(res []string, naive *routex.Naive, probes []string) (m reMeasure) {
	if len(res) == 0 {
		return
	}
	if len(res) >= 2 {
		joined, err := regexp.Compile(strings.Join(res, "|"))
		if err != nil {
			m.joinDiffers, m.joinNoCompile = true, true
		} else {
			for _, p := range probes {
				if joined.MatchString(p) != naive.MatchKind(routex.KindRegexp, p) {
					m.joinDiffers = true
					break
				}
			}
		}
	}
	for _, r := range res {
		if !strings.HasPrefix(r, "^") || !strings.HasSuffix(r, "$") || strings.HasSuffix(r, `\$`) || !strings.Contains(r, "|") {
			continue
		}
		own, err1 := regexp.Compile(r)
		hoisted, err2 := regexp.Compile("^(?:" + r[1:len(r)-1] + ")$")
		if err1 != nil || err2 != nil {
			continue
		}
		for _, p := range probes {
			if own.MatchString(p) != hoisted.MatchString(p) {
				m.hoistDiffers = true
				break
			}
		}
	}
	for _, p := range probes {
		if l := strings.ToLower(p); l != p && naive.MatchKind(routex.KindRegexp, p) != naive.MatchKind(routex.KindRegexp, l) {
			m.caseDecides = true
			break
		}
	}
	return
}

func isBadRegexp(text string) bool {
	return slicesContains(badRegexpPool, text) || slicesContains(richBadRegexpPool, text)
}
