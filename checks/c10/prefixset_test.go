package c10

import (
	"bytes"
	"fmt"
	"net/netip"
	"os"
	"path/filepath"
	"sort"
	"strings"
	"testing"

	"github.com/database64128/shadowsocks-go/prefixset"
	"pgregory.net/rapid"

	"verif/internal/ev"
	"verif/internal/routex"
)

var prefixBases = func() (out []netip.Addr) {
	for _, s := range []string{"0.0.0.0", "10.0.0.0", "10.1.2.3", "10.1.2.128", "127.0.0.1", "128.0.0.0", "172.16.0.0", "192.168.255.255", "255.255.255.255",
		"::", "::1", "2001:db8::", "2001:db8:1:2::5", "2001:db8:ffff:ffff:ffff:ffff:ffff:ffff", "8000::", "fd00::1", "fe80::", "ffff:ffff:ffff:ffff:ffff:ffff:ffff:ffff"} {
		out = append(out, netip.MustParseAddr(s))
	}
	return
}()

func drawSetPrefix(rt *rapid.T, prev []netip.Prefix) (netip.Prefix, bool) {
	k := rapid.IntRange(0, 9).Draw(rt, "prefix-kind")
	if len(prev) > 0 && k < 3 {
		// nested inside / enclosing an earlier prefix
		p := rapid.SampledFrom(prev).Draw(rt, "nest-of")
		bits := min(max(p.Bits()+rapid.SampledFrom([]int{-8, -1, 1, 8}).Draw(rt, "nest-d"), 0), p.Addr().BitLen())
		a := p.Addr()
		if bits > p.Bits() && rapid.Bool().Draw(rt, "nest-last") {
			a = routex.LastAddr(p)
		}
		return netip.PrefixFrom(a, bits).Masked(), false
	}
	var a netip.Addr
	if k < 8 {
		a = rapid.SampledFrom(prefixBases).Draw(rt, "base")
	} else if rapid.Bool().Draw(rt, "v6") {
		var b [16]byte
		hi, lo := rapid.Uint64().Draw(rt, "hi"), rapid.Uint64().Draw(rt, "lo")
		for i := 0; i < 8; i++ {
			b[i], b[8+i] = byte(hi>>(56-8*i)), byte(lo>>(56-8*i))
		}
		a = netip.AddrFrom16(b)
		if a.Is4In6() {
			a = netip.MustParseAddr("2001:db8::")
		}
	} else {
		v := rapid.Uint32().Draw(rt, "v4")
		a = netip.AddrFrom4([4]byte{byte(v >> 24), byte(v >> 16), byte(v >> 8), byte(v)})
	}
	bits := rapid.IntRange(0, a.BitLen()).Draw(rt, "bits")
	if rapid.IntRange(0, 3).Draw(rt, "bits-edge") == 0 {
		bits = rapid.SampledFrom([]int{0, 1, 7, 8, 9, a.BitLen() - 1, a.BitLen()}).Draw(rt, "bits-e")
	}
	p := netip.PrefixFrom(a, bits)
	// one in five keeps the host bits as written ("10.1.2.3/8" is a valid CIDR string)
	unmasked := rapid.IntRange(0, 4).Draw(rt, "unmasked") == 0 && p != p.Masked()
	if !unmasked {
		p = p.Masked()
	}
	return p, unmasked
}

var recPrefix = ev.New("C10", "prefixset-roundtrip",
	"rapid: 0-12 IPv4/IPv6 prefixes (fixed bases and random, lengths incl. 0,1,/32,/128, nested in and enclosing earlier ones, some written with host bits set), text with comment, blank and CRLF lines; "+
		"PrefixSetFromText -> PrefixSetToText / PrefixSetWriteText -> PrefixSetFromText, and LoadPrefixSet from a file; probes = first, last, first-1, last+1 of every prefix plus fixed addresses; "+
		"oracle: netip.Prefix.Contains over the written list. Non-trivial: both families present and one prefix nested in another; distinct key = prefix list").
	Require("v4", "v6", "nested", "len-0", "len-max", "unmasked-input", "crlf", "empty", "file-loaded")

func TestPrefixSetRoundTrip(t *testing.T) {
	rapid.Check(t, func(rt *rapid.T) {
		n := rapid.SampledFrom([]int{0, 1, 2, 3, 5, 8, 12}).Draw(rt, "n")
		var ps []netip.Prefix
		anyUnmasked := false
		for i := 0; i < n; i++ {
			p, um := drawSetPrefix(rt, ps)
			ps = append(ps, p)
			anyUnmasked = anyUnmasked || um
		}
		crlf := rapid.Bool().Draw(rt, "crlf")
		nl := "\n"
		if crlf {
			nl = "\r\n"
		}
		var sb strings.Builder
		if rapid.Bool().Draw(rt, "head-comment") {
			sb.WriteString("# prefixes" + nl)
		}
		for i, p := range ps {
			sb.WriteString(p.String())
			if i < len(ps)-1 || !rapid.Bool().Draw(rt, "no-final-nl") {
				sb.WriteString(nl)
			}
			switch rapid.IntRange(0, 5).Draw(rt, "decor") {
			case 0:
				if i < len(ps)-1 {
					sb.WriteString(nl)
				}
			case 1:
				if i < len(ps)-1 {
					sb.WriteString("#10.0.0.0/8" + nl)
				}
			}
		}
		text := sb.String()
		useFile := rapid.IntRange(0, 2).Draw(rt, "file") == 0 && len(text) > 0

		s1, err := prefixset.PrefixSetFromText(text)
		if err != nil {
			rt.Fatalf("SIG=C10/prefix-valid-text-rejected text=%q err=%v", text, err)
		}
		t2 := prefixset.PrefixSetToText(s1)
		s2, err := prefixset.PrefixSetFromText(string(t2))
		if err != nil {
			rt.Fatalf("SIG=C10/prefix-written-text-rejected written=%q err=%v", t2, err)
		}
		var buf bytes.Buffer
		if err := prefixset.PrefixSetWriteText(s1, &buf); err != nil {
			rt.Fatalf("SIG=C10/prefix-write-failed err=%v", err)
		}
		s3, err := prefixset.PrefixSetFromText(buf.String())
		if err != nil {
			rt.Fatalf("SIG=C10/prefix-written-text-rejected written=%q err=%v", buf.String(), err)
		}
		type named struct {
			name string
			has  func(netip.Addr) bool
		}
		sets := []named{{"text", s1.Contains}, {"text->ToText->text", s2.Contains}, {"text->WriteText->text", s3.Contains}}
		if useFile {
			dir := workDir(rt)
			defer os.RemoveAll(dir)
			path := filepath.Join(dir, "set.txt")
			if err := os.WriteFile(path, []byte(text), 0o644); err != nil {
				rt.Fatalf("harness: %v", err)
			}
			s4, err := prefixset.Config{Name: "p", Path: path}.LoadPrefixSet()
			if err != nil {
				rt.Fatalf("SIG=C10/prefix-file-load-failed err=%v text=%q", err, text)
			}
			sets = append(sets, named{"file", s4.Contains})
			path2 := filepath.Join(dir, "set2.txt")
			if len(t2) > 0 {
				if err := os.WriteFile(path2, t2, 0o644); err != nil {
					rt.Fatalf("harness: %v", err)
				}
				s5, err := prefixset.Config{Name: "p2", Path: path2}.LoadPrefixSet()
				if err != nil {
					rt.Fatalf("SIG=C10/prefix-file-load-failed err=%v text=%q", err, t2)
				}
				sets = append(sets, named{"written-file", s5.Contains})
			}
		}
		probes := append([]netip.Addr{}, prefixBases...)
		for _, p := range ps {
			probes = append(probes, routex.Boundary(p)...)
		}
		for _, a := range probes {
			want := routex.AnyContains(ps, a)
			for _, s := range sets {
				if got := s.has(a); got != want {
					rt.Fatalf("SIG=C10/prefix-mismatch representation=%s addr=%s got=%v want=%v prefixes=%v text=%q written=%q", s.name, a, got, want, ps, text, t2)
				}
			}
		}

		var v4, v6, nested, l0, lmax bool
		for i, p := range ps {
			v4 = v4 || p.Addr().Is4()
			v6 = v6 || p.Addr().Is6()
			l0 = l0 || p.Bits() == 0
			lmax = lmax || p.Bits() == p.Addr().BitLen()
			for j, o := range ps {
				if i != j && o.Bits() < p.Bits() && o.Contains(p.Addr()) {
					nested = true
				}
			}
		}
		var labels []string
		for l, c := range map[string]bool{"v4": v4, "v6": v6, "nested": nested, "len-0": l0, "len-max": lmax, "unmasked-input": anyUnmasked, "crlf": crlf,
			"empty": len(ps) == 0, "file-loaded": useFile} {
			if c {
				labels = append(labels, l)
			}
		}
		sort.Strings(labels)
		nt := v4 && v6 && nested
		recPrefix.Case(fmt.Sprint(ps), nt, labels...)
		recPrefix.Label("probe-evaluations", int64(len(probes)*len(sets)))
		if nt && len(ps) <= 5 {
			recPrefix.Sample(map[string]any{"prefixes": fmt.Sprint(ps), "probes": len(probes), "representations": len(sets)})
		}
	})
}

// TestPrefixTextRefusals: lines the text format does not accept must produce an error.
func TestPrefixTextRefusals(t *testing.T) {
	for _, line := range []string{"10.0.0.0", "10.0.0.0/33", "2001:db8::/129", "example.com", "10.0.0.0/8 # trailing", "fe80::1%eth0/64", "10.0.0.0/-1", "/8", "10.0.0.256/24"} {
		text := "10.1.0.0/16\n" + line + "\n"
		if s, err := prefixset.PrefixSetFromText(text); err == nil {
			t.Fatalf("SIG=C10/prefix-bad-line-accepted line=%q set-size4=%d", line, s.Size4())
		}
		recPrefixRefuse.Case("refuse:"+line, true, "refused")
	}
}

var recPrefixRefuse = ev.New("C10", "prefix-text-refusals",
	"fixed table of lines that are not CIDR prefixes (no length, length out of range, host name, trailing text, zone, bad octet); oracle: PrefixSetFromText returns an error")
