package c10

import (
	"bytes"
	"fmt"
	"net/netip"
	"os"
	"path/filepath"
	"sort"
	"strings"
	"testing"

	"github.com/database64128/shadowsocks-go/prefixset"
	"pgregory.net/rapid"

	"verif/internal/ev"
	"verif/internal/routex"
)

var prefixBases = func() (out []netip.Addr) {
	for _, s := range []string{"0.0.0.0", "10.0.0.0", "10.1.2.3", "10.1.2.128", "127.0.0.1", "128.0.0.0", "172.16.0.0", "192.168.255.255", "255.255.255.255",
		"::", "::1", "2001:db8::", "2001:db8:1:2::5", "2001:db8:ffff:ffff:ffff:ffff:ffff:ffff", "8000::", "fd00::1", "fe80::", "ffff:ffff:ffff:ffff:ffff:ffff:ffff:ffff"} {
		out = append(out, netip.MustParseAddr(s))
	}
	return
}()

// setPrefix is one line of a generated prefix set: the prefix as netip parses it (host bits kept)
// and the text it is written with (netip's own form, or another accepted notation).
type setPrefix struct {
	p    netip.Prefix
	text string
	um   bool   // written with host bits set
	kind string // "", "mapped", "twin", "dup", "adjacent"
}

var mappedFixed = []string{"::ffff:198.51.100.0/120", "::ffff:203.0.113.7/128", "::ffff:0:0/96", "::ffff:10.1.2.0/121", "::ffff:255.255.255.255/128", "::ffff:0.0.0.0/97"}

func mapAddr(a netip.Addr) netip.Addr { return netip.AddrFrom16(a.As16()) }

// altNotation returns another text the parser accepts for the same prefix (as documented by
// netip.ParsePrefix): hexadecimal or expanded form of an IPv4-mapped address, upper-case hex digits.
func altNotation(p netip.Prefix, which int) string {
	a := p.Addr()
	switch {
	case a.Is4In6() && which == 0:
		b := a.As16()
		return fmt.Sprintf("::ffff:%x:%x/%d", uint16(b[12])<<8|uint16(b[13]), uint16(b[14])<<8|uint16(b[15]), p.Bits())
	case a.Is4In6():
		return fmt.Sprintf("0:0:0:0:0:FFFF:%s/%d", a.Unmap(), p.Bits())
	case a.Is6() && which == 0:
		return strings.ToUpper(p.String())
	case a.Is6():
		return a.StringExpanded() + "/" + fmt.Sprint(p.Bits())
	}
	return p.String()
}

func drawSetPrefix(rt *rapid.T, prev []setPrefix) setPrefix {
	k := rapid.IntRange(0, 15).Draw(rt, "prefix-kind")
	if len(prev) > 0 && k < 3 {
		// nested inside / enclosing an earlier prefix
		p := rapid.SampledFrom(prev).Draw(rt, "nest-of").p.Masked()
		bits := min(max(p.Bits()+rapid.SampledFrom([]int{-8, -1, 1, 8}).Draw(rt, "nest-d"), 0), p.Addr().BitLen())
		a := p.Addr()
		if bits > p.Bits() && rapid.Bool().Draw(rt, "nest-last") {
			a = routex.LastAddr(p)
		}
		q := netip.PrefixFrom(a, bits).Masked()
		return setPrefix{p: q, text: q.String()}
	}
	if len(prev) > 0 && k >= 12 {
		o := rapid.SampledFrom(prev).Draw(rt, "rel-of")
		m := o.p.Masked()
		switch k {
		case 12:
			// the same prefix once more: same text, other host bits, or another notation
			switch rapid.IntRange(0, 2).Draw(rt, "dup-form") {
			case 0:
				return setPrefix{p: o.p, text: o.text, um: o.um, kind: "dup"}
			case 1:
				q := netip.PrefixFrom(routex.LastAddr(m), m.Bits())
				return setPrefix{p: q, text: q.String(), um: q != q.Masked(), kind: "dup"}
			default:
				return setPrefix{p: m, text: altNotation(m, rapid.IntRange(0, 1).Draw(rt, "dup-notation")), kind: "dup"}
			}
		case 13:
			// adjacent: the sibling (together they are the parent) or the next block of the same size
			if m.Bits() == 0 {
				break
			}
			var q netip.Prefix
			if rapid.Bool().Draw(rt, "adj-sibling") {
				b := m.Addr().AsSlice()
				i := m.Bits() - 1
				b[i/8] ^= 1 << (7 - uint(i%8))
				a, _ := netip.AddrFromSlice(b)
				q = netip.PrefixFrom(a, m.Bits())
			} else if next := routex.LastAddr(m).Next(); next.IsValid() {
				q = netip.PrefixFrom(next, m.Bits())
			} else {
				break
			}
			return setPrefix{p: q, text: q.String(), kind: "adjacent"}
		default:
			// the same block in the other form: IPv4 prefix <-> IPv4-mapped IPv6 prefix
			if m.Addr().Is4() {
				q := netip.PrefixFrom(mapAddr(m.Addr()), m.Bits()+96)
				return setPrefix{p: q, text: q.String(), kind: "twin"}
			}
			if m.Addr().Is4In6() && m.Bits() >= 96 {
				q := netip.PrefixFrom(m.Addr().Unmap(), m.Bits()-96)
				return setPrefix{p: q, text: q.String(), kind: "twin"}
			}
		}
	}
	if k == 10 || k == 11 {
		// IPv4-mapped IPv6 prefixes: accepted by the parser, stored as IPv6
		var q netip.Prefix
		if rapid.Bool().Draw(rt, "mapped-fixed") {
			q = netip.MustParsePrefix(rapid.SampledFrom(mappedFixed).Draw(rt, "mapped"))
		} else {
			v := rapid.Uint32().Draw(rt, "mapped-v4")
			if rapid.Bool().Draw(rt, "mapped-base") {
				v = rapid.SampledFrom([]uint32{0, 0x0a010203, 0xc6336400, 0xcb007107, 0xffffffff, 0x80000000}).Draw(rt, "mapped-v4b")
			}
			a := mapAddr(netip.AddrFrom4([4]byte{byte(v >> 24), byte(v >> 16), byte(v >> 8), byte(v)}))
			bits := rapid.SampledFrom([]int{96, 96, 97, 104, 112, 120, 120, 127, 128, 128, 80, 90, 95}).Draw(rt, "mapped-bits")
			q = netip.PrefixFrom(a, bits)
			if rapid.IntRange(0, 3).Draw(rt, "mapped-unmasked") != 0 {
				q = q.Masked()
			}
		}
		sp := setPrefix{p: q, text: q.String(), um: q != q.Masked(), kind: "mapped"}
		if q.Addr().Is4In6() && rapid.IntRange(0, 2).Draw(rt, "mapped-alt") == 0 {
			sp.text = altNotation(q, rapid.IntRange(0, 1).Draw(rt, "mapped-notation"))
		}
		return sp
	}
	var a netip.Addr
	if k < 8 {
		a = rapid.SampledFrom(prefixBases).Draw(rt, "base")
	} else if rapid.Bool().Draw(rt, "v6") {
		var b [16]byte
		hi, lo := rapid.Uint64().Draw(rt, "hi"), rapid.Uint64().Draw(rt, "lo")
		for i := 0; i < 8; i++ {
			b[i], b[8+i] = byte(hi>>(56-8*i)), byte(lo>>(56-8*i))
		}
		a = netip.AddrFrom16(b)
		if a.Is4In6() {
			a = netip.MustParseAddr("2001:db8::")
		}
	} else {
		v := rapid.Uint32().Draw(rt, "v4")
		a = netip.AddrFrom4([4]byte{byte(v >> 24), byte(v >> 16), byte(v >> 8), byte(v)})
	}
	bits := rapid.IntRange(0, a.BitLen()).Draw(rt, "bits")
	if rapid.IntRange(0, 2).Draw(rt, "bits-edge") == 0 {
		bits = rapid.SampledFrom([]int{0, 0, 1, 7, 8, 9, a.BitLen() - 1, a.BitLen(), a.BitLen()}).Draw(rt, "bits-e")
	}
	p := netip.PrefixFrom(a, bits)
	// one in five keeps the host bits as written ("10.1.2.3/8" is a valid CIDR string)
	unmasked := rapid.IntRange(0, 4).Draw(rt, "unmasked") == 0 && p != p.Masked()
	if !unmasked {
		p = p.Masked()
	}
	return setPrefix{p: p, text: p.String(), um: unmasked}
}

var recPrefix = ev.New("C10", "prefixset-roundtrip",
	"rapid: 0-12 IPv4/IPv6 prefixes (fixed bases and random, lengths incl. 0,1,/32,/128, nested in and enclosing earlier ones, some written with host bits set; "+
		"round 6: IPv4-mapped IPv6 prefixes (/96../128, a few shorter), the same block as IPv4 and as mapped prefix, exact duplicates (same text / other host bits / other notation), adjacent siblings and next blocks), text with comment, blank and CRLF lines; "+
		"PrefixSetFromText -> PrefixSetToText / PrefixSetWriteText -> PrefixSetFromText, and LoadPrefixSet from a file; probes = first, last, first-1, last+1 of every prefix plus fixed addresses; "+
		"every probe in plain and in IPv4-mapped form; oracle: netip.Prefix.Contains over the written list (plain IPv4 address vs mapped prefix and mapped address vs IPv4 prefix: reloaded sets must answer like the original set). Non-trivial: both families present and one prefix nested in another; distinct key = prefix list").
	Require("v4", "v6", "nested", "len-0", "len-max", "unmasked-input", "crlf", "empty", "file-loaded").
	Require("len-0-v4", "len-0-v6", "host-v4/32", "host-v6/128", "mapped-prefix", "mapped/96", "mapped/128", "duplicate-prefix", "adjacent-prefixes", "other-form-twin", "alt-notation",
		"mapped-probe-inside", "mapped-probe-outside", "cross-form-probe(reload-agreement-only)", "mapped-prefix-file-loaded")

func TestPrefixSetRoundTrip(t *testing.T) {
	rapid.Check(t, func(rt *rapid.T) {
		n := rapid.SampledFrom([]int{0, 1, 2, 3, 5, 8, 12}).Draw(rt, "n")
		var sps []setPrefix
		var ps []netip.Prefix
		anyUnmasked := false
		kinds := map[string]bool{}
		for i := 0; i < n; i++ {
			sp := drawSetPrefix(rt, sps)
			if q, err := netip.ParsePrefix(sp.text); err != nil || q != sp.p {
				rt.Fatalf("harness: notation %q does not denote %v (%v, %v)", sp.text, sp.p, q, err)
			}
			sps = append(sps, sp)
			ps = append(ps, sp.p)
			anyUnmasked = anyUnmasked || sp.um
			kinds[sp.kind] = true
			if sp.text != sp.p.String() {
				kinds["alt-notation"] = true
			}
		}
		crlf := rapid.Bool().Draw(rt, "crlf")
		nl := "\n"
		if crlf {
			nl = "\r\n"
		}
		var sb strings.Builder
		if rapid.Bool().Draw(rt, "head-comment") {
			sb.WriteString("# prefixes" + nl)
		}
		for i, sp := range sps {
			sb.WriteString(sp.text)
			if i < len(ps)-1 || !rapid.Bool().Draw(rt, "no-final-nl") {
				sb.WriteString(nl)
			}
			switch rapid.IntRange(0, 5).Draw(rt, "decor") {
			case 0:
				if i < len(ps)-1 {
					sb.WriteString(nl)
				}
			case 1:
				if i < len(ps)-1 {
					sb.WriteString("#10.0.0.0/8" + nl)
				}
			}
		}
		text := sb.String()
		useFile := rapid.IntRange(0, 2).Draw(rt, "file") == 0 && len(text) > 0

		s1, err := prefixset.PrefixSetFromText(text)
		if err != nil {
			rt.Fatalf("SIG=C10/prefix-valid-text-rejected text=%q err=%v", text, err)
		}
		t2 := prefixset.PrefixSetToText(s1)
		s2, err := prefixset.PrefixSetFromText(string(t2))
		if err != nil {
			rt.Fatalf("SIG=C10/prefix-written-text-rejected written=%q err=%v", t2, err)
		}
		var buf bytes.Buffer
		if err := prefixset.PrefixSetWriteText(s1, &buf); err != nil {
			rt.Fatalf("SIG=C10/prefix-write-failed err=%v", err)
		}
		s3, err := prefixset.PrefixSetFromText(buf.String())
		if err != nil {
			rt.Fatalf("SIG=C10/prefix-written-text-rejected written=%q err=%v", buf.String(), err)
		}
		type named struct {
			name string
			has  func(netip.Addr) bool
		}
		sets := []named{{"text", s1.Contains}, {"text->ToText->text", s2.Contains}, {"text->WriteText->text", s3.Contains}}
		if useFile {
			dir := workDir(rt)
			defer os.RemoveAll(dir)
			path := filepath.Join(dir, "set.txt")
			if err := os.WriteFile(path, []byte(text), 0o644); err != nil {
				rt.Fatalf("harness: %v", err)
			}
			s4, err := prefixset.Config{Name: "p", Path: path}.LoadPrefixSet()
			if err != nil {
				rt.Fatalf("SIG=C10/prefix-file-load-failed err=%v text=%q", err, text)
			}
			sets = append(sets, named{"file", s4.Contains})
			path2 := filepath.Join(dir, "set2.txt")
			if len(t2) > 0 {
				if err := os.WriteFile(path2, t2, 0o644); err != nil {
					rt.Fatalf("harness: %v", err)
				}
				s5, err := prefixset.Config{Name: "p2", Path: path2}.LoadPrefixSet()
				if err != nil {
					rt.Fatalf("SIG=C10/prefix-file-load-failed err=%v text=%q", err, t2)
				}
				sets = append(sets, named{"written-file", s5.Contains})
			}
		}
		probes := append([]netip.Addr{}, prefixBases...)
		for _, p := range ps {
			probes = append(probes, routex.Boundary(p)...)
		}
		// every probe also in the other form: plain IPv4 <-> IPv4-mapped IPv6
		for _, a := range probes[:len(probes):len(probes)] {
			if a.Is4() {
				probes = append(probes, mapAddr(a))
			} else if a.Is4In6() {
				probes = append(probes, a.Unmap())
			}
		}
		// Oracle: naive containment over the original list (netip.Prefix.Contains: families are not
		// mixed, an IPv4-mapped prefix holds IPv4-mapped addresses). Whether an IPv4-mapped prefix
		// should also hold the plain IPv4 address (or an IPv4 prefix the mapped address) is not
		// documented by the repository (the router unmaps addresses before asking; bart "does not
		// perform automatic unmapping"): for those probes only "every reloaded set answers like the
		// originally loaded one" is demanded.
		var mappedInside, mappedOutside, crossProbes, crossTrue int
		mapped := false
		for _, p := range ps {
			mapped = mapped || p.Addr().Is4In6()
		}
		for _, a := range probes {
			want := routex.AnyContains(ps, a)
			cross := false
			if !want {
				for _, p := range ps {
					m := p.Masked()
					switch {
					case a.Is4() && m.Addr().Is4In6() && m.Bits() >= 96 && m.Contains(mapAddr(a)):
						cross = true
					case a.Is4In6() && m.Addr().Is4() && m.Contains(a.Unmap()):
						cross = true
					}
				}
			}
			if cross {
				crossProbes++
				want = sets[0].has(a)
				if want {
					crossTrue++
				}
			} else if a.Is4In6() {
				byMapped := false
				for _, p := range ps {
					if m := p.Masked(); m.Addr().Is4In6() && m.Bits() >= 96 && m.Contains(a) {
						byMapped = true
					}
				}
				if byMapped {
					mappedInside++ // held by an IPv4-mapped prefix (not merely by ::/0 or the like)
				} else if !want && mapped {
					mappedOutside++
				}
			}
			for _, s := range sets {
				if got := s.has(a); got != want {
					sig := "prefix-mismatch"
					if cross {
						sig = "prefix-reload-differs-from-original"
					}
					rt.Fatalf("SIG=C10/%s representation=%s addr=%s got=%v want=%v prefixes=%v text=%q written=%q", sig, s.name, a, got, want, ps, text, t2)
				}
			}
		}

		var v4, v6, nested, l0, lmax bool
		var l04, l06, host4, host6, mapped96, mappedHost, mappedShort, dupMasked, adjacent bool
		for i, p := range ps {
			v4 = v4 || p.Addr().Is4()
			v6 = v6 || p.Addr().Is6()
			l0 = l0 || p.Bits() == 0
			lmax = lmax || p.Bits() == p.Addr().BitLen()
			l04 = l04 || (p.Bits() == 0 && p.Addr().Is4())
			l06 = l06 || (p.Bits() == 0 && p.Addr().Is6())
			host4 = host4 || (p.Bits() == 32 && p.Addr().Is4())
			host6 = host6 || (p.Bits() == 128 && !p.Addr().Is4In6())
			if p.Addr().Is4In6() {
				mapped96 = mapped96 || p.Bits() == 96
				mappedHost = mappedHost || p.Bits() == 128
				mappedShort = mappedShort || p.Bits() < 96
			}
			for j, o := range ps {
				if i < j && o.Masked() == p.Masked() {
					dupMasked = true
				}
				if i != j && o.Bits() == p.Bits() && o.Masked() != p.Masked() && o.Addr().BitLen() == p.Addr().BitLen() && routex.LastAddr(o).Next() == p.Masked().Addr() {
					adjacent = true
				}
			}
			for j, o := range ps {
				if i != j && o.Bits() < p.Bits() && o.Contains(p.Addr()) {
					nested = true
				}
			}
		}
		var labels []string
		for l, c := range map[string]bool{"v4": v4, "v6": v6, "nested": nested, "len-0": l0, "len-max": lmax, "unmasked-input": anyUnmasked, "crlf": crlf,
			"empty": len(ps) == 0, "file-loaded": useFile,
			"len-0-v4": l04, "len-0-v6": l06, "host-v4/32": host4, "host-v6/128": host6, "mapped-prefix": mapped, "mapped/96": mapped96, "mapped/128": mappedHost, "mapped-shorter-than-96": mappedShort,
			"duplicate-prefix": dupMasked, "adjacent-prefixes": adjacent, "other-form-twin": kinds["twin"], "alt-notation": kinds["alt-notation"],
			"mapped-probe-inside": mappedInside > 0, "mapped-probe-outside": mappedOutside > 0, "cross-form-probe(reload-agreement-only)": crossProbes > 0, "cross-form-probe-answered-true": crossTrue > 0,
			"mapped-prefix-file-loaded": mapped && useFile} {
			if c {
				labels = append(labels, l)
			}
		}
		sort.Strings(labels)
		nt := v4 && v6 && nested
		recPrefix.Case(fmt.Sprint(ps), nt, labels...)
		recPrefix.Label("probe-evaluations", int64(len(probes)*len(sets)))
		if nt && len(ps) <= 5 {
			recPrefix.Sample(map[string]any{"prefixes": fmt.Sprint(ps), "probes": len(probes), "representations": len(sets)})
		}
	})
}

// TestPrefixTextRefusals: lines the text format does not accept must produce an error.
func TestPrefixTextRefusals(t *testing.T) {
	for _, line := range []string{"10.0.0.0", "10.0.0.0/33", "2001:db8::/129", "example.com", "10.0.0.0/8 # trailing", "fe80::1%eth0/64", "10.0.0.0/-1", "/8", "10.0.0.256/24"} {
		text := "10.1.0.0/16\n" + line + "\n"
		if s, err := prefixset.PrefixSetFromText(text); err == nil {
			t.Fatalf("SIG=C10/prefix-bad-line-accepted line=%q set-size4=%d", line, s.Size4())
		}
		recPrefixRefuse.Case("refuse:"+line, true, "refused")
	}
}

var recPrefixRefuse = ev.New("C10", "prefix-text-refusals",
	"fixed table of lines that are not CIDR prefixes (no length, length out of range, host name, trailing text, zone, bad octet); oracle: PrefixSetFromText returns an error")
