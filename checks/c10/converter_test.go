package c10

import (
	"fmt"
	"os"
	"os/exec"
	"path/filepath"
	"strings"
	"sync"
	"testing"

	"github.com/database64128/shadowsocks-go/domainset"
	"pgregory.net/rapid"

	"verif/internal/ev"
	"verif/internal/routex"
)

const converterPkg = "github.com/database64128/shadowsocks-go/cmd/shadowsocks-go-domain-set-converter"

var (
	convOnce sync.Once
	convPath string
	convErr  error
)

// buildConverter builds the converter command from the tree under test (the same module
// resolution the test binary itself was built with).
func buildConverter() (string, error) {
	convOnce.Do(func() {
		work := os.Getenv("VERIF_WORK")
		if work == "" {
			work, convErr = os.MkdirTemp("", "c10-conv-")
			if convErr != nil {
				return
			}
		}
		root := os.Getenv("VERIF_ROOT")
		if root == "" {
			root = "../.."
		}
		out := filepath.Join(work, "domain-set-converter")
		args := []string{"build", "-o", out}
		if alt := filepath.Join(work, "alt.mod"); os.Getenv("VERIF_REPO") != "" {
			if _, err := os.Stat(alt); err == nil {
				args = append(args, "-modfile="+alt) // development mode of the driver: scratch worktree
			}
		}
		args = append(args, converterPkg)
		try := func(gocmd string, extraEnv ...string) error {
			cmd := exec.Command(gocmd, args...)
			cmd.Dir = root
			cmd.Env = append(os.Environ(), extraEnv...)
			b, err := cmd.CombinedOutput()
			if err != nil {
				return fmt.Errorf("%s %v: %v\n%s", gocmd, args, err, b)
			}
			return nil
		}
		convErr = try("go", "GOFLAGS=-mod=mod", "GOPROXY=off")
		if convErr != nil {
			for _, alt := range []string{"go1.26.8", "go1.26"} {
				if _, err := exec.LookPath(alt); err == nil {
					if err2 := try(alt, "GOFLAGS=-mod=mod", "GOPROXY=off", "GOTOOLCHAIN=local"); err2 == nil {
						convErr = nil
						break
					}
				}
			}
		}
		convPath = out
	})
	return convPath, convErr
}

var recConv = ev.New("C10", "converter-binary",
	"rapid: the shadowsocks-go-domain-set-converter command built from the tree, run on generated rule sets: -inText -> -outGob/-outText, -inGob -> -outText, "+
		"-inDlc (full:/domain:/keyword:/regexp: lines, ':@tag' attributes, comments) -> -outText/-outGob with and without -tag, and -skipRegexp; every output is loaded through domainset.Config "+
		"and compared with the naive matcher on all 340 vocabulary names plus rule mutations. Non-trivial: >=2 rule kinds and a proper-suffix pair; distinct key = rule list").
	Require("dlc", "dlc-tag", "skip-regexp", "text->gob", "gob->text")

func runConv(rt fataler, bin string, args ...string) {
	cmd := exec.Command(bin, args...)
	b, err := cmd.CombinedOutput()
	if err != nil || len(b) > 0 {
		rt.Fatalf("SIG=C10/converter-failed args=%v err=%v output=%s", args, err, b)
	}
}

func TestConverterBinary(t *testing.T) {
	bin, err := buildConverter()
	if err != nil {
		t.Fatalf("SIG=C10/converter-build-failed %v", err)
	}
	rapid.Check(t, func(rt *rapid.T) {
		c := genDomCase(rt)
		// keep the sample valid and non-empty: the command is exercised on what it is documented to convert
		var rules []routex.Rule
		for _, r := range c.rules {
			if r.Kind == routex.KindRegexp && isBadRegexp(r.Text) {
				continue
			}
			rules = append(rules, r)
		}
		if len(rules) == 0 {
			rules = []routex.Rule{{Kind: routex.KindSuffix, Text: "b.a"}}
		}
		if len(rules) > 40 {
			rules = rules[:40]
		}
		tags := make([]string, len(rules))
		for i := range rules {
			tags[i] = rapid.SampledFrom([]string{"", "", "cn", "ads"}).Draw(rt, "tag")
		}
		dir := workDir(rt)
		defer os.RemoveAll(dir)
		p := func(n string) string { return filepath.Join(dir, n) }

		naive, err := routex.NewNaive(rules)
		if err != nil {
			rt.Fatalf("harness: %v", err)
		}
		var noRe, tagged []routex.Rule
		for i, r := range rules {
			if r.Kind != routex.KindRegexp {
				noRe = append(noRe, r)
			}
			if tags[i] == "cn" {
				tagged = append(tagged, r)
			}
		}
		naiveNoRe, _ := routex.NewNaive(noRe)
		naiveTagged, _ := routex.NewNaive(tagged)

		text := routex.Text(rules, c.opts)
		if err := os.WriteFile(p("in.txt"), []byte(text), 0o644); err != nil {
			rt.Fatalf("harness: %v", err)
		}
		// dlc export format: full: = exact, domain: = domain and subdomains, attributes as ":@tag"
		var dlc strings.Builder
		dlc.WriteString("# generated\n")
		dlcPrefix := [4]string{"full:", "domain:", "keyword:", "regexp:"}
		for i, r := range rules {
			dlc.WriteString(dlcPrefix[r.Kind] + r.Text)
			if tags[i] != "" {
				dlc.WriteString(":@" + tags[i])
			}
			dlc.WriteString("\n")
		}
		if err := os.WriteFile(p("in.dlc"), []byte(dlc.String()), 0o644); err != nil {
			rt.Fatalf("harness: %v", err)
		}

		runConv(rt, bin, "-inText", p("in.txt"), "-outGob", p("a.gob"), "-outText", p("a.txt"))
		runConv(rt, bin, "-inGob", p("a.gob"), "-outText", p("b.txt"), "-outGob", p("b.gob"))
		runConv(rt, bin, "-inDlc", p("in.dlc"), "-outText", p("c.txt"), "-outGob", p("c.gob"))
		runConv(rt, bin, "-inText", p("in.txt"), "-skipRegexp", "-outGob", p("d.gob"), "-outText", p("d.txt"))
		outs := []struct {
			file, typ string
			ref       *routex.Naive
			n         int
		}{
			{"a.gob", "gob", naive, len(rules)}, {"a.txt", "text", naive, len(rules)},
			{"b.txt", "text", naive, len(rules)}, {"b.gob", "gob", naive, len(rules)},
			{"c.txt", "text", naive, len(rules)}, {"c.gob", "gob", naive, len(rules)},
			{"d.gob", "gob", naiveNoRe, len(noRe)}, {"d.txt", "text", naiveNoRe, len(noRe)},
		}
		if len(tagged) > 0 {
			runConv(rt, bin, "-inDlc", p("in.dlc"), "-tag", "cn", "-outText", p("e.txt"), "-outGob", p("e.gob"))
			outs = append(outs, struct {
				file, typ string
				ref       *routex.Naive
				n         int
			}{"e.txt", "text", naiveTagged, len(tagged)}, struct {
				file, typ string
				ref       *routex.Naive
				n         int
			}{"e.gob", "gob", naiveTagged, len(tagged)})
		}
		probes := probesFor(rules)
		for _, o := range outs {
			ds, err := domainset.Config{Name: o.file, Type: o.typ, Path: p(o.file)}.DomainSet()
			if err != nil {
				if o.n == 0 && o.typ == "text" {
					continue // an empty set written as text is refused by the loader (error, not a match)
				}
				rt.Fatalf("SIG=C10/converter-output-unreadable file=%s err=%v input=%q", o.file, err, text)
			}
			for _, name := range probes {
				if got, want := ds.Match(name), o.ref.Match(name); got != want {
					rt.Fatalf("SIG=C10/converter-mismatch output=%s probe=%q got=%v want=%v input=%q dlc=%q", o.file, name, got, want, text, dlc.String())
				}
			}
		}
		cnt := routex.Count(rules)
		kinds := 0
		for _, n := range cnt {
			if n > 0 {
				kinds++
			}
		}
		var dsr []string
		dsr = append(dsr, routex.OfKind(rules, routex.KindDomain)...)
		dsr = append(dsr, routex.OfKind(rules, routex.KindSuffix)...)
		labels := []string{"dlc", "text->gob", "gob->text", "skip-regexp"}
		if len(tagged) > 0 {
			labels = append(labels, "dlc-tag")
		}
		nt := kinds >= 2 && routex.ProperSuffixPair(dsr)
		recConv.Case(text, nt, labels...)
		if nt && len(rules) <= 8 {
			recConv.Sample(map[string]any{"rules": fmt.Sprint(rules), "tags": fmt.Sprint(tags), "outputs": len(outs), "probes": len(probes)})
		}
	})
}

func slicesContains(s []string, v string) bool {
	for _, x := range s {
		if x == v {
			return true
		}
	}
	return false
}
