package c05

import (
	"runtime/debug"
	"testing"

	"verif/internal/ev"
)

func TestMain(m *testing.M) {
	// cases copy datagrams of up to 64 KiB several times; a lazier collector halves the run time
	debug.SetGCPercent(800)
	ev.Main(m)
}
