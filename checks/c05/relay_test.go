package c05

import (
	"bytes"
	"context"
	"encoding/json"
	"errors"
	"fmt"
	"net/netip"
	"runtime/debug"
	"sort"
	"strings"
	"testing"
	"testing/synctest"
	"time"

	"github.com/database64128/shadowsocks-go/zerocopy"
	"pgregory.net/rapid"

	"verif/internal/ev"
	"verif/internal/ssudp"
)

// ---------------------------------------------------------------------------------------------
// One case = one relay instance (server protocol S, client protocol C) between a downstream
// client speaking S and an upstream server speaking C:
//
//   uplink:   downstream client packs (real client packer of S, layout of a hop whose server is
//             "direct") -> datagram -> relay buffer laid out as service/server.go UDPRelay does ->
//             real server unpacker of S -> real client packer of C in place -> datagram ->
//             upstream peer (real server unpacker of C and the harness's own decoder)
//   downlink: upstream server packs (real server packer of C) -> datagram -> relay buffer laid out
//             as relayNatConnToServerConn* does -> real client unpacker of C -> real server packer
//             of S in place -> datagram -> downstream client (real client unpacker of S + decoder)
//
// Buffers live in a canary-filled arena with capacity clipped to length.
// ---------------------------------------------------------------------------------------------

var mtus = []int{1280, 1280, 1492, 1500, 1500, 9000, 65535}

// address families of the fixed peers
const (
	fam4 = iota
	fam6
	fam4in6
)

func peerAddr(fam int, host byte, port uint16) netip.AddrPort {
	switch fam {
	case fam4:
		return netip.AddrPortFrom(netip.AddrFrom4([4]byte{198, 51, 100, host}), port)
	case fam4in6:
		return netip.AddrPortFrom(netip.AddrFrom16(netip.AddrFrom4([4]byte{198, 51, 100, host}).As16()), port)
	default:
		a := [16]byte{0x20, 0x01, 0x0d, 0xb8, 15: host}
		return netip.AddrPortFrom(netip.AddrFrom16(a), port)
	}
}

type addrSpec struct {
	Kind   int    `json:"kind"` // 0 v4, 1 v6, 2 v4-mapped, 3 domain
	DomLen int    `json:"domlen,omitempty"`
	Port   uint16 `json:"port"`
	Seed   uint64 `json:"seed"`
}

func (a addrSpec) addr() ssudp.Addr {
	var raw [16]byte
	ssudp.Fill(raw[:], a.Seed^0x1234567)
	switch a.Kind {
	case 0:
		return ssudp.Addr{IP: netip.AddrFrom4([4]byte(raw[:4])), Port: a.Port}
	case 1:
		raw[0] = 0x20 // never an IPv4-mapped address by accident
		return ssudp.Addr{IP: netip.AddrFrom16(raw), Port: a.Port}
	case 2:
		return ssudp.Addr{IP: netip.AddrFrom16(netip.AddrFrom4([4]byte(raw[:4])).As16()), Port: a.Port}
	default:
		const alpha = "abcdefghijklmnopqrstuvwxyz0123456789-."
		d := make([]byte, a.DomLen)
		ssudp.Fill(d, a.Seed)
		for i := range d {
			d[i] = alpha[int(d[i])%len(alpha)]
		}
		d[0] = 'x' // not an IP literal, not empty
		return ssudp.Addr{Domain: string(d), Port: a.Port}
	}
}

type caseCfg struct {
	S          sideCfg   `json:"s"`
	C          sideCfg   `json:"c"`
	Extras     []sideCfg `json:"extras,omitempty"` // other clients of the same service (raise maxClientPackerHeadroom)
	ServerMTU  int       `json:"server_mtu"`
	ClientMTU  int       `json:"client_mtu"`
	DownMTU    int       `json:"down_mtu"` // MTU of the downstream hop (the client that speaks S)
	UpMTU      int       `json:"up_mtu"`   // MTU of the upstream hop (the server that speaks C)
	RelayFam   int       `json:"relay_fam"`
	UpFam      int       `json:"up_fam"`
	ClientFam  int       `json:"client_fam"`
	NatFam     int       `json:"nat_fam"`
	Target     addrSpec  `json:"target"`
	UpLen      int       `json:"up_len"`
	Source     addrSpec  `json:"source"`
	DownLen    int       `json:"down_len"`
	TunnelOnly bool      `json:"tunnel_only,omitempty"`
	SrcIsTun   bool      `json:"src_is_tunnel,omitempty"`
	Seed       uint64    `json:"seed"`
	nearLimit  bool
	excluded   bool // the draw asked for direct + domain tunnel + targetOnly, which the service refuses
}

func (c *caseCfg) String() string { b, _ := json.Marshal(c); return string(b) }

func drawSide(rt *rapid.T, label string, maxK int) sideCfg {
	s := sideCfg{Proto: rapid.IntRange(0, nProtos-1).Draw(rt, label+"-proto")}
	if s.isSS() {
		s.K = rapid.IntRange(0, maxK).Draw(rt, label+"-k")
		s.Pad = rapid.IntRange(0, 2).Draw(rt, label+"-pad")
	}
	return s
}

var ports = []uint16{0, 1, 53, 53, 80, 443, 65535}

func drawAddr(rt *rapid.T, label string, allowDomain bool) addrSpec {
	a := addrSpec{Seed: rapid.Uint64().Draw(rt, label+"-seed")}
	maxKind := 2
	if allowDomain {
		maxKind = 4
	}
	a.Kind = min(rapid.IntRange(0, maxKind).Draw(rt, label+"-kind"), 3)
	if a.Kind == 3 {
		a.DomLen = rapid.SampledFrom([]int{1, 2, 63, 64, 253, 254, 255, 0}).Draw(rt, label+"-domlen")
		if a.DomLen == 0 {
			a.DomLen = rapid.IntRange(3, 252).Draw(rt, label+"-domlen2")
		}
	}
	if rapid.IntRange(0, 3).Draw(rt, label+"-portkind") == 0 {
		a.Port = rapid.Uint16().Draw(rt, label+"-port")
	} else {
		a.Port = rapid.SampledFrom(ports).Draw(rt, label+"-port")
	}
	return a
}

// drawLen picks a payload length around one of the structural limits (±3), at the low end, or
// log-uniformly below the hard maximum.
func drawLen(rt *rapid.T, label string, hardMax int, limits []int) (int, bool) {
	k := rapid.IntRange(0, 9).Draw(rt, label+"-lenkind")
	var v int
	near := false
	switch {
	case k < 5:
		v = rapid.SampledFrom(limits).Draw(rt, label+"-limit") + rapid.IntRange(-3, 3).Draw(rt, label+"-delta")
		near = true
	case k < 7:
		v = rapid.IntRange(0, 3).Draw(rt, label+"-small")
	default:
		bits := rapid.IntRange(0, 16).Draw(rt, label+"-bits")
		v = rapid.IntRange(0, 1<<bits).Draw(rt, label+"-log")
	}
	return max(0, min(v, hardMax)), near
}

func drawCase(rt *rapid.T) *caseCfg {
	c := &caseCfg{Seed: rapid.Uint64().Draw(rt, "seed")}
	c.S = drawSide(rt, "s", 1)
	c.C = drawSide(rt, "c", 3)
	for range rapid.SampledFrom([]int{0, 0, 1, 2}).Draw(rt, "extras") {
		c.Extras = append(c.Extras, drawSide(rt, "x", 3))
	}
	if rapid.Bool().Draw(rt, "same-mtu") {
		m := rapid.SampledFrom(mtus).Draw(rt, "mtu")
		c.ServerMTU, c.ClientMTU, c.DownMTU, c.UpMTU = m, m, m, m
	} else {
		c.ServerMTU = rapid.SampledFrom(mtus).Draw(rt, "server-mtu")
		c.ClientMTU = rapid.SampledFrom(mtus).Draw(rt, "client-mtu")
		c.DownMTU = rapid.SampledFrom(mtus).Draw(rt, "down-mtu")
		c.UpMTU = rapid.SampledFrom(mtus).Draw(rt, "up-mtu")
	}
	c.RelayFam = rapid.IntRange(0, 2).Draw(rt, "relay-fam")
	c.UpFam = rapid.IntRange(0, 2).Draw(rt, "up-fam")
	c.ClientFam = rapid.IntRange(0, 2).Draw(rt, "client-fam")
	c.NatFam = rapid.IntRange(0, 2).Draw(rt, "nat-fam")
	// a direct client resolves domain targets through the system resolver: IP targets only (stated limit)
	c.Target = drawAddr(rt, "target", c.C.Proto != pDirect)
	c.Source = drawAddr(rt, "source", false)
	if c.S.Proto == pDirect {
		c.TunnelOnly = rapid.Bool().Draw(rt, "tunnel-only")
		if c.TunnelOnly && c.Target.Kind == 3 {
			// refused by the service at load (fix aac4f47): not a configuration the relay ever runs with
			c.TunnelOnly, c.excluded = false, true
		}
		// replies come from the tunnel target most of the time (only possible when it is an IP)
		c.SrcIsTun = c.Target.Kind != 3 && rapid.IntRange(0, 3).Draw(rt, "src-is-tunnel") > 0
		if c.SrcIsTun {
			c.Source = c.Target
		}
	}
	target, source := c.Target.addr(), c.Source.addr()
	relay, up := peerAddr(c.RelayFam, 1, 8388), peerAddr(c.UpFam, 2, 8389)
	client, nat := peerAddr(c.ClientFam, 3, 50000), peerAddr(c.NatFam, 4, 50001)

	// uplink limits (payload lengths at which some stage flips between fit and refuse)
	hop0Recv := c.DownMTU - 28
	downBudget := mtuBudget(c.DownMTU, relay.Addr())
	cliBudget := mtuBudget(c.ClientMTU, up.Addr())
	if c.C.Proto == pDirect {
		cliBudget = mtuBudget(c.ClientMTU, target.IP)
	}
	upLimits := []int{
		hop0Recv,
		downBudget - clientOverhead(c.S, target),
		c.ServerMTU - 28 - clientOverhead(c.S, target),
		cliBudget - clientOverhead(c.C, target),
		c.UpMTU - 28 - clientOverhead(c.C, target),
	}
	c.UpLen, _ = drawLen(rt, "up", hop0Recv, upLimits)
	// three cases in four stay within what the downstream hop can send, so that the relay is reached
	if rapid.IntRange(0, 3).Draw(rt, "up-reach") > 0 && c.S.Proto != pDirect {
		c.UpLen = max(0, min(c.UpLen, upLimits[1]))
	}

	// downlink limits
	hopNRecv := c.UpMTU - 28
	natRecv := mtuBudget(c.ClientMTU, up.Addr())
	if c.C.Proto == pDirect {
		natRecv = c.ClientMTU - 28
	}
	downLimits := []int{
		hopNRecv,
		mtuBudget(c.UpMTU, nat.Addr()) - serverOverhead(c.C, source),
		natRecv - serverOverhead(c.C, source),
		mtuBudget(c.ServerMTU, client.Addr()) - serverOverhead(c.S, source),
		mtuBudget(c.DownMTU, relay.Addr()) - serverOverhead(c.S, source),
	}
	c.DownLen, _ = drawLen(rt, "down", hopNRecv, downLimits)
	if rapid.IntRange(0, 3).Draw(rt, "down-reach") > 0 && c.C.Proto != pDirect {
		c.DownLen = max(0, min(c.DownLen, downLimits[1]))
	}
	c.nearLimit = within3(c.UpLen, upLimits) || within3(c.DownLen, downLimits)
	return c
}

func within3(v int, limits []int) bool {
	for _, l := range limits {
		if v-l >= -3 && v-l <= 3 {
			return true
		}
	}
	return false
}

// ---- arena ----

const guard = 64

type arena struct {
	all []byte
	buf []byte
}

// slab backs every arena of one case; reusing it across cases keeps the allocator and the GC out
// of the measurement (the service pools its packet buffers too, so stale bytes are realistic).
var (
	slab    = make([]byte, 8*(65535+2048))
	slabOff int
)

func newArena(size int) *arena {
	need := guard + size + guard
	var all []byte
	if slabOff+need <= len(slab) {
		all = slab[slabOff : slabOff+need : slabOff+need]
		slabOff += need
	} else {
		all = make([]byte, need)
	}
	a := &arena{all: all}
	for i := 0; i < guard; i++ {
		all[i], all[need-1-i] = 0xC5, 0xC5
	}
	a.buf = all[guard : guard+size : guard+size]
	return a
}

func (a *arena) intact() bool {
	for _, b := range a.all[:guard] {
		if b != 0xC5 {
			return false
		}
	}
	for _, b := range a.all[len(a.all)-guard:] {
		if b != 0xC5 {
			return false
		}
	}
	return true
}

// ---- harness decoders of the wire formats (independent of the repo) ----

type decoded struct {
	addr    []byte
	payload []byte
	pad     int
	sid     uint64
	csid    uint64
	typ     byte
}

func decodeClientWire(s sideCfg, k ssudp.Keys, w []byte) (d decoded, err error) {
	switch s.Proto {
	case pDirect:
		d.payload = w
	case pSocks5:
		if len(w) < 3 || w[0] != 0 || w[1] != 0 || w[2] != 0 {
			return d, fmt.Errorf("bad SOCKS5 UDP header % x", w[:min(3, len(w))])
		}
		w = w[3:]
		fallthrough
	case pNone:
		n, err := ssudp.SocksAddrLen(w)
		if err != nil {
			return d, err
		}
		d.addr, d.payload = w[:n], w[n:]
	default:
		p, err := k.DecodeClient(w)
		if err != nil {
			return d, err
		}
		d = decoded{addr: p.Addr, payload: p.Payload, pad: p.PadLen, sid: p.SID, typ: p.Type}
		if p.Type != ssudp.TypeClient {
			return d, fmt.Errorf("client message with type %d", p.Type)
		}
	}
	return d, nil
}

func decodeServerWire(s sideCfg, k ssudp.Keys, w []byte) (d decoded, err error) {
	if !s.isSS() {
		return decodeClientWire(s, k, w)
	}
	p, err := k.DecodeServer(w)
	if err != nil {
		return d, err
	}
	d = decoded{addr: p.Addr, payload: p.Payload, pad: p.PadLen, sid: p.SID, csid: p.CSID, typ: p.Type}
	if p.Type != ssudp.TypeServer {
		return d, fmt.Errorf("server message with type %d", p.Type)
	}
	return d, nil
}

// ---- the case runner ----

type runner struct {
	c      *caseCfg
	labels map[string]bool
	stage  string

	target, source, tunnel   ssudp.Addr
	relay, up, client, nat   netip.AddrPort
	down                     *clientRole // downstream client (speaks S to the relay)
	srv                      *serverRole // the relay's server side
	cli                      *clientRole // the relay's client side
	ups                      *serverRole // upstream server (speaks C); nil when C has more than one identity header
	maxClientPackerHeadroom  zerocopy.Headroom
	csidC                    uint64 // client session id of the relay's ss2022 client session (seen on the wire)
	harnessSSID, harnessSPID uint64
	upPacker, srvPacker      zerocopy.ServerPacker // one server session per case, as one relay session has
	names                    map[string]netip.Addr // what the owned resolver answers (direct client with domain targets)
	seq                      uint64
	seqTunnel                ssudp.Addr
	downReach                int // 0: the last downlink packet did not reach the relay's client unpacker, 1: it was unpacked there
}

// stages an uplink packet got through
const (
	reachNone = iota
	reachSrvUnpacked
	reachCliPacked
	reachUpstream
)

type violation struct{ msg string }

func (r *runner) fail(sig, format string, a ...any) {
	panic(violation{fmt.Sprintf("SIG=C05/%s stage=%s: %s", sig, r.stage, fmt.Sprintf(format, a...))})
}

func (r *runner) label(l string) { r.labels[l] = true }

// sigDirectDomainTargetOnly: a direct server whose tunnel address is a domain name, with
// tunnelUDPTargetOnly, used to panic in DirectPacketServerPackUnpacker.PackInPlace (IPPort() on a
// non-IP address) for every reply. Since fix aac4f47 the service refuses that configuration at load
// (TestServiceRefusesDirectDomainTargetOnly pins the refusal), so it is not a layout the service
// computes any more: the generator excludes the class by construction and counts it.
const sigDirectDomainTargetOnly = "direct-domain-tunnel-targetonly-panic"

func runCase(c *caseCfg) (v string, labels []string) {
	r := &runner{c: c, labels: map[string]bool{}, stage: "setup"}
	slabOff = 0
	defer func() {
		for l := range r.labels {
			labels = append(labels, l)
		}
		sort.Strings(labels)
		if p := recover(); p != nil {
			if vi, ok := p.(violation); ok {
				v = vi.msg
				return
			}
			// a panic of the code under test (index out of range, slice bounds, nil map ...) is a violation
			v = fmt.Sprintf("SIG=C05/panic/%s stage=%s: panic: %v\n%s", r.stage, r.stage, p, clipStack(debug.Stack()))
		}
	}()
	r.setup()
	// establish every session with a one-byte packet, then the drawn packets
	r.stage = "prime"
	r.uplink(r.target, 1, true)
	r.uplink(r.target, c.UpLen, false)
	r.downlink(r.source, c.DownLen)
	return "", nil
}

func clipStack(b []byte) string {
	lines := strings.Split(string(b), "\n")
	var keep []string
	for _, l := range lines {
		if strings.Contains(l, "/repo/") || strings.Contains(l, "shadowsocks-go") || strings.Contains(l, "checks/c05") {
			keep = append(keep, strings.TrimSpace(l))
		}
	}
	if len(keep) > 14 {
		keep = keep[:14]
	}
	return strings.Join(keep, "\n")
}

func (r *runner) setup() {
	c := r.c
	r.target, r.source = c.Target.addr(), c.Source.addr()
	if r.seqTunnel != (ssudp.Addr{}) {
		r.target = r.seqTunnel // sequence cases: the direct server's tunnel address comes from the host vocabulary
	}
	r.tunnel = r.target // a direct server forwards everything to its configured tunnel address
	r.relay, r.up = peerAddr(c.RelayFam, 1, 8388), peerAddr(c.UpFam, 2, 8389)
	r.client, r.nat = peerAddr(c.ClientFam, 3, 50000), peerAddr(c.NatFam, 4, 50001)
	keysS, keysC := makeKeys(c.S, c.Seed), makeKeys(c.C, c.Seed^0x5bd1e995)
	var err error
	if r.down, err = newClientRole(c.S, keysS, r.relay, c.DownMTU); err != nil {
		r.fail("harness", "downstream client: %v", err)
	}
	if r.srv, err = newServerRole(c.S, keysS, r.tunnel, c.TunnelOnly); err != nil {
		r.fail("harness", "relay server: %v", err)
	}
	if r.cli, err = newClientRole(c.C, keysC, r.up, c.ClientMTU); err != nil {
		r.fail("harness", "relay client: %v", err)
	}
	if !c.C.isSS() || c.C.K <= 1 {
		if r.ups, err = newServerRole(c.C, keysC, ssudp.Addr{IP: netip.IPv4Unspecified()}, false); err != nil {
			r.fail("harness", "upstream server: %v", err)
		}
	}
	// service.go: maxClientPackerHeadroom is the maximum over every configured client
	r.maxClientPackerHeadroom = r.cli.headroom
	for i, x := range c.Extras {
		xr, err := newClientRole(x, makeKeys(x, c.Seed+uint64(i)+7), r.up, c.ClientMTU)
		if err != nil {
			r.fail("harness", "extra client: %v", err)
		}
		r.maxClientPackerHeadroom = zerocopy.MaxHeadroom(r.maxClientPackerHeadroom, xr.headroom)
	}
	r.harnessSSID = c.Seed | 1
}

// layout computes front/size exactly like service/server.go UDPRelay (uplink) and
// relayNatConnToServerConn* (downlink): relay headroom = packer headroom minus unpacker headroom,
// receive window right after the front headroom.
func (r *runner) layout(packer, unpacker zerocopy.Headroom, recvSize int) (front int, a *arena) {
	h := zerocopy.UDPRelayHeadroom(packer, unpacker)
	if h.Front < 0 || h.Rear < 0 || recvSize < 0 {
		r.fail("layout-negative", "relay headroom %+v recv %d computed from packer %+v unpacker %+v", h, recvSize, packer, unpacker)
	}
	return h.Front, newArena(h.Front + recvSize + h.Rear)
}

func (r *runner) checkBounds(a *arena, what string, start, length int) {
	if start < 0 || length < 0 || start+length > len(a.buf) {
		r.fail("bounds", "%s start=%d len=%d outside the %d-byte packet buffer", what, start, length, len(a.buf))
	}
	if !a.intact() {
		r.fail("canary", "%s: bytes outside the packet buffer were modified", what)
	}
}

// checkClientPack judges one PackInPlace of a client packer.
func (r *runner) checkClientPack(role *clientRole, target ssudp.Addr, a *arena, payload []byte, payloadStart int,
	dest netip.AddrPort, ps, pl int, err error) (wire []byte) {
	cfg := role.cfg
	if !a.intact() {
		r.fail("canary", "client packer %s wrote outside the packet buffer", cfg.name())
	}
	eff := target
	if cfg.Proto == pDirect && !target.IsIP() {
		// a direct client sends to the address the (owned) resolver gives for the name, with the packet's port
		ip, ok := r.names[target.Domain]
		if !ok {
			if err == nil {
				r.fail("unresolvable-accepted/direct", "target %s does not resolve but PackInPlace returned a packet for %s", target, dest)
			}
			r.label("direct-client-resolve-failed")
			return nil
		}
		eff = ssudp.Addr{IP: ip, Port: target.Port}
	}
	budget := role.packBudget(eff)
	need := clientOverhead(cfg, target) + len(payload)
	if need > budget {
		if err == nil {
			r.fail("oversize-accepted/"+protoNames[cfg.Proto], "minimal encoding %d > budget %d (mtu %d) but PackInPlace returned a %d-byte packet", need, budget, role.mtu, pl)
		}
		r.label("client-pack-refused-too-big")
		return nil
	}
	if err != nil {
		r.fail("fitting-refused/"+protoNames[cfg.Proto], "minimal encoding %d <= budget %d (mtu %d) but PackInPlace failed: %v", need, budget, role.mtu, err)
	}
	r.checkBounds(a, "packed client packet", ps, pl)
	if pl > budget {
		r.fail("over-mtu/"+protoNames[cfg.Proto], "packed %d bytes > budget %d (mtu %d)", pl, budget, role.mtu)
	}
	wire = append([]byte{}, a.buf[ps:ps+pl]...) // never nil: nil means "refused"
	d, derr := decodeClientWire(cfg, role.keys, wire)
	if derr != nil {
		r.fail("wire-undecodable/"+protoNames[cfg.Proto], "harness decoder rejects the packed client packet: %v", derr)
	}
	if !bytes.Equal(d.payload, payload) {
		r.fail("wire-payload/"+protoNames[cfg.Proto], "payload on the wire (%d bytes) differs from the packed payload (%d bytes)", len(d.payload), len(payload))
	}
	if cfg.Proto != pDirect && !bytes.Equal(d.addr, target.Wire()) {
		r.fail("wire-addr/"+protoNames[cfg.Proto], "address on the wire % x, want % x (%s)", d.addr, target.Wire(), target)
	}
	wantDest := role.server
	if cfg.Proto == pDirect {
		wantDest = netip.AddrPortFrom(eff.IP, eff.Port)
	}
	// the wire cannot carry the IPv4-mapped form, so a direct destination is compared unmapped
	if netip.AddrPortFrom(dest.Addr().Unmap(), dest.Port()) != netip.AddrPortFrom(wantDest.Addr().Unmap(), wantDest.Port()) {
		r.fail("dest/"+protoNames[cfg.Proto], "destination %s, want %s", dest, wantDest)
	}
	r.checkPadding(cfg.isSS(), policySaysPad(cfg.Pad, target.Port), d.pad, min(budget-need, payloadStart-clientFront(cfg, target), 65535), pl, need)
	return wire
}

func (r *runner) checkPadding(isSS, policy bool, pad, room, pl, need int) {
	if pl != need+pad {
		r.fail("length-accounting", "packet length %d != minimal %d + padding %d", pl, need, pad)
	}
	if !isSS {
		return
	}
	switch {
	case !policy && pad != 0:
		r.fail("padding-against-policy", "%d bytes of padding although the policy says no", pad)
	case policy && room > 0 && (pad < 1 || pad > room):
		r.fail("padding-range", "policy says pad, room %d, got padding %d", room, pad)
	case policy && room <= 0 && pad != 0:
		r.fail("padding-no-room", "no room for padding (%d) but %d bytes were added", room, pad)
	}
	switch {
	case pad > 0:
		r.label("padded")
	case policy:
		r.label("pad-wanted-no-room")
	default:
		r.label("unpadded-by-policy")
	}
}

// uplink sends one payload from the downstream client through the relay to the upstream server.
func (r *runner) uplink(target ssudp.Addr, plen int, prime bool) (reach int) {
	c := r.c
	ctx := context.Background()
	slabOff = 0
	if prime && c.S.Proto != pDirect {
		target = ssudp.Addr{IP: netip.AddrFrom4([4]byte{192, 0, 2, 1}), Port: 9}
	}
	r.seq++
	payload := make([]byte, plen)
	ssudp.Fill(payload, c.Seed^uint64(plen)<<1^r.seq<<32)
	done := func(l string) {
		switch {
		case prime && !strings.HasPrefix(l, "ok"):
			r.fail("prime", "the one-byte priming packet did not get through: %s", l)
		case !prime:
			r.label("uplink-" + l)
		}
	}

	// hop 0: the downstream client is itself a relay whose server side is "direct" (no headroom)
	r.stage = "uplink/downstream-pack"
	var w []byte
	if c.S.Proto == pDirect {
		w = payload
	} else {
		front, a := r.layout(r.down.headroom, zerocopy.Headroom{}, zerocopy.MaxPacketSizeForAddr(c.DownMTU, netip.IPv4Unspecified()))
		copy(a.buf[front:], payload)
		dest, ps, pl, err := r.down.sess.Packer.PackInPlace(ctx, a.buf, toConnAddr(target), front, plen)
		if w = r.checkClientPack(r.down, target, a, payload, front, dest, ps, pl, err); w == nil {
			done("refused-by-downstream-client")
			return
		}
	}

	// the relay under test
	r.stage = "uplink/relay-recv"
	recvSize := zerocopy.MaxPacketSizeForAddr(c.ServerMTU, netip.IPv4Unspecified())
	if recvSize != c.ServerMTU-28 {
		r.fail("recv-size", "receive window %d for MTU %d, want MTU-28", recvSize, c.ServerMTU)
	}
	if len(w) > recvSize {
		done("datagram-exceeds-relay-recv") // the kernel truncates it, the relay drops it (MSG_TRUNC)
		return
	}
	front, a := r.layout(r.maxClientPackerHeadroom, r.srv.unpackerHeadroom, recvSize)
	copy(a.buf[front:], w)
	r.stage = "uplink/relay-unpack"
	ta, ps, pl, err := r.srv.unpack(a.buf, r.client, front, len(w))
	if err != nil {
		r.fail("roundtrip-unpack/"+protoNames[c.S.Proto], "server unpacker refused the peer's packet (%d bytes, target %s): %v", len(w), target, err)
	}
	r.checkBounds(a, "unpacked payload", ps, pl)
	if !bytes.Equal(a.buf[ps:ps+pl], payload) {
		r.fail("roundtrip-payload/"+protoNames[c.S.Proto], "payload after server unpack differs (%d bytes, want %d)", pl, plen)
	}
	if got := fromConnAddr(ta); !sameUnmapped(got, target) {
		r.fail("roundtrip-addr/"+protoNames[c.S.Proto], "target after server unpack %s, want %s", got, target)
	}
	reach = reachSrvUnpacked
	r.stage = "uplink/relay-pack"
	dest, pks, pkl, err := r.cli.sess.Packer.PackInPlace(ctx, a.buf, ta, ps, pl)
	w2 := r.checkClientPack(r.cli, target, a, payload, ps, dest, pks, pkl, err)
	if w2 == nil {
		done("refused-by-relay-client")
		return
	}
	reach = reachCliPacked
	if c.C.isSS() {
		r.csidC = decodeMust(decodeClientWire(c.C, r.cli.keys, w2)).sid
	}

	// upstream peer
	r.stage = "uplink/upstream-unpack"
	if r.ups == nil {
		done("ok-harness-peer-only") // C carries 2-3 identity headers: only the harness decoder plays the chain
		return
	}
	upRecv := c.UpMTU - 28
	if len(w2) > upRecv {
		done("datagram-exceeds-upstream-recv")
		return
	}
	ufront, ua := r.layout(zerocopy.Headroom{}, r.ups.unpackerHeadroom, upRecv)
	copy(ua.buf[ufront:], w2)
	uta, ups, upl, err := r.ups.unpack(ua.buf, r.nat, ufront, len(w2))
	if err != nil {
		r.fail("roundtrip-unpack/"+protoNames[c.C.Proto], "upstream server unpacker refused the relay's packet (%d bytes, target %s): %v", len(w2), target, err)
	}
	r.checkBounds(ua, "upstream payload", ups, upl)
	if !bytes.Equal(ua.buf[ups:ups+upl], payload) {
		r.fail("roundtrip-payload/"+protoNames[c.C.Proto], "payload at the upstream server differs (%d bytes, want %d)", upl, plen)
	}
	if c.C.Proto != pDirect {
		if got := fromConnAddr(uta); got != target.Unmapped() {
			r.fail("roundtrip-addr/"+protoNames[c.C.Proto], "target at the upstream server %s, want %s", got, target.Unmapped())
		}
	}
	done("ok")
	return reachUpstream
}

func decodeMust(d decoded, err error) decoded {
	if err != nil {
		panic(violation{"SIG=C05/harness decode: " + err.Error()})
	}
	return d
}

// checkServerPack judges one PackInPlace of a server packer.
func (r *runner) checkServerPack(cfg sideCfg, keys ssudp.Keys, source ssudp.Addr, a *arena, payload []byte, payloadStart, budget int,
	ps, pl int, err error, dropNonTarget bool) (wire []byte) {
	need := serverOverhead(cfg, source) + len(payload)
	if !a.intact() {
		r.fail("canary", "server packer %s wrote outside the packet buffer", cfg.name())
	}
	if need > budget || dropNonTarget {
		if err == nil {
			r.fail("oversize-accepted/"+protoNames[cfg.Proto]+"-server", "minimal encoding %d, budget %d, drop-non-target=%v, but PackInPlace returned a %d-byte packet", need, budget, dropNonTarget, pl)
		}
		if need > budget {
			r.label("server-pack-refused-too-big")
		} else {
			r.label("server-pack-dropped-non-target")
		}
		return nil
	}
	if err != nil {
		r.fail("fitting-refused/"+protoNames[cfg.Proto]+"-server", "minimal encoding %d <= budget %d but PackInPlace failed: %v", need, budget, err)
	}
	r.checkBounds(a, "packed server packet", ps, pl)
	if pl > budget {
		r.fail("over-mtu/"+protoNames[cfg.Proto]+"-server", "packed %d bytes > budget %d", pl, budget)
	}
	wire = append([]byte{}, a.buf[ps:ps+pl]...) // never nil: nil means "refused"
	d, derr := decodeServerWire(cfg, keys, wire)
	if derr != nil {
		r.fail("wire-undecodable/"+protoNames[cfg.Proto]+"-server", "harness decoder rejects the packed server packet: %v", derr)
	}
	if !bytes.Equal(d.payload, payload) {
		r.fail("wire-payload/"+protoNames[cfg.Proto]+"-server", "payload on the wire (%d bytes) differs from the packed payload (%d bytes)", len(d.payload), len(payload))
	}
	if cfg.Proto != pDirect && !bytes.Equal(d.addr, source.Wire()) {
		r.fail("wire-addr/"+protoNames[cfg.Proto]+"-server", "address on the wire % x, want % x (%s)", d.addr, source.Wire(), source)
	}
	r.checkPadding(cfg.isSS(), policySaysPad(cfg.Pad, source.Port), d.pad, min(budget-need, payloadStart-serverFront(cfg, source), 65535), pl, need)
	return wire
}

// downlink sends one payload from the upstream server through the relay to the downstream client.
func (r *runner) downlink(source ssudp.Addr, plen int) (ok bool) {
	c := r.c
	slabOff = 0
	r.seq++
	payload := make([]byte, plen)
	ssudp.Fill(payload, c.Seed^uint64(plen)<<1^0xabcdef^r.seq<<32)
	r.downReach = 0
	done := func(l string) { r.label("downlink-" + l); ok = l == "ok" }
	srcAP := netip.AddrPortFrom(source.IP, source.Port)

	// hop N: the upstream server is a relay whose client side is "direct"
	r.stage = "downlink/upstream-pack"
	var w []byte
	packetSource := r.up
	switch {
	case c.C.Proto == pDirect:
		w, packetSource = payload, srcAP // the reply arrives on the relay's own socket from the source itself
	case r.ups == nil:
		// 2-3 identity headers: the final server exists only as the harness encoder
		w = r.cli.keys.EncodeServer(ssudp.ServerPacket{SID: r.harnessSSID, PID: r.harnessSPID, Type: ssudp.TypeServer, TS: uint64(time.Now().Unix()),
			CSID: r.csidC, Addr: source.Wire(), Payload: payload}, nil)
		r.harnessSPID++
		if len(w) > mtuBudget(c.UpMTU, r.nat.Addr()) {
			done("refused-by-upstream-server")
			return
		}
	default:
		if r.upPacker == nil {
			var err error
			if r.upPacker, err = r.ups.newPacker(); err != nil {
				r.fail("harness", "upstream NewPacker: %v", err)
			}
		}
		packer := r.upPacker
		hopRecv := zerocopy.MaxPacketSizeForAddr(c.UpMTU, netip.IPv4Unspecified())
		front, a := r.layout(packer.ServerPackerInfo().Headroom, zerocopy.Headroom{}, hopRecv)
		copy(a.buf[front:], payload)
		budget := mtuBudget(c.UpMTU, r.nat.Addr())
		ps, pl, err := packer.PackInPlace(a.buf, srcAP, front, plen, zerocopy.MaxPacketSizeForAddr(c.UpMTU, r.nat.Addr()))
		if w = r.checkServerPack(c.C, r.cli.keys, source, a, payload, front, budget, ps, pl, err, false); w == nil {
			done("refused-by-upstream-server")
			return
		}
	}

	// the relay under test
	r.stage = "downlink/relay-recv"
	recvSize := r.cli.sess.MaxPacketSize
	if recvSize != r.cli.recvSizeModel() {
		r.fail("recv-size", "client session MaxPacketSize %d, want %d (mtu %d)", recvSize, r.cli.recvSizeModel(), c.ClientMTU)
	}
	if len(w) > recvSize {
		done("datagram-exceeds-relay-recv")
		return
	}
	if r.srvPacker == nil {
		var err error
		if r.srvPacker, err = r.srv.newPacker(); err != nil {
			r.fail("harness", "relay NewPacker: %v", err)
		}
	}
	packer := r.srvPacker
	front, a := r.layout(packer.ServerPackerInfo().Headroom, r.cli.sess.Unpacker.ClientUnpackerInfo().Headroom, recvSize)
	copy(a.buf[front:], w)
	r.stage = "downlink/relay-unpack"
	psrc, ps, pl, err := r.cli.sess.Unpacker.UnpackInPlace(a.buf, packetSource, front, len(w))
	if err != nil {
		r.fail("roundtrip-unpack/"+protoNames[c.C.Proto]+"-client", "client unpacker refused the peer's packet (%d bytes, source %s): %v", len(w), source, err)
	}
	r.checkBounds(a, "unpacked payload", ps, pl)
	if !bytes.Equal(a.buf[ps:ps+pl], payload) {
		r.fail("roundtrip-payload/"+protoNames[c.C.Proto]+"-client", "payload after client unpack differs (%d bytes, want %d)", pl, plen)
	}
	if got := fromAddrPort(psrc); !sameUnmapped(got, source) {
		r.fail("roundtrip-addr/"+protoNames[c.C.Proto]+"-client", "source after client unpack %s, want %s", got, source)
	}
	r.downReach = 1
	r.stage = "downlink/relay-pack"
	budget := mtuBudget(c.ServerMTU, r.client.Addr())
	pks, pkl, err := packer.PackInPlace(a.buf, psrc, ps, pl, zerocopy.MaxPacketSizeForAddr(c.ServerMTU, r.client.Addr()))
	// a direct server with tunnelUDPTargetOnly drops replies that do not come from its tunnel target
	drop := c.S.Proto == pDirect && c.TunnelOnly && !sameUnmapped(source, r.tunnel)
	w2 := r.checkServerPack(c.S, r.down.keys, source, a, payload, ps, budget, pks, pkl, err, drop)
	if w2 == nil {
		done("refused-by-relay-server")
		return
	}

	// downstream client
	r.stage = "downlink/client-unpack"
	if c.S.Proto == pDirect {
		done("ok")
		return
	}
	downRecv := r.down.sess.MaxPacketSize
	if len(w2) > downRecv {
		done("datagram-exceeds-client-recv")
		return
	}
	dfront, da := r.layout(zerocopy.Headroom{}, r.down.sess.Unpacker.ClientUnpackerInfo().Headroom, downRecv)
	copy(da.buf[dfront:], w2)
	dsrc, dps, dpl, err := r.down.sess.Unpacker.UnpackInPlace(da.buf, r.relay, dfront, len(w2))
	if err != nil {
		r.fail("roundtrip-unpack/"+protoNames[c.S.Proto]+"-client", "downstream client unpacker refused the relay's packet (%d bytes, source %s): %v", len(w2), source, err)
	}
	r.checkBounds(da, "client payload", dps, dpl)
	if !bytes.Equal(da.buf[dps:dps+dpl], payload) {
		r.fail("roundtrip-payload/"+protoNames[c.S.Proto]+"-client", "payload at the downstream client differs (%d bytes, want %d)", dpl, plen)
	}
	if got := fromAddrPort(dsrc); got != source.Unmapped() {
		r.fail("roundtrip-addr/"+protoNames[c.S.Proto]+"-client", "source at the downstream client %s, want %s", got, source.Unmapped())
	}
	done("ok")
	return
}

var _ = errors.Is

// ---- the rapid property ----

var pairLabels = func() []string {
	var out []string
	for s := range nProtos {
		for c := range nProtos {
			out = append(out, "pair/"+protoNames[s]+">"+protoNames[c])
		}
	}
	return out
}()

var recRelay = ev.New("C05", "relay-roundtrip",
	"rapid + synctest bubble: relay (server protocol S x client protocol C over {direct, none, socks5, ss2022-128, ss2022-256}, S with 0-1 and C with 0-3 "+
		"identity headers, padding policies NoPadding/PadPlainDNS/PadAll, 0-2 further clients raising maxClientPackerHeadroom, MTUs from {1280,1492,1500,9000,65535} "+
		"per hop, v4/v6/v4-mapped peer addresses); target = v4/v6/v4-mapped/domain of length {1,2,63,64,253,254,255,random}, ports {0,1,53,80,443,65535,random}; "+
		"payload lengths at 0..3, around every stage's fit limit ±3 and log-uniform; uplink and downlink through real packers/unpackers in canary arenas laid out by "+
		"the service formula. Non-trivial: S != C, or a payload within 3 of a limit, or a domain of length >= 254; distinct key = pair + EIH + pads + MTUs + address kinds + outcome labels").
	Require(append([]string{"uplink-ok", "downlink-ok", "client-pack-refused-too-big", "server-pack-refused-too-big", "padded", "unpadded-by-policy",
		"domain>=254", "mapped-target", "uplink-refused-by-relay-client", "downlink-refused-by-relay-server", "eih-server", "eih-client-2+", "extras-raise-headroom",
		"uplink-ok-harness-peer-only", "server-pack-dropped-non-target"}, pairLabels...)...)

func TestRelayRoundTrip(t *testing.T) {
	rapid.Check(t, func(rt *rapid.T) {
		c := drawCase(rt)
		var v string
		var labels []string
		synctest.Test(t, func(t *testing.T) { v, labels = runCase(c) })
		if v != "" {
			rt.Fatalf("%s\ncase=%s", v, c)
		}
		if c.excluded {
			recRelay.Excluded(1)
		}
		recordCase(c, labels)
	})
}

func recordCase(c *caseCfg, labels []string) {
	labels = append(labels, "pair/"+protoNames[c.S.Proto]+">"+protoNames[c.C.Proto])
	if c.Target.Kind == 3 && c.Target.DomLen >= 254 {
		labels = append(labels, "domain>=254")
	}
	if c.Target.Kind == 2 {
		labels = append(labels, "mapped-target")
	}
	if c.S.isSS() && c.S.K > 0 {
		labels = append(labels, "eih-server")
	}
	if c.C.isSS() && c.C.K >= 2 {
		labels = append(labels, "eih-client-2+")
	}
	if len(c.Extras) > 0 {
		labels = append(labels, "extras-raise-headroom")
	}
	if c.nearLimit {
		labels = append(labels, "len-near-limit")
	}
	nt := c.S.Proto != c.C.Proto || c.nearLimit || (c.Target.Kind == 3 && c.Target.DomLen >= 254)
	key := fmt.Sprintf("%s>%s|%d%d|%d.%d.%d.%d|%d%d|%s", c.S.name(), c.C.name(), c.S.Pad, c.C.Pad, c.ServerMTU, c.ClientMTU, c.DownMTU, c.UpMTU,
		c.Target.Kind, c.Source.Kind, strings.Join(labels, ","))
	recRelay.Case(key, nt, labels...)
	if nt {
		recRelay.Sample(map[string]any{"pair": c.S.name() + ">" + c.C.name(), "server_mtu": c.ServerMTU, "client_mtu": c.ClientMTU,
			"target": c.Target.addr().String(), "up_len": c.UpLen, "down_len": c.DownLen, "labels": strings.Join(labels, ",")})
	}
}

// setupSeq is setup for a sequence case: the owned resolver's table is known to the oracle.
func (r *runner) setupSeq(s *seqCase) {
	r.names = s.names
	r.setup()
}
