package c05

import (
	"context"
	"encoding/binary"
	"fmt"
	"io"
	"net"
	"net/netip"
	"sort"
	"strings"
	"sync"
	"testing"
	"testing/synctest"
	"time"

	"pgregory.net/rapid"

	"verif/internal/ev"
	"verif/internal/ssudp"
)

// ---------------------------------------------------------------------------------------------
// Several packets through the SAME packer/unpacker instances of one relay session. The codecs keep
// state between packets: the direct client packer caches the resolved address of the last domain
// target, the socks5 / ss-none / ss2022 server unpackers intern domain names in a socks5.DomainCache,
// the ss2022 (un)packers keep session state. Consecutive targets are drawn so that every packet
// meets what the previous one left behind: same domain with another port, same domain and port,
// another domain, domain <-> IP, same IP with another port, another IP; for the direct client also a
// name that does not resolve followed by one that does. The per-packet oracle is the one of
// TestRelayRoundTrip (payload and unmapped address incl. port identical at the far end; the direct
// packer's destination = resolved IP with the packet's own port).
// ---------------------------------------------------------------------------------------------

// ---- owned resolver (net.DefaultResolver override; in-memory DNS-over-TCP responder) ----

var (
	resOnce  sync.Once
	resMu    sync.Mutex
	resTable = map[string]netip.Addr{}
)

func setNames(m map[string]netip.Addr) {
	resMu.Lock()
	clear(resTable)
	for k, v := range m {
		resTable[strings.ToLower(k)] = v
	}
	resMu.Unlock()
}

// installResolver replaces net.DefaultResolver once and performs one lookup outside any bubble so
// that the resolver's lazily created process-wide state does not belong to a synctest bubble.
func installResolver() {
	resOnce.Do(func() {
		net.DefaultResolver = &net.Resolver{
			PreferGo: true,
			Dial: func(ctx context.Context, network, address string) (net.Conn, error) {
				c1, c2 := net.Pipe()
				go serveDNS(c2)
				return c1, nil
			},
		}
		net.DefaultResolver.LookupNetIP(context.Background(), "ip", "warmup.c05.test")
	})
}

func serveDNS(c net.Conn) {
	defer c.Close()
	var lb [2]byte
	for {
		if _, err := io.ReadFull(c, lb[:]); err != nil {
			return
		}
		q := make([]byte, binary.BigEndian.Uint16(lb[:]))
		if _, err := io.ReadFull(c, q); err != nil {
			return
		}
		resp := answerDNS(q)
		if resp == nil {
			return
		}
		out := binary.BigEndian.AppendUint16(nil, uint16(len(resp)))
		if _, err := c.Write(append(out, resp...)); err != nil {
			return
		}
	}
}

// answerDNS answers one single-question query from resTable: A for IPv4 entries, AAAA for IPv6
// entries, NODATA for the other type, NXDOMAIN for unknown names.
func answerDNS(q []byte) []byte {
	if len(q) < 12 {
		return nil
	}
	off := 12
	var labels []string
	for {
		if off >= len(q) {
			return nil
		}
		l := int(q[off])
		off++
		if l == 0 {
			break
		}
		if l&0xC0 != 0 || off+l > len(q) {
			return nil
		}
		labels = append(labels, string(q[off:off+l]))
		off += l
	}
	if off+4 > len(q) {
		return nil
	}
	qtype := binary.BigEndian.Uint16(q[off:])
	qend := off + 4
	resMu.Lock()
	ip, ok := resTable[strings.ToLower(strings.Join(labels, "."))]
	resMu.Unlock()
	var rcode byte
	var rdata []byte
	switch {
	case !ok:
		rcode = 3
	case qtype == 1 && ip.Is4():
		a := ip.As4()
		rdata = a[:]
	case qtype == 28 && ip.Is6():
		a := ip.As16()
		rdata = a[:]
	}
	resp := []byte{q[0], q[1], 0x80 | (q[2] & 0x01), 0x80 | rcode, 0, 1, 0, 0, 0, 0, 0, 0}
	if rdata != nil {
		resp[7] = 1
	}
	resp = append(resp, q[12:qend]...)
	if rdata != nil {
		resp = append(resp, 0xC0, 0x0C)
		resp = binary.BigEndian.AppendUint16(resp, qtype)
		resp = append(resp, 0, 1, 0, 0, 0, 60)
		resp = binary.BigEndian.AppendUint16(resp, uint16(len(rdata)))
		resp = append(resp, rdata...)
	}
	return resp
}

// ---- the sequence case ----

// host vocabulary indices
const (
	hD1 = iota // domain (resolvable when the relay's client is direct)
	hD2        // another domain
	hI1        // IP
	hI2        // another IP
	hDX        // a name that does not resolve (direct client only)
	nHosts
)

func isDomainHost(h int) bool { return h == hD1 || h == hD2 || h == hDX }

type seqPkt struct {
	Host int `json:"h"`
	Port int `json:"p"`
	Len  int `json:"n"`
	// Restart (downlink, ss2022 upstream only): before this packet the clock moves by 61 s (1) or 5 min (2)
	// and the upstream server starts a new server session (packet ids restart at 0); the relay's client
	// session lives on and must accept the change and everything that follows.
	Restart int `json:"restart,omitempty"`
}

type seqCase struct {
	Base  *caseCfg       `json:"base"`
	Hosts [nHosts]string `json:"hosts"`
	Ports [2]uint16      `json:"ports"`
	Res   [2]string      `json:"resolves_to"` // what D1 and D2 resolve to
	Up    []seqPkt       `json:"up"`
	Down  []seqPkt       `json:"down"` // Host is hI1 or hI2
	addrs [nHosts]ssudp.Addr
	names map[string]netip.Addr
}

func (s *seqCase) target(p seqPkt) ssudp.Addr {
	a := s.addrs[p.Host]
	a.Port = s.Ports[p.Port]
	return a
}

// transition classifies what packet b meets after packet a.
func transition(a, b seqPkt) string {
	da, db := isDomainHost(a.Host), isDomainHost(b.Host)
	switch {
	case da && db && a.Host == b.Host && a.Port != b.Port:
		return "same-domain-diff-port"
	case da && db && a.Host == b.Host:
		return "same-domain-same-port"
	case da && db:
		return "diff-domain"
	case da:
		return "domain-to-ip"
	case db:
		return "ip-to-domain"
	case a.Host == b.Host && a.Port != b.Port:
		return "same-ip-diff-port"
	case a.Host == b.Host:
		return "same-ip-same-port"
	default:
		return "diff-ip"
	}
}

var upTransitions = []string{"same-domain-diff-port", "same-domain-same-port", "diff-domain", "domain-to-ip", "ip-to-domain", "same-ip-diff-port", "same-ip-same-port", "diff-ip"}

// nextPkt draws the packet that follows prev so that the drawn transition happens.
func nextPkt(rt *rapid.T, prev seqPkt, domains []int, ips []int, label string) seqPkt {
	n := seqPkt{Host: prev.Host, Port: prev.Port, Len: rapid.IntRange(0, 200).Draw(rt, label+"-len")}
	other := func(set []int, cur int) int {
		var c []int
		for _, h := range set {
			if h != cur {
				c = append(c, h)
			}
		}
		if len(c) == 0 {
			return cur
		}
		return rapid.SampledFrom(c).Draw(rt, label+"-other")
	}
	pick := func(set []int) int { return rapid.SampledFrom(set).Draw(rt, label+"-pick") }
	switch k := rapid.IntRange(0, 9).Draw(rt, label+"-tr"); {
	case k < 3: // same host, other port
		n.Port = 1 - prev.Port
	case k < 4: // exactly the same address again
	case k < 6: // another host of the same kind
		if isDomainHost(prev.Host) {
			n.Host = other(domains, prev.Host)
		} else {
			n.Host = other(ips, prev.Host)
		}
		n.Port = rapid.IntRange(0, 1).Draw(rt, label+"-port")
	default: // switch kind
		if isDomainHost(prev.Host) && len(ips) > 0 {
			n.Host = pick(ips)
		} else if len(domains) > 0 {
			n.Host = pick(domains)
		}
		n.Port = rapid.IntRange(0, 1).Draw(rt, label+"-port")
	}
	return n
}

func drawSeqCase(rt *rapid.T) *seqCase {
	s := &seqCase{Base: drawCase(rt)}
	c := s.Base
	c.TunnelOnly, c.excluded = false, false
	if c.S.Proto == pDirect && rapid.IntRange(0, 3).Draw(rt, "avoid-direct-server") > 0 {
		c.S.Proto = rapid.IntRange(pNone, nProtos-1).Draw(rt, "s-proto2") // a direct server has one fixed target
		if c.S.isSS() {
			c.S.K, c.S.Pad = rapid.IntRange(0, 1).Draw(rt, "s-k2"), rapid.IntRange(0, 2).Draw(rt, "s-pad2")
		}
	}
	tag := fmt.Sprintf("%x", c.Seed&0xffffff)
	s.Hosts[hD1] = "h1-" + tag + ".c05.test"
	s.Hosts[hD2] = "h2-" + tag + ".c05.test"
	s.Hosts[hDX] = "nx-" + tag + ".c05.test"
	if c.C.Proto != pDirect && rapid.Bool().Draw(rt, "long-d2") {
		s.Hosts[hD2] = addrSpec{Kind: 3, DomLen: rapid.SampledFrom([]int{1, 63, 64, 253, 254, 255}).Draw(rt, "d2-len"), Seed: c.Seed}.addr().Domain
	}
	i1 := addrSpec{Kind: rapid.IntRange(0, 2).Draw(rt, "i1-kind"), Seed: c.Seed ^ 1}.addr()
	i2 := addrSpec{Kind: rapid.IntRange(0, 2).Draw(rt, "i2-kind"), Seed: c.Seed ^ 2}.addr()
	s.Hosts[hI1], s.Hosts[hI2] = i1.IP.String(), i2.IP.String()
	r1 := addrSpec{Kind: rapid.IntRange(0, 1).Draw(rt, "r1-kind"), Seed: c.Seed ^ 3}.addr().IP
	r2 := addrSpec{Kind: rapid.IntRange(0, 1).Draw(rt, "r2-kind"), Seed: c.Seed ^ 4}.addr().IP
	s.Res = [2]string{r1.String(), r2.String()}
	p1 := rapid.SampledFrom(ports).Draw(rt, "p1")
	p2 := rapid.SampledFrom(ports).Draw(rt, "p2")
	if p2 == p1 {
		p2 = p1 + 1000
	}
	s.Ports = [2]uint16{p1, p2}
	s.finish()

	domains, ips := []int{hD1, hD2}, []int{hI1, hI2}
	if c.C.Proto == pDirect {
		domains = append(domains, hDX)
	}
	first := seqPkt{Host: rapid.SampledFrom(append(append([]int{}, domains...), ips...)).Draw(rt, "up0-host"),
		Port: rapid.IntRange(0, 1).Draw(rt, "up0-port"), Len: rapid.IntRange(0, 200).Draw(rt, "up0-len")}
	if c.S.Proto == pDirect {
		// everything goes to the tunnel address: one host for the whole sequence
		first.Host = rapid.SampledFrom([]int{hD1, hI1}).Draw(rt, "tunnel-host")
		c.Target = addrSpec{}
	}
	s.Up = []seqPkt{first}
	for i := range rapid.IntRange(1, 4).Draw(rt, "up-more") {
		if c.S.Proto == pDirect {
			s.Up = append(s.Up, seqPkt{Host: first.Host, Port: first.Port, Len: rapid.IntRange(0, 200).Draw(rt, "upd-len")})
			continue
		}
		s.Up = append(s.Up, nextPkt(rt, s.Up[len(s.Up)-1], domains, ips, fmt.Sprintf("up%d", i+1)))
	}
	d0 := seqPkt{Host: rapid.SampledFrom(ips).Draw(rt, "down0-host"), Port: rapid.IntRange(0, 1).Draw(rt, "down0-port"), Len: rapid.IntRange(0, 200).Draw(rt, "down0-len")}
	s.Down = []seqPkt{d0}
	for i := range rapid.IntRange(1, 4).Draw(rt, "down-more") {
		s.Down = append(s.Down, nextPkt(rt, s.Down[len(s.Down)-1], nil, ips, fmt.Sprintf("down%d", i+1)))
	}
	if c.C.isSS() {
		for k := range rapid.SampledFrom([]int{0, 0, 1, 2, 2, 3}).Draw(rt, "restarts") {
			p := nextPkt(rt, s.Down[len(s.Down)-1], nil, ips, fmt.Sprintf("rs%d", k))
			p.Restart = rapid.IntRange(1, 2).Draw(rt, "restart-gap")
			s.Down = append(s.Down, p)
			for j := range rapid.IntRange(1, 4).Draw(rt, "after-restart") {
				s.Down = append(s.Down, nextPkt(rt, s.Down[len(s.Down)-1], nil, ips, fmt.Sprintf("rs%d-%d", k, j)))
			}
		}
	}
	return s
}

// finish derives the address table and the resolver answers from the recorded strings.
func (s *seqCase) finish() {
	for _, h := range []int{hD1, hD2, hDX} {
		s.addrs[h] = ssudp.Addr{Domain: s.Hosts[h]}
	}
	s.addrs[hI1] = ssudp.Addr{IP: netip.MustParseAddr(s.Hosts[hI1])}
	s.addrs[hI2] = ssudp.Addr{IP: netip.MustParseAddr(s.Hosts[hI2])}
	s.names = map[string]netip.Addr{s.Hosts[hD1]: netip.MustParseAddr(s.Res[0]), s.Hosts[hD2]: netip.MustParseAddr(s.Res[1])}
}

func ssName(p int) string {
	if p == pSS128 || p == pSS256 {
		return "ss2022"
	}
	return protoNames[p]
}

// runSeqCase executes the sequence inside the caller's bubble.
func runSeqCase(s *seqCase) (v string, labels []string, hits int) {
	c := s.Base
	r := &runner{c: c, labels: map[string]bool{}, stage: "setup"}
	defer func() {
		for l := range r.labels {
			labels = append(labels, l)
		}
		sort.Strings(labels)
		if p := recover(); p != nil {
			if vi, ok := p.(violation); ok {
				v = vi.msg
				return
			}
			v = fmt.Sprintf("SIG=C05/panic/%s stage=%s: panic: %v", r.stage, r.stage, p)
		}
	}()
	// the tunnel address of a direct server is the (single) uplink target
	if c.S.Proto == pDirect {
		r.seqTunnel = s.target(s.Up[0])
	}
	r.setupSeq(s)
	r.stage = "prime"
	r.uplink(r.target, 1, true)

	hit := func(l string) { r.label(l); hits++ }
	prevReach, prevResolved := reachNone, true
	for i, p := range s.Up {
		target := s.target(p)
		r.stage = fmt.Sprintf("uplink[%d]", i)
		reach := r.uplink(target, p.Len, false)
		resolved := !(c.C.Proto == pDirect && p.Host == hDX)
		if i > 0 {
			t := transition(s.Up[i-1], p)
			if c.S.Proto != pDirect && min(prevReach, reach) >= reachSrvUnpacked {
				hit("up:" + t + "@srv-unpacker/" + ssName(c.S.Proto))
				// the relay's client packer saw both targets
				hit("up:" + t + "@cli-packer/" + ssName(c.C.Proto))
				if c.C.Proto == pDirect {
					switch {
					case !prevResolved && resolved:
						hit("direct-client:fail-then-resolve")
					case prevResolved && !resolved:
						hit("direct-client:resolve-then-fail")
					case !prevResolved && !resolved:
						hit("direct-client:fail-then-fail")
					}
				}
			}
			if c.C.Proto != pDirect && min(prevReach, reach) >= reachUpstream {
				hit("up:" + t + "@ups-unpacker/" + ssName(c.C.Proto))
			}
		}
		prevReach, prevResolved = reach, resolved
	}
	prevDown := 0
	restarts, afterSecond := 0, 0
	for i, p := range s.Down {
		r.stage = fmt.Sprintf("downlink[%d]", i)
		if p.Restart > 0 {
			time.Sleep([]time.Duration{0, 61 * time.Second, 5 * time.Minute}[p.Restart])
			r.upPacker = nil // real upstream: NewPacker = a new server session, packet ids from 0
			r.harnessSSID += 2
			r.harnessSPID = 0
			restarts++
			r.stage = fmt.Sprintf("downlink[%d] after upstream server-session change %d", i, restarts)
		}
		ok := r.downlink(s.target(p), p.Len)
		if restarts >= 1 && r.downReach >= 1 {
			hit(fmt.Sprintf("down:server-session-change-%d-survived", min(restarts, 3)))
			if restarts >= 2 {
				if afterSecond++; afterSecond >= 2 {
					hit("down:packets-after-second-server-session-change")
				}
			}
		}
		if i > 0 && prevDown >= 1 && r.downReach >= 1 {
			t := transition(s.Down[i-1], p)
			hit("down:" + t + "@cli-unpacker/" + ssName(c.C.Proto))
			if ok {
				hit("down:" + t + "@srv-packer/" + ssName(c.S.Proto))
			}
		}
		prevDown = r.downReach
	}
	return "", nil, hits
}

var seqRequired = func() []string {
	out := []string{"direct-client:fail-then-resolve", "direct-client:resolve-then-fail", "direct-client-resolve-failed",
		"down:server-session-change-1-survived", "down:server-session-change-2-survived", "down:server-session-change-3-survived", "down:packets-after-second-server-session-change"}
	domainTr := []string{"same-domain-diff-port", "same-domain-same-port", "diff-domain", "domain-to-ip", "ip-to-domain", "same-ip-diff-port", "diff-ip"}
	for _, t := range domainTr {
		out = append(out, "up:"+t+"@cli-packer/direct")
		for _, p := range []string{"none", "socks5", "ss2022"} {
			out = append(out, "up:"+t+"@srv-unpacker/"+p, "up:"+t+"@ups-unpacker/"+p, "up:"+t+"@cli-packer/"+p)
		}
	}
	for _, t := range []string{"same-ip-diff-port", "same-ip-same-port", "diff-ip"} {
		for _, p := range []string{"direct", "none", "socks5", "ss2022"} {
			out = append(out, "down:"+t+"@cli-unpacker/"+p, "down:"+t+"@srv-packer/"+p)
		}
	}
	return out
}()

var recSeq = ev.New("C05", "session-sequences",
	"rapid + synctest bubble + owned resolver: one relay session (pair/MTU/padding/address families drawn as in relay-roundtrip) carries 2-5 uplink and 2-5 "+
		"downlink packets through the same packer/unpacker instances; consecutive targets over a vocabulary of two domains, two IPs, two ports (and an "+
		"unresolvable name when the relay's client is direct) so that the transitions same-domain/other-port, same-domain/same-port, other domain, "+
		"domain<->IP, same-IP/other-port, other IP occur; a direct client resolves through net.DefaultResolver replaced by an in-memory DNS responder. "+
		"Per-packet oracle as relay-roundtrip (direct packer: destination = resolved IP with the packet's own port; error iff the name does not resolve or "+
		"the packet does not fit). Non-trivial: at least one transition in which both packets reached the stateful component; distinct key = pair + transition string").
	Require(seqRequired...)

func TestSessionSequences(t *testing.T) {
	installResolver()
	rapid.Check(t, func(rt *rapid.T) {
		s := drawSeqCase(rt)
		var v string
		var labels []string
		var hits int
		setNames(s.names)
		synctest.Test(t, func(t *testing.T) { v, labels, hits = runSeqCase(s) })
		if v != "" {
			rt.Fatalf("%s\ncase=%s", v, s)
		}
		recordSeq(s, labels, hits)
	})
}

func (s *seqCase) String() string {
	return fmt.Sprintf(`{"pair":"%s>%s","base":%s,"hosts":%q,"resolves_to":%q,"ports":%v,"up":%v,"down":%v}`,
		s.Base.S.name(), s.Base.C.name(), s.Base, s.Hosts, s.Res, s.Ports, s.Up, s.Down)
}

func recordSeq(s *seqCase, labels []string, hits int) {
	c := s.Base
	var tr []string
	for i := 1; i < len(s.Up); i++ {
		tr = append(tr, transition(s.Up[i-1], s.Up[i]))
	}
	tr = append(tr, "|")
	for i := 1; i < len(s.Down); i++ {
		tr = append(tr, transition(s.Down[i-1], s.Down[i]))
	}
	labels = append(labels, "pair/"+protoNames[c.S.Proto]+">"+protoNames[c.C.Proto])
	key := c.S.name() + ">" + c.C.name() + "|" + strings.Join(tr, ",")
	recSeq.Case(key, hits > 0, labels...)
	if hits > 0 {
		recSeq.Sample(map[string]any{"pair": c.S.name() + ">" + c.C.name(), "transitions": strings.Join(tr, ","), "hits": hits})
	}
}
