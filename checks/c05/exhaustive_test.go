package c05

import (
	"fmt"
	"os"
	"strconv"
	"testing"
	"testing/synctest"

	"verif/internal/ev"
)

var recExh = ev.New("C05", "relay-lengths",
	"bounded-exhaustive: every (server protocol x client protocol) pair (identity headers 0/1 on the server, 0/1/3 on the client, PadAll on both), "+
		"MTU 1280 and 1500 on every hop, v4 or v6 peers, target 192.0.2.1:53 / a 255-byte domain / an IPv6 address; payload lengths 0..8 and the last 100 before "+
		"the hop maximum (VERIF_C05_EXH=ends) or every length 0..MTU-28 (VERIF_C05_EXH=all), same length both directions; same oracle as relay-roundtrip. "+
		"Non-trivial: every case (the lengths sweep across each stage's fit limit); distinct = (pair, variant, length)")

// TestRelayExhaustiveLengths sweeps payload lengths for every protocol pair.
func TestRelayExhaustiveLengths(t *testing.T) {
	all := os.Getenv("VERIF_C05_EXH") == "all"
	shard, shards := 0, 1
	if v, err := strconv.Atoi(os.Getenv("VERIF_SHARD")); err == nil {
		shard = v
	}
	if v, err := strconv.Atoi(os.Getenv("VERIF_SHARDS")); err == nil && v > 0 {
		shards = v
	}
	var total int64
	idx := 0
	for sp := range nProtos {
		for cp := range nProtos {
			for variant := range 6 {
				idx++
				if idx%shards != shard {
					continue
				}
				mtu := []int{1280, 1500}[variant%2]
				fam := []int{fam4, fam6, fam4in6}[variant%3]
				c := caseCfg{
					S: sideCfg{Proto: sp}, C: sideCfg{Proto: cp},
					ServerMTU: mtu, ClientMTU: mtu, DownMTU: mtu, UpMTU: mtu,
					RelayFam: fam, UpFam: fam, ClientFam: fam, NatFam: fam,
					Target: addrSpec{Kind: 0, Port: 53, Seed: 1}, Source: addrSpec{Kind: variant % 2, Port: 53, Seed: 2},
					Seed: uint64(idx),
				}
				switch variant / 2 {
				case 1:
					c.Target = addrSpec{Kind: 1, Port: 443, Seed: 3}
				case 2:
					if cp != pDirect {
						c.Target = addrSpec{Kind: 3, DomLen: 255, Port: 53, Seed: 4}
					}
				}
				if c.S.isSS() {
					c.S.K, c.S.Pad = variant%2, padAll
				}
				if c.C.isSS() {
					c.C.K, c.C.Pad = []int{0, 1, 3}[variant%3], padAll
				}
				if sp == pDirect {
					c.SrcIsTun = c.Target.Kind != 3
					if c.SrcIsTun {
						c.Source = c.Target
					}
				}
				hardMax := mtu - 28
				for l := 0; l <= hardMax; l++ {
					if !all && l > 8 && l < hardMax-100 {
						continue
					}
					cc := c
					cc.UpLen, cc.DownLen = l, l
					var v string
					var labels []string
					synctest.Test(t, func(t *testing.T) { v, labels = runCase(&cc) })
					if v != "" {
						t.Fatalf("%s\ncase=%s", v, &cc)
					}
					total++
					recExh.Case(fmt.Sprintf("%d|%d|%d|%d", sp, cp, variant, l), true, append(labels, "pair/"+protoNames[sp]+">"+protoNames[cp])...)
				}
			}
		}
	}
	recExh.Exhaustive(true)
	recExh.Extra("cases", total)
	recExh.Extra("mode", map[bool]string{true: "all lengths", false: "both ends"}[all])
}
