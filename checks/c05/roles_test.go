package c05

import (
	"context"
	"fmt"
	"net/netip"

	"github.com/database64128/shadowsocks-go/conn"
	"github.com/database64128/shadowsocks-go/direct"
	"github.com/database64128/shadowsocks-go/ss2022"
	"github.com/database64128/shadowsocks-go/zerocopy"

	"verif/internal/ssudp"
)

// UDP protocols of the statement.
const (
	pDirect = iota
	pNone
	pSocks5
	pSS128
	pSS256
	nProtos
)

var protoNames = [...]string{"direct", "none", "socks5", "ss128", "ss256"}

// padding policies (ss2022 packers only)
const (
	padNone = iota
	padDNS
	padAll
)

var padNames = [...]string{"NoPadding", "PadPlainDNS", "PadAll"}

func padPolicy(p int) ss2022.PaddingPolicy {
	switch p {
	case padNone:
		return ss2022.NoPadding
	case padAll:
		return ss2022.PadAll
	default:
		return ss2022.PadPlainDNS
	}
}

// policySaysPad restates the documented policies: NoPadding never, PadAll always, PadPlainDNS
// for port 53 (the target port for client messages, the source port for server messages).
func policySaysPad(p int, port uint16) bool {
	return p == padAll || (p == padDNS && port == 53)
}

// sideCfg describes one protocol endpoint: protocol, number of identity PSKs (ss2022 only; a
// server consumes at most one), padding policy of its packer.
type sideCfg struct {
	Proto int `json:"proto"`
	K     int `json:"k"`
	Pad   int `json:"pad"`
}

func (s sideCfg) isSS() bool { return s.Proto == pSS128 || s.Proto == pSS256 }

func (s sideCfg) name() string {
	if s.isSS() {
		return fmt.Sprintf("%s+%deih", protoNames[s.Proto], s.K)
	}
	return protoNames[s.Proto]
}

func (s sideCfg) keyLen() int {
	if s.Proto == pSS256 {
		return 32
	}
	return 16
}

func makeKeys(s sideCfg, seed uint64) ssudp.Keys {
	var k ssudp.Keys
	if !s.isSS() {
		return k
	}
	k.PSK = make([]byte, s.keyLen())
	ssudp.Fill(k.PSK, seed^0x9e3779b97f4a7c15)
	for i := range s.K {
		ipsk := make([]byte, s.keyLen())
		ssudp.Fill(ipsk, seed^uint64(i+1)*0xc2b2ae3d27d4eb4f)
		k.IPSKs = append(k.IPSKs, ipsk)
	}
	return k
}

// ---- independent size formulas (RFC 791/8200/768 header sizes, SIP022 / RFC 1928 layouts) ----

// mtuBudget is the largest UDP payload that fits one IP packet of the given MTU towards addr:
// 20-byte IPv4 or 40-byte IPv6 header plus the 8-byte UDP header (MTU <= 65535 here, so the
// IPv6 jumbo option never applies).
func mtuBudget(mtu int, addr netip.Addr) int {
	if addr.Unmap().Is4() {
		return mtu - 20 - 8
	}
	return mtu - 40 - 8
}

// clientOverhead is the size of the minimal (unpadded) client->server encapsulation around a payload.
func clientOverhead(s sideCfg, target ssudp.Addr) int {
	switch s.Proto {
	case pDirect:
		return 0
	case pNone:
		return target.WireLen()
	case pSocks5:
		return 3 + target.WireLen()
	default:
		return 16 + 16*s.K + 1 + 8 + 2 + target.WireLen() + 16
	}
}

// clientFront is the part of clientOverhead that precedes the payload.
func clientFront(s sideCfg, target ssudp.Addr) int {
	if s.isSS() {
		return clientOverhead(s, target) - 16
	}
	return clientOverhead(s, target)
}

// serverOverhead is the size of the minimal server->client encapsulation around a payload.
func serverOverhead(s sideCfg, source ssudp.Addr) int {
	switch s.Proto {
	case pDirect:
		return 0
	case pNone:
		return source.WireLen()
	case pSocks5:
		return 3 + source.WireLen()
	default:
		return 16 + 1 + 8 + 8 + 2 + source.WireLen() + 16
	}
}

func serverFront(s sideCfg, source ssudp.Addr) int {
	if s.isSS() {
		return serverOverhead(s, source) - 16
	}
	return serverOverhead(s, source)
}

// ---- address conversions ----

func toConnAddr(a ssudp.Addr) conn.Addr {
	if a.IsIP() {
		return conn.AddrFromIPAndPort(a.IP, a.Port)
	}
	return conn.MustAddrFromDomainPort(a.Domain, a.Port)
}

func fromConnAddr(a conn.Addr) ssudp.Addr {
	if a.IsIP() {
		ap := a.IPPort()
		return ssudp.Addr{IP: ap.Addr(), Port: ap.Port()}
	}
	return ssudp.Addr{Domain: a.Domain(), Port: a.Port()}
}

func fromAddrPort(ap netip.AddrPort) ssudp.Addr { return ssudp.Addr{IP: ap.Addr(), Port: ap.Port()} }

func sameUnmapped(a, b ssudp.Addr) bool { return a.Unmapped() == b.Unmapped() }

// ---- client role: what a configured client of the service hands to the relay ----

type clientRole struct {
	cfg      sideCfg
	keys     ssudp.Keys
	server   netip.AddrPort    // the proxy server this client sends to (unused by direct)
	mtu      int               // the client's configured MTU
	headroom zerocopy.Headroom // UDPClient.Info().PackerHeadroom, what service.go feeds into maxClientPackerHeadroom
	sess     zerocopy.UDPClientSession
}

// newClientRole builds the client exactly as service/client.go UDPClient() does for the protocol
// (SOCKS5: the UDP part of Socks5UDPClient.newSession, without the TCP association).
func newClientRole(cfg sideCfg, keys ssudp.Keys, server netip.AddrPort, mtu int) (*clientRole, error) {
	r := &clientRole{cfg: cfg, keys: keys, server: server, mtu: mtu}
	lc := conn.DefaultUDPClientListenConfig
	var cl zerocopy.UDPClient
	switch cfg.Proto {
	case pDirect:
		cl = direct.NewDirectUDPClient("c", "ip", mtu, lc)
	case pNone:
		cl = direct.NewShadowsocksNoneUDPClient("c", "ip", conn.AddrFromIPPort(server), mtu, lc)
	case pSocks5:
		s5 := direct.Socks5UDPClientConfig{Name: "c", NetworkIP: "ip", MTU: mtu, ListenConfig: lc}
		r.headroom = s5.NewClient().Info().PackerHeadroom
		maxPacketSize := zerocopy.MaxPacketSizeForAddr(mtu, server.Addr())
		r.sess = zerocopy.UDPClientSession{
			MaxPacketSize: maxPacketSize,
			Packer:        direct.NewSocks5PacketClientPacker(server, maxPacketSize),
			Unpacker:      direct.NewSocks5PacketClientUnpacker(server),
			Close:         zerocopy.NoopClose,
		}
		return r, nil
	default:
		ccc, err := ss2022.NewClientCipherConfig(keys.PSK, keys.IPSKs, true)
		if err != nil {
			return nil, err
		}
		cl = ss2022.NewUDPClient("c", "ip", conn.AddrFromIPPort(server), mtu, lc, 0, ccc, padPolicy(cfg.Pad))
	}
	r.headroom = cl.Info().PackerHeadroom
	_, sess, err := cl.NewSession(context.Background())
	if err != nil {
		return nil, err
	}
	r.sess = sess
	return r, nil
}

// packBudget is the MTU-derived limit of a packet this client sends for target (independent formula).
func (r *clientRole) packBudget(target ssudp.Addr) int {
	if r.cfg.Proto == pDirect {
		return mtuBudget(r.mtu, target.IP)
	}
	return mtuBudget(r.mtu, r.server.Addr())
}

// recvSize is what the relay allocates for receiving from this client's socket
// (natConnRecvBufSize = clientSession.MaxPacketSize); independent restatement used by the generator.
func (r *clientRole) recvSizeModel() int {
	if r.cfg.Proto == pDirect {
		return r.mtu - 28
	}
	return mtuBudget(r.mtu, r.server.Addr())
}

// ---- server role: what a configured server of the service uses ----

type serverRole struct {
	cfg              sideCfg
	keys             ssudp.Keys
	unpackerHeadroom zerocopy.Headroom
	nat              zerocopy.UDPNATServer
	ss               *ss2022.UDPServer
	table            map[uint64]zerocopy.ServerUnpacker // ss2022: session table as in UDPSessionRelay
	natUnpacker      zerocopy.ServerUnpacker            // NAT servers: one unpacker per NAT entry
	last             zerocopy.ServerUnpacker
}

// newServerRole builds the server as service/server.go UDPRelay() does.
func newServerRole(cfg sideCfg, keys ssudp.Keys, tunnel ssudp.Addr, tunnelOnly bool) (*serverRole, error) {
	s := &serverRole{cfg: cfg, keys: keys}
	switch cfg.Proto {
	case pDirect:
		s.nat = direct.NewDirectUDPNATServer(toConnAddr(tunnel), tunnelOnly)
	case pNone:
		s.nat = direct.ShadowsocksNoneUDPNATServer{}
	case pSocks5:
		s.nat = direct.Socks5UDPNATServer{}
	default:
		if cfg.K > 0 {
			icc, err := ss2022.NewServerIdentityCipherConfig(keys.IPSKs[0], true)
			if err != nil {
				return nil, err
			}
			s.ss = ss2022.NewUDPServer(0, ss2022.UserCipherConfig{}, icc, padPolicy(cfg.Pad))
			succ, err := ss2022.NewServerUserCipherConfig("u", keys.PSK, true)
			if err != nil {
				return nil, err
			}
			s.ss.ReplaceUserLookupMap(ss2022.UserLookupMap{ss2022.PSKHash(keys.PSK): succ})
		} else {
			ucc, err := ss2022.NewUserCipherConfig(keys.PSK, true)
			if err != nil {
				return nil, err
			}
			s.ss = ss2022.NewUDPServer(0, ucc, ss2022.ServerIdentityCipherConfig{}, padPolicy(cfg.Pad))
		}
		s.unpackerHeadroom = s.ss.Info().UnpackerHeadroom
		s.table = map[uint64]zerocopy.ServerUnpacker{}
		return s, nil
	}
	s.unpackerHeadroom = s.nat.Info().UnpackerHeadroom
	return s, nil
}

// unpack mirrors the receive path of UDPNATRelay / UDPSessionRelay for one datagram that sits at
// buf[start:start+n].
func (s *serverRole) unpack(buf []byte, src netip.AddrPort, start, n int) (conn.Addr, int, int, error) {
	if s.ss == nil {
		if s.natUnpacker == nil {
			u, err := s.nat.NewUnpacker()
			if err != nil {
				return conn.Addr{}, 0, 0, err
			}
			s.natUnpacker = u
		}
		s.last = s.natUnpacker
		return s.natUnpacker.UnpackInPlace(buf, src, start, n)
	}
	packet := buf[start : start+n]
	csid, err := s.ss.SessionInfo(packet)
	if err != nil {
		return conn.Addr{}, 0, 0, err
	}
	u, known := s.table[csid]
	if !known {
		if u, _, err = s.ss.NewUnpacker(packet, csid); err != nil {
			return conn.Addr{}, 0, 0, err
		}
	}
	ta, ps, pl, err := u.UnpackInPlace(buf, src, start, n)
	if err != nil {
		return ta, ps, pl, err
	}
	if !known {
		s.table[csid] = u
	}
	s.last = u
	return ta, ps, pl, nil
}

// newPacker is the server packer of the session that unpacked last (NewPacker of its unpacker).
func (s *serverRole) newPacker() (zerocopy.ServerPacker, error) {
	if s.last == nil {
		return nil, fmt.Errorf("no session established")
	}
	return s.last.NewPacker()
}
