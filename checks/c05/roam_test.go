package c05

import (
	"bytes"
	"context"
	"encoding/binary"
	"encoding/json"
	"fmt"
	"net"
	"net/netip"
	"sync"
	"testing"
	"time"

	"github.com/database64128/shadowsocks-go/service"
	"go.uber.org/zap"

	"verif/internal/ev"
	"verif/internal/ssudp"
)

// ---------------------------------------------------------------------------------------------
// Service level, real time: "a packed packet never exceeds the size derived from the configured
// MTU and address family" must also hold when the address family of the client CHANGES during a
// session. A real ss2022 server (service.Config -> Manager -> Run) listens on a dual-stack [::]
// UDP socket; one client session (harness codec, one client session id, increasing packet ids)
// starts from 127.0.0.1, roams to ::1 and back (and the other way round); a harness-owned target
// answers each request with a reply of the requested size. On the dual-stack socket the IPv4
// client appears as ::ffff:127.0.0.1, so the relay must re-derive the limit from the *current*
// client address: MTU-28 for the IPv4(-mapped) client, MTU-48 for the IPv6 client.
// Oracle: no datagram larger than the limit of the socket it arrives on ever reaches a client
// socket; replies whose packed size is <= the limit are delivered (paced: 1 s wait, 4 tries).
// ---------------------------------------------------------------------------------------------

var recRoam = ev.New("C05", "roaming-dualstack",
	"real time, loopback: ss2022-128 server from service.Config on a dual-stack [::] UDP listener (batch modes no / sendmmsg, MTU 1500, NoPadding, default direct client); "+
		"one client session moves 127.0.0.1 -> ::1 -> 127.0.0.1 or ::1 -> 127.0.0.1 -> ::1; after every move replies are requested whose packed size is exactly the "+
		"current limit (must arrive), limit+1 (must not arrive) and, towards IPv6, the IPv4 limit (must not arrive); every datagram seen on a client socket is "+
		"size-checked against that socket's family and decoded with the independent codec. Non-trivial: every scenario; distinct = mode + direction").
	Require("mode-no", "mode-sendmmsg", "roam-v4-to-v6", "roam-v6-to-v4", "at-limit-delivered-v4", "at-limit-delivered-v6", "over-limit-refused-v4", "over-limit-refused-v6", "v4-limit-refused-on-v6")

const (
	roamMTU      = 1500
	roamOverhead = 16 + 1 + 8 + 8 + 2 + 7 + 16 // ss2022 server message around a payload from an IPv4 source, no padding
)

type roamTarget struct {
	c  *net.UDPConn
	wg sync.WaitGroup
}

// request payload: "RQ" | id u32 | reply size u16
func newRoamTarget() (*roamTarget, error) {
	c, err := net.ListenUDP("udp4", &net.UDPAddr{IP: net.IPv4(127, 0, 0, 1)})
	if err != nil {
		return nil, err
	}
	t := &roamTarget{c: c}
	t.wg.Go(func() {
		buf := make([]byte, 2048)
		for {
			n, from, err := c.ReadFromUDPAddrPort(buf)
			if err != nil {
				return
			}
			if n < 8 || buf[0] != 'R' || buf[1] != 'Q' {
				continue
			}
			size := int(binary.BigEndian.Uint16(buf[6:]))
			reply := make([]byte, size)
			ssudp.Fill(reply, uint64(binary.BigEndian.Uint32(buf[2:])))
			if size >= 4 {
				copy(reply, buf[2:6])
			}
			c.WriteToUDPAddrPort(reply, from)
		}
	})
	return t, nil
}

func (t *roamTarget) close() { t.c.Close(); t.wg.Wait() }

type roamDatagram struct {
	fam  int // fam4 / fam6: the socket it arrived on
	size int
	id   uint32
	err  string
}

type roamClient struct {
	keys   ssudp.Keys
	csid   uint64
	pid    uint64
	nextID uint32
	socks  [2]*net.UDPConn // fam4, fam6
	server [2]netip.AddrPort
	target ssudp.Addr
	mu     sync.Mutex
	got    []roamDatagram
	wg     sync.WaitGroup
}

func (c *roamClient) recvLoop(fam int) {
	buf := make([]byte, 4096)
	for {
		n, _, err := c.socks[fam].ReadFromUDPAddrPort(buf)
		if err != nil {
			return
		}
		d := roamDatagram{fam: fam, size: n}
		p, derr := c.keys.DecodeServer(buf[:n])
		switch {
		case derr != nil:
			d.err = derr.Error()
		case p.CSID != c.csid || p.Type != ssudp.TypeServer:
			d.err = fmt.Sprintf("csid %#x type %d", p.CSID, p.Type)
		case !bytes.Equal(p.Addr, c.target.Wire()):
			d.err = fmt.Sprintf("source address % x, want % x", p.Addr, c.target.Wire())
		case p.PadLen != 0:
			d.err = fmt.Sprintf("padding %d under NoPadding", p.PadLen)
		case len(p.Payload) >= 4:
			d.id = binary.BigEndian.Uint32(p.Payload)
			if n != len(p.Payload)+roamOverhead {
				d.err = fmt.Sprintf("datagram %d bytes for a %d-byte payload, want overhead %d", n, len(p.Payload), roamOverhead)
			}
		}
		c.mu.Lock()
		c.got = append(c.got, d)
		c.mu.Unlock()
	}
}

func (c *roamClient) request(fam, replySize int) (uint32, error) {
	c.nextID++
	id := c.nextID
	payload := []byte{'R', 'Q', 0, 0, 0, 0, 0, 0}
	binary.BigEndian.PutUint32(payload[2:], id)
	binary.BigEndian.PutUint16(payload[6:], uint16(replySize))
	w := c.keys.EncodeClient(ssudp.ClientPacket{SID: c.csid, PID: c.pid, Type: ssudp.TypeClient, TS: uint64(time.Now().Unix()),
		Addr: c.target.Wire(), Payload: payload}, nil)
	c.pid++
	_, err := c.socks[fam].WriteToUDPAddrPort(w, c.server[fam])
	return id, err
}

func (c *roamClient) seen(id uint32) (roamDatagram, bool) {
	c.mu.Lock()
	defer c.mu.Unlock()
	for _, d := range c.got {
		if d.id == id {
			return d, true
		}
	}
	return roamDatagram{}, false
}

// fetch requests a reply of the given size until it arrives (paced).
func (c *roamClient) fetch(fam, replySize, tries int, wait time.Duration) (roamDatagram, bool) {
	for range tries {
		id, err := c.request(fam, replySize)
		if err != nil {
			return roamDatagram{err: err.Error()}, false
		}
		deadline := time.Now().Add(wait)
		for time.Now().Before(deadline) {
			if d, ok := c.seen(id); ok {
				return d, true
			}
			time.Sleep(time.Millisecond)
		}
	}
	return roamDatagram{}, false
}

func famLimit(fam int) int {
	if fam == fam4 {
		return roamMTU - 20 - 8
	}
	return roamMTU - 40 - 8
}

func famName(fam int) string {
	if fam == fam4 {
		return "v4"
	}
	return "v6"
}

func TestRoamingClientDualStack(t *testing.T) {
	for _, mode := range []string{"no", "sendmmsg"} {
		for _, start := range []int{fam4, fam6} {
			labels, v := runRoamScenario(mode, start)
			if v != "" {
				t.Fatalf("%s\nscenario: batchMode=%s session starts on %s", v, mode, famName(start))
			}
			recRoam.Case(fmt.Sprintf("%s|%d", mode, start), true, labels...)
			recRoam.Sample(map[string]any{"batchMode": mode, "starts_on": famName(start), "labels": labels})
		}
	}
}

func runRoamScenario(mode string, start int) (labels []string, v string) {
	harness := func(format string, a ...any) ([]string, string) {
		return nil, "SIG=C05/harness roaming scenario: " + fmt.Sprintf(format, a...)
	}
	// dual-stack port by bind-and-close
	probe, err := net.ListenUDP("udp", &net.UDPAddr{IP: net.IPv6unspecified})
	if err != nil {
		return harness("no dual-stack socket: %v", err)
	}
	port := probe.LocalAddr().(*net.UDPAddr).AddrPort().Port()
	probe.Close()

	psk := make([]byte, 16)
	ssudp.Fill(psk, 0xC05)
	doc, _ := json.Marshal(map[string]any{"servers": []any{map[string]any{
		"name": "ss", "protocol": "2022-blake3-aes-128-gcm", "mtu": roamMTU, "psk": psk, "paddingPolicy": "NoPadding",
		"udpListeners": []any{map[string]any{"network": "udp", "address": fmt.Sprintf("[::]:%d", port), "batchMode": mode, "natTimeout": "60s"}},
	}}})
	var cfg service.Config
	dec := json.NewDecoder(bytes.NewReader(doc))
	dec.DisallowUnknownFields()
	if err := dec.Decode(&cfg); err != nil {
		return harness("config does not parse: %v\n%s", err, doc)
	}
	mgr, err := cfg.Manager(zap.NewNop())
	if err != nil {
		return harness("Manager: %v\n%s", err, doc)
	}
	ctx, cancel := context.WithCancel(context.Background())
	done := make(chan struct{})
	go func() { mgr.Run(ctx); mgr.Close(); close(done) }()
	defer func() {
		cancel()
		select {
		case <-done:
		case <-time.After(30 * time.Second):
			if v == "" {
				v = "SIG=C05/harness roaming scenario: Manager.Run did not return within 30 s of cancellation"
			}
		}
	}()

	target, err := newRoamTarget()
	if err != nil {
		return harness("target: %v", err)
	}
	defer target.close()
	tap := target.c.LocalAddr().(*net.UDPAddr).AddrPort()

	c := &roamClient{keys: ssudp.Keys{PSK: psk}, csid: 0xC05C05C05<<8 | uint64(start)<<4 | uint64(len(mode)),
		target: ssudp.Addr{IP: tap.Addr(), Port: tap.Port()}}
	c.server[fam4] = netip.AddrPortFrom(netip.MustParseAddr("127.0.0.1"), port)
	c.server[fam6] = netip.AddrPortFrom(netip.IPv6Loopback(), port)
	if c.socks[fam4], err = net.ListenUDP("udp4", &net.UDPAddr{IP: net.IPv4(127, 0, 0, 1)}); err != nil {
		return harness("v4 client socket: %v", err)
	}
	defer c.socks[fam4].Close()
	if c.socks[fam6], err = net.ListenUDP("udp6", &net.UDPAddr{IP: net.IPv6loopback}); err != nil {
		return harness("v6 client socket: %v", err)
	}
	defer c.socks[fam6].Close()
	for _, f := range []int{fam4, fam6} {
		c.wg.Go(func() { c.recvLoop(f) })
	}
	defer func() {
		c.socks[fam4].Close()
		c.socks[fam6].Close()
		c.wg.Wait()
	}()

	labels = append(labels, "mode-"+mode)
	// the first request also waits for the listener to come up
	if _, ok := c.fetch(start, 100, 60, 100*time.Millisecond); !ok {
		return harness("the service did not answer the first request within 6 s\n%s", doc)
	}
	other := fam4 + fam6 - start
	for leg, fam := range []int{start, other, start} {
		if leg > 0 {
			if fam == fam6 {
				labels = append(labels, "roam-v4-to-v6")
			} else {
				labels = append(labels, "roam-v6-to-v4")
			}
		}
		limit := famLimit(fam)
		where := fmt.Sprintf("leg %d (client on %s, limit %d)", leg, famName(fam), limit)
		// a small reply follows the client to its current address
		if d, ok := c.fetch(fam, 100, 4, time.Second); !ok || d.fam != fam {
			return labels, fmt.Sprintf("SIG=C05/roam-reply-lost %s: a 100-byte reply did not reach the client's current address (got=%v on %s)", where, ok, famName(d.fam))
		}
		// exactly at the limit: must be delivered
		if d, ok := c.fetch(fam, limit-roamOverhead, 4, time.Second); !ok {
			return labels, fmt.Sprintf("SIG=C05/roam-fitting-refused %s: a reply that packs to exactly %d bytes was not delivered in 4 paced tries", where, limit)
		} else if d.size != limit || d.fam != fam {
			return labels, fmt.Sprintf("SIG=C05/roam-size %s: at-limit reply arrived as %d bytes on %s", where, d.size, famName(d.fam))
		}
		labels = append(labels, "at-limit-delivered-"+famName(fam))
		// over the limit: must never arrive. The relay handles one session's replies in order, so once the
		// small reply that was requested afterwards is here, an over-limit one would have been seen already.
		over := []int{limit + 1}
		if fam == fam6 {
			over = append(over, famLimit(fam4)) // the limit of the address the session came from
		}
		for _, packed := range over {
			id, err := c.request(fam, packed-roamOverhead)
			if err != nil {
				return harness("send: %v", err)
			}
			if _, ok := c.fetch(fam, 64, 4, time.Second); !ok {
				return labels, fmt.Sprintf("SIG=C05/roam-reply-lost %s: no reply to the probe after an over-limit request", where)
			}
			if d, ok := c.seen(id); ok {
				return labels, fmt.Sprintf("SIG=C05/roam-over-mtu %s: a %d-byte datagram reached the client on %s although the limit for its address is %d (MTU %d)", where, d.size, famName(d.fam), limit, roamMTU)
			}
			if packed == limit+1 {
				labels = append(labels, "over-limit-refused-"+famName(fam))
			} else {
				labels = append(labels, "v4-limit-refused-on-v6")
			}
		}
	}
	// everything that ever arrived respects the limit of the socket it arrived on and decodes cleanly
	time.Sleep(50 * time.Millisecond)
	c.mu.Lock()
	defer c.mu.Unlock()
	for _, d := range c.got {
		if d.size > famLimit(d.fam) {
			return labels, fmt.Sprintf("SIG=C05/roam-over-mtu a %d-byte datagram arrived on the %s client socket, limit %d (MTU %d)", d.size, famName(d.fam), famLimit(d.fam), roamMTU)
		}
		if d.err != "" {
			return labels, fmt.Sprintf("SIG=C05/roam-undecodable datagram of %d bytes on %s: %s", d.size, famName(d.fam), d.err)
		}
	}
	return labels, ""
}
