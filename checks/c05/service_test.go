package c05

import (
	"encoding/json"
	"testing"

	"github.com/database64128/shadowsocks-go/service"
	"go.uber.org/zap"

	"verif/internal/ev"
)

var recService = ev.New("C05", "service-refusal",
	"plain regression: service.Config -> Manager() must refuse direct + domain tunnelRemoteAddress + tunnelUDPTargetOnly and accept the four neighbouring configurations").
	Require("domain+targetOnly-refused")

// TestServiceRefusesDirectDomainTargetOnly is the regression test of finding
// C05/direct-domain-tunnel-targetonly-panic (fix aac4f47). The relay check excludes the class
// "direct server + domain tunnelRemoteAddress + tunnelUDPTargetOnly" because the service refuses it
// at load; this test pins exactly that refusal (and that the neighbouring configurations are still
// accepted), so that reverting the fix makes C05 red instead of silently shrinking its domain.
func TestServiceRefusesDirectDomainTargetOnly(t *testing.T) {
	manager := func(tunnel string, targetOnly bool) error {
		doc := map[string]any{
			"servers": []any{map[string]any{
				"name": "tunnel", "protocol": "direct", "listen": "127.0.0.1:0", "enableUDP": true, "mtu": 1500,
				"tunnelRemoteAddress": tunnel, "tunnelUDPTargetOnly": targetOnly,
			}},
		}
		b, err := json.Marshal(doc)
		if err != nil {
			t.Fatal(err)
		}
		var sc service.Config
		if err := json.Unmarshal(b, &sc); err != nil {
			t.Fatalf("config does not parse: %v", err)
		}
		_, err = sc.Manager(zap.NewNop())
		return err
	}
	if err := manager("example.com:53", true); err == nil {
		t.Fatalf("SIG=C05/%s the service accepts a direct server with tunnelRemoteAddress=example.com:53 and tunnelUDPTargetOnly=true; "+
			"every reply then panics in direct.(*DirectPacketServerPackUnpacker).PackInPlace (IPPort() called on non-IP address)", sigDirectDomainTargetOnly)
	}
	for _, ok := range []struct {
		tunnel     string
		targetOnly bool
	}{{"192.0.2.1:53", true}, {"[2001:db8::1]:53", true}, {"example.com:53", false}, {"192.0.2.1:53", false}} {
		if err := manager(ok.tunnel, ok.targetOnly); err != nil {
			t.Fatalf("SIG=C05/harness neighbouring configuration tunnel=%s targetOnly=%v is refused: %v (the exclusion in the generator would be too wide)", ok.tunnel, ok.targetOnly, err)
		}
	}
	recService.Case("refusal", true, "domain+targetOnly-refused", "neighbours-accepted")
}
