package c05

import (
	"bytes"
	"context"
	"encoding/binary"
	"encoding/json"
	"fmt"
	"net"
	"net/netip"
	"os"
	"path/filepath"
	"strconv"
	"sync"
	"testing"
	"time"

	"github.com/database64128/shadowsocks-go/service"
	"go.uber.org/zap"

	"verif/internal/ev"
	"verif/internal/ssudp"
)

// ---------------------------------------------------------------------------------------------
// Service level, real time: the listener MTU and the outbound client MTU differ, and datagram sizes
// sit at the edges that follow from the two MTUs and the two protocols' overheads. A real relay
// (service.Config -> Manager -> Run; server protocol S, outbound client protocol C; for C != direct a
// second server of the same process, with a generous MTU, is the upstream proxy and goes out
// directly) is driven by a harness client speaking S on loopback; a harness target answers
// "RQ|id|size|filler" with a reply of the requested size.
//
// Independent arithmetic (IPv4 everywhere, 28 bytes of IP+UDP header; 7-byte SOCKS IPv4 address):
//
//	uplink   payload P fits  <=>  P + up(S) <= serverMTU-28  and  P + up(C) <= clientMTU-28
//	downlink payload R fits  <=>  R + down(C) <= clientMTU-28 and  R + down(S) <= serverMTU-28
//	up:   direct 0, none 7, socks5 10, ss2022 16+11+7+16 (+16 per identity header)
//	down: direct 0, none 7, socks5 10, ss2022 16+19+7+16
//
// Oracle: every payload that fits is delivered intact (paced: 1 s wait, 4 tries) in its direction,
// every size max-40..max; max+1 never arrives, neither whole nor truncated, and the session keeps
// working (the small probe sent right after it is answered).
// ---------------------------------------------------------------------------------------------

var recMTU = ev.New("C05", "mtu-matrix",
	"real time, loopback: real relay from service.Config for server protocol {direct(tunnel), none, socks5, ss2022} x outbound client {direct, none, ss2022, ss2022+identity header} "+
		"x (server mtu, client mtu) in {(1500,1500),(1400,1500),(1500,1400),(1280,1500),(1500,9000)} x batch mode {no, sendmmsg} (quick: 12 fixed representatives, thorough: all 160); "+
		"per configuration the largest payload that fits both sides is computed independently for each direction and payloads max-40,-35,-30,-25, every size max-20..max "+
		"(must arrive intact) and max+1 (must not arrive, session keeps working) are sent up and requested down. Non-trivial: every configuration; distinct = configuration").
	Require("mtu:client>server", "mtu:client<server", "mtu:equal", "size-within-16-of-server-max/ss2022-outbound", "reply-in-overhead-difference-band",
		"uplink-max-delivered", "downlink-max-delivered", "uplink-over-max-dropped", "downlink-over-max-dropped", "mode-no", "mode-sendmmsg",
		"server/direct", "server/none", "server/socks5", "server/ss2022", "client/direct", "client/none", "client/ss2022", "client/ss2022-eih")

type mtuCfg struct {
	S, C                 string // S: direct none socks5 ss2022; C: direct none ss2022 ss2022-eih
	ServerMTU, ClientMTU int
	Mode                 string
}

func (m mtuCfg) String() string {
	return fmt.Sprintf("%s>%s mtu(server=%d,client=%d) batchMode=%s", m.S, m.C, m.ServerMTU, m.ClientMTU, m.Mode)
}

const hopMTU = 9400 // the upstream proxy and its direct client never bind

var upOverhead = map[string]int{"direct": 0, "none": 7, "socks5": 10, "ss2022": 16 + 11 + 7 + 16, "ss2022-eih": 16 + 16 + 11 + 7 + 16}
var downOverhead = map[string]int{"direct": 0, "none": 7, "socks5": 10, "ss2022": 16 + 19 + 7 + 16, "ss2022-eih": 16 + 19 + 7 + 16}

func (m mtuCfg) maxUp() int {
	return min(m.ServerMTU-28-upOverhead[m.S], m.ClientMTU-28-upOverhead[m.C])
}

func (m mtuCfg) maxDown() int {
	return min(m.ClientMTU-28-downOverhead[m.C], m.ServerMTU-28-downOverhead[m.S])
}

var mtuPairs = [][2]int{{1500, 1500}, {1400, 1500}, {1500, 1400}, {1280, 1500}, {1500, 9000}}

// quickMTUConfigs is the fixed representative subset of the quick tier.
var quickMTUConfigs = []mtuCfg{
	{"socks5", "ss2022", 1400, 1500, "no"},
	{"none", "ss2022-eih", 1280, 1500, "sendmmsg"},
	{"ss2022", "ss2022", 1500, 1500, "no"},
	{"ss2022", "ss2022-eih", 1500, 1500, "sendmmsg"},
	{"direct", "ss2022", 1500, 9000, "no"},
	{"ss2022", "direct", 1500, 1400, "sendmmsg"},
	{"socks5", "none", 1500, 1400, "no"},
	{"none", "direct", 1400, 1500, "sendmmsg"},
	{"direct", "none", 1280, 1500, "no"},
	{"ss2022", "none", 1500, 9000, "sendmmsg"},
	{"socks5", "direct", 1500, 1500, "no"},
	{"none", "ss2022", 1500, 1400, "sendmmsg"},
}

func allMTUConfigs() []mtuCfg {
	var out []mtuCfg
	for _, s := range []string{"direct", "none", "socks5", "ss2022"} {
		for _, c := range []string{"direct", "none", "ss2022", "ss2022-eih"} {
			for _, p := range mtuPairs {
				for _, mode := range []string{"no", "sendmmsg"} {
					out = append(out, mtuCfg{s, c, p[0], p[1], mode})
				}
			}
		}
	}
	return out
}

func TestMTUMatrix(t *testing.T) {
	cfgs := quickMTUConfigs
	if os.Getenv("VERIF_C05_MTU") == "all" {
		cfgs = allMTUConfigs()
	}
	shard, shards := 0, 1
	if v, err := strconv.Atoi(os.Getenv("VERIF_SHARD")); err == nil {
		shard = v
	}
	if v, err := strconv.Atoi(os.Getenv("VERIF_SHARDS")); err == nil && v > 0 {
		shards = v
	}
	dir := t.TempDir()
	for i, m := range cfgs {
		if i%shards != shard {
			continue
		}
		labels, v := runMTUConfig(m, dir)
		if v != "" {
			t.Fatalf("%s\nconfiguration: %s (largest fitting payload: up %d, down %d)", v, m, m.maxUp(), m.maxDown())
		}
		recMTU.Case(m.String(), true, labels...)
		if i < 12 {
			recMTU.Sample(map[string]any{"config": m.String(), "max_up": m.maxUp(), "max_down": m.maxDown(), "labels": labels})
		}
	}
}

// ---- the rig ----

type runningService struct {
	cancel context.CancelFunc
	done   chan struct{}
}

func startService(doc []byte) (*runningService, error) {
	var cfg service.Config
	dec := json.NewDecoder(bytes.NewReader(doc))
	dec.DisallowUnknownFields()
	if err := dec.Decode(&cfg); err != nil {
		return nil, fmt.Errorf("config does not parse: %w\n%s", err, doc)
	}
	mgr, err := cfg.Manager(zap.NewNop())
	if err != nil {
		return nil, fmt.Errorf("Manager: %w\n%s", err, doc)
	}
	ctx, cancel := context.WithCancel(context.Background())
	rs := &runningService{cancel: cancel, done: make(chan struct{})}
	go func() { mgr.Run(ctx); mgr.Close(); close(rs.done) }()
	return rs, nil
}

func (rs *runningService) stop() bool {
	rs.cancel()
	select {
	case <-rs.done:
		return true
	case <-time.After(30 * time.Second):
		return false
	}
}

func freeUDPPort() (uint16, error) {
	c, err := net.ListenUDP("udp4", &net.UDPAddr{IP: net.IPv4(127, 0, 0, 1)})
	if err != nil {
		return 0, err
	}
	defer c.Close()
	return c.LocalAddr().(*net.UDPAddr).AddrPort().Port(), nil
}

// mtuTarget answers requests and records what reached it.
type mtuTarget struct {
	c    *net.UDPConn
	wg   sync.WaitGroup
	mu   sync.Mutex
	seen map[uint32]string // id -> "" (intact, full length) or a description of the damage
	size map[uint32]int
}

func requestPayload(id uint32, replySize, total int) []byte {
	b := make([]byte, max(total, 8))
	ssudp.Fill(b, uint64(id)*0x9e3779b1)
	b[0], b[1] = 'R', 'Q'
	binary.BigEndian.PutUint32(b[2:], id)
	binary.BigEndian.PutUint16(b[6:], uint16(replySize))
	return b
}

func replyPayload(id uint32, size int) []byte {
	b := make([]byte, size)
	ssudp.Fill(b, uint64(id)*0x85ebca6b+1)
	if size >= 4 {
		binary.BigEndian.PutUint32(b, id)
	}
	return b
}

func newMTUTarget() (*mtuTarget, error) {
	c, err := net.ListenUDP("udp4", &net.UDPAddr{IP: net.IPv4(127, 0, 0, 1)})
	if err != nil {
		return nil, err
	}
	t := &mtuTarget{c: c, seen: map[uint32]string{}, size: map[uint32]int{}}
	t.wg.Go(func() {
		buf := make([]byte, 32768)
		for {
			n, from, err := c.ReadFromUDPAddrPort(buf)
			if err != nil {
				return
			}
			if n < 8 || buf[0] != 'R' || buf[1] != 'Q' {
				t.mu.Lock()
				t.seen[0xFFFFFFFF] = fmt.Sprintf("a %d-byte datagram that is not a request reached the target", n)
				t.mu.Unlock()
				continue
			}
			id := binary.BigEndian.Uint32(buf[2:])
			rs := int(binary.BigEndian.Uint16(buf[6:]))
			damage := ""
			if !bytes.Equal(buf[:n], requestPayload(id, rs, n)) {
				damage = "content altered"
			}
			t.mu.Lock()
			t.seen[id], t.size[id] = damage, n
			t.mu.Unlock()
			c.WriteToUDPAddrPort(replyPayload(id, rs), from)
		}
	})
	return t, nil
}

func (t *mtuTarget) got(id uint32) (size int, damage string, ok bool) {
	t.mu.Lock()
	defer t.mu.Unlock()
	damage, ok = t.seen[id]
	return t.size[id], damage, ok
}

func (t *mtuTarget) close() { t.c.Close(); t.wg.Wait() }

// mtuClient is the downstream client speaking protocol S.
type mtuClient struct {
	proto  string
	keys   ssudp.Keys
	csid   uint64
	pid    uint64
	nextID uint32
	sock   *net.UDPConn
	server netip.AddrPort
	target ssudp.Addr
	mu     sync.Mutex
	got    map[uint32]string // reply id -> "" or damage
	glen   map[uint32]int
	stray  string
	wg     sync.WaitGroup
}

func (c *mtuClient) encode(payload []byte) []byte {
	switch c.proto {
	case "direct":
		return payload
	case "none":
		return append(c.target.Wire(), payload...)
	case "socks5":
		return append(append([]byte{0, 0, 0}, c.target.Wire()...), payload...)
	default:
		w := c.keys.EncodeClient(ssudp.ClientPacket{SID: c.csid, PID: c.pid, Type: ssudp.TypeClient, TS: uint64(time.Now().Unix()), Addr: c.target.Wire(), Payload: payload}, nil)
		c.pid++
		return w
	}
}

func (c *mtuClient) decode(w []byte) (payload []byte, err error) {
	var addr []byte
	switch c.proto {
	case "direct":
		return w, nil
	case "socks5":
		if len(w) < 3 || w[0] != 0 || w[1] != 0 || w[2] != 0 {
			return nil, fmt.Errorf("bad SOCKS5 UDP header")
		}
		w = w[3:]
		fallthrough
	case "none":
		n, err := ssudp.SocksAddrLen(w)
		if err != nil {
			return nil, err
		}
		addr, payload = w[:n], w[n:]
	default:
		p, err := c.keys.DecodeServer(w)
		if err != nil {
			return nil, err
		}
		if p.CSID != c.csid || p.Type != ssudp.TypeServer {
			return nil, fmt.Errorf("csid %#x type %d", p.CSID, p.Type)
		}
		addr, payload = p.Addr, p.Payload
	}
	if !bytes.Equal(addr, c.target.Wire()) {
		return nil, fmt.Errorf("source address % x, want % x", addr, c.target.Wire())
	}
	return payload, nil
}

func (c *mtuClient) recvLoop() {
	buf := make([]byte, 32768)
	for {
		n, _, err := c.sock.ReadFromUDPAddrPort(buf)
		if err != nil {
			return
		}
		payload, derr := c.decode(buf[:n])
		c.mu.Lock()
		switch {
		case derr != nil:
			c.stray = fmt.Sprintf("undecodable %d-byte datagram on the client socket: %v", n, derr)
		case len(payload) < 4:
			c.stray = fmt.Sprintf("reply with a %d-byte payload", len(payload))
		default:
			id := binary.BigEndian.Uint32(payload)
			c.glen[id] = len(payload)
			c.got[id] = ""
			if !bytes.Equal(payload, replyPayload(id, len(payload))) {
				c.got[id] = "content altered"
			}
		}
		c.mu.Unlock()
	}
}

func (c *mtuClient) send(upSize, replySize int) (uint32, error) {
	c.nextID++
	id := c.nextID
	_, err := c.sock.WriteToUDPAddrPort(c.encode(requestPayload(id, replySize, upSize)), c.server)
	return id, err
}

func (c *mtuClient) reply(id uint32) (size int, damage string, ok bool) {
	c.mu.Lock()
	defer c.mu.Unlock()
	damage, ok = c.got[id]
	return c.glen[id], damage, ok
}

// exchange sends a request of upSize bytes asking for replySize bytes until the reply arrives (paced).
func (c *mtuClient) exchange(upSize, replySize, tries int, wait time.Duration) (id uint32, ok bool) {
	for range tries {
		id, err := c.send(upSize, replySize)
		if err != nil {
			return id, false
		}
		deadline := time.Now().Add(wait)
		for time.Now().Before(deadline) {
			if _, _, ok := c.reply(id); ok {
				return id, true
			}
			time.Sleep(200 * time.Microsecond)
		}
	}
	return 0, false
}

func sweepSizes(maxFit int) []int {
	out := []int{maxFit - 40, maxFit - 35, maxFit - 30, maxFit - 25}
	for s := maxFit - 20; s <= maxFit; s++ {
		out = append(out, s)
	}
	return out
}

func mtuDoc(m mtuCfg, port, hopPort uint16, target netip.AddrPort, dir string) ([]byte, ssudp.Keys, error) {
	type jm = map[string]any
	var sKeys ssudp.Keys
	lis := func(p uint16) []any {
		return []any{jm{"network": "udp", "address": fmt.Sprintf("127.0.0.1:%d", p), "batchMode": m.Mode, "natTimeout": "60s"}}
	}
	protoName := func(p string) string {
		if p == "ss2022" || p == "ss2022-eih" {
			return "2022-blake3-aes-128-gcm"
		}
		return p
	}
	srv := jm{"name": "srv", "protocol": protoName(m.S), "udpListeners": lis(port), "mtu": m.ServerMTU}
	switch m.S {
	case "direct":
		srv["tunnelRemoteAddress"] = target.String()
	case "ss2022":
		sKeys.PSK = make([]byte, 16)
		ssudp.Fill(sKeys.PSK, 0x5e11)
		srv["psk"], srv["paddingPolicy"] = sKeys.PSK, "NoPadding"
	}
	servers := []any{srv}
	var clients []any
	doc := jm{}
	if m.C == "direct" {
		clients = append(clients, jm{"name": "out", "protocol": "direct", "enableUDP": true, "mtu": m.ClientMTU})
	} else {
		out := jm{"name": "out", "protocol": protoName(m.C), "endpoint": fmt.Sprintf("127.0.0.1:%d", hopPort), "enableUDP": true, "mtu": m.ClientMTU}
		hop := jm{"name": "hop", "protocol": protoName(m.C), "udpListeners": lis(hopPort), "mtu": hopMTU}
		if m.C != "none" {
			psk, upsk := make([]byte, 16), make([]byte, 16)
			ssudp.Fill(psk, 0xc11e)
			ssudp.Fill(upsk, 0xc11f)
			out["paddingPolicy"], hop["paddingPolicy"] = "NoPadding", "NoPadding"
			if m.C == "ss2022-eih" {
				store := filepath.Join(dir, fmt.Sprintf("hop-%d-upsks.json", hopPort))
				b, _ := json.Marshal(map[string][]byte{"user": upsk})
				if err := os.WriteFile(store, b, 0o600); err != nil {
					return nil, sKeys, err
				}
				hop["psk"], hop["uPSKStorePath"] = psk, store
				out["psk"], out["iPSKs"] = upsk, [][]byte{psk}
			} else {
				hop["psk"], out["psk"] = psk, psk
			}
		}
		servers = append(servers, hop)
		clients = append(clients, out, jm{"name": "direct", "protocol": "direct", "enableUDP": true, "mtu": hopMTU})
		doc["router"] = jm{"defaultUDPClientName": "out", "defaultTCPClientName": "reject",
			"routes": []any{jm{"name": "hop-out", "fromServers": []string{"hop"}, "network": "udp", "client": "direct"}}}
	}
	doc["servers"], doc["clients"] = servers, clients
	b, err := json.Marshal(doc)
	return b, sKeys, err
}

func runMTUConfig(m mtuCfg, dir string) (labels []string, v string) {
	harness := func(format string, a ...any) ([]string, string) {
		return nil, "SIG=C05/harness mtu matrix: " + fmt.Sprintf(format, a...)
	}
	target, err := newMTUTarget()
	if err != nil {
		return harness("target: %v", err)
	}
	defer target.close()
	tap := target.c.LocalAddr().(*net.UDPAddr).AddrPort()
	port, err := freeUDPPort()
	if err != nil {
		return harness("port: %v", err)
	}
	hopPort, err := freeUDPPort()
	if err != nil {
		return harness("port: %v", err)
	}
	doc, sKeys, err := mtuDoc(m, port, hopPort, tap, dir)
	if err != nil {
		return harness("config: %v", err)
	}
	svc, err := startService(doc)
	if err != nil {
		return harness("%v", err)
	}
	defer func() {
		if !svc.stop() && v == "" {
			v = "SIG=C05/harness mtu matrix: Manager.Run did not return within 30 s of cancellation"
		}
	}()

	c := &mtuClient{proto: m.S, keys: sKeys, csid: 0xC05<<40 | uint64(port)<<16 | uint64(hopPort), server: netip.AddrPortFrom(netip.MustParseAddr("127.0.0.1"), port),
		target: ssudp.Addr{IP: tap.Addr(), Port: tap.Port()}, got: map[uint32]string{}, glen: map[uint32]int{}}
	if c.sock, err = net.ListenUDP("udp4", &net.UDPAddr{IP: net.IPv4(127, 0, 0, 1)}); err != nil {
		return harness("client socket: %v", err)
	}
	c.sock.SetReadBuffer(1 << 20)
	c.wg.Go(c.recvLoop)
	defer func() { c.sock.Close(); c.wg.Wait() }()

	// the first exchange also waits for the listeners to come up
	if _, ok := c.exchange(16, 16, 300, 20*time.Millisecond); !ok {
		return harness("the relay did not answer the first request within 6 s\n%s", doc)
	}
	labels = append(labels, "mode-"+m.Mode, "server/"+m.S, "client/"+m.C)
	switch {
	case m.ClientMTU > m.ServerMTU:
		labels = append(labels, "mtu:client>server")
	case m.ClientMTU < m.ServerMTU:
		labels = append(labels, "mtu:client<server")
	default:
		labels = append(labels, "mtu:equal")
	}
	add := func(l string) {
		for _, x := range labels {
			if x == l {
				return
			}
		}
		labels = append(labels, l)
	}

	// uplink: requests of every size up to the largest that fits both sides must reach the target intact
	maxUp, serverMaxUp := m.maxUp(), m.ServerMTU-28-upOverhead[m.S]
	for _, p := range sweepSizes(maxUp) {
		id, ok := c.exchange(p, 16, 4, time.Second)
		if !ok {
			return labels, fmt.Sprintf("SIG=C05/mtu-fitting-uplink-lost a %d-byte uplink payload (largest that fits: %d; server-side limit %d, client-side limit %d) was not relayed in 4 paced tries",
				p, maxUp, serverMaxUp, m.ClientMTU-28-upOverhead[m.C])
		}
		if n, damage, _ := target.got(id); n != p || damage != "" {
			return labels, fmt.Sprintf("SIG=C05/mtu-uplink-garbled a %d-byte uplink payload reached the target as %d bytes (%s)", p, n, damage)
		}
		if p == maxUp {
			add("uplink-max-delivered")
		}
		if (m.C == "ss2022" || m.C == "ss2022-eih") && p > serverMaxUp-16 {
			add("size-within-16-of-server-max/ss2022-outbound")
		}
	}
	// one byte more must be dropped cleanly; the relay forwards one session's packets in order, so when the
	// probe that follows it has been answered the oversize request would have been seen already
	overID, err := c.send(maxUp+1, 16)
	if err != nil {
		return harness("send: %v", err)
	}
	if _, ok := c.exchange(16, 16, 4, time.Second); !ok {
		return labels, fmt.Sprintf("SIG=C05/mtu-session-broken after a %d-byte uplink payload (one more than fits) the session no longer relays", maxUp+1)
	}
	if n, damage, ok := target.got(overID); ok {
		return labels, fmt.Sprintf("SIG=C05/mtu-oversize-uplink-delivered a %d-byte uplink payload cannot fit (max %d) but %d bytes reached the target (%s)", maxUp+1, maxUp, n, damage)
	}
	add("uplink-over-max-dropped")

	// downlink: replies of every size up to the largest that fits both sides must reach the client intact
	maxDown := m.maxDown()
	for _, r := range sweepSizes(maxDown) {
		id, ok := c.exchange(8, r, 4, time.Second)
		if !ok {
			return labels, fmt.Sprintf("SIG=C05/mtu-fitting-reply-lost a %d-byte reply (largest that fits: %d; %d bytes on the outbound protocol's wire, client-side limit %d; %d on the server protocol's wire, server-side limit %d) was not relayed in 4 paced tries",
				r, maxDown, r+downOverhead[m.C], m.ClientMTU-28, r+downOverhead[m.S], m.ServerMTU-28)
		}
		if n, damage, _ := c.reply(id); n != r || damage != "" {
			return labels, fmt.Sprintf("SIG=C05/mtu-reply-garbled a %d-byte reply reached the client as %d bytes (%s)", r, n, damage)
		}
		if r == maxDown {
			add("downlink-max-delivered")
		}
		if r+downOverhead[m.C] > m.ServerMTU-28 {
			add("reply-in-overhead-difference-band") // larger on the outbound wire than anything the listener side may carry
		}
	}
	overID, err = c.send(8, maxDown+1)
	if err != nil {
		return harness("send: %v", err)
	}
	if _, ok := c.exchange(8, 16, 4, time.Second); !ok {
		return labels, fmt.Sprintf("SIG=C05/mtu-session-broken after a %d-byte reply (one more than fits) the session no longer relays", maxDown+1)
	}
	if n, damage, ok := c.reply(overID); ok {
		return labels, fmt.Sprintf("SIG=C05/mtu-oversize-reply-delivered a %d-byte reply cannot fit (max %d) but %d bytes reached the client (%s)", maxDown+1, maxDown, n, damage)
	}
	add("downlink-over-max-dropped")

	time.Sleep(20 * time.Millisecond)
	c.mu.Lock()
	stray := c.stray
	c.mu.Unlock()
	if stray != "" {
		return labels, "SIG=C05/mtu-stray-datagram " + stray
	}
	if _, damage, ok := target.got(0xFFFFFFFF); ok {
		return labels, "SIG=C05/mtu-stray-datagram " + damage
	}
	return labels, ""
}
