package c04

import (
	"encoding/json"
	"fmt"
	"net"
	"net/netip"
	"os"
	"sort"
	"strings"
	"testing"
	"time"

	"pgregory.net/rapid"

	"verif/internal/ev"
	"verif/internal/ssudp"
)

// ---------------------------------------------------------------------------------------------
// A real Shadowsocks 2022 UDP server with two or three udpListeners (different ports and/or
// addresses, batch mode drawn per listener) and harness-owned targets. The facts decided here
// belong to the caller that owns the unpackers (service.UDPSessionRelay):
//   - one session table and one replay filter per server, whatever listener a packet arrives on:
//     a packet delivered via listener A and replayed to listener B is not delivered again, a fresh
//     packet of that session sent to B is delivered;
//   - a packet that is refused (corrupted body below a genuine separate header, stale timestamp,
//     wrong type, unknown user, truncated, foreign key) leaves nothing behind, also when it is the
//     first packet the server ever sees for that client session id, after the server restarted and
//     after the session's table entry was removed: every genuine packet is delivered exactly once.
// ---------------------------------------------------------------------------------------------

var recSvcServer = ev.New("C04", "service-server",
	"rapid, real time, real service (generated JSON -> service.Config -> Manager -> Run) on loopback: ss2022 server (aes-128/256 x EIH x window {omitted,300,1000}; a fresh id is never more than ~120 behind the newest one, so the order in which the listeners process a segment does not matter) with 2-3 udpListeners "+
		"(different ports / different addresses / both; batchMode no|sendmmsg per listener; serverRecvBatchSize {omitted,2,4}), 1-3 client sessions written by the independent codec, "+
		"2-7 segments of 1-10 datagrams sent back to back (one sendmmsg call or a write loop; own socket per session or one shared socket; replays optionally from another address): "+
		"fresh (next id / skipping ahead / filling a gap), byte-identical replay (3 of 4 to another listener than the original), re-encrypted packet with a delivered id, invalid "+
		"(wrong-key body, bit flip, stale timestamp, wrong type, truncated, foreign key, unknown user), eviction (first valid packet routed to 'reject'), server restart between segments. "+
		"After every segment a fence (fresh packet per session x listener x target that saw a must-not-deliver datagram) orders the check. "+
		"Oracle: delivered multiset per target socket = the genuine valid datagrams, once each, exact bytes. "+
		"Non-trivial: a delivered packet was replayed to another listener AND some session's first packet was invalid and a later genuine packet of it was delivered; distinct = listener layout x batch modes x label set").
	Require("cross-listener-replay-no", "cross-listener-replay-sendmmsg", "fresh-via-other-listener", "first-packet-invalid", "genuine-after-invalid-first-delivered",
		"first-packet-invalid-after-restart", "first-packet-invalid-after-eviction", "first-invalid-bad-body", "first-invalid-stale-ts", "first-invalid-wrong-type",
		"first-invalid-bit-flip", "recvmmsg-batch-shared", "listeners-different-ports", "listeners-different-addrs", "three-listeners", "restart", "evicted-session")

const (
	skFresh = iota
	skReplay
	skReID
	skInvalid
	skEvict
)

const (
	ibBadBody = iota
	ibBitFlip
	ibStale
	ibWrongType
	ibTruncated
	ibForeignKey
	ibUnknownUser
	ibKinds
)

var ibNames = [...]string{"bad-body", "bit-flip", "stale-ts", "wrong-type", "truncated", "foreign-key", "unknown-user"}

type ssLis struct {
	IP    int    `json:"ip"`
	Port  int    `json:"port"`
	Batch string `json:"batch"`
}

type ssSend struct {
	Kind int    `json:"k"`
	Sess int    `json:"s"`
	Lis  int    `json:"l"`
	Tgt  int    `json:"t,omitempty"`
	IDk  int    `json:"idk,omitempty"`
	Bad  int    `json:"bad,omitempty"`
	PLen int    `json:"plen,omitempty"`
	Pick uint64 `json:"pick,omitempty"`
	Atk  bool   `json:"atk,omitempty"`
}

type ssSeg struct {
	Restart bool     `json:"restart,omitempty"`
	Mmsg    bool     `json:"mmsg,omitempty"`
	Sends   []ssSend `json:"sends"`
}

type ssPlan struct {
	Cfg       pcfg     `json:"cfg"`
	Layout    string   `json:"layout"`
	Lis       []ssLis  `json:"lis"`
	RecvBatch int      `json:"recv_batch,omitempty"`
	OneSock   bool     `json:"one_sock,omitempty"`
	SIDs      []uint64 `json:"sids"`
	Bases     []uint64 `json:"bases"`
	Segs      []ssSeg  `json:"segs"`
}

func (p ssPlan) String() string { b, _ := json.Marshal(p); return string(b) }

func drawSSPlan(rt *rapid.T) ssPlan {
	p := ssPlan{
		Cfg: pcfg{
			KeyLen: rapid.SampledFrom([]int{16, 32}).Draw(rt, "keylen"),
			EIH:    rapid.Bool().Draw(rt, "eih"),
			Size:   rapid.SampledFrom([]uint64{0, 300, 1000}).Draw(rt, "window"), // a fresh id is never more than ~120 behind the newest one sent: the order in which the listeners process a segment is irrelevant
			Seed:   rapid.Uint64().Draw(rt, "seed"),
		}.norm(),
		Layout:    rapid.SampledFrom([]string{"ports", "addrs", "mixed"}).Draw(rt, "layout"),
		RecvBatch: rapid.SampledFrom([]int{0, 0, 2, 4}).Draw(rt, "recv-batch"),
		OneSock:   rapid.Bool().Draw(rt, "one-sock"),
	}
	nl := rapid.SampledFrom([]int{2, 2, 3}).Draw(rt, "listeners")
	for i := range nl {
		l := ssLis{Batch: rapid.SampledFrom([]string{"no", "sendmmsg"}).Draw(rt, "batch")}
		switch p.Layout {
		case "ports":
			l.Port = i
		case "addrs":
			l.IP = i
		default:
			l.IP, l.Port = i, i
		}
		p.Lis = append(p.Lis, l)
	}
	ns := rapid.IntRange(1, 3).Draw(rt, "sessions")
	for i := range ns {
		p.SIDs = append(p.SIDs, rapid.Uint64().Draw(rt, "sid")<<2|uint64(i)) // distinct by construction
		p.Bases = append(p.Bases, rapid.SampledFrom([]uint64{0, 0, 1, 1000, 1 << 40}).Draw(rt, "base"))
	}
	// generator-side view of what the server has seen of each session (only used to bias the draw)
	const (
		unseen = iota
		onlyInvalid
		evicted
		established
	)
	state := make([]int, ns)
	nseg := rapid.IntRange(2, 7).Draw(rt, "segments")
	for si := range nseg {
		seg := ssSeg{Mmsg: rapid.IntRange(0, 3).Draw(rt, "mmsg") > 0}
		if si > 0 && rapid.IntRange(0, 5).Draw(rt, "restart") == 0 {
			seg.Restart = true
			clear(state)
		}
		for range rapid.IntRange(1, 10).Draw(rt, "sends") {
			s := ssSend{
				Sess: rapid.IntRange(0, ns-1).Draw(rt, "sess"),
				Lis:  rapid.IntRange(0, nl-1).Draw(rt, "lis"),
				Tgt:  rapid.IntRange(0, 1).Draw(rt, "tgt"),
				IDk:  rapid.SampledFrom([]int{0, 0, 0, 1, 2, 2}).Draw(rt, "idk"),
				Bad:  rapid.IntRange(0, ibKinds-1).Draw(rt, "bad"),
				PLen: rapid.SampledFrom([]int{8, 9, 16, 64, 300, 1200}).Draw(rt, "plen"),
				Pick: rapid.Uint64().Draw(rt, "pick"),
			}
			var kinds []int
			switch state[s.Sess] {
			case unseen:
				kinds = []int{skInvalid, skInvalid, skInvalid, skFresh, skFresh, skEvict}
			case onlyInvalid:
				kinds = []int{skFresh, skFresh, skFresh, skInvalid}
			case evicted:
				kinds = []int{skInvalid, skInvalid, skFresh}
			default:
				kinds = []int{skFresh, skFresh, skFresh, skFresh, skReplay, skReplay, skReplay, skReID, skInvalid, skInvalid}
			}
			s.Kind = rapid.SampledFrom(kinds).Draw(rt, "kind")
			switch s.Kind {
			case skFresh:
				state[s.Sess] = established
			case skInvalid:
				if state[s.Sess] != established {
					state[s.Sess] = onlyInvalid
				}
			case skEvict:
				state[s.Sess] = evicted
			case skReplay:
				s.Atk = rapid.IntRange(0, 3).Draw(rt, "atk") == 0
			}
			seg.Sends = append(seg.Sends, s)
		}
		p.Segs = append(p.Segs, seg)
	}
	return p
}

// ---- executor ----

type ssPkt struct {
	wire   []byte
	key    string // payload bytes as delivered to the target
	sess   int
	pid    uint64
	must   bool
	kind   string
	lis    int
	tgt    int // 0,1: targets; 2: the target behind the "reject" route
	sentAt time.Time
	done   bool // must packet whose delivery has been confirmed
	count  int  // deliveries seen
}

type ssSess struct {
	sid      uint64
	next     uint64
	gaps     []uint64
	pool     []*ssPkt // genuine valid packets sent to this server instance (replay candidates)
	sock     *net.UDPConn
	seen     bool // the server instance has been sent something of this session
	firstBad string
	firstLis int // listener of the first genuine packet (-1: none yet)
	evicted  bool
	after    string // "", "-after-restart", "-after-eviction": context of the first packet
}

type ssExec struct {
	plan    ssPlan
	keys    ssudp.Keys
	wrong   ssudp.Keys
	dir     string
	run     *svcRun
	lisAddr []netip.AddrPort
	sinks   []*sink // 0,1 targets; 2 reject
	sess    []*ssSess
	atk     *net.UDPConn
	exp     map[string]*ssPkt
	musts   []*ssPkt
	seenIdx []int
	labels  map[string]bool
	tagCtr  uint64
	harness string
	// relaySrc: source addresses from which genuine payloads arrived (the relay's NAT sockets)
	relaySrc map[netip.AddrPort]bool
}

type ssResult struct {
	v       *svcViolation
	harness string
	labels  []string
}

func runSSPlan(p ssPlan) (res ssResult) {
	x := &ssExec{plan: p, keys: makeKeys(p.Cfg, 0), wrong: makeKeys(p.Cfg, 0xdeadbeefcafef00d), exp: map[string]*ssPkt{}, labels: map[string]bool{}, relaySrc: map[netip.AddrPort]bool{}}
	defer x.cleanup()
	if err := x.setup(); err != nil {
		return ssResult{harness: err.Error()}
	}
	v := x.execute()
	if v == nil {
		v = x.finish()
	}
	res.v, res.harness = v, x.harness
	for l := range x.labels {
		res.labels = append(res.labels, l)
	}
	sort.Strings(res.labels)
	return res
}

func (x *ssExec) cleanup() {
	if x.run != nil {
		x.run.stop(30 * time.Second)
	}
	for _, s := range x.sinks {
		s.close()
	}
	seen := map[*net.UDPConn]bool{}
	for _, s := range x.sess {
		if s.sock != nil && !seen[s.sock] {
			seen[s.sock] = true
			s.sock.Close()
		}
	}
	if x.atk != nil {
		x.atk.Close()
	}
	if x.dir != "" {
		os.RemoveAll(x.dir)
	}
}

func listenLo() (*net.UDPConn, error) {
	return net.ListenUDP("udp4", net.UDPAddrFromAddrPort(netip.AddrPortFrom(lo[0], 0)))
}

func (x *ssExec) setup() error {
	var err error
	if x.dir, err = caseDir(); err != nil {
		return err
	}
	for range 3 {
		s, err := newSink(lo[0])
		if err != nil {
			return err
		}
		x.sinks = append(x.sinks, s)
	}
	x.seenIdx = make([]int, len(x.sinks))
	var shared *net.UDPConn
	for i, sid := range x.plan.SIDs {
		s := &ssSess{sid: sid, next: x.plan.Bases[i], firstLis: -1}
		if x.plan.OneSock && shared != nil {
			s.sock = shared
		} else {
			if s.sock, err = listenLo(); err != nil {
				return err
			}
			shared = s.sock
		}
		x.sess = append(x.sess, s)
	}
	if x.atk, err = listenLo(); err != nil {
		return err
	}
	return x.start(false)
}

// start brings up a server instance; with sameDoc the previous document (same ports) is tried first.
func (x *ssExec) start(sameDoc bool) error {
	var last error
	for attempt := range 4 {
		var doc []byte
		if sameDoc && attempt == 0 && x.run != nil {
			doc = x.run.doc
		} else {
			var err error
			if doc, err = x.buildDoc(); err != nil {
				last = err
				continue
			}
		}
		r, err := startSvc(doc, len(x.plan.Lis))
		if err == nil {
			x.run = r
			return nil
		}
		last = err
	}
	return fmt.Errorf("could not start the service: %w", last)
}

func (x *ssExec) buildDoc() ([]byte, error) {
	ports := map[int]uint16{}
	x.lisAddr = x.lisAddr[:0]
	var listeners []any
	for _, l := range x.plan.Lis {
		if _, ok := ports[l.Port]; !ok {
			p, err := freeUDPPort(lo[0])
			if err != nil {
				return nil, err
			}
			ports[l.Port] = p
		}
		ap := netip.AddrPortFrom(lo[l.IP], ports[l.Port])
		x.lisAddr = append(x.lisAddr, ap)
		lj := jmap{"network": "udp", "address": ap.String(), "batchMode": l.Batch}
		if x.plan.RecvBatch != 0 {
			lj["serverRecvBatchSize"] = x.plan.RecvBatch
		}
		listeners = append(listeners, lj)
	}
	srv, err := ss2022ServerJSON("srv", x.keys, x.plan.Cfg.sizeArg(), listeners, x.dir)
	if err != nil {
		return nil, err
	}
	doc := jmap{
		"servers": []any{srv},
		"clients": []any{jmap{"name": "out", "protocol": "direct", "enableUDP": true, "mtu": 1500}},
		"router": jmap{"routes": []any{jmap{"name": "rej", "network": "udp", "client": "reject", "toPorts": []uint16{x.sinks[2].addr.Port()}}}},
	}
	return json.MarshalIndent(doc, "", " ")
}

func (x *ssExec) newTag() uint64 {
	x.tagCtr++
	return x.plan.Cfg.Seed<<20 | x.tagCtr
}

// encode writes one client packet of session s with the independent codec.
func (x *ssExec) encode(k ssudp.Keys, bodyPSK []byte, s *ssSess, pid uint64, typ byte, ts uint64, tgt int, payload []byte, pad int) []byte {
	a := x.sinks[tgt].addr
	return k.EncodeClient(ssudp.ClientPacket{SID: s.sid, PID: pid, Type: typ, TS: ts, PadLen: pad,
		Addr: ssudp.Addr{IP: a.Addr(), Port: a.Port()}.Wire(), Payload: payload}, bodyPSK)
}

func (x *ssExec) register(p *ssPkt) *ssPkt {
	x.exp[p.key] = p
	if p.must {
		x.musts = append(x.musts, p)
	}
	return p
}

// freshID picks the id of the next genuine packet of s: the next one, one that skips 1-5 ids (leaving
// gaps) or one that fills the oldest gap (out of order, well within every window size used).
func (s *ssSess) freshID(idk int, pick uint64) uint64 {
	for len(s.gaps) > 0 && s.next-s.gaps[0] > 40 {
		s.gaps = s.gaps[1:]
	}
	switch {
	case idk == 2 && len(s.gaps) > 0:
		i := int(pick % uint64(len(s.gaps)))
		id := s.gaps[i]
		s.gaps = append(s.gaps[:i], s.gaps[i+1:]...)
		return id
	case idk == 1:
		for range 1 + pick%5 {
			s.gaps = append(s.gaps, s.next)
			s.next++
		}
	}
	id := s.next
	s.next++
	return id
}

type ssOut struct {
	sock *net.UDPConn
	msg  outMsg
}

type fenceKey struct{ sess, lis, tgt int }

func (x *ssExec) execute() *svcViolation {
	for si, seg := range x.plan.Segs {
		if seg.Restart && si > 0 {
			if v := x.restartServer(); v != nil {
				return v
			}
			if x.harness != "" {
				return nil
			}
		}
		var out []ssOut
		dirty := map[fenceKey]bool{}
		flush := func() {
			for i := 0; i < len(out); {
				j := i
				var msgs []outMsg
				for j < len(out) && out[j].sock == out[i].sock {
					msgs = append(msgs, out[j].msg)
					j++
				}
				if err := sendBurst(out[i].sock, msgs, seg.Mmsg); err != nil && x.harness == "" {
					x.harness = "send: " + err.Error()
				}
				i = j
			}
			out = out[:0]
		}
		for _, sd := range seg.Sends {
			sd.Pick = mix64(sd.Pick) // rapid favours small integers: spread the drawn value over all 64 bits
			s := x.sess[sd.Sess]
			lis := sd.Lis % len(x.lisAddr)
			sock := s.sock
			kind := sd.Kind
			now := time.Now()
			var replayOf *ssPkt
			if kind == skReplay || kind == skReID {
				var cands []*ssPkt
				for _, c := range s.pool {
					if now.Sub(c.sentAt) < 20*time.Second && (kind == skReplay || c.done) {
						cands = append(cands, c)
					}
				}
				if len(cands) == 0 {
					kind = skFresh
				} else {
					// prefer recent packets, sometimes any
					if sd.Pick>>8&3 != 0 && len(cands) > 4 {
						cands = cands[len(cands)-4:]
					}
					replayOf = cands[sd.Pick%uint64(len(cands))]
				}
			}
			if kind == skEvict && (s.firstLis >= 0 || s.evicted) {
				kind = skFresh
			}
			first := !s.seen
			s.seen = true
			switch kind {
			case skFresh:
				pid := s.freshID(sd.IDk, sd.Pick)
				tag := x.newTag()
				pl := tagPayload(tag, sd.PLen)
				pad := 0
				if sd.Pick>>20&3 == 0 {
					pad = int(sd.Pick >> 24 & 63)
				}
				p := x.register(&ssPkt{key: string(pl), sess: sd.Sess, pid: pid, must: true, kind: "fresh", lis: lis, tgt: sd.Tgt, sentAt: now})
				p.wire = x.encode(x.keys, nil, s, pid, ssudp.TypeClient, uint64(now.Unix()), sd.Tgt, pl, pad)
				s.pool = append(s.pool, p)
				if s.firstLis < 0 {
					s.firstLis = lis
				} else if lis != s.firstLis {
					x.labels["fresh-via-other-listener"] = true
				}
				out = append(out, ssOut{sock, outMsg{p.wire, x.lisAddr[lis]}})
			case skReplay:
				// byte-identical; 3 of 4 go to another listener than the original
				lis = replayOf.lis
				if sd.Pick>>60&3 != 0 {
					lis = (replayOf.lis + 1 + sd.Lis%(len(x.lisAddr)-1)) % len(x.lisAddr)
				}
				if sd.Atk {
					sock = x.atk
					x.labels["replay-from-other-address"] = true
				}
				if lis != replayOf.lis {
					x.labels["cross-listener-replay-"+x.plan.Lis[lis].Batch] = true
					if replayOf.done {
						x.labels["cross-listener-replay-of-confirmed-delivery"] = true
					}
				} else {
					x.labels["same-listener-replay"] = true
				}
				dirty[fenceKey{sd.Sess, lis, replayOf.tgt}] = true
				out = append(out, ssOut{sock, outMsg{replayOf.wire, x.lisAddr[lis]}})
			case skReID:
				// a packet that authenticates but carries an id that was already delivered
				tag := x.newTag()
				pl := tagPayload(tag, sd.PLen)
				p := x.register(&ssPkt{key: string(pl), sess: sd.Sess, pid: replayOf.pid, kind: "re-encrypted packet with an already delivered id", lis: lis, tgt: sd.Tgt, sentAt: now})
				p.wire = x.encode(x.keys, nil, s, replayOf.pid, ssudp.TypeClient, uint64(now.Unix()), sd.Tgt, pl, 0)
				if lis != replayOf.lis {
					x.labels["cross-listener-reused-id"] = true
				}
				x.labels["reused-id-new-body"] = true
				dirty[fenceKey{sd.Sess, lis, sd.Tgt}] = true
				out = append(out, ssOut{sock, outMsg{p.wire, x.lisAddr[lis]}})
			case skInvalid:
				bad := sd.Bad
				if bad == ibUnknownUser && !x.plan.Cfg.EIH {
					bad = ibBadBody
				}
				// the id a following genuine packet will use (or, one time in four, a gap / an old id)
				pid := s.next
				if sd.Pick>>30&3 == 0 && len(s.pool) > 0 {
					pid = s.pool[sd.Pick>>32%uint64(len(s.pool))].pid
				}
				tag := x.newTag()
				pl := tagPayload(tag, sd.PLen)
				p := x.register(&ssPkt{key: string(pl), sess: sd.Sess, pid: pid, kind: ibNames[bad], lis: lis, tgt: sd.Tgt, sentAt: now})
				ts := uint64(now.Unix())
				switch bad {
				case ibBadBody:
					p.wire = x.encode(x.keys, x.wrong.PSK, s, pid, ssudp.TypeClient, ts, sd.Tgt, pl, 0)
				case ibBitFlip:
					w := x.encode(x.keys, nil, s, pid, ssudp.TypeClient, ts, sd.Tgt, pl, 0)
					hl := x.keys.ClientHeaderLen()
					bits := uint64(ssudp.SepLen+len(w)-hl) * 8
					pos := sd.Pick >> 3 % bits
					if pos >= ssudp.SepLen*8 {
						pos += uint64(hl-ssudp.SepLen) * 8 // never in the identity header (not re-checked for a known session)
					}
					p.wire = flipBit(w, pos)
				case ibStale:
					offs := []int64{-40, 40, -120, 3600, -86400, 1 << 40, -(1 << 40)}
					ts = uint64(int64(ts) + offs[sd.Pick>>3%uint64(len(offs))])
					p.wire = x.encode(x.keys, nil, s, pid, ssudp.TypeClient, ts, sd.Tgt, pl, 0)
				case ibWrongType:
					typ := byte(ssudp.TypeServer)
					if sd.Pick>>3&3 == 0 {
						typ = byte(2 + sd.Pick>>5%254)
					}
					p.wire = x.encode(x.keys, nil, s, pid, typ, ts, sd.Tgt, pl, 0)
				case ibTruncated:
					w := x.encode(x.keys, nil, s, pid, ssudp.TypeClient, ts, sd.Tgt, pl, 0)
					p.wire = w[:sd.Pick>>3%uint64(len(w))]
				case ibForeignKey:
					p.wire = x.encode(x.wrong, nil, s, pid, ssudp.TypeClient, ts, sd.Tgt, pl, 0)
				case ibUnknownUser:
					p.wire = x.encode(ssudp.Keys{PSK: x.wrong.PSK, IPSKs: x.keys.IPSKs}, nil, s, pid, ssudp.TypeClient, ts, sd.Tgt, pl, 0)
				}
				x.labels["invalid-"+ibNames[bad]] = true
				// does the server see this session id in the packet? (not below a foreign key, not when the
				// separate header was cut or altered)
				names := bad != ibForeignKey && bad != ibTruncated && (bad != ibBitFlip || sd.Pick>>3%(uint64(ssudp.SepLen+len(p.wire)-x.keys.ClientHeaderLen())*8) >= ssudp.SepLen*8)
				if !names {
					s.seen = !first
				}
				if first || (s.evicted && s.firstLis < 0 && s.firstBad == "") {
					// the first packet this server instance sees for the session id
					if names {
						s.firstBad = ibNames[bad]
						x.labels["first-packet-invalid"] = true
						x.labels["first-packet-invalid"+s.after] = true
						x.labels["first-invalid-"+ibNames[bad]] = true
					}
				}
				dirty[fenceKey{sd.Sess, lis, sd.Tgt}] = true
				out = append(out, ssOut{sock, outMsg{p.wire, x.lisAddr[lis]}})
			case skEvict:
				// a genuine first packet whose target is routed to "reject": the relay accepts it, stores the
				// table entry, fails to get a client and removes the entry again
				flush()
				pid := s.freshID(0, 0)
				tag := x.newTag()
				pl := tagPayload(tag, sd.PLen)
				p := x.register(&ssPkt{key: string(pl), sess: sd.Sess, pid: pid, kind: "packet for a rejected target", lis: lis, tgt: 2, sentAt: now})
				p.wire = x.encode(x.keys, nil, s, pid, ssudp.TypeClient, uint64(now.Unix()), 2, pl, 0)
				const msg = "Failed to get UDP client for new NAT session"
				before := x.run.logs.FilterMessage(msg).Len()
				out = append(out, ssOut{sock, outMsg{p.wire, x.lisAddr[lis]}})
				flush()
				dl := time.Now().Add(time.Second)
				for x.run.logs.FilterMessage(msg).Len() == before && time.Now().Before(dl) {
					time.Sleep(200 * time.Microsecond)
				}
				if x.run.logs.FilterMessage(msg).Len() > before {
					time.Sleep(10 * time.Millisecond) // the entry is removed right after the log line
					s.evicted = true
					s.firstBad = ""
					s.after = "-after-eviction"
					x.labels["evicted-session"] = true
				} else {
					x.labels["evict-unconfirmed"] = true
				}
			}
		}
		flush()
		if x.harness != "" {
			return nil
		}
		if v := x.sync(dirty, seg.Mmsg); v != nil {
			return v
		}
	}
	return nil
}

// sync sends the fences, waits until every datagram that must be delivered has arrived and then
// judges everything the target sockets have received so far.
func (x *ssExec) sync(dirty map[fenceKey]bool, mmsg bool) *svcViolation {
	keys := make([]fenceKey, 0, len(dirty))
	for k := range dirty {
		keys = append(keys, k)
	}
	sort.Slice(keys, func(a, b int) bool {
		if keys[a].sess != keys[b].sess {
			return keys[a].sess < keys[b].sess
		}
		if keys[a].lis != keys[b].lis {
			return keys[a].lis < keys[b].lis
		}
		return keys[a].tgt < keys[b].tgt
	})
	now := time.Now()
	for _, k := range keys {
		s := x.sess[k.sess]
		pid := s.freshID(0, 0)
		pl := tagPayload(x.newTag(), 12)
		p := x.register(&ssPkt{key: string(pl), sess: k.sess, pid: pid, must: true, kind: "fence", lis: k.lis, tgt: k.tgt, sentAt: now})
		p.wire = x.encode(x.keys, nil, s, pid, ssudp.TypeClient, uint64(now.Unix()), k.tgt, pl, 0)
		s.pool = append(s.pool, p)
		s.seen = true
		if s.firstLis < 0 {
			s.firstLis = k.lis
		}
		if _, err := s.sock.WriteToUDPAddrPort(p.wire, x.lisAddr[k.lis]); err != nil {
			x.harness = "send: " + err.Error()
			return nil
		}
	}
	deadline := time.Now().Add(liveWait())
	for t := 0; t < 2; t++ {
		var want []string
		for _, p := range x.musts {
			if !p.done && p.tgt == t {
				want = append(want, p.key)
			}
		}
		x.sinks[t].waitKeys(time.Until(deadline), want)
	}
	if v := x.judge(); v != nil {
		return v
	}
	for _, p := range x.musts {
		if !p.done {
			s := x.sess[p.sess]
			return livenessf("SIG=C04/svc-fresh-not-delivered a genuine %s packet (session %#x id %d, sent to listener %d %s [%s], target %d) was not delivered within %s%s; "+
				"session context: first packet of the session on this server instance was %s",
				p.kind, s.sid, p.pid, p.lis, x.lisAddr[p.lis], x.plan.Lis[p.lis].Batch, p.tgt, liveWait(), x.explainSession(p), orStr(s.firstBad, "genuine")+s.after)
		}
	}
	return nil
}

func orStr(a, b string) string {
	if a == "" {
		return b
	}
	return a
}

func (x *ssExec) explainSession(p *ssPkt) string {
	s := x.sess[p.sess]
	if s.firstLis >= 0 && s.firstLis != p.lis {
		return fmt.Sprintf(" (the session was established via listener %d %s)", s.firstLis, x.lisAddr[s.firstLis])
	}
	return ""
}

// judge looks at everything the target sockets received since the last call.
func (x *ssExec) judge() *svcViolation {
	for t, sk := range x.sinks {
		news := sk.since(x.seenIdx[t])
		x.seenIdx[t] += len(news)
		for _, d := range news {
			p := x.exp[string(d.data)]
			switch {
			case p == nil:
				// the machine is shared: a datagram that another process sent to a port it used to own is not the
				// relay's doing. It counts when it comes from a socket that also delivered genuine payloads, or from
				// a socket of this process (the relay runs in the test binary).
				if !x.relaySrc[d.from] {
					if own, known := udpPortOwner(d.from.Port()); !own {
						if known {
							x.labels["stray-datagram-of-another-process-ignored"] = true
						} else {
							x.labels["unattributable-datagram-ignored"] = true
						}
						continue
					}
				}
				return safetyf("SIG=C04/svc-unknown-datagram target %d received %d bytes from the relay (%s) that no genuine packet carried: % x", t, len(d.data), d.from, d.data[:min(len(d.data), 24)])
			case !p.must:
				s := x.sess[p.sess]
				return safetyf("SIG=C04/svc-rejected-delivered target %d received the payload of a packet that must be dropped: %s (session %#x id %d, sent to listener %d %s [%s])%s",
					t, p.kind, s.sid, p.pid, p.lis, x.lisAddr[p.lis], x.plan.Lis[p.lis].Batch, x.explainSession(p))
			case p.tgt != t:
				return safetyf("SIG=C04/svc-wrong-target the payload of session %#x id %d addressed to target %d arrived at target %d", x.sess[p.sess].sid, p.pid, p.tgt, t)
			}
			p.count++
			p.done = true
			x.relaySrc[d.from] = true
			if p.count > 1 {
				s := x.sess[p.sess]
				return safetyf("SIG=C04/svc-delivered-twice the payload of session %#x id %d (%s, first sent to listener %d %s [%s]) was delivered %d times to target %d; listeners: %s",
					s.sid, p.pid, p.kind, p.lis, x.lisAddr[p.lis], x.plan.Lis[p.lis].Batch, p.count, t, x.listenerString())
			}
			s := x.sess[p.sess]
			if s.firstBad != "" {
				x.labels["genuine-after-invalid-first-delivered"] = true
				x.labels["genuine-after-invalid-first-delivered"+s.after] = true
			}
		}
	}
	return nil
}

func (x *ssExec) listenerString() string {
	var sb strings.Builder
	for i, a := range x.lisAddr {
		fmt.Fprintf(&sb, "%d=%s[%s] ", i, a, x.plan.Lis[i].Batch)
	}
	return sb.String()
}

// harvestLogs derives labels from what the stopped instance logged.
func (x *ssExec) harvestLogs() {
	for _, n := range x.run.logInts("Finished receiving from serverConn", "burstBatchSize") {
		if n >= 2 {
			x.labels["recvmmsg-batch-shared"] = true
		}
	}
}

func (x *ssExec) stopServer() *svcViolation {
	if !x.run.stop(30 * time.Second) {
		x.harness = "the service did not stop within 30 s"
		x.run = nil
		return nil
	}
	x.harvestLogs()
	// stopping flushes what was in flight
	time.Sleep(2 * time.Millisecond)
	return x.judge()
}

func (x *ssExec) restartServer() *svcViolation {
	if v := x.stopServer(); v != nil || x.harness != "" {
		return v
	}
	if err := x.start(true); err != nil {
		x.harness = err.Error()
		x.run = nil
		return nil
	}
	x.labels["restart"] = true
	// the new instance knows nothing: packets sent to the previous one are not replayed to it
	for _, s := range x.sess {
		s.pool, s.seen, s.firstBad, s.firstLis, s.evicted, s.after = nil, false, "", -1, false, "-after-restart"
	}
	return nil
}

func (x *ssExec) finish() *svcViolation {
	if x.harness != "" || x.run == nil {
		return nil
	}
	time.Sleep(5 * time.Millisecond)
	if v := x.judge(); v != nil {
		return v
	}
	v := x.stopServer()
	x.run = nil
	return v
}

func ssCaseLabels(p ssPlan, got []string) (labels []string, key string, nontrivial bool) {
	labels = append(labels, got...)
	has := map[string]bool{}
	for _, l := range got {
		has[l] = true
	}
	if len(p.Lis) == 3 {
		labels = append(labels, "three-listeners")
	} else {
		labels = append(labels, "two-listeners")
	}
	switch p.Layout {
	case "ports":
		labels = append(labels, "listeners-different-ports")
	case "addrs":
		labels = append(labels, "listeners-different-addrs")
	default:
		labels = append(labels, "listeners-different-ports", "listeners-different-addrs")
	}
	modes := map[string]bool{}
	var ms []string
	for _, l := range p.Lis {
		modes[l.Batch] = true
		ms = append(ms, l.Batch)
	}
	if len(modes) == 2 {
		labels = append(labels, "batch-mixed")
	} else {
		labels = append(labels, "batch-all-"+p.Lis[0].Batch)
	}
	if p.Cfg.EIH {
		labels = append(labels, "eih")
	} else {
		labels = append(labels, "no-eih")
	}
	if p.OneSock {
		labels = append(labels, "sessions-share-a-socket")
	}
	nontrivial = (has["cross-listener-replay-no"] || has["cross-listener-replay-sendmmsg"]) && has["genuine-after-invalid-first-delivered"]
	key = fmt.Sprintf("%s|%s|eih=%v|%s", p.Layout, strings.Join(ms, ","), p.Cfg.EIH, strings.Join(got, ","))
	return
}

func TestServiceServer(t *testing.T) {
	rapid.Check(t, func(rt *rapid.T) {
		p := drawSSPlan(rt)
		done := journal("svc-server", p)
		res := runSSPlan(p)
		if res.v != nil && res.v.liveness && res.harness == "" {
			// a missed liveness bound is retried once, on a fresh service, before it counts
			again := runSSPlan(p)
			if again.v == nil && again.harness == "" {
				recSvcServer.Label("liveness-retry-passed", 1)
			}
			res = again
		}
		done()
		if res.harness != "" {
			rt.Fatalf("SIG=C04/harness %s\nplan=%s", res.harness, p)
		}
		if res.v != nil {
			rt.Fatalf("%s\nplan=%s", res.v.msg, p)
		}
		labels, key, nt := ssCaseLabels(p, res.labels)
		recSvcServer.Case(key, nt, labels...)
		if nt {
			recSvcServer.Sample(map[string]any{"layout": p.Layout, "listeners": p.Lis, "sessions": len(p.SIDs), "segments": len(p.Segs), "labels": res.labels})
		}
	})
}

// TestReplayServiceServer re-runs a journaled plan ($VERIF_REPLAY) outside rapid.
func TestReplayServiceServer(t *testing.T) {
	f := os.Getenv("VERIF_REPLAY")
	if f == "" || !strings.Contains(f, "journal-svc-server") {
		t.Skip("no service-server journal to replay")
	}
	b, err := os.ReadFile(f)
	if err != nil {
		t.Fatal(err)
	}
	var p ssPlan
	if err := json.Unmarshal(b, &p); err != nil {
		t.Fatal(err)
	}
	res := runSSPlan(p)
	if res.harness != "" {
		t.Fatalf("SIG=C04/harness %s", res.harness)
	}
	if res.v != nil {
		t.Fatalf("%s\nplan=%s", res.v.msg, p)
	}
}
