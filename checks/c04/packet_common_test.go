package c04

import (
	"context"
	"encoding/binary"
	"encoding/json"
	"fmt"
	"math"
	"net/netip"
	"runtime/debug"
	"sort"
	"time"

	"github.com/database64128/shadowsocks-go/conn"
	"github.com/database64128/shadowsocks-go/ss2022"
	"github.com/database64128/shadowsocks-go/zerocopy"
	"pgregory.net/rapid"

	"verif/internal/ssudp"
)

// ---------------------------------------------------------------------------------------------
// Packet level (DESIGN §3 C04 part b). The real ss2022 client/server packers and unpackers are
// driven by a drawn history inside a testing/synctest bubble (the packers stamp time.Now, the
// unpackers validate it, the client unpacker measures the minute after a server-session change).
// Forged packets come from verif/internal/ssudp, an encoder that shares no code with the repo.
// ---------------------------------------------------------------------------------------------

// bubbleEpoch is the unix time at which every synctest bubble starts (2000-01-01T00:00:00Z).
const bubbleEpoch = 946684800

// history operations
const (
	opPack    = iota // the genuine packer of session Sess packs N packets (ids continue from its counter)
	opDeliver        // a packet of the pool is presented to the unpacker (again)
	opForge          // the harness encoder builds a packet and presents it
	opAdvance        // the clock moves by D
	opSwitch         // (client side) the "current" genuine server session moves to the next one
	opBurst          // the current genuine packer packs N packets and all of them are presented, locally reordered
)

// forged packet kinds
const (
	fkValid     = iota // right key, right type, right client session id; timestamp now+TsOff
	fkWrongKey         // AEAD body sealed under a different PSK (separate header decrypts fine)
	fkBitFlip          // a valid packet with one bit flipped at a drawn position
	fkWrongType        // type byte of the other direction (or a drawn byte)
	fkStale            // timestamp outside the 30 s window by construction
	fkWrongCSID        // (server->client) message header carries another client's session id
	fkTruncated        // a valid packet cut short
	fkForeign          // (client->server) a packet whose separate header is encrypted under a foreign key
	fkKinds
)

var fkNames = [...]string{"valid", "wrong-key", "bit-flip", "wrong-type", "stale-ts", "wrong-csid", "truncated", "foreign-key"}

type step struct {
	Op    int           `json:"op"`
	N     int           `json:"n,omitempty"`
	Sess  int           `json:"sess,omitempty"`
	Span  int           `json:"span,omitempty"`
	Pick  uint64        `json:"pick,omitempty"`
	Kind  int           `json:"kind,omitempty"`
	IDk   int           `json:"idk,omitempty"`
	IDv   uint64        `json:"idv,omitempty"`
	TsOff int64         `json:"tsoff,omitempty"`
	Aux   uint64        `json:"aux,omitempty"`
	D     time.Duration `json:"d,omitempty"`
}

type pcfg struct {
	KeyLen int    `json:"keylen"`
	EIH    bool   `json:"eih"`
	Size   uint64 `json:"size"` // the window size the model uses
	// Default: the constructors get filterSize 0, the documented "omitted" value that stands for
	// DefaultSlidingWindowFilterSize = 256 (ss2022/header.go); Size is then 256.
	Default bool   `json:"default_size,omitempty"`
	Hi      bool   `json:"hi"` // the case may use ids near 2^63 / 2^64-1 (otherwise ids stay low)
	Seed    uint64 `json:"seed"`
}

func (c pcfg) String() string { b, _ := json.Marshal(c); return string(b) }

func planString(p []step) string { b, _ := json.Marshal(p); return string(b) }

var spans = []int{1, 2, 4, 16, 80, 1 << 30}

// advance steps: mostly small so that packets stay fresh, with the boundaries the statement names
var advances = []time.Duration{
	time.Nanosecond, time.Millisecond, 500 * time.Millisecond, time.Second - time.Nanosecond, time.Second, 2 * time.Second,
	29 * time.Second, 30 * time.Second, 30*time.Second + time.Nanosecond, 31 * time.Second,
	59 * time.Second, 60*time.Second - time.Nanosecond, 60 * time.Second, 60*time.Second + time.Nanosecond, 61 * time.Second, 90 * time.Second,
}

// gaps before a scripted server-session change that the one-minute rule accepts
var changeGaps = []time.Duration{60 * time.Second, 61 * time.Second, 5 * time.Minute}

// burstOrder is the presentation order of a burst of n packets: ascending with local jitter (most
// packets move by at most two places, about one in eight is held back by several places).
func burstOrder(n int, seed uint64) []int {
	type kv struct{ key, idx int }
	ks := make([]kv, n)
	x := seed | 1
	for i := range ks {
		x ^= x >> 12
		x ^= x << 25
		x ^= x >> 27
		h := x * 2685821657736338717 >> 40
		ks[i] = kv{key: i*4 + int(h%10), idx: i}
		if h>>8%8 == 0 {
			ks[i].key += 24
		}
	}
	sort.SliceStable(ks, func(a, b int) bool { return ks[a].key < ks[b].key })
	out := make([]int, n)
	for i, k := range ks {
		out[i] = k.idx
	}
	return out
}

var tsOffsets = []int64{0, 0, 0, 1, -1, 15, -15, 29, -29, 30, -30} // -30 is already expired at creation
var staleOffsets = []int64{31, -31, 32, -32, 60, -60, 3600, -3600, math.MaxInt64 / 2, math.MinInt64 / 2, -bubbleEpoch, -bubbleEpoch - 1}

func drawCfg(rt *rapid.T) pcfg {
	return pcfg{
		KeyLen: rapid.SampledFrom([]int{16, 32}).Draw(rt, "keylen"),
		EIH:    rapid.Bool().Draw(rt, "eih"),
		Size:   rapid.SampledFrom(append([]uint64{0}, filterSizes...)).Draw(rt, "size"), // 0: omitted -> default
		Hi:     rapid.IntRange(0, 3).Draw(rt, "hi") == 0,
		Seed:   rapid.Uint64().Draw(rt, "seed"),
	}.norm()
}

// documentedDefaultWindow restates ss2022.DefaultSlidingWindowFilterSize.
const documentedDefaultWindow = 256

func (c pcfg) norm() pcfg {
	if c.Size == 0 {
		c.Size, c.Default = documentedDefaultWindow, true
	}
	return c
}

// sizeArg is what the constructors are given.
func (c pcfg) sizeArg() uint64 {
	if c.Default {
		return 0
	}
	return c.Size
}

// drawPlan draws a history. clientSide adds the session ops (opSwitch, Sess selectors) and up to
// three "change attempts": the clock moves by a drawn gap around the one-minute boundary, the
// current genuine session sends and is heard once more (so fresh, already delivered packets of it
// exist), the genuine session switches, and the new session's first packet is presented.
func drawPlan(rt *rapid.T, clientSide bool) []step {
	attempts := 0
	if clientSide {
		attempts = rapid.SampledFrom([]int{0, 0, 1, 1, 2, 2, 3, 3}).Draw(rt, "attempts")
	}
	return drawPlanN(rt, clientSide, 90, attempts, rapid.IntRange(0, 2).Draw(rt, "tempo"))
}

// drawPlanN is drawPlan with the size knobs exposed: at most maxSteps free steps in total,
// `attempts` scripted change attempts, tempo `slow` (0: only small clock steps in the free part).
func drawPlanN(rt *rapid.T, clientSide bool, maxSteps, attempts, slow int) []step {
	var plan []step
	for seg := 0; seg <= attempts; seg++ {
		n := rapid.IntRange(1, max(1, maxSteps/(attempts+1))).Draw(rt, "steps")
		for i := 0; i < n; i++ {
			plan = append(plan, drawStep(rt, clientSide, slow))
		}
		if seg == attempts {
			break
		}
		// the gap before the change: mostly on the accepting side of the one-minute rule, so that a session
		// often lives through two or three accepted changes
		gap := rapid.SampledFrom(changeGaps).Draw(rt, "gap")
		if rapid.IntRange(0, 4).Draw(rt, "gap-any") == 0 {
			gap = rapid.SampledFrom(advances[6:]).Draw(rt, "gap2")
		}
		plan = append(plan, step{Op: opAdvance, D: gap})
		if rapid.IntRange(0, 3).Draw(rt, "hear") > 0 {
			plan = append(plan, step{Op: opPack, N: rapid.IntRange(1, 3).Draw(rt, "n"), Sess: -1})
			for range rapid.IntRange(1, 3).Draw(rt, "k") {
				plan = append(plan, step{Op: opDeliver, Span: rapid.IntRange(0, 2).Draw(rt, "span"), Pick: rapid.Uint64().Draw(rt, "pick")})
			}
		}
		plan = append(plan, step{Op: opSwitch}, step{Op: opPack, N: rapid.IntRange(1, 3).Draw(rt, "n"), Sess: -1},
			step{Op: opDeliver, Span: rapid.IntRange(0, 1).Draw(rt, "span"), Pick: rapid.Uint64().Draw(rt, "pick")})
		// several packets of the new server session (ids restart at 0,1,2,...), some out of order
		if rapid.IntRange(0, 5).Draw(rt, "burst") > 0 {
			plan = append(plan, step{Op: opBurst, N: rapid.IntRange(2, 40).Draw(rt, "burst-n"), Pick: rapid.Uint64().Draw(rt, "burst-seed")})
		}
	}
	return plan
}

func drawStep(rt *rapid.T, clientSide bool, slow int) (s step) {
	w := rapid.IntRange(0, 99).Draw(rt, "op")
	switch {
	case w < 3:
		s.Op = opBurst
		s.N = rapid.IntRange(2, 40).Draw(rt, "burst-n")
		s.Pick = rapid.Uint64().Draw(rt, "burst-seed")
	case w < 22:
		s.Op = opPack
		s.N = rapid.SampledFrom([]int{1, 1, 1, 2, 3, 5, 8, 20, 63, 64, 65, 70}).Draw(rt, "n")
		if clientSide {
			s.Sess = rapid.SampledFrom([]int{-1, -1, -1, -1, -1, -1, -1, -1, 0, 1, 2, 3}).Draw(rt, "sess") // -1: current genuine session
		}
	case w < 62:
		s.Op = opDeliver
		s.Span = rapid.IntRange(0, len(spans)-1).Draw(rt, "span")
		s.Pick = rapid.Uint64().Draw(rt, "pick")
	case w < 84:
		s.Op = opForge
		s.Kind = rapid.SampledFrom([]int{fkValid, fkValid, fkValid, fkValid, fkWrongKey, fkBitFlip, fkWrongType, fkStale, fkWrongCSID, fkTruncated, fkForeign}).Draw(rt, "kind")
		s.IDk = rapid.IntRange(0, 4).Draw(rt, "idk")
		s.IDv = rapid.Uint64().Draw(rt, "idv")
		s.Aux = rapid.Uint64().Draw(rt, "aux")
		if s.Kind == fkStale {
			s.TsOff = rapid.SampledFrom(staleOffsets).Draw(rt, "tsoff")
		} else {
			s.TsOff = rapid.SampledFrom(tsOffsets).Draw(rt, "tsoff")
		}
		if clientSide {
			// -1: current genuine session, -2: the genuine session before it, 0..3 genuine, 4: harness-only session, 5: session id 0
			s.Sess = rapid.SampledFrom([]int{-1, -1, -1, -1, -1, -1, -2, -2, -2, 0, 1, 2, 3, 4, 5}).Draw(rt, "sess")
		}
	case w < 97 || !clientSide:
		s.Op = opAdvance
		k := rapid.IntRange(0, 9).Draw(rt, "adv")
		switch {
		case slow == 0 || k < 9-2*slow:
			s.D = rapid.SampledFrom(advances[:6]).Draw(rt, "d")
		default:
			s.D = rapid.SampledFrom(advances).Draw(rt, "d")
		}
	default:
		s.Op = opSwitch
	}
	return s
}

// lowAlphabet is the boundary alphabet around the newest delivered id, without the 2^63/2^64 cells.
func lowAlphabet(size, last uint64) []uint64 {
	ringBits := uint64(1)
	for ringBits < size+64 {
		ringBits <<= 1
	}
	out := []uint64{0, 1, 62, 63, 64, 65, 127, 128, size - 1, size, size + 1, ringBits - 1, ringBits, ringBits + 1}
	for _, d := range []uint64{0, 1, 2, 63, 64, 65, size - 1, size, size + 1, ringBits - 1, ringBits, ringBits + 1, 2 * ringBits} {
		out = append(out, last+d)
		if last >= d {
			out = append(out, last-d)
		}
	}
	return out
}

// resolveID turns the drawn id selector into a packet id, relative to the newest delivered id.
func resolveID(s step, size, last uint64, hi bool) uint64 {
	if hi {
		switch s.IDk {
		case 0:
			a := alphabet(size, last)
			return a[s.IDv%uint64(len(a))]
		case 1:
			return s.IDv
		}
	}
	switch s.IDk {
	case 0, 1, 2:
		a := lowAlphabet(size, last)
		return a[s.IDv%uint64(len(a))]
	case 3: // near the newest id, either side
		d := s.IDv % (size + 3)
		if s.IDv&(1<<40) != 0 || last < d {
			return last + d%66
		}
		return last - d
	default:
		if m := last + 2*size + 130; m > last {
			return s.IDv % m
		}
		return s.IDv // newest id within 2*size+130 of 2^64: any id
	}
}

// guard turns a panic raised while a plan runs inside the bubble (harness or code under test) into
// a reported violation: an unrecovered panic in a bubble goroutine would kill the test binary and
// with it rapid's shrinking. It never turns a panic into a pass.
func guard(res *pktResult) {
	if p := recover(); p != nil {
		res.violation = fmt.Sprintf("SIG=C04/panic %v\n%s", p, debug.Stack())
	}
}

// tsValid is the documented timestamp rule (header.go ValidateUnixEpochTimestamp after fix adaf1bd):
// compared on whole unix seconds, a timestamp is acceptable iff -30 < ts-now <= 30, i.e. up to 30 s
// ahead of the receiver's clock and strictly less than 30 whole seconds behind it (so that a
// timestamp never stays valid longer than the 60 s replay window).
func tsValid(ts uint64, now time.Time) bool {
	return ts-uint64(now.Unix())+29 <= 59 // wrapping on purpose: ts in [now-29, now+30]
}

// pkt is one packet of the pool together with what the harness knows about it.
type pkt struct {
	wire    []byte
	sid     uint64
	pid     uint64
	ts      uint64
	kind    int  // -1 genuine (real packer), else fk*
	intact  bool // authenticates, right type, right client session id (ignoring the timestamp)
	tag     uint64
	plen    int
	deliver int // times accepted (universe A)
}

func (p *pkt) bad(now time.Time) bool { return !p.intact || !tsValid(p.ts, now) }

func payloadFor(tag uint64, n int) []byte {
	b := make([]byte, n)
	ssudp.Fill(b, tag)
	return b
}

func makeKeys(c pcfg, salt uint64) ssudp.Keys {
	k := ssudp.Keys{PSK: make([]byte, c.KeyLen)}
	ssudp.Fill(k.PSK, c.Seed^salt^0x9e3779b97f4a7c15)
	if c.EIH {
		ipsk := make([]byte, c.KeyLen)
		ssudp.Fill(ipsk, c.Seed^salt^0xc2b2ae3d27d4eb4f)
		k.IPSKs = [][]byte{ipsk}
	}
	return k
}

var (
	pktTarget     = ssudp.Addr{IP: netip.MustParseAddr("192.0.2.7"), Port: 4433}
	pktTargetConn = conn.AddrFromIPAndPort(pktTarget.IP, pktTarget.Port)
	pktServerAddr = netip.MustParseAddrPort("198.51.100.1:8388")
	pktClientAddr = netip.MustParseAddrPort("203.0.113.9:50000")
)

// endpoint bundles the real objects of one client session and its server.
type endpoint struct {
	keys     ssudp.Keys
	wrong    ssudp.Keys
	session  zerocopy.UDPClientSession
	headroom zerocopy.Headroom
	server   *ss2022.UDPServer
	csid     uint64
}

// peer is one long-lived pair of objects as the service holds them: one ss2022.UDPClient (every
// NAT session routed to it calls NewSession on the same object) and one ss2022.UDPServer.
type peer struct {
	keys   ssudp.Keys
	wrong  ssudp.Keys
	client *ss2022.UDPClient
	server *ss2022.UDPServer
}

func newPeer(c pcfg, salt uint64) (*peer, error) {
	p := &peer{keys: makeKeys(c, salt), wrong: makeKeys(c, salt^0xdeadbeefcafef00d)}
	ccc, err := ss2022.NewClientCipherConfig(p.keys.PSK, p.keys.IPSKs, true)
	if err != nil {
		return nil, err
	}
	p.client = ss2022.NewUDPClient("c", "ip", conn.AddrFromIPPort(pktServerAddr), 1500, conn.DefaultUDPClientListenConfig, c.sizeArg(), ccc, ss2022.NoPadding)
	if c.EIH {
		icc, err := ss2022.NewServerIdentityCipherConfig(p.keys.IPSKs[0], true)
		if err != nil {
			return nil, err
		}
		p.server = ss2022.NewUDPServer(c.sizeArg(), ss2022.UserCipherConfig{}, icc, ss2022.NoPadding)
		succ, err := ss2022.NewServerUserCipherConfig("u", p.keys.PSK, true)
		if err != nil {
			return nil, err
		}
		p.server.ReplaceUserLookupMap(ss2022.UserLookupMap{ss2022.PSKHash(p.keys.PSK): succ})
	} else {
		ucc, err := ss2022.NewUserCipherConfig(p.keys.PSK, true)
		if err != nil {
			return nil, err
		}
		p.server = ss2022.NewUDPServer(c.sizeArg(), ucc, ss2022.ServerIdentityCipherConfig{}, ss2022.NoPadding)
	}
	return p, nil
}

// open starts a new client session on the peer's client object.
func (p *peer) open() (*endpoint, error) {
	info, sess, err := p.client.NewSession(context.Background())
	if err != nil {
		return nil, err
	}
	return &endpoint{keys: p.keys, wrong: p.wrong, session: sess, headroom: info.PackerHeadroom, server: p.server}, nil
}

func newEndpoint(c pcfg, salt uint64) (*endpoint, error) {
	p, err := newPeer(c, salt)
	if err != nil {
		return nil, err
	}
	return p.open()
}

// clientPack makes the real client packer produce its next packet.
func (e *endpoint) clientPack(tag uint64, plen int) (*pkt, error) {
	front, rear := e.headroom.Front, e.headroom.Rear
	b := make([]byte, front+plen+rear)
	copy(b[front:], payloadFor(tag, plen))
	now := time.Now()
	_, ps, pl, err := e.session.Packer.PackInPlace(context.Background(), b, pktTargetConn, front, plen)
	if err != nil {
		return nil, err
	}
	w := append([]byte(nil), b[ps:ps+pl]...)
	sid, pid := e.keys.PeekClientIDs(w)
	return &pkt{wire: w, sid: sid, pid: pid, ts: uint64(now.Unix()), kind: -1, intact: true, tag: tag, plen: plen}, nil
}

// serverTable mirrors the dispatch of service/udp_session.go recvFromServerConnGeneric: session id
// from SessionInfo, unpacker created by NewUnpacker for an unknown id, entry stored only after the
// first successful UnpackInPlace.
type serverTable struct {
	e     *endpoint
	table map[uint64]zerocopy.ServerUnpacker
}

func (st *serverTable) present(wire []byte) (ok bool, csid uint64, payload []byte, target conn.Addr, err error) {
	const front = 32
	buf := make([]byte, front+len(wire)+16)
	copy(buf[front:], wire)
	packet := buf[front : front+len(wire)]
	csid, err = st.e.server.SessionInfo(packet)
	if err != nil {
		return false, 0, nil, conn.Addr{}, err
	}
	u, known := st.table[csid]
	if !known {
		u, _, err = st.e.server.NewUnpacker(packet, csid)
		if err != nil {
			return false, csid, nil, conn.Addr{}, err
		}
	}
	ta, ps, pl, err := u.UnpackInPlace(buf, pktClientAddr, front, len(wire))
	if err != nil {
		return false, csid, nil, conn.Addr{}, err
	}
	if !known {
		st.table[csid] = u
	}
	return true, csid, buf[ps : ps+pl], ta, nil
}

func flipBit(w []byte, pos uint64) []byte {
	out := append([]byte(nil), w...)
	if len(out) == 0 {
		return out
	}
	i := pos % uint64(len(out)*8)
	out[i/8] ^= 1 << (i % 8)
	return out
}

func be64(v uint64) []byte { return binary.BigEndian.AppendUint64(nil, v) }

func errString(err error) string {
	if err == nil {
		return "<nil>"
	}
	return fmt.Sprint(err)
}
