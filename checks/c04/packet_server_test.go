package c04

import (
	"bytes"
	"fmt"
	"sort"
	"strings"
	"testing"
	"testing/synctest"
	"time"

	"github.com/database64128/shadowsocks-go/zerocopy"
	"pgregory.net/rapid"

	"verif/internal/ev"
	"verif/internal/ssudp"
)

var recPktServer = ev.New("C04", "packet-server",
	"rapid + synctest bubble: real ss2022 UDPClient session packs client packets (ids 0..N); a drawn history (<=90 steps) packs, "+
		"delivers pool packets in drawn order (reorder/duplicate/drop), interleaves packets forged by an independent encoder (valid with "+
		"arbitrary id/timestamp, wrong key, bit flip, wrong type, stale timestamp, truncated, foreign key, second client session) and clock "+
		"advances (1 ns..90 s around 30/60 s); presented through a mirror of the service dispatch (SessionInfo -> table -> NewUnpacker -> "+
		"UnpackInPlace) for window sizes {omitted (0 -> default 256),1,2,63,64,65,128,256,1000} x aes-128/256 x EIH on/off. Oracle: set+max reference model per client "+
		"session, bad packets must be rejected, and a second table that never sees the bad packets must give identical verdicts. "+
		"Non-trivial: the main session saw a duplicate, an out-of-order in-window id and a 64-bit block crossing; distinct key = config + verdict string").
	Require("dup", "ooo-in-window", "block-cross", "behind-window", "forged-bad", "stale-by-clock", "fresh-after-bad", "default-size", "default-size-ooo-in-window")

type pktResult struct {
	violation string
	labels    map[string]bool
	verdicts  []byte
	nt        bool
	delivered int
}

func TestPacketServer(t *testing.T) {
	rapid.Check(t, func(rt *rapid.T) {
		c := drawCfg(rt)
		plan := drawPlan(rt, false)
		var res pktResult
		synctest.Test(t, func(t *testing.T) { res = runServerPlan(c, plan) })
		if res.violation != "" {
			rt.Fatalf("%s\ncfg=%s\nplan=%s", res.violation, c, planString(plan))
		}
		labels := make([]string, 0, len(res.labels))
		for l := range res.labels {
			labels = append(labels, l)
		}
		sort.Strings(labels)
		recPktServer.Case(fmt.Sprintf("%d|%d|%v|%s", c.Size, c.KeyLen, c.EIH, res.verdicts), res.nt, labels...)
		if res.nt {
			recPktServer.Sample(map[string]any{"cfg": c, "steps": len(plan), "verdicts": clip(string(res.verdicts), 120), "labels": strings.Join(labels, ",")})
		}
	})
}

func clip(s string, n int) string {
	if len(s) > n {
		return s[:n] + "..."
	}
	return s
}

func runServerPlan(c pcfg, plan []step) (res pktResult) {
	defer guard(&res)
	p, err := newPeer(c, 0)
	if err != nil {
		res.violation = "SIG=C04/harness setup: " + err.Error()
		return res
	}
	return runServerSession(c, plan, p, &serverTable{table: map[uint64]zerocopy.ServerUnpacker{}}, &serverTable{table: map[uint64]zerocopy.ServerUnpacker{}})
}

// runServerSession opens a new client session on the peer's client object and runs the plan against
// the peer's long-lived server object through the given (possibly already populated) session tables.
// The reference models are fresh: a new client session id owes nothing to earlier sessions.
func runServerSession(c pcfg, plan []step, p *peer, tabA, tabB *serverTable) (res pktResult) {
	res.labels = map[string]bool{}
	fail := func(sig, format string, a ...any) pktResult {
		res.violation = "SIG=C04/" + sig + " " + fmt.Sprintf(format, a...)
		return res
	}
	e, err := p.open()
	if err != nil {
		return fail("harness", "setup: %v", err)
	}
	defer e.session.Close()
	tabA.e, tabB.e = e, e
	var pool []*pkt
	var tag uint64
	// the first genuine packet tells the harness the client session id
	first, err := e.clientPack(tag, 8)
	if err != nil {
		return fail("harness", "first pack: %v", err)
	}
	pool = append(pool, first)
	mainSID := first.sid
	otherSID := mainSID ^ 0x5555555555555555
	models := map[uint64]*refFilter{}
	var dup, ooo, cross, behind, badSeen bool

	present := func(i int, p *pkt) string {
		now := time.Now()
		bad := p.bad(now)
		okA, csidA, payload, target, errA := tabA.present(p.wire)
		if bad {
			res.labels["forged-bad"] = res.labels["forged-bad"] || p.kind >= 0
			if p.kind >= 0 {
				res.labels["bad-"+fkNames[p.kind]] = true
			}
			if p.intact && p.kind != fkStale {
				res.labels["stale-by-clock"] = true
			}
			badSeen = true
			if okA {
				return fmt.Sprintf("SIG=C04/pkt-server-bad-accepted step=%d kind=%d intact=%v ts=%d now=%d.%09d sid=%#x pid=%d: a packet that must be dropped was delivered", i, p.kind, p.intact, p.ts, now.Unix(), now.Nanosecond(), p.sid, p.pid)
			}
			res.verdicts = append(res.verdicts, 'x')
			return ""
		}
		// valid class: decide by the model of its client session
		m := models[p.sid]
		if m == nil {
			m = newRef(c.Size)
		}
		want := m.ok(p.pid)
		if p.sid == mainSID {
			switch {
			case m.delivered[p.pid]:
				dup = true
			case p.pid < m.max && m.max-p.pid < c.Size:
				ooo = true
			case p.pid < m.max:
				behind = true
			}
			if p.pid > m.max && p.pid/64 != m.max/64 && len(m.delivered) > 0 {
				cross = true
			}
		}
		okB, _, _, _, errB := tabB.present(p.wire)
		if okA != want {
			return fmt.Sprintf("SIG=C04/pkt-server-verdict step=%d sid=%#x pid=%d newest=%d size=%d got=%v (%s) want=%v", i, p.sid, p.pid, m.max, c.Size, okA, errString(errA), want)
		}
		if okB != okA {
			return fmt.Sprintf("SIG=C04/pkt-server-metamorphic step=%d sid=%#x pid=%d: verdict with the dropped packets in the history=%v (%s), without them=%v (%s)", i, p.sid, p.pid, okA, errString(errA), okB, errString(errB))
		}
		if okA {
			if csidA != p.sid {
				return fmt.Sprintf("SIG=C04/pkt-server-session step=%d: delivered under session %#x, packet belongs to %#x", i, csidA, p.sid)
			}
			if !bytes.Equal(payload, payloadFor(p.tag, p.plen)) || target.String() != pktTarget.String() {
				return fmt.Sprintf("SIG=C04/pkt-server-content step=%d pid=%d: delivered payload/target differ from what was packed (target %s)", i, p.pid, target)
			}
			p.deliver++
			if p.deliver > 1 {
				return fmt.Sprintf("SIG=C04/pkt-server-twice step=%d pid=%d: the same datagram was delivered twice", i, p.pid)
			}
			if models[p.sid] == nil {
				models[p.sid] = m
			}
			m.add(p.pid)
			res.delivered++
			if badSeen {
				res.labels["fresh-after-bad"] = true
			}
			res.verdicts = append(res.verdicts, '1')
		} else {
			res.verdicts = append(res.verdicts, '0')
		}
		return ""
	}

	if v := present(-1, first); v != "" {
		res.violation = v
		return res
	}
	for i, s := range plan {
		switch s.Op {
		case opPack:
			for range s.N {
				tag++
				p, err := e.clientPack(tag, int(tag%24))
				if err != nil {
					return fail("harness", "pack: %v", err)
				}
				pool = append(pool, p)
			}
		case opDeliver:
			span := min(spans[s.Span], len(pool))
			p := pool[len(pool)-1-int(s.Pick%uint64(span))]
			if v := present(i, p); v != "" {
				res.violation = v
				return res
			}
		case opForge:
			tag++
			now := time.Now()
			sid := mainSID
			if s.Kind == fkWrongCSID {
				sid = otherSID // client -> server: another client session is simply another session
			}
			var last uint64
			if m := models[sid]; m != nil {
				last = m.max
			}
			cp := ssudp.ClientPacket{SID: sid, PID: resolveID(s, c.Size, last, c.Hi), Type: ssudp.TypeClient,
				TS: uint64(now.Unix() + s.TsOff), Addr: pktTarget.Wire(), Payload: payloadFor(tag, int(tag%24))}
			p := &pkt{sid: sid, pid: cp.PID, ts: cp.TS, kind: s.Kind, intact: true, tag: tag, plen: len(cp.Payload)}
			switch s.Kind {
			case fkValid, fkWrongCSID, fkStale:
				p.wire = e.keys.EncodeClient(cp, nil)
				if s.Kind == fkWrongCSID {
					res.labels["second-session"] = true
				}
			case fkWrongKey:
				p.wire, p.intact = e.keys.EncodeClient(cp, e.wrong.PSK), false
			case fkBitFlip:
				w := e.keys.EncodeClient(cp, nil)
				// the identity header of a packet is only consulted when its session is created, so
				// flips are confined to the separate header and the AEAD part
				pos := s.Aux % uint64((len(w)-16*len(e.keys.IPSKs))*8)
				if pos >= 16*8 {
					pos += uint64(16 * 8 * len(e.keys.IPSKs))
				}
				p.wire, p.intact = flipBit(w, pos), false
			case fkWrongType:
				cp.Type = byte(1 + s.Aux%255)
				p.wire, p.intact = e.keys.EncodeClient(cp, nil), false
			case fkTruncated:
				w := e.keys.EncodeClient(cp, nil)
				p.wire, p.intact = w[:s.Aux%uint64(len(w))], false
			case fkForeign:
				p.wire, p.intact = e.wrong.EncodeClient(cp, nil), false
			}
			pool = append(pool, p)
			if v := present(i, p); v != "" {
				res.violation = v
				return res
			}
		case opBurst:
			base := len(pool)
			for range s.N {
				tag++
				p, err := e.clientPack(tag, int(tag%24))
				if err != nil {
					return fail("harness", "pack: %v", err)
				}
				pool = append(pool, p)
			}
			for _, k := range burstOrder(s.N, s.Pick) {
				if v := present(i, pool[base+k]); v != "" {
					res.violation = v
					return res
				}
			}
		case opAdvance:
			time.Sleep(s.D)
		}
	}
	for l, b := range map[string]bool{"dup": dup, "ooo-in-window": ooo, "block-cross": cross, "behind-window": behind} {
		if b {
			res.labels[l] = true
		}
	}
	if c.Hi {
		res.labels["hi-id-case"] = true
	}
	if c.Default {
		res.labels["default-size"] = true
		if ooo {
			res.labels["default-size-ooo-in-window"] = true
		}
	}
	res.nt = dup && ooo && cross
	return res
}
