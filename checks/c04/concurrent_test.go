package c04

import (
	"bytes"
	"context"
	"fmt"
	"os"
	"strconv"
	"sync"
	"testing"
	"testing/synctest"

	"github.com/database64128/shadowsocks-go/zerocopy"

	"verif/internal/ev"
)

// ---------------------------------------------------------------------------------------------
// Overlapping NewSession calls on ONE ss2022.UDPClient object. The relays open the outbound
// session of every NAT entry in that entry's own goroutine, so sessions for different client
// addresses are created concurrently on the same client object. Whatever the object shares between
// calls must not leak from one session into another: all client session ids are distinct, every
// session's fresh packets authenticate and are accepted by the shared server (none reported as a
// replay), and every reply is accepted by the session it was made for and by no other.
// The stage also runs under -race in the thorough tier: a data race report whose stack is in the
// repo's ss2022 code is a violation of the same statement (shared scratch state).
// ---------------------------------------------------------------------------------------------

var recConcurrent = ev.New("C04", "concurrent-new-session",
	"plain, synctest bubble, real goroutines: per round 8-16 goroutines released together call NewSession back to back on one UDPClient object (288-320 sessions per round) "+
		"and pack 1-2 packets with each new session while the other goroutines keep creating sessions; then all packets go through one UDPServer and one session table "+
		"(mirror of the service dispatch, serialised like the relay's mutex), each session gets a reply from its own server session, and the goroutines unpack the replies "+
		"concurrently (own reply must be accepted, a neighbour's reply must be refused). aes-128/256 x EIH on/off rotate over the rounds. "+
		"Non-trivial: every round; distinct = round index").
	Require("concurrent-new-session-on-one-client", "eih", "no-eih", "goroutines-16", "goroutines-8")

type concSession struct {
	sess    zerocopy.UDPClientSession
	first   []*pkt
	replies [][]byte
	csid    uint64
}

func TestConcurrentNewSession(t *testing.T) {
	rounds := 60
	if v, err := strconv.Atoi(os.Getenv("VERIF_C04_CONC_ROUNDS")); err == nil && v > 0 {
		rounds = v
	}
	seed := uint64(1)
	if v, err := strconv.ParseUint(os.Getenv("VERIF_SEED"), 10, 64); err == nil {
		seed += v * 7919
	}
	for r := range rounds {
		c := pcfg{KeyLen: []int{16, 32}[r%2], EIH: r/2%2 == 1, Size: []uint64{0, 64, 1000}[r%3], Seed: seed + uint64(r)}.norm()
		g := []int{8, 12, 16}[r%3]
		var violation string
		synctest.Test(t, func(t *testing.T) { violation = runConcurrentRound(c, g, 320/g) })
		if violation != "" {
			t.Fatalf("%s\nround=%d goroutines=%d cfg=%s", violation, r, g, c)
		}
		labels := []string{"concurrent-new-session-on-one-client", fmt.Sprintf("goroutines-%d", g)}
		if c.EIH {
			labels = append(labels, "eih")
		} else {
			labels = append(labels, "no-eih")
		}
		recConcurrent.Case(fmt.Sprintf("round-%d", r), true, labels...)
	}
	recConcurrent.Extra("sessions_per_round", 320)
	recConcurrent.Extra("rounds", rounds)
}

func runConcurrentRound(c pcfg, goroutines, perG int) (violation string) {
	res := pktResult{}
	defer func() {
		if res.violation != "" && violation == "" {
			violation = res.violation
		}
	}()
	defer guard(&res)
	p, err := newPeer(c, 0)
	if err != nil {
		return "SIG=C04/harness " + err.Error()
	}
	all := make([][]*concSession, goroutines)
	errs := make([]string, goroutines)
	start := make(chan struct{})
	var wg sync.WaitGroup
	// phase 1: overlapping NewSession calls; each new session packs at once (as the relay's uplink does)
	for gi := range goroutines {
		wg.Go(func() {
			<-start
			for k := range perG {
				info, sess, err := p.client.NewSession(context.Background())
				if err != nil {
					errs[gi] = "SIG=C04/harness NewSession: " + err.Error()
					return
				}
				e := &endpoint{keys: p.keys, wrong: p.wrong, session: sess, headroom: info.PackerHeadroom, server: p.server}
				cs := &concSession{sess: sess}
				for n := range 1 + (gi+k)%2 {
					pk, err := e.clientPack(uint64(gi)<<32|uint64(k)<<8|uint64(n), 9+n)
					if err != nil {
						errs[gi] = "SIG=C04/harness pack: " + err.Error()
						return
					}
					cs.first = append(cs.first, pk)
				}
				cs.csid = cs.first[0].sid
				all[gi] = append(all[gi], cs)
			}
		})
	}
	close(start)
	wg.Wait()
	for _, e := range errs {
		if e != "" {
			return e
		}
	}
	// all client session ids are distinct, and a session's packets carry its own id and ids 0,1
	seen := map[uint64][2]int{}
	for gi, list := range all {
		for k, cs := range list {
			if prev, dup := seen[cs.csid]; dup {
				return fmt.Sprintf("SIG=C04/concurrent-duplicate-session-id two sessions created by overlapping NewSession calls share client session id %#x (goroutine %d call %d and goroutine %d call %d)", cs.csid, prev[0], prev[1], gi, k)
			}
			seen[cs.csid] = [2]int{gi, k}
			for n, pk := range cs.first {
				if pk.sid != cs.csid || pk.pid != uint64(n) {
					return fmt.Sprintf("SIG=C04/concurrent-session-header packet %d of the session of goroutine %d call %d carries session id %#x packet id %d, want %#x / %d", n, gi, k, pk.sid, pk.pid, cs.csid, n)
				}
			}
		}
	}
	// phase 2: the shared server; the relay serialises this part with its mutex
	st := &serverTable{e: &endpoint{server: p.server}, table: map[uint64]zerocopy.ServerUnpacker{}}
	for gi, list := range all {
		for k, cs := range list {
			for n, pk := range cs.first {
				ok, csid, payload, _, err := st.present(pk.wire)
				if !ok {
					return fmt.Sprintf("SIG=C04/concurrent-fresh-refused fresh packet %d of the session created by goroutine %d call %d (csid %#x) was refused by the server: %s", n, gi, k, cs.csid, errString(err))
				}
				if csid != cs.csid || !bytes.Equal(payload, payloadFor(pk.tag, pk.plen)) {
					return fmt.Sprintf("SIG=C04/concurrent-content packet %d of goroutine %d call %d was delivered under session %#x with altered content", n, gi, k, csid)
				}
			}
			packer, err := st.table[cs.csid].NewPacker()
			if err != nil {
				return "SIG=C04/harness NewPacker: " + err.Error()
			}
			u := &cliUniverse{e: &endpoint{keys: p.keys}}
			u.packers[0] = packer
			for n := range 2 {
				rp, err := u.serverPack(0, uint64(gi)<<32|uint64(k)<<8|uint64(n)|1<<60, 7+n)
				if err != nil {
					return "SIG=C04/harness server pack: " + err.Error()
				}
				cs.replies = append(cs.replies, rp.wire)
			}
		}
	}
	// phase 3: every goroutine unpacks the replies of its sessions concurrently; the first reply of the
	// neighbouring session is offered first and must be refused (another client's session id)
	for gi := range goroutines {
		wg.Go(func() {
			list := all[gi]
			for k, cs := range list {
				u := &cliUniverse{e: &endpoint{session: cs.sess}}
				other := list[(k+1)%len(list)]
				if other != cs {
					if ok, _, _, _ := u.present(other.replies[0]); ok {
						errs[gi] = fmt.Sprintf("SIG=C04/concurrent-foreign-reply-accepted the session %#x accepted a reply made for session %#x", cs.csid, other.csid)
						return
					}
				}
				for n, w := range cs.replies {
					ok, payload, _, err := u.present(w)
					if !ok {
						errs[gi] = fmt.Sprintf("SIG=C04/concurrent-reply-refused reply %d for the session created by goroutine %d call %d (csid %#x) was refused by its own session: %s", n, gi, k, cs.csid, errString(err))
						return
					}
					if len(payload) != 7+n {
						errs[gi] = fmt.Sprintf("SIG=C04/concurrent-content reply %d of session %#x has %d payload bytes, want %d", n, cs.csid, len(payload), 7+n)
						return
					}
				}
				cs.sess.Close()
			}
		})
	}
	wg.Wait()
	for _, e := range errs {
		if e != "" {
			return e
		}
	}
	return ""
}
