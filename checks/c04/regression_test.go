package c04

import (
	"fmt"
	"testing"
	"testing/synctest"
	"time"

	"github.com/database64128/shadowsocks-go/zerocopy"

	"verif/internal/ev"
	"verif/internal/ssudp"
)

var recRegress = ev.New("C04", "regression-timestamp-window",
	"plain regression of fix adaf1bd at the UDP packet level (bypasses rapid): genuine packets delivered exactly 29 s / 30 s / 31 s after packing and "+
		"forged packets stamped now+30 / now+31 / now-29 / now-30, in both directions; a timestamp 30 whole seconds old must be dropped, 29 s old and 30 s ahead accepted").
	Require("30s-old-dropped", "29s-old-accepted", "30s-ahead-accepted", "31s-ahead-dropped")

// TestRegressionTimestampWindow pins the boundary of "carry a stale timestamp" in both directions.
func TestRegressionTimestampWindow(t *testing.T) {
	var violation string
	synctest.Test(t, func(t *testing.T) { violation = runTimestampRegression() })
	if violation != "" {
		t.Fatal(violation)
	}
	recRegress.Case("window", true, "30s-old-dropped", "29s-old-accepted", "30s-ahead-accepted", "31s-ahead-dropped")
}

func runTimestampRegression() string {
	c := pcfg{KeyLen: 32, Size: 256, Seed: 7}
	u, err := newCliUniverse(c, 1) // client session + its server + three server sessions
	if err != nil {
		return "SIG=C04/harness " + err.Error()
	}
	st := &serverTable{e: u.e, table: map[uint64]zerocopy.ServerUnpacker{}}
	type probe struct {
		name   string
		accept bool
		run    func() (bool, error)
	}
	packAt := func(age time.Duration) (cw, sw []byte) { // genuine packets that will be `age` old after the sleep below
		cp, err1 := u.e.clientPack(1, 5)
		sp, err2 := u.serverPack(0, 1, 5)
		if err1 != nil || err2 != nil {
			panic(fmt.Sprint(err1, err2))
		}
		return cp.wire, sp.wire
	}
	var probes []probe
	// genuine packets packed at t=0, 1 s, 2 s; all presented at t=31 s -> ages 31, 30, 29 s
	c31, s31 := packAt(31 * time.Second)
	time.Sleep(time.Second)
	c30, s30 := packAt(30 * time.Second)
	time.Sleep(time.Second)
	c29, s29 := packAt(29 * time.Second)
	time.Sleep(29 * time.Second)
	for _, g := range []struct {
		age    int
		cw, sw []byte
	}{{29, c29, s29}, {30, c30, s30}, {31, c31, s31}} {
		probes = append(probes,
			probe{fmt.Sprintf("server: genuine client packet %d s old", g.age), g.age < 30, func() (bool, error) { ok, _, _, _, err := st.present(g.cw); return ok, err }},
			probe{fmt.Sprintf("client: genuine server packet %d s old", g.age), g.age < 30, func() (bool, error) { ok, _, _, err := u.present(g.sw); return ok, err }})
	}
	now := time.Now().Unix()
	ssid, _ := u.e.keys.PeekServerIDs(s29)
	for i, off := range []int64{30, 31, -29, -30} {
		accept := off > -30 && off <= 30
		cw := u.e.keys.EncodeClient(ssudp.ClientPacket{SID: u.e.csid, PID: uint64(1000 + i), Type: ssudp.TypeClient, TS: uint64(now + off), Addr: pktTarget.Wire(), Payload: []byte{1}}, nil)
		sw := u.e.keys.EncodeServer(ssudp.ServerPacket{SID: ssid, PID: uint64(1000 + i), Type: ssudp.TypeServer, TS: uint64(now + off), CSID: u.e.csid, Addr: pktTarget.Wire(), Payload: []byte{1}}, nil)
		probes = append(probes,
			probe{fmt.Sprintf("server: forged client packet stamped now%+d", off), accept, func() (bool, error) { ok, _, _, _, err := st.present(cw); return ok, err }},
			probe{fmt.Sprintf("client: forged server packet stamped now%+d", off), accept, func() (bool, error) { ok, _, _, err := u.present(sw); return ok, err }})
	}
	for _, p := range probes {
		got, err := p.run()
		if got != p.accept {
			return fmt.Sprintf("SIG=C04/pkt-timestamp-window %s: accepted=%v (%s), want %v (valid iff -30 < ts-now <= 30 whole seconds)", p.name, got, errString(err), p.accept)
		}
	}
	return ""
}

var recDefaultSize = ev.New("C04", "regression-default-window",
	"plain regression (bypasses rapid): NewUDPServer / NewUDPClient created with filterSize 0 (the omitted value) must behave as the documented default "+
		"window of 256: after id 300, ids 299, 45 (=300-255) are accepted once, 44 (=300-256) is refused, duplicates are refused; both directions").
	Require("server-default-256", "client-default-256")

// TestRegressionDefaultWindowSize pins that an omitted sliding-window size means 256, not 0.
func TestRegressionDefaultWindowSize(t *testing.T) {
	var violation string
	synctest.Test(t, func(t *testing.T) { violation = runDefaultWindowRegression() })
	if violation != "" {
		t.Fatal(violation)
	}
	recDefaultSize.Case("default", true, "server-default-256", "client-default-256")
}

func runDefaultWindowRegression() string {
	c := pcfg{KeyLen: 16, Seed: 11}.norm() // Size 0 -> Default
	if !c.Default || c.sizeArg() != 0 {
		return "SIG=C04/harness default configuration class broken"
	}
	u, err := newCliUniverse(c, 1)
	if err != nil {
		return "SIG=C04/harness " + err.Error()
	}
	st := &serverTable{e: u.e, table: map[uint64]zerocopy.ServerUnpacker{}}
	ssid := uint64(0x1122334455667788)
	now := uint64(time.Now().Unix())
	steps := []struct {
		id     uint64
		accept bool
	}{{5, true}, {3, true}, {3, false}, {300, true}, {299, true}, {45, true}, {44, false}, {45, false}, {301, true}, {45, false}, {46, true}}
	for _, s := range steps {
		cw := u.e.keys.EncodeClient(ssudp.ClientPacket{SID: u.e.csid, PID: s.id, Type: ssudp.TypeClient, TS: now, Addr: pktTarget.Wire(), Payload: []byte{1}}, nil)
		if ok, _, _, _, err := st.present(cw); ok != s.accept {
			return fmt.Sprintf("SIG=C04/pkt-default-window server created with filterSize 0: id %d accepted=%v (%s), want %v (window 256)", s.id, ok, errString(err), s.accept)
		}
		sw := u.e.keys.EncodeServer(ssudp.ServerPacket{SID: ssid, PID: s.id, Type: ssudp.TypeServer, TS: now, CSID: u.e.csid, Addr: pktTarget.Wire(), Payload: []byte{1}}, nil)
		if ok, _, _, err := u.present(sw); ok != s.accept {
			return fmt.Sprintf("SIG=C04/pkt-default-window client created with filterSize 0: id %d accepted=%v (%s), want %v (window 256)", s.id, ok, errString(err), s.accept)
		}
	}
	return ""
}
