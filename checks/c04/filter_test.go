package c04

import (
	"fmt"
	"math"
	"os"
	"strconv"
	"testing"

	"github.com/database64128/shadowsocks-go/ss2022"
	"pgregory.net/rapid"

	"verif/internal/ev"
)

// refFilter is the reference model of the statement: a packet is delivered iff it has not been
// delivered before and it is newer than, or fewer than size behind, the newest delivered one.
// Like the implementation's documented initial state, "newest" starts at 0 with nothing delivered.
type refFilter struct {
	size      uint64
	max       uint64
	delivered map[uint64]bool
}

func newRef(size uint64) *refFilter { return &refFilter{size: size, delivered: map[uint64]bool{}} }

func (r *refFilter) ok(id uint64) bool {
	if r.delivered[id] {
		return false
	}
	return id > r.max || r.max-id < r.size
}

func (r *refFilter) add(id uint64) {
	r.delivered[id] = true
	if id > r.max {
		r.max = id
	}
}

var filterSizes = []uint64{1, 2, 63, 64, 65, 128, 256, 1000}

// boundary alphabet relative to the current newest id and the window size
func alphabet(size, last uint64) []uint64 {
	ringBits := uint64(1)
	for ringBits < size+64 {
		ringBits <<= 1
	}
	base := []uint64{0, 1, 62, 63, 64, 65, 127, 128, size - 1, size, size + 1, ringBits - 1, ringBits, ringBits + 1,
		1 << 63, math.MaxUint64 - 1, math.MaxUint64}
	for _, d := range []uint64{0, 1, 2, 63, 64, 65, size - 1, size, size + 1, ringBits - 1, ringBits, ringBits + 1, 2 * ringBits} {
		base = append(base, last-d, last+d) // wrapping arithmetic is intended: ids are any uint64
	}
	return base
}

var recFilter = ev.New("C04", "filter-model",
	"rapid: window size from {1,2,63,64,65,128,256,1000}; sequence (len 1..200) of ids drawn from a boundary alphabet "+
		"(0,1,block edges 63/64/65/127/128, size±1, ring size±1, newest±{0,1,2,63..65,size±1,ring±1,2*ring}) mixed with ids uniform in [0, newest+2*size+130]; "+
		"one case in four is a high-id case that adds 2^63, 2^64-2, 2^64-1, wrapping newest±d and uniform 64-bit ids (after which almost everything is behind the window), "+
		"one in four is a front case (ids within [newest-size-1, newest+66]) so that long histories keep accepting, the others use the low boundary alphabet; "+
		"each id goes through Add or IsOk(+MustAdd when ok) and is compared with a set+max reference model. "+
		"Non-trivial: history has a duplicate, an out-of-order in-window id and an id crossing a 64-bit block edge; distinct key = size + verdict string").
	Require("dup", "ooo-in-window", "block-cross", "behind-window", "hi-id-case", "low-id-case", "accepts>=20", "long-history-mostly-accepted")

func TestFilterModel(t *testing.T) {
	rapid.Check(t, func(rt *rapid.T) {
		size := rapid.SampledFrom(filterSizes).Draw(rt, "size")
		n := rapid.IntRange(1, 200).Draw(rt, "n")
		// per-case class: 0 = high-id case (may visit the top of the id space), 1 = front case (ids stay within
		// [newest-size-1, newest+66], so long histories keep accepting), 2,3 = low boundary alphabet
		style := rapid.IntRange(0, 3).Draw(rt, "style")
		hi := style == 0
		accepts := 0
		f := ss2022.NewSlidingWindowFilter(size)
		ref := newRef(size)
		var dup, ooo, cross, behind bool
		verdicts := make([]byte, 0, n)
		ids := make([]uint64, 0, n)
		for i := 0; i < n; i++ {
			var id uint64
			switch k := rapid.IntRange(0, 9).Draw(rt, "kind"); {
			case style == 1:
				d := rapid.Uint64Range(0, size+1).Draw(rt, "d")
				if k < 5 || ref.max < d {
					id = ref.max + 1 + d%66
				} else {
					id = ref.max - d
				}
			case k < 8 && hi:
				a := alphabet(size, ref.max)
				id = a[rapid.IntRange(0, len(a)-1).Draw(rt, "ai")]
			case k < 8:
				a := lowAlphabet(size, ref.max)
				id = a[rapid.IntRange(0, len(a)-1).Draw(rt, "ai")]
			case hi:
				id = rapid.Uint64().Draw(rt, "id")
			default:
				id = rapid.Uint64Range(0, ref.max+2*size+130).Draw(rt, "id")
			}
			useAdd := rapid.Bool().Draw(rt, "useAdd")
			want := ref.ok(id)
			if ref.delivered[id] {
				dup = true
			} else if id < ref.max && ref.max-id < size {
				ooo = true
			} else if id < ref.max {
				behind = true
			}
			if id > ref.max && id/64 != ref.max/64 {
				cross = true
			}
			var got bool
			if useAdd {
				got = f.Add(id)
			} else {
				got = f.IsOk(id)
				if got {
					f.MustAdd(id)
				}
			}
			if got != want {
				rt.Fatalf("SIG=C04/filter-verdict size=%d history=%v id=%d useAdd=%v got=%v want=%v", size, ids, id, useAdd, got, want)
			}
			if want {
				ref.add(id)
				accepts++
				verdicts = append(verdicts, '1')
			} else {
				verdicts = append(verdicts, '0')
			}
			ids = append(ids, id)
		}
		var labels []string
		if hi {
			labels = append(labels, "hi-id-case")
		} else {
			labels = append(labels, "low-id-case")
		}
		if accepts >= 20 {
			labels = append(labels, "accepts>=20")
		}
		if n >= 50 && 2*accepts >= n {
			labels = append(labels, "long-history-mostly-accepted")
		}
		if dup {
			labels = append(labels, "dup")
		}
		if ooo {
			labels = append(labels, "ooo-in-window")
		}
		if cross {
			labels = append(labels, "block-cross")
		}
		if behind {
			labels = append(labels, "behind-window")
		}
		nt := dup && ooo && cross
		recFilter.Case(fmt.Sprintf("%d|%v", size, ids), nt, labels...)
		if nt {
			recFilter.Sample(map[string]any{"size": size, "ids": fmtIDs(ids), "verdicts": string(verdicts)})
		}
	})
}

func fmtIDs(ids []uint64) []string {
	out := make([]string, 0, len(ids))
	for i, id := range ids {
		if i >= 24 {
			out = append(out, "...")
			break
		}
		out = append(out, strconv.FormatUint(id, 10))
	}
	return out
}

var recExh = ev.New("C04", "filter-exhaustive",
	"bounded-exhaustive: every sequence of length <= depth over a fixed boundary alphabet per window size, each element via Add or via IsOk+MustAdd "+
		"(mode chosen per sequence position parity class), compared with the reference model; non-trivial: sequence contains a rejected id and an accepted id; distinct = sequence")

// TestFilterExhaustive enumerates all id sequences up to VERIF_C04_DEPTH over a static alphabet.
func TestFilterExhaustive(t *testing.T) {
	depth := 3
	if v, err := strconv.Atoi(os.Getenv("VERIF_C04_DEPTH")); err == nil && v > 0 {
		depth = v
	}
	shard, shards := 0, 1
	if v, err := strconv.Atoi(os.Getenv("VERIF_SHARD")); err == nil {
		shard = v
	}
	if v, err := strconv.Atoi(os.Getenv("VERIF_SHARDS")); err == nil && v > 0 {
		shards = v
	}
	var total, nontriv int64
	for si, size := range filterSizes {
		ringBits := uint64(1)
		for ringBits < size+64 {
			ringBits <<= 1
		}
		alpha := dedup([]uint64{0, 1, 63, 64, 65, size - 1, size, size + 1, ringBits - 1, ringBits, ringBits + size, 2*ringBits + 1,
			1 << 63, math.MaxUint64 - size, math.MaxUint64 - 1, math.MaxUint64})
		seq := make([]int, depth)
		for length := 1; length <= depth; length++ {
			for i := range seq {
				seq[i] = 0
			}
			for mode := 0; mode < 3; mode++ { // 0: all Add, 1: all IsOk+MustAdd, 2: alternate
				for i := range seq[:length] {
					seq[i] = 0
				}
				for idx := int64(0); ; idx++ {
					if int((idx+int64(si)+int64(mode))%int64(shards)) == shard {
						f := ss2022.NewSlidingWindowFilter(size)
						ref := newRef(size)
						acc, rej := false, false
						for pos, ai := range seq[:length] {
							id := alpha[ai]
							want := ref.ok(id)
							var got bool
							if mode == 0 || (mode == 2 && pos%2 == 0) {
								got = f.Add(id)
							} else {
								got = f.IsOk(id)
								if got {
									f.MustAdd(id)
								}
							}
							if got != want {
								ids := make([]uint64, 0, length)
								for _, a := range seq[:length] {
									ids = append(ids, alpha[a])
								}
								t.Fatalf("SIG=C04/filter-verdict-exhaustive size=%d mode=%d seq=%v pos=%d got=%v want=%v", size, mode, ids, pos, got, want)
							}
							if want {
								ref.add(id)
								acc = true
							} else {
								rej = true
							}
						}
						total++
						if acc && rej {
							nontriv++
						}
					}
					// next sequence
					k := length - 1
					for k >= 0 {
						seq[k]++
						if seq[k] < len(alpha) {
							break
						}
						seq[k] = 0
						k--
					}
					if k < 0 {
						break
					}
				}
			}
		}
	}
	// every enumerated sequence is distinct by construction, so distinct non-trivial = nontriv;
	// record them through synthetic keys without storing millions of hashes
	recExh.Exhaustive(true)
	recExh.Extra("depth", depth)
	recExh.Extra("sequences", total)
	recExh.Extra("nontrivial_sequences", nontriv)
	for i := int64(0); i < total; i++ {
		nt := i < nontriv
		key := ""
		if nt && i < 1000 {
			key = fmt.Sprintf("exh-%d-%d", shard, i)
		} else if nt {
			key = fmt.Sprintf("exh-%d-%d", shard, i%1000)
		}
		recExh.Case(key, nt)
	}
	recExh.Sample(map[string]any{"depth": depth, "sizes": filterSizes, "sequences": total, "with_accept_and_reject": nontriv})
}

func dedup(in []uint64) []uint64 {
	seen := map[uint64]bool{}
	var out []uint64
	for _, v := range in {
		if !seen[v] {
			seen[v] = true
			out = append(out, v)
		}
	}
	return out
}
