package c04

import (
	"bytes"
	"encoding/json"
	"fmt"
	"net/netip"
	"os"
	"strings"
	"sync"
	"testing"
	"time"

	"github.com/database64128/shadowsocks-go/service"
	"go.uber.org/zap"

	"verif/internal/ev"
	"verif/internal/ssudp"
)

// ---------------------------------------------------------------------------------------------
// The session table entry (and with it the replay filter) of a client session lives until the
// NAT timeout. A packet that was delivered must not be delivered again when it is replayed after
// the entry is gone: the relay guarantees this by refusing NAT timeouts below the timestamp
// validity (60 s), so that a replay that meets a brand-new filter is already stale.
//   - quick: configurations with natTimeout 1 s / 5 s must either be refused, or - if a build
//     accepts them - the replay after the eviction must still not be delivered;
//   - thorough: the minimum accepted timeout (60 s) is waited out in real time: replay of the
//     delivered packet (now the first packet the server sees for the session id, and stale) is not
//     delivered, the following genuine packet is delivered exactly once.
// ---------------------------------------------------------------------------------------------

var recSvcExpiry = ev.New("C04", "service-expiry",
	"plain, real time, real service on loopback: ss2022 server with two udpListeners (batchMode no and sendmmsg, both orders), natTimeout from the list; one client session written by the "+
		"independent codec: packet 0 delivered via listener A, the session's NAT timeout is waited out (relay log 'Finished relay serverConn <- natConn'), packet 0 replayed byte-identical "+
		"to listener B, then genuine packet 1 to B. Oracle: packet 0 delivered once, packet 1 delivered once. A configuration the Manager refuses because of the NAT timeout counts as held. "+
		"Non-trivial: every scenario; distinct = natTimeout x listener order").
	Require("nat-timeout-below-replay-window")

var recSvcExpiryLong = ev.New("C04", "service-expiry-60s",
	"plain, real time (about 65 s of wall time): as service-expiry with natTimeout 60s, the smallest value the server accepts: the replay of packet 0 arrives after the table entry "+
		"expired, is the first packet the new entry's filter would see and is stale; genuine packet 1 follows. Non-trivial: eviction observed and both packets judged; distinct = listener order").
	Require("first-packet-invalid-after-nat-timeout", "genuine-after-eviction-delivered")

type expiryOutcome struct {
	v       *svcViolation
	harness string
	labels  []string
}

func runExpiry(natTimeout string, firstBatch string, c pcfg) (out expiryOutcome) {
	keys := makeKeys(c, 0)
	dir, err := caseDir()
	if err != nil {
		return expiryOutcome{harness: err.Error()}
	}
	defer os.RemoveAll(dir)
	tgt, err := newSink(lo[0])
	if err != nil {
		return expiryOutcome{harness: err.Error()}
	}
	defer tgt.close()
	cl, err := listenLo()
	if err != nil {
		return expiryOutcome{harness: err.Error()}
	}
	defer cl.Close()
	d, err := time.ParseDuration(natTimeout)
	if err != nil {
		return expiryOutcome{harness: err.Error()}
	}
	second := "sendmmsg"
	if firstBatch == "sendmmsg" {
		second = "no"
	}
	var run *svcRun
	var lis [2]netip.AddrPort
	for attempt := 0; run == nil; attempt++ {
		var listeners []any
		for i, mode := range []string{firstBatch, second} {
			port, err := freeUDPPort(lo[0])
			if err != nil {
				return expiryOutcome{harness: err.Error()}
			}
			lis[i] = netip.AddrPortFrom(lo[0], port)
			listeners = append(listeners, jmap{"network": "udp", "address": lis[i].String(), "batchMode": mode, "natTimeout": natTimeout})
		}
		srv, err := ss2022ServerJSON("srv", keys, c.sizeArg(), listeners, dir)
		if err != nil {
			return expiryOutcome{harness: err.Error()}
		}
		doc, _ := json.MarshalIndent(jmap{"servers": []any{srv}, "clients": []any{jmap{"name": "out", "protocol": "direct", "enableUDP": true, "mtu": 1500}}}, "", " ")
		// is the configuration refused because of the timeout?
		var cfg service.Config
		dec := json.NewDecoder(bytes.NewReader(doc))
		dec.DisallowUnknownFields()
		if err := dec.Decode(&cfg); err != nil {
			return expiryOutcome{harness: "config rejected by decoder: " + err.Error()}
		}
		if m, err := cfg.Manager(zap.NewNop()); err != nil {
			if strings.Contains(err.Error(), "NAT timeout") {
				return expiryOutcome{labels: []string{"short-nat-timeout-refused"}}
			}
			return expiryOutcome{harness: "config rejected by Manager: " + err.Error()}
		} else {
			m.Close()
		}
		if run, err = startSvc(doc, 2); err != nil && attempt >= 3 {
			return expiryOutcome{harness: err.Error()}
		}
	}
	defer func() { run.stop(30 * time.Second) }()
	out.labels = append(out.labels, "nat-timeout-accepted-"+natTimeout)

	sid := mix64(c.Seed) | 1
	enc := func(pid uint64, pl []byte) []byte {
		return keys.EncodeClient(ssudp.ClientPacket{SID: sid, PID: pid, Type: ssudp.TypeClient, TS: uint64(time.Now().Unix()),
			Addr: ssudp.Addr{IP: tgt.addr.Addr(), Port: tgt.addr.Port()}.Wire(), Payload: pl}, nil)
	}
	pl0, pl1 := tagPayload(c.Seed<<20|1, 32), tagPayload(c.Seed<<20|2, 32)
	p0 := enc(0, pl0)
	sent := time.Now()
	if _, err := cl.WriteToUDPAddrPort(p0, lis[0]); err != nil {
		out.harness = err.Error()
		return
	}
	if !tgt.waitKeys(liveWait(), []string{string(pl0)}) {
		out.v = livenessf("SIG=C04/svc-fresh-not-delivered the first packet of a session (id 0) was not delivered within %s (natTimeout %s, listener batchMode %s)", liveWait(), natTimeout, firstBatch)
		return
	}
	// wait the NAT timeout out
	const msg = "Finished relay serverConn <- natConn"
	dl := time.Now().Add(d + 5*time.Second)
	for run.logs.FilterMessage(msg).Len() == 0 && time.Now().Before(dl) {
		time.Sleep(25 * time.Millisecond)
	}
	if run.logs.FilterMessage(msg).Len() == 0 {
		out.labels = append(out.labels, "eviction-unobserved")
		return
	}
	time.Sleep(30 * time.Millisecond) // the table entry is removed right after that log line
	age := time.Since(sent)
	if age > 27*time.Second && age < 33*time.Second {
		out.labels = append(out.labels, "replay-age-near-timestamp-boundary-unjudged")
		return
	}
	if age <= 27*time.Second {
		out.labels = append(out.labels, "replay-after-eviction-with-valid-timestamp")
	} else {
		out.labels = append(out.labels, "replay-after-eviction-stale", "first-packet-invalid-after-nat-timeout")
	}
	if _, err := cl.WriteToUDPAddrPort(p0, lis[1]); err != nil {
		out.harness = err.Error()
		return
	}
	if _, err := cl.WriteToUDPAddrPort(enc(1, pl1), lis[1]); err != nil {
		out.harness = err.Error()
		return
	}
	ok := tgt.waitKeys(liveWait(), []string{string(pl1)})
	time.Sleep(2 * time.Millisecond)
	tgt.mu.Lock()
	n0, n1, total := tgt.count[string(pl0)], tgt.count[string(pl1)], len(tgt.got)
	tgt.mu.Unlock()
	switch {
	case n0 > 1:
		out.v = safetyf("SIG=C04/svc-replay-after-eviction-delivered packet 0 of session %#x was delivered via listener 0 [%s], its table entry expired after natTimeout %s, and its byte-identical replay %s later via listener 1 [%s] was delivered again (%d deliveries)",
			sid, firstBatch, natTimeout, age.Round(time.Millisecond), second, n0)
	case !ok || n1 == 0:
		out.v = livenessf("SIG=C04/svc-fresh-not-delivered genuine packet 1 of session %#x, sent after the session's table entry expired (natTimeout %s) and after a replay of packet 0, was not delivered within %s", sid, natTimeout, liveWait())
	case n1 > 1 || total != 2:
		out.v = safetyf("SIG=C04/svc-delivered-twice the target received %d datagrams (packet 0: %d, packet 1: %d), want one each", total, n0, n1)
	default:
		out.labels = append(out.labels, "genuine-after-eviction-delivered")
	}
	return
}

func expirySeed() uint64 {
	var s uint64 = 11
	fmt.Sscan(os.Getenv("VERIF_SEED"), &s)
	return s
}

func runExpiryMatrix(t *testing.T, rec *ev.Recorder, timeouts []string) {
	type job struct {
		nt, batch string
		c         pcfg
	}
	var jobs []job
	seed := expirySeed()
	for i, nt := range timeouts {
		for j, b := range []string{"no", "sendmmsg"} {
			k := uint64(i*2 + j)
			jobs = append(jobs, job{nt, b, pcfg{KeyLen: []int{16, 32}[(k+seed)%2], EIH: (k/2+seed)%2 == 1, Size: []uint64{0, 64, 1000}[(k+seed)%3], Seed: mix64(seed*131 + k)}.norm()})
		}
	}
	outs := make([]expiryOutcome, len(jobs))
	var wg sync.WaitGroup
	for i, j := range jobs {
		wg.Go(func() {
			outs[i] = runExpiry(j.nt, j.batch, j.c)
			if v := outs[i].v; v != nil && v.liveness && outs[i].harness == "" {
				outs[i] = runExpiry(j.nt, j.batch, j.c) // a missed liveness bound is retried once
			}
		})
	}
	wg.Wait()
	for i, o := range outs {
		j := jobs[i]
		if o.harness != "" {
			t.Fatalf("SIG=C04/harness %s (natTimeout %s, first listener %s)", o.harness, j.nt, j.batch)
		}
		if o.v != nil {
			t.Fatalf("%s\ncfg=%s", o.v.msg, j.c)
		}
		labels := append([]string{"first-listener-" + j.batch}, o.labels...)
		if d, _ := time.ParseDuration(j.nt); d < 60*time.Second {
			labels = append(labels, "nat-timeout-below-replay-window")
		}
		rec.Case(j.nt+"|"+j.batch, true, labels...)
	}
}

// TestServiceShortNATTimeout: NAT timeouts below the timestamp validity.
func TestServiceShortNATTimeout(t *testing.T) {
	runExpiryMatrix(t, recSvcExpiry, []string{"1s", "5s"})
}

// TestServiceNATExpiry waits the minimum accepted NAT timeout out (about 65 s of wall time, no CPU).
func TestServiceNATExpiry(t *testing.T) {
	runExpiryMatrix(t, recSvcExpiryLong, []string{"60s"})
}
