package c04

import (
	"encoding/json"
	"fmt"
	"net/netip"
	"os"
	"sort"
	"strings"
	"testing"
	"time"

	"pgregory.net/rapid"

	"verif/internal/ev"
	"verif/internal/ssudp"
)

// ---------------------------------------------------------------------------------------------
// Downlink side: a socks5 / none / direct server whose outbound client is Shadowsocks 2022. The
// harness is the application in front of the relay (one or two sockets = NAT sessions) and the
// upstream ss2022 server behind it (written with the independent codec). One service runs two
// servers that differ only in the listener's batch mode ("sendmmsg" and "no") and share the same
// ss2022 client, and the same plan is played to both: bursts of server packets - fresh ones mixed
// with replayed, re-encrypted-with-a-delivered-id, forged, stale, wrong-type, truncated and
// foreign-session packets - are handed to the kernel in one sendmmsg call so that in batch mode
// they share a recvmmsg batch of the relay's NAT socket. The application must receive every fresh
// payload exactly once with the exact bytes and never one of the others, in both modes.
// ---------------------------------------------------------------------------------------------

var recSvcDownlink = ev.New("C04", "service-downlink",
	"rapid, real time, real service on loopback: two servers (socks5|none|direct, same protocol) that differ only in batchMode sendmmsg/no, both routed to one ss2022 client "+
		"(aes-128/256 x iPSK on/off x window {omitted,64,1000}; relayBatchSize {omitted,2,8}); harness = 1-2 application sockets per server and the upstream ss2022 server "+
		"(independent codec). 1-5 bursts of 1-14 server packets per NAT session, written in one sendmmsg call (3 of 4) or a loop: fresh (next id / skipping / filling a gap), "+
		"byte-identical replay (earlier burst or same burst), re-encrypted packet with a delivered id, wrong-key body, bit flip, stale timestamp, wrong type, truncated, foreign key, "+
		"foreign session (the other NAT session's client session id, or one flipped bit); the first server packet of a session is invalid in about half the cases. "+
		"A fence (fresh packet) after each burst orders the check. Oracle: per application socket the delivered multiset = the fresh packets, once each, exact datagram bytes "+
		"(protocol header with the payload source + payload); the two batch modes are also compared with each other. "+
		"Non-trivial: some burst has a must-drop packet directly followed by a fresh one AND the sendmmsg relay wrote >= 2 packets in one batch; distinct = protocol x label set").
	Require("proto-socks5", "proto-none", "proto-direct", "downlink-batch-shared", "burst-rejected-then-fresh", "burst-replay-of-same-burst",
		"dl-replay", "dl-reused-id", "dl-bad-body", "dl-bit-flip", "dl-stale-ts", "dl-wrong-type", "dl-foreign-session", "dl-foreign-session-real-csid",
		"first-server-packet-invalid", "two-nat-sessions")

const (
	dkFresh = iota
	dkReplay
	dkReID
	dkBad
)

const (
	dbBadBody = iota
	dbBitFlip
	dbStale
	dbWrongType
	dbTruncated
	dbForeignKey
	dbForeignSession
	dbKinds
)

var dbNames = [...]string{"bad-body", "bit-flip", "stale-ts", "wrong-type", "truncated", "foreign-key", "foreign-session"}

type dlItem struct {
	Kind int    `json:"k"`
	Bad  int    `json:"bad,omitempty"`
	IDk  int    `json:"idk,omitempty"`
	PLen int    `json:"plen,omitempty"`
	Pick uint64 `json:"pick,omitempty"`
}

type dlBurst struct {
	App   int      `json:"app"`
	Mmsg  bool     `json:"mmsg,omitempty"`
	Items []dlItem `json:"items"`
}

type dlPlan struct {
	Cfg        pcfg      `json:"cfg"`
	Proto      string    `json:"proto"`
	RelayBatch int       `json:"relay_batch,omitempty"`
	Apps       int       `json:"apps"`
	Bursts     []dlBurst `json:"bursts"`
}

func (p dlPlan) String() string { b, _ := json.Marshal(p); return string(b) }

func drawDLPlan(rt *rapid.T) dlPlan {
	p := dlPlan{
		Cfg: pcfg{
			KeyLen: rapid.SampledFrom([]int{16, 32}).Draw(rt, "keylen"),
			EIH:    rapid.Bool().Draw(rt, "eih"),
			Size:   rapid.SampledFrom([]uint64{0, 64, 1000}).Draw(rt, "window"),
			Seed:   rapid.Uint64().Draw(rt, "seed"),
		}.norm(),
		Proto:      rapid.SampledFrom([]string{"socks5", "none", "direct"}).Draw(rt, "proto"),
		RelayBatch: rapid.SampledFrom([]int{0, 0, 2, 8}).Draw(rt, "relay-batch"),
		Apps:       rapid.IntRange(1, 2).Draw(rt, "apps"),
	}
	started := make([]bool, p.Apps)
	for range rapid.IntRange(1, 5).Draw(rt, "bursts") {
		b := dlBurst{App: rapid.IntRange(0, p.Apps-1).Draw(rt, "app"), Mmsg: rapid.IntRange(0, 3).Draw(rt, "mmsg") > 0}
		for range rapid.IntRange(1, 14).Draw(rt, "items") {
			it := dlItem{
				IDk:  rapid.SampledFrom([]int{0, 0, 0, 1, 2, 2}).Draw(rt, "idk"),
				Bad:  rapid.IntRange(0, dbKinds-1).Draw(rt, "bad"),
				PLen: rapid.SampledFrom([]int{8, 9, 16, 64, 300, 1200}).Draw(rt, "plen"),
				Pick: rapid.Uint64().Draw(rt, "pick"),
			}
			kinds := []int{dkFresh, dkFresh, dkFresh, dkFresh, dkReplay, dkReplay, dkReID, dkBad, dkBad, dkBad}
			if !started[b.App] {
				kinds = []int{dkFresh, dkBad}
			}
			it.Kind = rapid.SampledFrom(kinds).Draw(rt, "kind")
			started[b.App] = true
			b.Items = append(b.Items, it)
		}
		p.Bursts = append(p.Bursts, b)
	}
	return p
}

// ---- executor ----

type dlPkt struct {
	wire  []byte
	key   string // the datagram the application would receive
	v, a  int    // server variant (0 sendmmsg, 1 no), application index
	ord   int    // ordinal of the plan item (same in both variants), -1-burst for fences
	pid   uint64
	must  bool
	kind  string
	done  bool
	count int
	at    time.Time
}

type dlSess struct {
	v, a  int
	app   *sink
	csid  uint64
	nat   netip.AddrPort
	ssid  uint64
	next  uint64
	gaps  []uint64
	pool  []*dlPkt // fresh packets sent so far
	any   bool     // a server packet has been sent to the session
	seen  int
	order []int // ords delivered, in arrival order
}

type dlExec struct {
	plan    dlPlan
	keys    ssudp.Keys
	wrong   ssudp.Keys
	dir     string
	run     *svcRun
	lis     [2]netip.AddrPort
	up      *sink
	upSeen  int
	sess    [2][]*dlSess
	exp     map[string]*dlPkt
	labels  map[string]bool
	tagCtr  uint64
	harness string
}

var dlSource = ssudp.Addr{IP: netip.MustParseAddr("192.0.2.7"), Port: 4433}

var dlVariant = [2]string{"sendmmsg", "no"}

func runDLPlan(p dlPlan) (res ssResult) {
	x := &dlExec{plan: p, keys: makeKeys(p.Cfg, 0), wrong: makeKeys(p.Cfg, 0xdeadbeefcafef00d), exp: map[string]*dlPkt{}, labels: map[string]bool{}}
	defer x.cleanup()
	v := x.setup()
	if v == nil && x.harness == "" {
		v = x.execute()
	}
	if v == nil && x.harness == "" {
		v = x.finish()
	}
	res.v, res.harness = v, x.harness
	for l := range x.labels {
		res.labels = append(res.labels, l)
	}
	sort.Strings(res.labels)
	return res
}

func (x *dlExec) cleanup() {
	if x.run != nil {
		x.run.stop(30 * time.Second)
	}
	if x.up != nil {
		x.up.close()
	}
	for v := range x.sess {
		for _, s := range x.sess[v] {
			s.app.close()
		}
	}
	if x.dir != "" {
		os.RemoveAll(x.dir)
	}
}

func (x *dlExec) newTag() uint64 {
	x.tagCtr++
	return x.plan.Cfg.Seed<<20 | x.tagCtr
}

// appFrame is the datagram the application exchanges with the relay for a payload whose peer is addr.
func (x *dlExec) appFrame(addr ssudp.Addr, payload []byte) []byte {
	var b []byte
	switch x.plan.Proto {
	case "socks5":
		b = append(b, 0, 0, 0)
		b = append(b, addr.Wire()...)
	case "none":
		b = append(b, addr.Wire()...)
	}
	return append(b, payload...)
}

func (x *dlExec) buildDoc() ([]byte, error) {
	var servers []any
	for v, mode := range dlVariant {
		port, err := freeUDPPort(lo[0])
		if err != nil {
			return nil, err
		}
		x.lis[v] = netip.AddrPortFrom(lo[0], port)
		lj := jmap{"network": "udp", "address": x.lis[v].String(), "batchMode": mode}
		if x.plan.RelayBatch != 0 {
			lj["relayBatchSize"] = x.plan.RelayBatch
		}
		srv := jmap{"name": "srv-" + mode, "protocol": x.plan.Proto, "udpListeners": []any{lj}, "mtu": 1500}
		if x.plan.Proto == "direct" {
			srv["tunnelRemoteAddress"] = dlSource.String()
		}
		servers = append(servers, srv)
	}
	doc := jmap{"servers": servers, "clients": []any{ss2022ClientJSON("out", x.keys, x.plan.Cfg.sizeArg(), x.up.addr)}}
	return json.MarshalIndent(doc, "", " ")
}

func (x *dlExec) setup() *svcViolation {
	var err error
	if x.dir, err = caseDir(); err != nil {
		x.harness = err.Error()
		return nil
	}
	if x.up, err = newSink(lo[0]); err != nil {
		x.harness = err.Error()
		return nil
	}
	var last error
	for range 4 {
		doc, err := x.buildDoc()
		if err != nil {
			last = err
			continue
		}
		if x.run, err = startSvc(doc, 2); err == nil {
			break
		}
		last = err
	}
	if x.run == nil {
		x.harness = fmt.Sprintf("could not start the service: %v", last)
		return nil
	}
	// open the NAT sessions: one datagram from every application socket through its server; the upstream
	// learns the NAT socket's address and the client session id from what arrives
	for v := range dlVariant {
		for a := range x.plan.Apps {
			app, err := newSink(lo[0])
			if err != nil {
				x.harness = err.Error()
				return nil
			}
			s := &dlSess{v: v, a: a, app: app, ssid: mix64(x.plan.Cfg.Seed^uint64(v)<<8^uint64(a)) | 1, next: []uint64{0, 0, 1000, 1 << 40}[mix64(x.plan.Cfg.Seed+uint64(a))%4]}
			x.sess[v] = append(x.sess[v], s)
			opening := tagPayload(x.newTag(), 16)
			ok := false
			for try := 0; try < 3 && !ok; try++ {
				if _, err := app.c.WriteToUDPAddrPort(x.appFrame(dlSource, opening), x.lis[v]); err != nil {
					x.harness = "send: " + err.Error()
					return nil
				}
				ok = x.up.waitUntil(liveWait()/2, func() bool {
					for ; x.upSeen < len(x.up.got); x.upSeen++ {
						d := x.up.got[x.upSeen]
						cp, err := x.keys.DecodeClient(d.data)
						if err == nil && string(cp.Payload) == string(opening) {
							s.csid, s.nat = cp.SID, d.from
							x.upSeen++
							return true
						}
					}
					return false
				})
			}
			if !ok {
				return livenessf("SIG=C04/svc-downlink-harness-uplink the opening datagram of application %d did not reach the upstream through server %s within %s (3 tries)", a, dlVariant[v], liveWait()/2)
			}
		}
	}
	if x.plan.Apps == 2 {
		x.labels["two-nat-sessions"] = true
	}
	return nil
}

func (s *dlSess) freshID(idk int, pick uint64) uint64 {
	for len(s.gaps) > 0 && s.next-s.gaps[0] > 40 {
		s.gaps = s.gaps[1:]
	}
	switch {
	case idk == 2 && len(s.gaps) > 0:
		i := int(pick % uint64(len(s.gaps)))
		id := s.gaps[i]
		s.gaps = append(s.gaps[:i], s.gaps[i+1:]...)
		return id
	case idk == 1:
		for range 1 + pick%5 {
			s.gaps = append(s.gaps, s.next)
			s.next++
		}
	}
	id := s.next
	s.next++
	return id
}

func (x *dlExec) encode(k ssudp.Keys, bodyPSK []byte, s *dlSess, csid, pid uint64, typ byte, ts uint64, payload []byte, pad int) []byte {
	return k.EncodeServer(ssudp.ServerPacket{SID: s.ssid, PID: pid, Type: typ, TS: ts, CSID: csid, PadLen: pad, Addr: dlSource.Wire(), Payload: payload}, bodyPSK)
}

func (x *dlExec) register(p *dlPkt) *dlPkt { x.exp[p.key] = p; return p }

// build turns the items of a burst into the wire packets for one NAT session.
func (x *dlExec) build(bi int, b dlBurst, s *dlSess) []outMsg {
	var msgs []outMsg
	inBurst := map[*dlPkt]bool{}
	prevDrop := false
	for ii, it := range b.Items {
		it.Pick = mix64(it.Pick)
		now := time.Now()
		ts := uint64(now.Unix())
		ord := bi<<8 | ii
		kind := it.Kind
		var ref *dlPkt
		if kind == dkReplay || kind == dkReID {
			var cands []*dlPkt
			for _, c := range s.pool {
				if now.Sub(c.at) < 20*time.Second && (kind == dkReplay || !inBurst[c]) {
					cands = append(cands, c)
				}
			}
			if len(cands) == 0 {
				kind = dkFresh
			} else {
				if it.Pick>>8&3 != 0 && len(cands) > 4 {
					cands = cands[len(cands)-4:]
				}
				ref = cands[it.Pick%uint64(len(cands))]
			}
		}
		first := !s.any
		s.any = true
		drop := true
		switch kind {
		case dkFresh:
			pid := s.freshID(it.IDk, it.Pick)
			pl := tagPayload(x.newTag(), it.PLen)
			pad := 0
			if it.Pick>>20&3 == 0 {
				pad = int(it.Pick >> 24 & 63)
			}
			p := x.register(&dlPkt{key: string(x.appFrame(dlSource, pl)), v: s.v, a: s.a, ord: ord, pid: pid, must: true, kind: "fresh", at: now})
			p.wire = x.encode(x.keys, nil, s, s.csid, pid, ssudp.TypeServer, ts, pl, pad)
			s.pool = append(s.pool, p)
			inBurst[p] = true
			msgs = append(msgs, outMsg{p.wire, s.nat})
			drop = false
			if prevDrop {
				x.labels["burst-rejected-then-fresh"] = true
			}
		case dkReplay:
			x.labels["dl-replay"] = true
			if inBurst[ref] {
				x.labels["burst-replay-of-same-burst"] = true
			} else {
				x.labels["burst-replay-of-earlier-burst"] = true
			}
			msgs = append(msgs, outMsg{ref.wire, s.nat})
		case dkReID:
			x.labels["dl-reused-id"] = true
			pl := tagPayload(x.newTag(), it.PLen)
			p := x.register(&dlPkt{key: string(x.appFrame(dlSource, pl)), v: s.v, a: s.a, ord: ord, pid: ref.pid, kind: "re-encrypted packet with an already delivered id", at: now})
			p.wire = x.encode(x.keys, nil, s, s.csid, ref.pid, ssudp.TypeServer, ts, pl, 0)
			msgs = append(msgs, outMsg{p.wire, s.nat})
		case dkBad:
			bad := it.Bad
			pid := s.next // the id the next fresh packet will carry
			if it.Pick>>30&3 == 0 && len(s.pool) > 0 {
				pid = s.pool[it.Pick>>32%uint64(len(s.pool))].pid
			}
			pl := tagPayload(x.newTag(), it.PLen)
			p := x.register(&dlPkt{key: string(x.appFrame(dlSource, pl)), v: s.v, a: s.a, ord: ord, pid: pid, kind: dbNames[bad], at: now})
			switch bad {
			case dbBadBody:
				p.wire = x.encode(x.keys, x.wrong.PSK, s, s.csid, pid, ssudp.TypeServer, ts, pl, 0)
			case dbBitFlip:
				p.wire = flipBit(x.encode(x.keys, nil, s, s.csid, pid, ssudp.TypeServer, ts, pl, 0), it.Pick>>3)
			case dbStale:
				offs := []int64{-40, 40, -120, 3600, -86400, 1 << 40, -(1 << 40)}
				p.wire = x.encode(x.keys, nil, s, s.csid, pid, ssudp.TypeServer, uint64(int64(ts)+offs[it.Pick>>3%uint64(len(offs))]), pl, 0)
			case dbWrongType:
				typ := byte(ssudp.TypeClient)
				if it.Pick>>3&3 == 0 {
					typ = byte(2 + it.Pick>>5%254)
				}
				p.wire = x.encode(x.keys, nil, s, s.csid, pid, typ, ts, pl, 0)
			case dbTruncated:
				w := x.encode(x.keys, nil, s, s.csid, pid, ssudp.TypeServer, ts, pl, 0)
				p.wire = w[:it.Pick>>3%uint64(len(w))]
			case dbForeignKey:
				p.wire = x.encode(x.wrong, nil, s, s.csid, pid, ssudp.TypeServer, ts, pl, 0)
			case dbForeignSession:
				// made for another client session: the other NAT session of the same server, or one flipped bit
				csid := s.csid ^ 1<<(it.Pick>>3%64)
				if len(x.sess[s.v]) == 2 && it.Pick>>10&1 == 0 {
					csid = x.sess[s.v][1-s.a].csid
					x.labels["dl-foreign-session-real-csid"] = true
				}
				p.wire = x.encode(x.keys, nil, s, csid, pid, ssudp.TypeServer, ts, pl, 0)
			}
			x.labels["dl-"+dbNames[bad]] = true
			if first {
				x.labels["first-server-packet-invalid"] = true
				x.labels["first-server-packet-"+dbNames[bad]] = true
			}
			msgs = append(msgs, outMsg{p.wire, s.nat})
		}
		prevDrop = drop
	}
	return msgs
}

func (x *dlExec) execute() *svcViolation {
	for bi, b := range x.plan.Bursts {
		var fences [2]*dlPkt
		for v := range dlVariant {
			s := x.sess[v][b.App]
			msgs := x.build(bi, b, s)
			if err := sendBurst(x.up.c, msgs, b.Mmsg); err != nil {
				x.harness = "send: " + err.Error()
				return nil
			}
			now := time.Now()
			pl := tagPayload(x.newTag(), 12)
			f := x.register(&dlPkt{key: string(x.appFrame(dlSource, pl)), v: v, a: s.a, ord: -1 - bi, pid: s.freshID(0, 0), must: true, kind: "fence", at: now})
			f.wire = x.encode(x.keys, nil, s, s.csid, f.pid, ssudp.TypeServer, uint64(now.Unix()), pl, 0)
			s.pool = append(s.pool, f)
			if _, err := x.up.c.WriteToUDPAddrPort(f.wire, s.nat); err != nil {
				x.harness = "send: " + err.Error()
				return nil
			}
			fences[v] = f
		}
		deadline := time.Now().Add(liveWait())
		for v := range dlVariant {
			s := x.sess[v][b.App]
			var want []string
			for _, p := range s.pool {
				if !p.done {
					want = append(want, p.key)
				}
			}
			s.app.waitKeys(time.Until(deadline), want)
		}
		if v := x.judge(); v != nil {
			return v
		}
		for v := range dlVariant {
			for _, p := range x.sess[v][b.App].pool {
				if !p.done {
					return livenessf("SIG=C04/svc-downlink-fresh-not-delivered batchMode=%s proto=%s: the application did not receive the payload of a genuine %s server packet (id %d, item %s of burst %d) within %s; burst=%s",
						dlVariant[v], x.plan.Proto, p.kind, p.pid, ordString(p.ord), bi, liveWait(), burstString(b))
				}
			}
		}
	}
	return nil
}

func ordString(ord int) string {
	if ord < 0 {
		return "fence"
	}
	return fmt.Sprint(ord & 255)
}

func burstString(b dlBurst) string {
	var sb strings.Builder
	for i, it := range b.Items {
		if i > 0 {
			sb.WriteByte(' ')
		}
		switch it.Kind {
		case dkFresh:
			sb.WriteString("fresh")
		case dkReplay:
			sb.WriteString("replay")
		case dkReID:
			sb.WriteString("reused-id")
		default:
			sb.WriteString(dbNames[it.Bad])
		}
	}
	return "[" + sb.String() + "] mmsg=" + fmt.Sprint(b.Mmsg)
}

func (x *dlExec) judge() *svcViolation {
	for v := range dlVariant {
		for _, s := range x.sess[v] {
			news := s.app.since(s.seen)
			s.seen += len(news)
			for _, d := range news {
				p := x.exp[string(d.data)]
				where := fmt.Sprintf("batchMode=%s proto=%s application %d", dlVariant[v], x.plan.Proto, s.a)
				switch {
				case p == nil && d.from != x.lis[v]:
					// not from the relay's listener: a stray datagram of another process on this shared machine
					x.labels["stray-datagram-ignored"] = true
					continue
				case p == nil:
					return safetyf("SIG=C04/svc-downlink-unknown-datagram %s received %d bytes that no fresh server packet carried: % x", where, len(d.data), d.data[:min(len(d.data), 32)])
				case !p.must:
					return safetyf("SIG=C04/svc-downlink-rejected-delivered %s received the payload of a server packet that must be dropped: %s (id %d, item %s of burst %d: %s)",
						where, p.kind, p.pid, ordString(p.ord), p.ord>>8, burstString(x.plan.Bursts[p.ord>>8]))
				case p.v != v || p.a != s.a:
					return safetyf("SIG=C04/svc-downlink-wrong-session %s received a payload sent to the NAT session of application %d of server %s", where, p.a, dlVariant[p.v])
				}
				p.count++
				p.done = true
				if p.count > 1 {
					return safetyf("SIG=C04/svc-downlink-delivered-twice %s received the payload of server packet id %d (%s) %d times", where, p.pid, p.kind, p.count)
				}
				s.order = append(s.order, p.ord)
			}
		}
	}
	return nil
}

func (x *dlExec) finish() *svcViolation {
	time.Sleep(5 * time.Millisecond)
	if v := x.judge(); v != nil {
		return v
	}
	if !x.run.stop(30 * time.Second) {
		x.harness = "the service did not stop within 30 s"
		x.run = nil
		return nil
	}
	for _, n := range x.run.logInts("Finished relay serverConn <- natConn", "burstBatchSize") {
		if n >= 2 {
			x.labels["downlink-batch-shared"] = true
		}
	}
	x.run = nil
	time.Sleep(2 * time.Millisecond)
	if v := x.judge(); v != nil {
		return v
	}
	// differential: both batch modes delivered the same plan items to each application
	for a := range x.plan.Apps {
		m, n := append([]int(nil), x.sess[0][a].order...), append([]int(nil), x.sess[1][a].order...)
		sort.Ints(m)
		sort.Ints(n)
		if fmt.Sprint(m) != fmt.Sprint(n) {
			return safetyf("SIG=C04/svc-downlink-batch-differential proto=%s application %d: the items delivered with batchMode sendmmsg (%v) differ from those delivered with batchMode no (%v)", x.plan.Proto, a, m, n)
		}
	}
	return nil
}

func TestServiceDownlink(t *testing.T) {
	rapid.Check(t, func(rt *rapid.T) {
		p := drawDLPlan(rt)
		done := journal("svc-downlink", p)
		res := runDLPlan(p)
		if res.v != nil && res.v.liveness && res.harness == "" {
			again := runDLPlan(p)
			if again.v == nil && again.harness == "" {
				recSvcDownlink.Label("liveness-retry-passed", 1)
			}
			res = again
		}
		done()
		if res.harness != "" {
			rt.Fatalf("SIG=C04/harness %s\nplan=%s", res.harness, p)
		}
		if res.v != nil {
			rt.Fatalf("%s\nplan=%s", res.v.msg, p)
		}
		has := map[string]bool{}
		for _, l := range res.labels {
			has[l] = true
		}
		labels := append([]string{"proto-" + p.Proto, fmt.Sprintf("relay-batch-%d", p.RelayBatch)}, res.labels...)
		if p.Cfg.EIH {
			labels = append(labels, "ipsk")
		} else {
			labels = append(labels, "no-ipsk")
		}
		nt := has["burst-rejected-then-fresh"] && has["downlink-batch-shared"]
		recSvcDownlink.Case(p.Proto+"|"+strings.Join(res.labels, ","), nt, labels...)
		if nt {
			recSvcDownlink.Sample(map[string]any{"proto": p.Proto, "apps": p.Apps, "bursts": len(p.Bursts), "labels": res.labels})
		}
	})
}

// TestReplayServiceDownlink re-runs a journaled plan ($VERIF_REPLAY) outside rapid.
func TestReplayServiceDownlink(t *testing.T) {
	f := os.Getenv("VERIF_REPLAY")
	if f == "" || !strings.Contains(f, "journal-svc-downlink") {
		t.Skip("no service-downlink journal to replay")
	}
	b, err := os.ReadFile(f)
	if err != nil {
		t.Fatal(err)
	}
	var p dlPlan
	if err := json.Unmarshal(b, &p); err != nil {
		t.Fatal(err)
	}
	res := runDLPlan(p)
	if res.harness != "" {
		t.Fatalf("SIG=C04/harness %s", res.harness)
	}
	if res.v != nil {
		t.Fatalf("%s\nplan=%s", res.v.msg, p)
	}
}
