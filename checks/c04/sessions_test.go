package c04

import (
	"fmt"
	"sort"
	"strings"
	"testing"
	"testing/synctest"
	"time"

	"github.com/database64128/shadowsocks-go/zerocopy"
	"pgregory.net/rapid"

	"verif/internal/ev"
)

// ---------------------------------------------------------------------------------------------
// Several consecutive sessions on ONE long-lived ss2022.UDPClient / ss2022.UDPServer object, the
// way the service uses them (every NAT session routed to a client calls NewSession on the same
// object and Close when it ends). A new client session owes nothing to the previous one: it is
// judged by a fresh reference model, so in particular the first authentic packet of its first
// server session must be accepted however recently the previous session adopted or changed a
// server session, and authentic packets addressed to the previous client session must be dropped.
// ---------------------------------------------------------------------------------------------

var sessionGaps = []time.Duration{0, time.Second, 59 * time.Second, time.Minute - time.Nanosecond, time.Minute, 61 * time.Second}

var recCliSessions = ev.New("C04", "client-object-sessions",
	"rapid + synctest bubble: 2-4 consecutive client sessions opened with NewSession on the same ss2022.UDPClient object (and served by the same UDPServer object), "+
		"each: first server packet presented at once, then a short drawn history (<=30 steps, 0-1 scripted server-session change), Close, virtual-time gap from "+
		"{0, 1 s, 59 s, 60 s-1 ns, 60 s, 61 s}, next NewSession; packets of the previous client session are replayed into the new one. Every session is judged by a fresh "+
		"reference model (packet-client oracle incl. the twin universe). Non-trivial: a later session adopted its first server session less than a minute after the "+
		"previous session's last adoption; distinct key = config + gaps + verdict strings").
	Require("second-session-on-same-client-within-a-minute", "second-session-after-a-minute", "earlier-session-packet-dropped",
		"gap-0s", "gap-1s", "gap-59s", "gap-1m1s", "later-session-change-accepted", "later-session-change-refused", "third-session")

type sessionsCase struct {
	cfg   pcfg
	plans [][]step
	gaps  []time.Duration
}

func drawSessionsCase(rt *rapid.T, clientSide bool) sessionsCase {
	sc := sessionsCase{cfg: drawCfg(rt)}
	n := rapid.IntRange(2, 4).Draw(rt, "sessions")
	for i := range n {
		// the session's first packet is presented immediately
		plan := []step{{Op: opPack, N: rapid.IntRange(1, 3).Draw(rt, "n0"), Sess: -1}, {Op: opDeliver, Span: rapid.IntRange(0, 1).Draw(rt, "span0"), Pick: rapid.Uint64().Draw(rt, "pick0")}}
		if rapid.IntRange(0, 2).Draw(rt, "more") > 0 {
			attempts := 0
			if clientSide {
				attempts = rapid.IntRange(0, 1).Draw(rt, "attempts")
			}
			plan = append(plan, drawPlanN(rt, clientSide, 30, attempts, rapid.IntRange(0, 1).Draw(rt, "tempo"))...)
		}
		sc.plans = append(sc.plans, plan)
		if i+1 < n {
			sc.gaps = append(sc.gaps, rapid.SampledFrom(sessionGaps).Draw(rt, "gap"))
		}
	}
	return sc
}

func (sc sessionsCase) String() string {
	var b strings.Builder
	fmt.Fprintf(&b, "cfg=%s gaps=%v", sc.cfg, sc.gaps)
	for i, p := range sc.plans {
		fmt.Fprintf(&b, "\nsession[%d]=%s", i, planString(p))
	}
	return b.String()
}

func TestClientObjectSessions(t *testing.T) {
	rapid.Check(t, func(rt *rapid.T) {
		sc := drawSessionsCase(rt, true)
		var res pktResult
		synctest.Test(t, func(t *testing.T) { res = runClientSessions(sc) })
		if res.violation != "" {
			rt.Fatalf("%s\n%s", res.violation, sc)
		}
		labels := sortedLabels(res.labels)
		recCliSessions.Case(fmt.Sprintf("%s|%v|%s", sc.cfg, sc.gaps, res.verdicts), res.nt, labels...)
		if res.nt {
			recCliSessions.Sample(map[string]any{"cfg": sc.cfg, "gaps": fmt.Sprint(sc.gaps), "verdicts": clip(string(res.verdicts), 120), "labels": strings.Join(labels, ",")})
		}
	})
}

func sortedLabels(m map[string]bool) []string {
	out := make([]string, 0, len(m))
	for l := range m {
		out = append(out, l)
	}
	sort.Strings(out)
	return out
}

func runClientSessions(sc sessionsCase) (res pktResult) {
	defer guard(&res)
	res.labels = map[string]bool{}
	var peers [2]*peer
	for i := range peers {
		p, err := newPeer(sc.cfg, uint64(i+1))
		if err != nil {
			res.violation = "SIG=C04/harness " + err.Error()
			return res
		}
		peers[i] = p
	}
	var prev sessionTrace
	var carry *[2][]*pkt
	for i, plan := range sc.plans {
		r, tr := runClientSession(sc.cfg, plan, peers, carry)
		if r.violation != "" {
			sig := r.violation
			if i > 0 {
				// the same oracle, but the failing session is not the first one of its client object
				sig = strings.Replace(sig, "SIG=C04/pkt-client-", "SIG=C04/pkt-client-later-session-", 1)
			}
			res.violation = fmt.Sprintf("%s\n(session %d of %d on the same UDPClient object; previous session adopted its last server session %v before this one opened)",
				sig, i+1, len(sc.plans), sinceOrNever(prev.established, time.Now(), prev.lastAdopt))
			return res
		}
		for l := range r.labels {
			res.labels[l] = true
			if i > 0 && (l == "change-accepted" || l == "change-refused") {
				res.labels["later-session-"+l] = true
			}
		}
		res.verdicts = append(append(res.verdicts, r.verdicts...), '|')
		if i > 0 && tr.established && prev.established {
			if tr.firstAdopt.Sub(prev.lastAdopt) < time.Minute {
				res.labels["second-session-on-same-client-within-a-minute"] = true
				res.nt = true
			} else {
				res.labels["second-session-after-a-minute"] = true
			}
		}
		if i == 2 {
			res.labels["third-session"] = true
		}
		// the session ends: the service calls Close, which is where an implementation may recycle state
		for _, cl := range tr.close {
			if cl != nil {
				cl()
			}
		}
		if tr.established {
			prev = tr
		}
		c := tr.carry
		carry = &c
		if i < len(sc.gaps) {
			res.labels["gap-"+sc.gaps[i].Truncate(time.Second).String()] = true
			time.Sleep(sc.gaps[i])
		}
	}
	return res
}

var recSrvSessions = ev.New("C04", "server-object-sessions",
	"rapid + synctest bubble: 2-4 consecutive client sessions (NewSession on one UDPClient object) against ONE ss2022.UDPServer object and one persistent session table "+
		"(mirror of the service dispatch), each with a short drawn history (<=30 steps) and virtual-time gaps {0..61 s}; every client session id is judged by a fresh "+
		"set+max model (packet-server oracle incl. the second table). Non-trivial: a later session delivered a packet; distinct key = config + gaps + verdict strings").
	Require("second-session-on-same-server", "third-session", "dup", "ooo-in-window", "forged-bad")

func TestServerObjectSessions(t *testing.T) {
	rapid.Check(t, func(rt *rapid.T) {
		sc := drawSessionsCase(rt, false)
		var res pktResult
		synctest.Test(t, func(t *testing.T) { res = runServerSessions(sc) })
		if res.violation != "" {
			rt.Fatalf("%s\n%s", res.violation, sc)
		}
		labels := sortedLabels(res.labels)
		recSrvSessions.Case(fmt.Sprintf("%s|%v|%s", sc.cfg, sc.gaps, res.verdicts), res.nt, labels...)
		if res.nt {
			recSrvSessions.Sample(map[string]any{"cfg": sc.cfg, "gaps": fmt.Sprint(sc.gaps), "verdicts": clip(string(res.verdicts), 120)})
		}
	})
}

func runServerSessions(sc sessionsCase) (res pktResult) {
	defer guard(&res)
	res.labels = map[string]bool{}
	p, err := newPeer(sc.cfg, 0)
	if err != nil {
		res.violation = "SIG=C04/harness " + err.Error()
		return res
	}
	tabA := &serverTable{table: map[uint64]zerocopy.ServerUnpacker{}}
	tabB := &serverTable{table: map[uint64]zerocopy.ServerUnpacker{}}
	for i, plan := range sc.plans {
		r := runServerSession(sc.cfg, plan, p, tabA, tabB)
		if r.violation != "" {
			sig := r.violation
			if i > 0 {
				sig = strings.Replace(sig, "SIG=C04/pkt-server-", "SIG=C04/pkt-server-later-session-", 1)
			}
			res.violation = fmt.Sprintf("%s\n(client session %d of %d against the same UDPServer object)", sig, i+1, len(sc.plans))
			return res
		}
		for l := range r.labels {
			res.labels[l] = true
		}
		res.verdicts = append(append(res.verdicts, r.verdicts...), '|')
		if i > 0 && r.delivered > 0 {
			res.labels["second-session-on-same-server"] = true
			res.nt = true
		}
		if i == 2 {
			res.labels["third-session"] = true
		}
		if i < len(sc.gaps) {
			time.Sleep(sc.gaps[i])
		}
	}
	return res
}
