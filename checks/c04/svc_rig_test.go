package c04

import (
	"bytes"
	"context"
	"encoding/binary"
	"encoding/json"
	"errors"
	"fmt"
	"net"
	"net/netip"
	"os"
	"path/filepath"
	"runtime"
	"strings"
	"sync"
	"sync/atomic"
	"syscall"
	"time"
	"unsafe"

	"github.com/database64128/shadowsocks-go/service"
	"go.uber.org/zap"
	"go.uber.org/zap/zaptest/observer"
	"golang.org/x/sys/unix"

	"verif/internal/ssudp"
	"verif/internal/udpsvc"
)

// ---------------------------------------------------------------------------------------------
// Service level (round 6). The real program path: a generated JSON document is decoded into
// service.Config (unknown fields are errors), turned into a Manager and run on loopback sockets.
// The harness owns both ends: it writes Shadowsocks 2022 packets with verif/internal/ssudp (an
// encoder that shares no code with the repo, so any session id / packet id / timestamp / type can
// be put on the wire) and it owns the sockets on which the relay delivers. The oracle is a
// delivered-multiset model: every datagram carries a unique tag, the harness knows for every tag
// whether the statement requires it to be delivered (exactly once, exact content, right socket)
// or to be dropped.
// ---------------------------------------------------------------------------------------------

var lo = [...]netip.Addr{netip.MustParseAddr("127.0.0.1"), netip.MustParseAddr("127.0.0.2"), netip.MustParseAddr("127.0.0.3")}

type jmap = map[string]any

// rcvd is one datagram that reached a harness socket.
type rcvd struct {
	data []byte
	from netip.AddrPort
}

// sink is a harness-owned UDP socket that records everything it receives, in arrival order.
type sink struct {
	c     *net.UDPConn
	addr  netip.AddrPort
	mu    sync.Mutex
	cond  *sync.Cond
	got   []rcvd
	count map[string]int
	wg    sync.WaitGroup
}

func newSink(ip netip.Addr) (*sink, error) {
	c, err := net.ListenUDP("udp4", net.UDPAddrFromAddrPort(netip.AddrPortFrom(ip, 0)))
	if err != nil {
		return nil, err
	}
	c.SetReadBuffer(4 << 20)
	s := &sink{c: c, addr: c.LocalAddr().(*net.UDPAddr).AddrPort(), count: map[string]int{}}
	s.addr = netip.AddrPortFrom(s.addr.Addr().Unmap(), s.addr.Port())
	s.cond = sync.NewCond(&s.mu)
	s.wg.Go(func() {
		buf := make([]byte, 65536)
		for {
			n, from, err := c.ReadFromUDPAddrPort(buf)
			if err != nil {
				return
			}
			d := append([]byte(nil), buf[:n]...)
			s.mu.Lock()
			s.got = append(s.got, rcvd{data: d, from: netip.AddrPortFrom(from.Addr().Unmap(), from.Port())})
			s.count[string(d)]++
			s.cond.Broadcast()
			s.mu.Unlock()
		}
	})
	return s, nil
}

// waitUntil blocks until pred (evaluated under the sink's lock) holds or d has passed.
func (s *sink) waitUntil(d time.Duration, pred func() bool) bool {
	deadline := time.Now().Add(d)
	t := time.AfterFunc(d, func() { s.mu.Lock(); s.cond.Broadcast(); s.mu.Unlock() })
	defer t.Stop()
	s.mu.Lock()
	defer s.mu.Unlock()
	for !pred() {
		if !time.Now().Before(deadline) {
			return false
		}
		s.cond.Wait()
	}
	return true
}

// waitKeys waits until every key has been received at least once.
func (s *sink) waitKeys(d time.Duration, keys []string) bool {
	return s.waitUntil(d, func() bool {
		for _, k := range keys {
			if s.count[k] == 0 {
				return false
			}
		}
		return true
	})
}

// from returns the datagrams received since index i.
func (s *sink) since(i int) []rcvd {
	s.mu.Lock()
	defer s.mu.Unlock()
	return append([]rcvd(nil), s.got[i:]...)
}

func (s *sink) close() { s.c.Close(); s.wg.Wait() }

// outMsg is one datagram of a burst.
type outMsg struct {
	data []byte
	to   netip.AddrPort
}

type mmsghdr struct {
	hdr unix.Msghdr
	n   uint32
	_   [4]byte
}

// sendBurst puts all datagrams on the wire from c. With mmsg they are handed to the kernel in one
// sendmmsg(2) call, so they sit in the receiver's socket queue together before its reader wakes up
// (they then share a recvmmsg batch); otherwise they are written back to back.
func sendBurst(c *net.UDPConn, msgs []outMsg, mmsg bool) error {
	if len(msgs) == 0 {
		return nil
	}
	if !mmsg || len(msgs) == 1 {
		for _, m := range msgs {
			if _, err := c.WriteToUDPAddrPort(m.data, m.to); err != nil {
				return err
			}
		}
		return nil
	}
	names := make([]unix.RawSockaddrInet4, len(msgs))
	iov := make([]unix.Iovec, len(msgs))
	hdrs := make([]mmsghdr, len(msgs))
	for i, m := range msgs {
		if !m.to.Addr().Is4() {
			return fmt.Errorf("sendBurst: %s is not IPv4", m.to)
		}
		names[i].Family = unix.AF_INET
		p := (*[2]byte)(unsafe.Pointer(&names[i].Port))
		binary.BigEndian.PutUint16(p[:], m.to.Port())
		names[i].Addr = m.to.Addr().As4()
		if len(m.data) > 0 {
			iov[i].Base = &m.data[0]
		}
		iov[i].SetLen(len(m.data))
		hdrs[i].hdr.Name = (*byte)(unsafe.Pointer(&names[i]))
		hdrs[i].hdr.Namelen = unix.SizeofSockaddrInet4
		hdrs[i].hdr.Iov = &iov[i]
		hdrs[i].hdr.SetIovlen(1)
	}
	rc, err := c.SyscallConn()
	if err != nil {
		return err
	}
	off := 0
	var serr error
	err = rc.Write(func(fd uintptr) bool {
		for off < len(hdrs) {
			n, _, e := syscall.Syscall6(unix.SYS_SENDMMSG, fd, uintptr(unsafe.Pointer(&hdrs[off])), uintptr(len(hdrs)-off), 0, 0, 0)
			if e == syscall.EAGAIN {
				return false
			}
			if e == syscall.EINTR {
				continue
			}
			if e != 0 {
				serr = e
				return true
			}
			off += int(n)
		}
		return true
	})
	runtime.KeepAlive(msgs)
	runtime.KeepAlive(names)
	runtime.KeepAlive(iov)
	if err != nil {
		return err
	}
	return serr
}

// ---- running the real service ----

type svcRun struct {
	doc    []byte
	mgr    *service.Manager
	cancel context.CancelFunc
	done   chan struct{}
	ok     bool
	logs   *observer.ObservedLogs
}

var errSvcNotUp = errors.New("service listeners did not come up")

// startSvc decodes doc like the program does, builds the manager and runs it; it returns when
// `listeners` UDP listeners have reported that they are bound.
func startSvc(doc []byte, listeners int) (*svcRun, error) {
	udpsvc.InstallResolver()
	var cfg service.Config
	dec := json.NewDecoder(bytes.NewReader(doc))
	dec.DisallowUnknownFields()
	if err := dec.Decode(&cfg); err != nil {
		return nil, fmt.Errorf("config rejected by decoder: %w\n%s", err, doc)
	}
	core, logs := observer.New(zap.InfoLevel)
	mgr, err := cfg.Manager(zap.New(core))
	if err != nil {
		return nil, fmt.Errorf("config rejected by Manager: %w\n%s", err, doc)
	}
	ctx, cancel := context.WithCancel(context.Background())
	r := &svcRun{doc: doc, mgr: mgr, cancel: cancel, done: make(chan struct{}), logs: logs}
	go func() {
		r.ok = mgr.Run(ctx)
		mgr.Close()
		close(r.done)
	}()
	deadline := time.Now().Add(10 * time.Second)
	for {
		if logs.FilterMessageSnippet("Started UDP ").Len() >= listeners {
			return r, nil
		}
		select {
		case <-r.done:
			return nil, fmt.Errorf("%w: Run returned early: %s", errSvcNotUp, r.errorLogs())
		default:
		}
		if time.Now().After(deadline) {
			cancel()
			<-r.done
			return nil, errSvcNotUp
		}
		time.Sleep(500 * time.Microsecond)
	}
}

func (r *svcRun) errorLogs() string {
	var sb strings.Builder
	for _, e := range r.logs.FilterLevelExact(zap.ErrorLevel).All() {
		fmt.Fprintf(&sb, "%s %v; ", e.Message, e.ContextMap())
	}
	return sb.String()
}

// stop cancels the run context (what the program does on SIGTERM) and waits for Run to return.
func (r *svcRun) stop(max time.Duration) bool {
	r.cancel()
	select {
	case <-r.done:
		return true
	case <-time.After(max):
		return false
	}
}

// logInt returns the integer field of every log entry with the given message.
func (r *svcRun) logInts(msg, field string) []int64 {
	var out []int64
	for _, e := range r.logs.FilterMessage(msg).All() {
		switch v := e.ContextMap()[field].(type) {
		case int64:
			out = append(out, v)
		case uint64:
			out = append(out, int64(v))
		case int:
			out = append(out, int64(v))
		case uint32:
			out = append(out, int64(v))
		}
	}
	return out
}

func methodName(keyLen int) string {
	if keyLen == 16 {
		return "2022-blake3-aes-128-gcm"
	}
	return "2022-blake3-aes-256-gcm"
}

var storeSeq atomic.Int64

// caseDir makes a private scratch directory for one case (the uPSK store files of a running
// service are mapped into memory: never rewrite one in place).
func caseDir() (string, error) {
	base := os.Getenv("VERIF_WORK")
	if base == "" {
		base = os.TempDir()
	}
	return os.MkdirTemp(base, "c04svc-")
}

// ss2022ServerJSON is the "servers" entry of a Shadowsocks 2022 server for the keys k.
func ss2022ServerJSON(name string, k ssudp.Keys, window uint64, listeners []any, dir string) (jmap, error) {
	srv := jmap{"name": name, "protocol": methodName(len(k.PSK)), "udpListeners": listeners, "mtu": 1500}
	if len(k.IPSKs) > 0 {
		srv["psk"] = k.IPSKs[0]
		p := filepath.Join(dir, fmt.Sprintf("%s-upsks-%d.json", name, storeSeq.Add(1)))
		doc, _ := json.Marshal(map[string][]byte{"u": k.PSK})
		if err := os.WriteFile(p, doc, 0o600); err != nil {
			return nil, err
		}
		srv["uPSKStorePath"] = p
	} else {
		srv["psk"] = k.PSK
	}
	if window != 0 {
		srv["slidingWindowFilterSize"] = window
	}
	return srv, nil
}

// ss2022ClientJSON is the "clients" entry of a Shadowsocks 2022 client for the keys k.
func ss2022ClientJSON(name string, k ssudp.Keys, window uint64, endpoint netip.AddrPort) jmap {
	c := jmap{"name": name, "protocol": methodName(len(k.PSK)), "endpoint": endpoint.String(), "enableUDP": true, "mtu": 1500, "psk": k.PSK}
	if len(k.IPSKs) > 0 {
		c["iPSKs"] = k.IPSKs
	}
	if window != 0 {
		c["slidingWindowFilterSize"] = window
	}
	return c
}

// tagPayload is the payload of one harness datagram: the tag, then a stream derived from it.
func tagPayload(tag uint64, n int) []byte {
	if n < 8 {
		n = 8
	}
	b := make([]byte, n)
	binary.BigEndian.PutUint64(b, tag)
	ssudp.Fill(b[8:], tag)
	return b
}

func freeUDPPort(ip netip.Addr) (uint16, error) { return udpsvc.FreePort(ip, false) }

// svcViolation is the outcome of one executed plan. A liveness violation (an expected delivery
// that did not arrive within the bound) is retried once on a fresh service before it counts.
type svcViolation struct {
	msg      string
	liveness bool
}

func (v *svcViolation) String() string {
	if v == nil {
		return ""
	}
	return v.msg
}

func safetyf(format string, a ...any) *svcViolation { return &svcViolation{msg: fmt.Sprintf(format, a...)} }
func livenessf(format string, a ...any) *svcViolation {
	return &svcViolation{msg: fmt.Sprintf(format, a...), liveness: true}
}

// liveWait is the bound for a datagram to cross the relay on loopback (observed: well under 1 ms on
// an idle machine, a few ms under load).
func liveWait() time.Duration { return 4 * time.Second }

// journal writes the plan that is about to run to $VERIF_WORK so that the driver can keep it when
// the process dies (a panic in a relay goroutine kills the test binary).
func journal(name string, plan any) func() {
	dir := os.Getenv("VERIF_WORK")
	if dir == "" {
		return func() {}
	}
	p := filepath.Join(dir, "journal-"+name+".json")
	b, _ := json.Marshal(plan)
	os.WriteFile(p, b, 0o644)
	return func() { os.Remove(p) }
}

// mix64 is the splitmix64 finalizer.
func mix64(x uint64) uint64 {
	x += 0x9e3779b97f4a7c15
	x = (x ^ x>>30) * 0xbf58476d1ce4e5b9
	x = (x ^ x>>27) * 0x94d049bb133111eb
	return x ^ x>>31
}

// udpPortOwner reports whether a UDP socket bound to port belongs to this process (the relay runs
// inside the test binary). known is false when no socket of the network namespace is bound to it.
func udpPortOwner(port uint16) (own, known bool) {
	mine := map[string]bool{}
	ents, err := os.ReadDir("/proc/self/fd")
	if err != nil {
		return false, false
	}
	for _, e := range ents {
		if l, err := os.Readlink("/proc/self/fd/" + e.Name()); err == nil && strings.HasPrefix(l, "socket:[") {
			mine[strings.TrimSuffix(strings.TrimPrefix(l, "socket:["), "]")] = true
		}
	}
	needle := fmt.Sprintf(":%04X", port)
	for _, f := range []string{"/proc/net/udp", "/proc/net/udp6"} {
		b, err := os.ReadFile(f)
		if err != nil {
			continue
		}
		for _, line := range strings.Split(string(b), "\n")[1:] {
			fs := strings.Fields(line)
			if len(fs) < 10 || !strings.HasSuffix(fs[1], needle) {
				continue
			}
			known = true
			if mine[fs[9]] {
				own = true
			}
		}
	}
	return own, known
}
