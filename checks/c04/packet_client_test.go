package c04

import (
	"bytes"
	"fmt"
	"net/netip"
	"sort"
	"strings"
	"testing"
	"testing/synctest"
	"time"

	"github.com/database64128/shadowsocks-go/ss2022"
	"github.com/database64128/shadowsocks-go/zerocopy"
	"pgregory.net/rapid"

	"verif/internal/ev"
	"verif/internal/ssudp"
)

var recPktClient = ev.New("C04", "packet-client",
	"rapid + synctest bubble: one real client session receives packets of four real server sessions S1..S4 (ShadowPacketServerPacker "+
		"from NewPacker) plus sessions that exist only in the harness encoder (random id, id 0); the drawn history (<=90 steps) packs, "+
		"switches the genuine session, delivers pool packets in drawn order, forges (valid with arbitrary id/timestamp/session, wrong key, bit "+
		"flip, wrong type, stale timestamp, other client's session id, truncated, foreign key) and advances the clock (1 ns..90 s around 30/60 s). "+
		"Oracle: reference model (current+previous session, each set+max; unknown session: first one must be accepted, refused within 60 s of "+
		"a change, must be accepted >=60 s after establishment/change/last previous-session packet, otherwise either verdict is admitted and "+
		"followed), bad packets rejected, same datagram never delivered twice, and a twin universe that never sees the bad packets gives the "+
		"same verdicts. Non-trivial: duplicate + out-of-order in-window + 64-bit block crossing in one session; distinct key = config + verdict string").
	Require("dup", "ooo-in-window", "block-cross", "forged-bad", "first-session", "change-accepted", "change-refused",
		"old-replay-rejected", "bad-wrong-csid", "bad-wrong-type", "bad-stale-ts", "stale-by-clock", "fresh-after-bad", "default-size", "default-size-ooo-in-window",
		"second-server-session-change-accepted", "third-server-session-change-accepted", "packets-after-second-change-accepted")

const (
	mustReject = iota
	mustAccept
	either
)

type sessModel struct {
	ssid uint64
	f    *refFilter
}

// cliModel restates the statement for the receiving client: per server session a set+max window;
// it remembers the previous session (so its replays stay rejected) and admits a change of session
// at most once per minute.
type cliModel struct {
	size                    uint64
	cur, old                *sessModel
	tEst, tChange, tOldSeen time.Time
	hasChange               bool
}

func (m *cliModel) session(ssid uint64) *sessModel {
	if m.cur != nil && m.cur.ssid == ssid {
		return m.cur
	}
	if m.old != nil && m.old.ssid == ssid {
		return m.old
	}
	return nil
}

func (m *cliModel) expect(ssid, pid uint64, now time.Time) (int, string) {
	if s := m.session(ssid); s != nil {
		if s.f.ok(pid) {
			return mustAccept, "fresh id of a known session"
		}
		return mustReject, "replayed or behind-window id of a known session"
	}
	if m.cur == nil {
		return mustAccept, "first packet of the first server session"
	}
	if m.hasChange && now.Sub(m.tChange) < time.Minute {
		return mustReject, "second server-session change within a minute"
	}
	ref := m.tEst
	if m.tChange.After(ref) {
		ref = m.tChange
	}
	if m.tOldSeen.After(ref) {
		ref = m.tOldSeen
	}
	if now.Sub(ref) >= time.Minute {
		return mustAccept, "server-session change a minute or more after the last one"
	}
	// within a minute of the first session's establishment, or of the last packet of the
	// previous session: the statement does not say; the verdict is followed, not judged
	return either, "unspecified"
}

func (m *cliModel) apply(ssid, pid uint64, now time.Time) (adopted bool) {
	switch s := m.session(ssid); {
	case s != nil && s == m.cur:
		s.f.add(pid)
	case s != nil:
		s.f.add(pid)
		m.tOldSeen = now
	default:
		if m.cur == nil {
			m.tEst = now
		} else {
			m.tChange, m.hasChange = now, true
		}
		m.old = m.cur
		m.cur = &sessModel{ssid: ssid, f: newRef(m.size)}
		m.cur.f.add(pid)
		return true
	}
	return false
}

// cliUniverse is one client session with its three genuine server sessions.
type cliUniverse struct {
	e       *endpoint
	packers [4]zerocopy.ServerPacker // four genuine server sessions: up to three changes
	ssid    [6]uint64                // 0..3 genuine, 4 harness-only, 5 session id 0
	pool    []*pkt
}

var pktSource = netip.MustParseAddrPort("192.0.2.7:4433")

func newCliUniverse(c pcfg, salt uint64) (*cliUniverse, error) {
	p, err := newPeer(c, salt)
	if err != nil {
		return nil, err
	}
	return p.openUniverse()
}

// openUniverse opens a new client session on the peer's long-lived client object, lets the peer's
// long-lived server object see its first packet and creates three server sessions for it.
func (p *peer) openUniverse() (*cliUniverse, error) {
	e, err := p.open()
	if err != nil {
		return nil, err
	}
	u := &cliUniverse{e: e}
	first, err := e.clientPack(0, 4)
	if err != nil {
		return nil, err
	}
	e.csid = first.sid
	st := &serverTable{e: e, table: map[uint64]zerocopy.ServerUnpacker{}}
	if ok, _, _, _, err := st.present(first.wire); !ok {
		return nil, fmt.Errorf("server refused the first client packet: %v", err)
	}
	for i := range u.packers {
		if u.packers[i], err = st.table[first.sid].NewPacker(); err != nil {
			return nil, err
		}
	}
	return u, nil
}

func (u *cliUniverse) serverPack(sess int, tag uint64, plen int) (*pkt, error) {
	hr := ss2022.ShadowPacketServerMessageHeadroom
	b := make([]byte, hr.Front+plen+hr.Rear)
	copy(b[hr.Front:], payloadFor(tag, plen))
	now := time.Now()
	ps, pl, err := u.packers[sess].PackInPlace(b, pktSource, hr.Front, plen, 1452)
	if err != nil {
		return nil, err
	}
	w := append([]byte(nil), b[ps:ps+pl]...)
	sid, pid := u.e.keys.PeekServerIDs(w)
	return &pkt{wire: w, sid: sid, pid: pid, ts: uint64(now.Unix()), kind: -1, intact: true, tag: tag, plen: plen}, nil
}

func (u *cliUniverse) present(wire []byte) (ok bool, payload []byte, src netip.AddrPort, err error) {
	const front = 32
	buf := make([]byte, front+len(wire)+16)
	copy(buf[front:], wire)
	src, ps, pl, err := u.e.session.Unpacker.UnpackInPlace(buf, pktServerAddr, front, len(wire))
	if err != nil {
		return false, nil, src, err
	}
	return true, buf[ps : ps+pl], src, nil
}

func (u *cliUniverse) forge(c pcfg, s step, sess int, pid uint64, tag uint64, now time.Time) *pkt {
	k := u.e.keys
	sp := ssudp.ServerPacket{SID: u.ssid[sess], PID: pid, Type: ssudp.TypeServer, TS: uint64(now.Unix() + s.TsOff), CSID: u.e.csid,
		Addr: pktTarget.Wire(), Payload: payloadFor(tag, int(tag%24))}
	p := &pkt{sid: sp.SID, pid: pid, ts: sp.TS, kind: s.Kind, intact: true, tag: tag, plen: len(sp.Payload)}
	switch s.Kind {
	case fkValid, fkStale:
		p.wire = k.EncodeServer(sp, nil)
	case fkWrongKey:
		p.wire, p.intact = k.EncodeServer(sp, u.e.wrong.PSK), false
	case fkBitFlip:
		p.wire, p.intact = flipBit(k.EncodeServer(sp, nil), s.Aux), false
	case fkWrongType:
		sp.Type = byte(s.Aux % 256)
		if sp.Type == ssudp.TypeServer {
			sp.Type = ssudp.TypeClient
		}
		p.wire, p.intact = k.EncodeServer(sp, nil), false
	case fkWrongCSID:
		sp.CSID ^= 1 << (s.Aux % 64)
		p.wire, p.intact = k.EncodeServer(sp, nil), false
	case fkTruncated:
		w := k.EncodeServer(sp, nil)
		p.wire, p.intact = w[:s.Aux%uint64(len(w))], false
	case fkForeign:
		p.wire, p.intact = u.e.wrong.EncodeServer(sp, nil), false
	}
	return p
}

func TestPacketClient(t *testing.T) {
	rapid.Check(t, func(rt *rapid.T) {
		c := drawCfg(rt)
		plan := drawPlan(rt, true)
		var res pktResult
		synctest.Test(t, func(t *testing.T) { res = runClientPlan(c, plan) })
		if res.violation != "" {
			rt.Fatalf("%s\ncfg=%s\nplan=%s", res.violation, c, planString(plan))
		}
		labels := make([]string, 0, len(res.labels))
		for l := range res.labels {
			labels = append(labels, l)
		}
		sort.Strings(labels)
		recPktClient.Case(fmt.Sprintf("%d|%d|%v|%s", c.Size, c.KeyLen, c.EIH, res.verdicts), res.nt, labels...)
		if res.nt {
			recPktClient.Sample(map[string]any{"cfg": c, "steps": len(plan), "verdicts": clip(string(res.verdicts), 120), "labels": strings.Join(labels, ",")})
		}
	})
}

func runClientPlan(c pcfg, plan []step) (res pktResult) {
	defer guard(&res)
	pa, err := newPeer(c, 1)
	if err != nil {
		res.violation = "SIG=C04/harness setup A: " + err.Error()
		return res
	}
	pb, err := newPeer(c, 2)
	if err != nil {
		res.violation = "SIG=C04/harness setup B: " + err.Error()
		return res
	}
	res, _ = runClientSession(c, plan, [2]*peer{pa, pb}, nil)
	return res
}

// sessionTrace is what a later session of the same client object needs to know about this one.
type sessionTrace struct {
	established bool
	firstAdopt  time.Time // when this client session adopted its first server session
	lastAdopt   time.Time // when it last adopted a server session
	carry       [2][]*pkt // a few authentic packets of this session, per universe
	close       [2]func() error
}

// runClientSession opens one new client session on each peer's long-lived client object and runs
// the plan against it with a FRESH reference model: a new client session owes nothing to earlier
// sessions of the same object. carry holds authentic packets addressed to an earlier client
// session; for this session they carry another client's session id and must be dropped.
func runClientSession(c pcfg, plan []step, peers [2]*peer, carry *[2][]*pkt) (res pktResult, tr sessionTrace) {
	res.labels = map[string]bool{}
	fail := func(format string, a ...any) (pktResult, sessionTrace) {
		res.violation = "SIG=C04/harness " + fmt.Sprintf(format, a...)
		return res, tr
	}
	ua, err := peers[0].openUniverse()
	if err != nil {
		return fail("setup A: %v", err)
	}
	ub, err := peers[1].openUniverse()
	if err != nil {
		return fail("setup B: %v", err)
	}
	tr.close = [2]func() error{ua.e.session.Close, ub.e.session.Close}
	unis := [2]*cliUniverse{ua, ub}
	var tag uint64
	// one packet of every genuine session tells the harness the session ids (taken from the wire
	// with the harness's own decoder); they join the pool like any other packet
	for _, u := range unis {
		for i := range u.packers {
			p, err := u.serverPack(i, uint64(i), 3)
			if err != nil {
				return fail("learn ssid: %v", err)
			}
			u.ssid[i] = p.sid
			u.pool = append(u.pool, p)
		}
		u.ssid[4] = c.Seed | 2 // never 0; a collision with a random genuine id has probability 2^-62
		u.ssid[5] = 0
	}
	tag = 2
	model := &cliModel{size: c.Size}
	curS := 0
	var dup, ooo, cross, badSeen bool
	var changes, afterChange int
	var afterChangeHigh bool
	started := time.Now()
	if carry != nil {
		// authentic server packets addressed to an earlier session of the same client object: for this
		// session they name another client's session id (universe B never sees them)
		for _, p := range carry[0] {
			if okA, _, _, errA := ua.present(p.wire); okA {
				res.violation = fmt.Sprintf("SIG=C04/pkt-client-earlier-session-accepted a packet addressed to the previous client session (ssid=%#x pid=%d) was delivered to the new session (%s)", p.sid, p.pid, errString(errA))
				return res, tr
			}
			res.labels["earlier-session-packet-dropped"] = true
			res.verdicts = append(res.verdicts, 'x')
			badSeen = true
		}
	}

	present := func(i, idx int) string {
		pa, pb := ua.pool[idx], ub.pool[idx]
		now := time.Now()
		if pa.bad(now) {
			okA, _, _, errA := ua.present(pa.wire)
			badSeen = true
			if pa.kind >= 0 {
				res.labels["forged-bad"] = true
				res.labels["bad-"+fkNames[pa.kind]] = true
			}
			if pa.intact && pa.kind != fkStale {
				res.labels["stale-by-clock"] = true
			}
			if okA {
				return fmt.Sprintf("SIG=C04/pkt-client-bad-accepted step=%d kind=%d intact=%v ts=%d now=%d.%09d ssid=%#x pid=%d (%s): a packet that must be dropped was delivered",
					i, pa.kind, pa.intact, pa.ts, now.Unix(), now.Nanosecond(), pa.sid, pa.pid, errString(errA))
			}
			res.verdicts = append(res.verdicts, 'x')
			return ""
		}
		want, why := model.expect(pa.sid, pa.pid, now)
		known := model.session(pa.sid)
		if known != nil {
			m := known.f
			switch {
			case m.delivered[pa.pid]:
				dup = true
				if known == model.old {
					res.labels["old-replay-rejected"] = true
					if now.Sub(model.tChange) < time.Minute {
						res.labels["old-replay-rejected-within-minute"] = true
					}
				}
			case pa.pid < m.max && m.max-pa.pid < c.Size:
				ooo = true
			case pa.pid < m.max:
				res.labels["behind-window"] = true
			}
			if pa.pid > m.max && pa.pid/64 != m.max/64 {
				cross = true
			}
			if known == model.old && want == mustAccept {
				res.labels["old-session-fresh-accepted"] = true
			}
		}
		okA, payload, src, errA := ua.present(pa.wire)
		okB, _, _, errB := ub.present(pb.wire)
		if (want == mustAccept && !okA) || (want == mustReject && okA) {
			return fmt.Sprintf("SIG=C04/pkt-client-verdict step=%d t=+%v ssid=%#x pid=%d kind=%d: got accepted=%v (%s), want %v because: %s [model: cur=%s old=%s sinceChange=%v]",
				i, now.Sub(started), pa.sid, pa.pid, pa.kind, okA, errString(errA), want == mustAccept, why, fmtSess(model.cur), fmtSess(model.old), sinceOrNever(model.hasChange, now, model.tChange))
		}
		if okA != okB {
			return fmt.Sprintf("SIG=C04/pkt-client-metamorphic step=%d t=+%v pid=%d kind=%d: verdict with the dropped packets in the history=%v (%s), without them=%v (%s)",
				i, now.Sub(started), pa.pid, pa.kind, okA, errString(errA), okB, errString(errB))
		}
		if known == nil {
			switch {
			case model.cur == nil:
				res.labels["first-session"] = true
			case want == mustAccept:
				res.labels["change-accepted"] = true
				if now.Sub(model.tEst) == time.Minute || (model.hasChange && now.Sub(model.tChange) == time.Minute) {
					res.labels["change-at-exactly-60s"] = true
				}
			case want == mustReject:
				res.labels["change-refused"] = true
			case okA:
				res.labels["change-unspecified-accepted"] = true
			default:
				res.labels["change-unspecified-refused"] = true
			}
		}
		if !okA {
			res.verdicts = append(res.verdicts, '0')
			return ""
		}
		if !bytes.Equal(payload, payloadFor(pa.tag, pa.plen)) || src != pktSource {
			return fmt.Sprintf("SIG=C04/pkt-client-content step=%d pid=%d: delivered payload/source differ from what was packed (source %s)", i, pa.pid, src)
		}
		pa.deliver++
		if pa.deliver > 1 {
			return fmt.Sprintf("SIG=C04/pkt-client-twice step=%d ssid=%#x pid=%d: the same datagram was delivered twice", i, pa.sid, pa.pid)
		}
		hadSession := model.cur != nil
		if model.apply(pa.sid, pa.pid, now) {
			res.verdicts = append(res.verdicts, 'N')
			if hadSession {
				changes++
				afterChange, afterChangeHigh = 0, false
				switch changes {
				case 2:
					res.labels["second-server-session-change-accepted"] = true
				case 3:
					res.labels["third-server-session-change-accepted"] = true
				}
			}
		} else {
			res.verdicts = append(res.verdicts, '1')
			if changes >= 2 && pa.sid == model.cur.ssid {
				// the ids of the newly adopted server session restart at 0: each of them is fresh
				afterChange++
				afterChangeHigh = afterChangeHigh || pa.pid >= 2
				if afterChange >= 3 && afterChangeHigh {
					res.labels["packets-after-second-change-accepted"] = true
				}
			}
		}
		res.delivered++
		if badSeen {
			res.labels["fresh-after-bad"] = true
		}
		return ""
	}

	for i, s := range plan {
		switch s.Op {
		case opSwitch:
			curS = min(curS+1, len(ua.packers)-1)
		case opPack:
			sess := s.Sess
			if sess < 0 {
				sess = curS
			}
			for range s.N {
				tag++
				for _, u := range unis {
					p, err := u.serverPack(sess, tag, int(tag%24))
					if err != nil {
						return fail("pack: %v", err)
					}
					u.pool = append(u.pool, p)
				}
			}
		case opDeliver:
			span := min(spans[s.Span], len(ua.pool))
			if v := present(i, len(ua.pool)-1-int(s.Pick%uint64(span))); v != "" {
				res.violation = v
				return res, tr
			}
		case opForge:
			tag++
			sess := s.Sess
			switch {
			case sess == -2:
				sess = max(curS-1, 0)
			case sess < 0:
				sess = curS
			}
			var last uint64
			if m := model.session(ua.ssid[sess]); m != nil {
				last = m.f.max
			}
			pid := resolveID(s, c.Size, last, c.Hi)
			now := time.Now()
			for _, u := range unis {
				u.pool = append(u.pool, u.forge(c, s, sess, pid, tag, now))
			}
			if sess >= len(ua.packers) {
				res.labels["harness-only-session"] = true
			}
			if v := present(i, len(ua.pool)-1); v != "" {
				res.violation = v
				return res, tr
			}
		case opBurst:
			base := len(ua.pool)
			for range s.N {
				tag++
				for _, u := range unis {
					p, err := u.serverPack(curS, tag, int(tag%24))
					if err != nil {
						return fail("pack: %v", err)
					}
					u.pool = append(u.pool, p)
				}
			}
			for _, k := range burstOrder(s.N, s.Pick) {
				if v := present(i, base+k); v != "" {
					res.violation = v
					return res, tr
				}
			}
		case opAdvance:
			time.Sleep(s.D)
		}
	}
	for l, b := range map[string]bool{"dup": dup, "ooo-in-window": ooo, "block-cross": cross} {
		if b {
			res.labels[l] = true
		}
	}
	if c.Hi {
		res.labels["hi-id-case"] = true
	}
	if c.Default {
		res.labels["default-size"] = true
		if ooo {
			res.labels["default-size-ooo-in-window"] = true
		}
	}
	res.nt = dup && ooo && cross
	tr.established = model.cur != nil
	tr.firstAdopt, tr.lastAdopt = model.tEst, model.tEst
	if model.tChange.After(tr.lastAdopt) {
		tr.lastAdopt = model.tChange
	}
	for k := len(ua.pool) - 1; k >= 0 && len(tr.carry[0]) < 3; k-- {
		if ua.pool[k].kind == -1 {
			tr.carry[0] = append(tr.carry[0], ua.pool[k])
			tr.carry[1] = append(tr.carry[1], ub.pool[k])
		}
	}
	return res, tr
}

func fmtSess(s *sessModel) string {
	if s == nil {
		return "none"
	}
	return fmt.Sprintf("%#x(newest %d, %d delivered)", s.ssid, s.f.max, len(s.f.delivered))
}

func sinceOrNever(has bool, now, t time.Time) string {
	if !has {
		return "never"
	}
	return now.Sub(t).String()
}
