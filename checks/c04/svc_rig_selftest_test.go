package c04

import (
	"net/netip"
	"testing"
)

// TestRigSelfCheck pins the harness devices the service stages rely on: socket ownership lookup
// (used to tell the relay's datagrams from strays of other processes) and the sendmmsg writer.
func TestRigSelfCheck(t *testing.T) {
	a, err := newSink(lo[0])
	if err != nil {
		t.Fatal(err)
	}
	defer a.close()
	if own, known := udpPortOwner(a.addr.Port()); !own || !known {
		t.Fatalf("own socket on port %d reported own=%v known=%v", a.addr.Port(), own, known)
	}
	b, err := listenLo()
	if err != nil {
		t.Fatal(err)
	}
	port := b.LocalAddr().(interface{ AddrPort() netip.AddrPort }).AddrPort().Port()
	var msgs []outMsg
	var keys []string
	for i := range 20 {
		pl := tagPayload(uint64(i)+1, 8+i*50)
		msgs = append(msgs, outMsg{pl, a.addr})
		keys = append(keys, string(pl))
	}
	if err := sendBurst(b, msgs, true); err != nil {
		t.Fatal(err)
	}
	if !a.waitKeys(liveWait(), keys) {
		t.Fatalf("sendmmsg burst: not all 20 datagrams arrived")
	}
	for i, d := range a.since(0) {
		if string(d.data) != keys[i] || d.from.Port() != port {
			t.Fatalf("datagram %d: wrong content, order or source", i)
		}
	}
	b.Close()
	if own, _ := udpPortOwner(port); own {
		t.Fatalf("closed socket still reported as owned")
	}
}
