package c17

// Hand-written DNS wire encoder and a minimal query decoder. Deliberately independent of
// golang.org/x/net/dns/dnsmessage (the parser the code under test uses): the harness builds
// every upstream response from a structured spec, so the reference model knows what a
// message contains from the spec and never has to parse it with the implementation's parser.

import (
	"encoding/binary"
	"errors"
	"net/netip"
	"strings"
)

const (
	tA     = 1
	tNS    = 2
	tCNAME = 5
	tSOA   = 6
	tMX    = 15
	tTXT   = 16
	tAAAA  = 28
	tOPT   = 41
)

// rr is one resource record of a scripted response.
type rr struct {
	Type   uint16
	TTL    uint32
	Addr   netip.Addr // A / AAAA
	Target string     // CNAME / NS / MX exchange / SOA mname
	SOAMin uint32     // SOA MINIMUM field
	Full   bool       // owner written as a full name instead of a compression pointer to the question
}

// wmsg is a scripted DNS message.
type wmsg struct {
	ID         uint16
	QR, AA, TC bool
	RD, RA     bool
	RCode      uint8
	QName      string
	QType      uint16
	Answers    []rr
	Authority  []rr
	OPT        bool
	// Structured damage (the header stays intact so the message reaches the RR parser):
	ExtraCount int  // ANCOUNT is larger than the number of answer RRs by this much
	CutTail    int  // this many bytes are removed from the end of the packed message
	PtrLoop    bool // first answer owner name is a compression pointer to itself
	// PadTo > 0: TXT records (TTL PadTTL) are appended to the answer section when the message is
	// packed so that it is exactly PadTo bytes long (needs at least 13 spare bytes). The padding is
	// done at pack time because the length depends on the name that is looked up.
	PadTo  int
	PadTTL uint32
}

func packName(b []byte, name string) []byte {
	name = strings.TrimSuffix(name, ".")
	if name != "" {
		for _, l := range strings.Split(name, ".") {
			b = append(b, byte(len(l)))
			b = append(b, l...)
		}
	}
	return append(b, 0)
}

func (m *wmsg) pack() []byte {
	if m.PadTo <= 0 {
		return m.packWith(nil)
	}
	r := m.PadTo - len(m.packWith(nil))
	var pads []rr
	for r >= 13 {
		c := min(r, 13+255)
		if r-c > 0 && r-c < 13 {
			c -= 13
		}
		pads = append(pads, rr{Type: tTXT, TTL: m.PadTTL, Target: strings.Repeat("x", c-13)})
		r -= c
	}
	return m.packWith(pads)
}

func (m *wmsg) packWith(pads []rr) []byte {
	b := make([]byte, 12, 512)
	binary.BigEndian.PutUint16(b[0:], m.ID)
	var f uint16
	if m.QR {
		f |= 1 << 15
	}
	if m.AA {
		f |= 1 << 10
	}
	if m.TC {
		f |= 1 << 9
	}
	if m.RD {
		f |= 1 << 8
	}
	if m.RA {
		f |= 1 << 7
	}
	f |= uint16(m.RCode & 0xF)
	binary.BigEndian.PutUint16(b[2:], f)
	binary.BigEndian.PutUint16(b[4:], 1)
	binary.BigEndian.PutUint16(b[6:], uint16(len(m.Answers)+len(pads)+m.ExtraCount))
	binary.BigEndian.PutUint16(b[8:], uint16(len(m.Authority)))
	if m.OPT {
		binary.BigEndian.PutUint16(b[10:], 1)
	}
	b = packName(b, m.QName)
	b = binary.BigEndian.AppendUint16(b, m.QType)
	b = binary.BigEndian.AppendUint16(b, 1)
	first := true
	appendRR := func(r rr) {
		switch {
		case m.PtrLoop && first:
			off := len(b)
			b = append(b, 0xC0|byte(off>>8), byte(off))
		case r.Full:
			b = packName(b, m.QName)
		default:
			b = append(b, 0xC0, 0x0C)
		}
		first = false
		b = binary.BigEndian.AppendUint16(b, r.Type)
		b = binary.BigEndian.AppendUint16(b, 1)
		b = binary.BigEndian.AppendUint32(b, r.TTL)
		var rd []byte
		switch r.Type {
		case tA:
			a := r.Addr.As4()
			rd = a[:]
		case tAAAA:
			a := r.Addr.As16()
			rd = a[:]
		case tCNAME, tNS:
			rd = packName(nil, r.Target)
		case tMX:
			rd = binary.BigEndian.AppendUint16(nil, 10)
			rd = packName(rd, r.Target)
		case tTXT:
			rd = append([]byte{byte(len(r.Target))}, r.Target...)
		case tSOA:
			rd = packName(nil, r.Target)
			rd = packName(rd, "hostmaster."+r.Target)
			for _, v := range []uint32{2024010101, 7200, 3600, 1209600, r.SOAMin} {
				rd = binary.BigEndian.AppendUint32(rd, v)
			}
		}
		b = binary.BigEndian.AppendUint16(b, uint16(len(rd)))
		b = append(b, rd...)
	}
	for _, r := range m.Answers {
		appendRR(r)
	}
	for _, r := range pads {
		appendRR(r)
	}
	for _, r := range m.Authority {
		appendRR(r)
	}
	if m.OPT {
		b = append(b, 0)
		b = binary.BigEndian.AppendUint16(b, tOPT)
		b = binary.BigEndian.AppendUint16(b, 1232)
		b = binary.BigEndian.AppendUint32(b, 0)
		b = binary.BigEndian.AppendUint16(b, 0)
	}
	if m.CutTail > 0 {
		c := min(m.CutTail, len(b)-12)
		b = b[:len(b)-c]
	}
	return b
}

// frame prefixes a message with the DNS-over-TCP length field.
func frame(msg []byte) []byte {
	b := make([]byte, 2, 2+len(msg))
	binary.BigEndian.PutUint16(b, uint16(len(msg)))
	return append(b, msg...)
}

// query is what the fake upstream understood of one query sent by the resolver.
type query struct {
	ID    uint16
	Type  uint16
	Name  string
	QR    bool
	RD    bool
	Class uint16
	// EDNS(0): every query of the resolver carries one OPT pseudo-record in the additional section
	OPT     bool
	UDPSize uint16 // requestor's payload size advertised in the OPT record
	Len     int    // wire length of the query
}

var errBadQuery = errors.New("malformed query")

func parseQuery(b []byte) (query, error) {
	var q query
	if len(b) < 12 {
		return q, errBadQuery
	}
	q.ID = binary.BigEndian.Uint16(b)
	f := binary.BigEndian.Uint16(b[2:])
	q.QR = f&(1<<15) != 0
	q.RD = f&(1<<8) != 0
	if binary.BigEndian.Uint16(b[4:]) != 1 {
		return q, errBadQuery
	}
	off := 12
	var labels []string
	for {
		if off >= len(b) {
			return q, errBadQuery
		}
		l := int(b[off])
		off++
		if l == 0 {
			break
		}
		if l > 63 || off+l > len(b) {
			return q, errBadQuery
		}
		labels = append(labels, string(b[off:off+l]))
		off += l
	}
	if off+4 > len(b) {
		return q, errBadQuery
	}
	q.Name = strings.Join(labels, ".")
	q.Type = binary.BigEndian.Uint16(b[off:])
	q.Class = binary.BigEndian.Uint16(b[off+2:])
	off += 4
	q.Len = len(b)
	// answer and authority sections of a query are empty
	if binary.BigEndian.Uint16(b[6:]) != 0 || binary.BigEndian.Uint16(b[8:]) != 0 {
		return q, errBadQuery
	}
	for range binary.BigEndian.Uint16(b[10:]) {
		// additional records: only the OPT pseudo-record (root owner name) is expected
		if off+11 > len(b) || b[off] != 0 {
			return q, errBadQuery
		}
		typ := binary.BigEndian.Uint16(b[off+1:])
		rdlen := int(binary.BigEndian.Uint16(b[off+9:]))
		if off+11+rdlen > len(b) {
			return q, errBadQuery
		}
		if typ == tOPT {
			q.OPT = true
			q.UDPSize = binary.BigEndian.Uint16(b[off+3:])
		}
		off += 11 + rdlen
	}
	if off != len(b) {
		return q, errBadQuery // trailing bytes: mis-framed
	}
	return q, nil
}

// parseTCPQueries splits a DNS-over-TCP payload into queries.
func parseTCPQueries(p []byte) ([]query, error) {
	var out []query
	for len(p) > 0 {
		if len(p) < 2 {
			return out, errBadQuery
		}
		l := int(binary.BigEndian.Uint16(p))
		if l == 0 || 2+l > len(p) {
			return out, errBadQuery
		}
		q, err := parseQuery(p[2 : 2+l])
		if err != nil {
			return out, err
		}
		out = append(out, q)
		p = p[2+l:]
	}
	return out, nil
}

// splitmix64 gives deterministic pseudo-random bytes from one drawn 64-bit value.
type splitmix64 uint64

func (s *splitmix64) next() uint64 {
	*s += 0x9E3779B97F4A7C15
	z := uint64(*s)
	z = (z ^ (z >> 30)) * 0xBF58476D1CE4E5B9
	z = (z ^ (z >> 27)) * 0x94D049BB133111EB
	return z ^ (z >> 31)
}

func prngBytes(seed uint64, n int) []byte {
	s := splitmix64(seed)
	b := make([]byte, n)
	for i := range b {
		b[i] = byte(s.next())
	}
	return b
}
