package c17

// Reference model of property C17, written from the property text and the doc comments of
// dns/dns.go and cache/cache.go (not from the control flow of the implementation):
//
//   * a lookup's answer is the A records of the first acceptable response to its A query plus the
//     AAAA records of the first acceptable response to its AAAA query, among the messages the
//     resolver actually consumed from the configured upstream; anything else contributes nothing;
//   * the lookup succeeds iff both queries got an acceptable response; otherwise it reports an
//     error, or (RFC 8767) serves the expired entry it still holds;
//   * a stored answer is fresh until an admissible expiry instant: the smallest answer TTL, the
//     failure caching time (30 s) when a failure rcode was accepted, an SOA-derived TTL for a
//     negative answer; where the documentation leaves the choice open every member is admissible
//     and the observations of the history must stay consistent with at least one member;
//   * the cache holds at most `capacity` names and evicts the least recently used one
//     (cache.BoundedCache doc: Get/Set make an entry the most recently used).

import (
	"errors"
	"fmt"
	"net/netip"
	"slices"
	"sort"
	"strings"
	"time"

	"github.com/database64128/shadowsocks-go/dns"
)

const (
	failureCaching = 30 * time.Second // rcodeFailureCachingDuration, documented in dns.go
	lookupTimeout  = 20 * time.Second // per-transport time limit of one lookup
)

// ival is one admissible expiry instant, known up to the duration of the lookup that stored it.
type ival struct {
	lo, hi time.Time
	tag    string
}

type entry struct {
	a, aaaa           []netip.Addr // addresses of the proper type in the accepted responses
	crossA, crossAAAA []netip.Addr // addresses of the *other* type found in an accepted response (use is left open)
	members           []ival
	neverOK           bool // the accepted responses alone give no lifetime at all: asking upstream again is always admissible
	ttlDesc           string
}

func (e *entry) observeHit(t time.Time) bool {
	keep := e.members[:0]
	for _, m := range e.members {
		if m.hi.Before(t) {
			continue
		}
		if m.lo.Before(t) {
			m.lo = t
		}
		keep = append(keep, m)
	}
	e.members = keep
	return len(keep) > 0
}

func (e *entry) observeMiss(t time.Time) bool {
	if len(e.members) == 0 || e.neverOK {
		return true // nothing obliged this entry to be fresh at any time
	}
	keep := e.members[:0]
	for _, m := range e.members {
		if m.lo.After(t) {
			continue
		}
		if m.hi.After(t) {
			m.hi = t
		}
		keep = append(keep, m)
	}
	if len(keep) == 0 {
		return false
	}
	e.members = keep
	return true
}

// lruModel is the documented policy of cache.BoundedCache: order[0] is the least recently used.
type lruModel struct {
	capacity int
	order    []string
	m        map[string]*entry
}

func newLRU(capacity int) *lruModel { return &lruModel{capacity: capacity, m: map[string]*entry{}} }

func (l *lruModel) touch(name string) {
	i := slices.Index(l.order, name)
	if i >= 0 {
		l.order = append(slices.Delete(l.order, i, i+1), name)
	}
}

func (l *lruModel) get(name string) *entry {
	e := l.m[name]
	if e != nil {
		l.touch(name)
	}
	return e
}

// set returns the evicted name, if any.
func (l *lruModel) set(name string, e *entry) (evicted string) {
	if _, ok := l.m[name]; ok {
		l.m[name] = e
		l.touch(name)
		return ""
	}
	if l.capacity > 0 && len(l.order) == l.capacity {
		evicted = l.order[0]
		delete(l.m, evicted)
		l.order = l.order[1:]
	}
	l.m[name] = e
	l.order = append(l.order, name)
	return evicted
}

// queryOK: a query is for exactly the looked-up name (case-insensitively), type A or AAAA, class
// IN, QR=0, and carries the EDNS(0) OPT record (dns.go: maxDNSPacketSize "is the maximum packet
// size to advertise in EDNS(0)"), with nothing else in the message.
func queryOK(q *query, name string) bool {
	return strings.EqualFold(q.Name, name) && !q.QR && q.Class == 1 && (q.Type == tA || q.Type == tAAAA) && q.OPT && q.UDPSize >= 512
}

// tcpEval is the outcome of evaluating the consumed items of the TCP phase of one lookup.
type tcpEval struct {
	acc       map[int]*item
	malformed []string // kinds of non-acceptable items consumed
	conns     int
	retried   bool
	timedOut  bool
}

func (ev *tcpEval) done() bool { return ev.acc[4] != nil && ev.acc[6] != nil }

// evalTCP walks over what the upstream observed. acc may be pre-filled by a preceding UDP phase.
// It returns a violation signature+text when the resolver's conduct on the wire contradicts the
// documentation (bad queries, giving up on a healthy connection, no retry after a clean EOF).
func evalTCP(name string, s *lookupScript, obs []*connObs, start, end time.Time, acc map[int]*item) (*tcpEval, string) {
	ev := &tcpEval{acc: acc, conns: len(obs)}
	// The time limit of the TCP retry counts from the moment TCP is tried: a UDP phase that ran
	// into its own time limit must not eat the time of the retry ("retrying over TCP when UDP is
	// ... unanswered"). For a TCP-only resolver the first dial happens at the start of the lookup.
	if len(obs) > 0 && obs[0].DialAt.After(start) {
		start = obs[0].DialAt
	}
	timeUp := func(t time.Time) bool { return t.Sub(start) >= lookupTimeout }
	for ci, o := range obs {
		var cs connScript
		if ci < len(s.Conns) {
			cs = s.Conns[ci]
		}
		if o.QueryErr != nil {
			return ev, fmt.Sprintf("SIG=C17/tcp-query-malformed conn=%d err=%v", ci, o.QueryErr)
		}
		asked := map[int]bool{}
		for _, q := range o.Queries {
			if !queryOK(&q, name) {
				return ev, fmt.Sprintf("SIG=C17/tcp-query-wrong conn=%d query=%+v name=%q", ci, q, name)
			}
			if q.Type == tA {
				asked[4] = true
			} else {
				asked[6] = true
			}
		}
		for _, f := range []int{4, 6} {
			if ev.acc[f] == nil && !asked[f] {
				return ev, fmt.Sprintf("SIG=C17/tcp-unanswered-query-not-sent conn=%d family=%d", ci, f)
			}
		}
		if ci > 0 {
			ev.retried = true
		}
		if o.CtxExpired && !timeUp(o.DialAt) {
			return ev, fmt.Sprintf("SIG=C17/tcp-dialed-with-expired-context conn=%d after=%v of the TCP phase", ci, o.DialAt.Sub(start))
		}
		bad := o.DialErr
		for i := 0; i < o.Consumed && i < len(cs.Items); i++ {
			it := &cs.Items[i]
			if it.acceptable() {
				if ev.acc[it.Fam] == nil {
					ev.acc[it.Fam] = it
				}
			} else {
				bad = true
				ev.malformed = append(ev.malformed, it.Kind)
			}
		}
		// Hanging up on the upstream needs a reason: both answers present, something unusable
		// received on this connection, or the time limit.
		hungUp := o.FailIdx >= 0 || o.Aborted || o.Silence
		if hungUp && !ev.done() && !bad {
			if !timeUp(o.EndAt) {
				return ev, fmt.Sprintf("SIG=C17/tcp-gave-up-on-healthy-connection conn=%d consumed=%d failIdx=%d failN=%d silence=%v after=%v",
					ci, o.Consumed, o.FailIdx, o.FailN, o.Silence, o.EndAt.Sub(start))
			}
			ev.timedOut = true
		}
		// "Retry unanswered queries": a clean EOF on the first connection with queries still open
		// must be followed by a second connection while time remains.
		if ci == 0 && len(obs) == 1 && o.CleanClose && !ev.done() && !bad && !timeUp(end) {
			return ev, fmt.Sprintf("SIG=C17/tcp-no-retry-after-clean-eof consumed=%d", o.Consumed)
		}
	}
	return ev, ""
}

// buildEntry derives the expected stored answer from the two accepted responses.
//
// leftovers are messages from the configured server with one of the lookup's IDs that were
// received but not accepted (truncated over UDP, damaged after some records): the
// documentation does not say whether their TTLs may shorten the lifetime of the stored
// answer, so each of them is one more admissible member (never a longer lifetime than the
// accepted answers allow on their own... unless the documentation's own members are longer).
func buildEntry(acc map[int]*item, t0, t1 time.Time, leftovers ...*item) *entry {
	e := &entry{}
	var all, chain []uint32
	other := false
	failure := false
	var soa []uint32
	for _, f := range []int{4, 6} {
		it := acc[f]
		own := 0
		if it.Msg.PadTo > 0 { // TXT padding records appended when the message is packed
			all = append(all, it.Msg.PadTTL)
			other = true
		}
		for _, r := range it.Msg.Answers {
			all = append(all, r.TTL)
			switch r.Type {
			case tA:
				chain = append(chain, r.TTL)
				if f == 4 {
					e.a = append(e.a, r.Addr)
					own++
				} else {
					e.crossA = append(e.crossA, r.Addr)
				}
			case tAAAA:
				chain = append(chain, r.TTL)
				if f == 6 {
					e.aaaa = append(e.aaaa, r.Addr)
					own++
				} else {
					e.crossAAAA = append(e.crossAAAA, r.Addr)
				}
			case tCNAME:
				chain = append(chain, r.TTL)
			default:
				other = true
			}
		}
		switch it.Msg.RCode {
		case 1, 2, 4, 5:
			failure = true
		}
		if own == 0 {
			for _, r := range it.Msg.Authority {
				if r.Type == tSOA {
					soa = append(soa, r.TTL, min(r.TTL, r.SOAMin))
				}
			}
		}
	}
	var ds []time.Duration
	var tags []string
	addDur := func(d time.Duration, tag string) {
		if !slices.Contains(ds, d) {
			ds = append(ds, d)
			tags = append(tags, tag)
		}
	}
	add := func(sec uint32, tag string) { addDur(time.Duration(sec)*time.Second, tag) }
	if len(all) > 0 {
		add(slices.Min(all), "min-answer-ttl")
		if slices.Max(all) >= 1<<31 {
			add(0, "ttl-msb-as-zero") // RFC 2181 section 8 reading of TTLs with the top bit set
		}
	}
	if other && len(chain) > 0 {
		add(slices.Min(chain), "min-address-chain-ttl")
	}
	if failure {
		addDur(failureCaching, "failure-caching")
	}
	for _, s := range soa {
		add(s, "soa")
		if s >= 1<<31 {
			add(0, "ttl-msb-as-zero")
		}
	}
	e.neverOK = len(ds) == 0
	for _, it := range leftovers {
		for _, r := range it.Msg.Answers {
			add(r.TTL, "leftover-ttl")
			// A record of the other family inside a discarded response of the server: whether it
			// may end up in the answer is as open as for accepted responses.
			if r.Type == tA && it.Fam == 6 {
				e.crossA = append(e.crossA, r.Addr)
			} else if r.Type == tAAAA && it.Fam == 4 {
				e.crossAAAA = append(e.crossAAAA, r.Addr)
			}
		}
		switch it.Msg.RCode {
		case 1, 2, 4, 5:
			addDur(failureCaching, "leftover-failure-caching")
		}
	}
	for i, d := range ds {
		e.members = append(e.members, ival{lo: t0.Add(d), hi: t1.Add(d), tag: tags[i]})
	}
	e.ttlDesc = fmt.Sprint(ds)
	return e
}

// brief renders an address list for messages; long lists are abbreviated.
func brief(a []netip.Addr) string {
	k := addrKey(a)
	if len(k) > 8 {
		return fmt.Sprintf("[%s ... %d more]", strings.Join(k[:6], " "), len(k)-6)
	}
	return fmt.Sprint(k)
}

func addrKey(a []netip.Addr) []string {
	s := make([]string, len(a))
	for i, x := range a {
		s[i] = x.String()
	}
	sort.Strings(s)
	return s
}

// within reports must ⊆ got ⊆ must+may as multisets.
func within(got, must, may []netip.Addr) bool {
	cnt := map[netip.Addr]int{}
	for _, a := range got {
		cnt[a]++
	}
	for _, a := range must {
		cnt[a]--
		if cnt[a] < 0 {
			return false
		}
	}
	for _, a := range may {
		if cnt[a] > 0 {
			cnt[a]--
		}
	}
	for _, c := range cnt {
		if c != 0 {
			return false
		}
	}
	return true
}

// lookupOut is the observable outcome of one API call.
type lookupOut struct {
	api     int // 0 Lookup, 1 LookupIP, 2 LookupIPs
	a, aaaa []netip.Addr
	one     netip.Addr
	err     error
}

func (o *lookupOut) String() string {
	return fmt.Sprintf("api=%d a(%d)=%s aaaa(%d)=%s one=%v err=%v", o.api, len(o.a), brief(o.a), len(o.aaaa), brief(o.aaaa), o.one, o.err)
}

// matches reports whether the outcome is the stored answer e.
func (o *lookupOut) matches(e *entry) bool {
	switch o.api {
	case 1:
		if o.err != nil {
			return errors.Is(o.err, dns.ErrDomainNoAssociatedIPs) && len(e.a) == 0 && len(e.aaaa) == 0
		}
		for _, l := range [][]netip.Addr{e.a, e.aaaa, e.crossA, e.crossAAAA} {
			if slices.Contains(l, o.one) {
				return true
			}
		}
		return false
	default:
		return o.err == nil && within(o.a, e.a, e.crossA) && within(o.aaaa, e.aaaa, e.crossAAAA)
	}
}

// sigNotSentinel: a failed lookup must be reported with the package's sentinel dns.ErrLookup
// itself. The callers decide by identity: router/route.go `lookup` does `err == dns.ErrLookup`
// to fall through to the next resolver ("use all resolvers by order"), and
// router.DialResultCodeFromError only maps the router's own "no available resolvers" and
// dns.ErrDomainNoAssociatedIPs to "domain name lookup error". A wrapped or different error
// aborts route matching with "other error".
const sigNotSentinel = "SIG=C17/lookup-failure-is-not-the-ErrLookup-sentinel"

// isSentinel reports whether the failure is dns.ErrLookup by identity.
func (o *lookupOut) isSentinel() bool { return o.err == dns.ErrLookup }

// isFailure reports whether the outcome reports a failed lookup.
func (o *lookupOut) isFailure() bool {
	return o.err != nil && !errors.Is(o.err, dns.ErrDomainNoAssociatedIPs)
}

func (e *entry) String() string {
	if e == nil {
		return "<none>"
	}
	return fmt.Sprintf("a(%d)=%s aaaa(%d)=%s crossA=%s crossAAAA=%s ttl=%s", len(e.a), brief(e.a), len(e.aaaa), brief(e.aaaa), brief(e.crossA), brief(e.crossAAAA), e.ttlDesc)
}
