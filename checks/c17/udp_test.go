package c17

// (b) Resolver with a real UDP client on loopback (real time) and the in-memory TCP upstream
// as fallback. The configured server is a kernel UDP socket on 127.0.0.1; two more sockets play
// foreign sources (same IP / other port, other IP 127.0.0.2 / same port) that answer with the
// right transaction IDs and poison addresses.

import (
	"encoding/json"
	"errors"
	"fmt"
	"io"
	"net"
	"net/netip"
	"os"
	"path/filepath"
	"strconv"
	"strings"
	"sync"
	"testing"
	"time"

	"github.com/database64128/shadowsocks-go/conn"
	"github.com/database64128/shadowsocks-go/direct"
	"github.com/database64128/shadowsocks-go/dns"
	"github.com/database64128/shadowsocks-go/netio"
	"github.com/database64128/shadowsocks-go/zerocopy"
	"go.uber.org/zap"
	"pgregory.net/rapid"

	"verif/internal/ev"
)

const (
	promptBound = 10 * time.Second
	sigSlow     = "SIG=C17/udp-truncated-or-complete-exchange-not-ended-promptly"
)

// harnessTrouble prefixes problems of the environment (sockets), which are not verdicts.
const harnessTrouble = "HARNESS: "

const (
	fromServer = iota
	fromForeignPort
	fromForeignIP
	// fromServerBadSeal: sent from the server's socket, but the packet does not verify in the
	// (sealing) client's unpacker, so the resolver never sees a DNS message: counts for nothing.
	fromServerBadSeal
)

type udpDatagram struct {
	From  int
	It    item
	GapMs int
	Near  bool // acceptable answer of 1200..1232 bytes (just inside the size the resolver advertises)
	Over  bool // acceptable answer of 1233..1472 bytes without TC (longer than advertised, still one valid datagram)
}

// proxy kinds of the resolver's UDP client (udpPlan.Proxy)
const (
	proxyNone   = iota
	proxySSNone // direct.NewShadowsocksNoneUDPClient: [SOCKS address][payload]
	proxySocks5 // direct.Socks5UDPClientConfig: TCP control connection + [RSV RSV FRAG][SOCKS address][payload]
)

var proxyNames = []string{"direct", "ss-none", "socks5"}

type udpLookup struct {
	Datagrams      []udpDatagram
	WaitRetransmit bool  // answer only once a retransmitted query has arrived (about 2 s)
	LostQueries    int   // the first k queries of each family are lost on the way to the upstream (2 s each)
	LostReplies    int   // the upstream's first k rounds of replies are lost on the way back (2 s each)
	Silent         bool  // never answer over UDP (thorough only: 20 s)
	MustSucceed    bool  // the TCP side is healthy and complete: whatever UDP does, the lookup has to succeed
	OpenEnded      bool  // the datagrams leave a query unanswered without truncation (thorough only: 20 s)
	MaxMs          int64 // > 0: liveness bound of this lookup instead of the general promptBound (retransmission schedule)
	TCP            lookupScript
}

type udpPlan struct {
	UseTCP bool
	// Mutating: the resolver's UDP client is the harness sealing client (udpcodec_test.go), whose
	// packer rewrites the message bytes in place; otherwise the pass-through direct client.
	Mutating bool
	// Proxy != 0: the resolver's UDP client is one of the repository's proxying clients, pointed at
	// the fake upstream's socket, which plays the proxy server: it strips the per-packet framing of
	// every query (and checks the target address in it) and adds it to every reply. The resolver is
	// then configured with a DNS server address that exists only inside the framing (192.0.2.53:53).
	Proxy int
	Name  string // name looked up ("" = udp.verif.test)
	L     [2]udpLookup
}

// answerRound is the number of queries per family the upstream has to see before its replies
// reach the resolver (1 = the first query is answered).
func (l *udpLookup) answerRound() int {
	r := 1 + l.LostQueries + l.LostReplies
	if l.WaitRetransmit {
		r++
	}
	return r
}

// usable reports whether a datagram item is an acceptable final UDP response.
func usableUDP(it *item) bool { return it.Kind == kResp && !it.Msg.TC }

// udpServer is the fake upstream on kernel sockets.
type udpServer struct {
	pc, fport, fip *net.UDPConn
	ap             netip.AddrPort
	name           string
	scripts        []udpLookup
	sealed         bool           // the resolver uses the sealing client: datagrams are sealed packets
	proxy          int            // the resolver uses a proxying client: datagrams carry that client's framing
	dnsAP          netip.AddrPort // the address the resolver is configured with (== ap unless proxy != 0)
	ctl            net.Listener   // socks5: the TCP control connection's listener

	mu         sync.Mutex
	ids        map[int]uint16
	ports      []uint16      // source ports in order of first appearance = lookups that reached upstream
	queries    []map[int]int // per lookup: family -> number of queries seen
	played     []bool
	badQ       string
	oversize   int
	nDatagrams int
	syncCh     chan struct{}
	done       chan struct{}
}

func listenLoopback(ip netip.Addr, port uint16) (*net.UDPConn, error) {
	return net.ListenUDP("udp4", net.UDPAddrFromAddrPort(netip.AddrPortFrom(ip, port)))
}

func newUDPServer(name string, scripts []udpLookup, sealed bool, proxy int) (*udpServer, error) {
	lo1 := netip.AddrFrom4([4]byte{127, 0, 0, 1})
	lo2 := netip.AddrFrom4([4]byte{127, 0, 0, 2})
	var lastErr error
	for range 20 {
		pc, err := listenLoopback(lo1, 0)
		if err != nil {
			return nil, err
		}
		ap := pc.LocalAddr().(*net.UDPAddr).AddrPort()
		fip, err := listenLoopback(lo2, ap.Port())
		if err != nil {
			pc.Close()
			lastErr = err
			continue
		}
		fport, err := listenLoopback(lo1, 0)
		if err != nil {
			pc.Close()
			fip.Close()
			return nil, err
		}
		s := &udpServer{pc: pc, fport: fport, fip: fip, ap: netip.AddrPortFrom(lo1, ap.Port()), name: name, scripts: scripts, sealed: sealed,
			ids: map[int]uint16{}, syncCh: make(chan struct{}, 4), done: make(chan struct{})}
		s.proxy, s.dnsAP = proxy, s.ap
		if proxy != proxyNone {
			s.dnsAP = serverAP
		}
		if proxy == proxySocks5 {
			if s.ctl, err = net.Listen("tcp4", "127.0.0.1:0"); err != nil {
				pc.Close()
				fip.Close()
				fport.Close()
				return nil, err
			}
			go s.serveSocks5Control()
		}
		go s.run()
		return s, nil
	}
	return nil, lastErr
}

func (s *udpServer) idSnapshot() map[int]uint16 {
	s.mu.Lock()
	defer s.mu.Unlock()
	out := map[int]uint16{}
	for k, v := range s.ids {
		out[k] = v
	}
	return out
}

// serveSocks5Control plays the TCP side of SOCKS5 UDP ASSOCIATE (RFC 1928): method negotiation,
// the request, a reply naming the UDP socket; the connection then stays open until the client ends it.
func (s *udpServer) serveSocks5Control() {
	for {
		c, err := s.ctl.Accept()
		if err != nil {
			return
		}
		go func() {
			defer c.Close()
			c.SetDeadline(time.Now().Add(60 * time.Second))
			b := make([]byte, 512)
			if _, err := io.ReadFull(c, b[:2]); err != nil || b[0] != 5 {
				return
			}
			if _, err := io.ReadFull(c, b[:int(b[1])]); err != nil {
				return
			}
			c.Write([]byte{5, 0})
			if _, err := io.ReadFull(c, b[:4]); err != nil || b[1] != 3 {
				return
			}
			n := 0
			switch b[3] {
			case 1:
				n = 4 + 2
			case 4:
				n = 16 + 2
			case 3:
				if _, err := io.ReadFull(c, b[:1]); err != nil {
					return
				}
				n = int(b[0]) + 2
			}
			if _, err := io.ReadFull(c, b[:n]); err != nil {
				return
			}
			ip := s.ap.Addr().As4()
			c.Write([]byte{5, 0, 0, 1, ip[0], ip[1], ip[2], ip[3], byte(s.ap.Port() >> 8), byte(s.ap.Port())})
			c.Read(b) // until the client closes
		}()
	}
}

// proxyHeader is the framing a proxy server puts in front of a payload that came from src.
func proxyHeader(kind int, src netip.AddrPort) []byte {
	var b []byte
	if kind == proxySocks5 {
		b = append(b, 0, 0, 0)
	}
	ip := src.Addr().As4()
	b = append(b, 1, ip[0], ip[1], ip[2], ip[3], byte(src.Port()>>8), byte(src.Port()))
	return b
}

// stripProxyHeader removes the client's framing and returns the target address in it.
func stripProxyHeader(kind int, b []byte) (target netip.AddrPort, msg []byte, err error) {
	if kind == proxySocks5 {
		if len(b) < 3 || b[0] != 0 || b[1] != 0 || b[2] != 0 {
			return target, nil, errors.New("bad SOCKS5 UDP request header")
		}
		b = b[3:]
	}
	if len(b) < 7 || b[0] != 1 {
		return target, nil, errors.New("target address is not an IPv4 SOCKS address")
	}
	return netip.AddrPortFrom(netip.AddrFrom4([4]byte(b[1:5])), uint16(b[5])<<8|uint16(b[6])), b[7:], nil
}

func (s *udpServer) close() {
	if s.ctl != nil {
		s.ctl.Close()
	}
	s.pc.Close()
	<-s.done
	s.fport.Close()
	s.fip.Close()
}

// sync returns once the server has processed every datagram sent to it before the call.
func (s *udpServer) sync() error {
	c, err := net.DialUDP("udp4", nil, net.UDPAddrFromAddrPort(s.ap))
	if err != nil {
		return err
	}
	defer c.Close()
	for range 3 {
		if _, err := c.Write([]byte("VERIF-SYNC")); err != nil {
			return err
		}
		select {
		case <-s.syncCh:
			return nil
		case <-time.After(5 * time.Second):
		}
	}
	return fmt.Errorf("upstream did not see the sync marker")
}

func (s *udpServer) run() {
	defer close(s.done)
	buf := make([]byte, 2048)
	for {
		n, src, err := s.pc.ReadFromUDPAddrPort(buf)
		if err != nil {
			if errors.Is(err, net.ErrClosed) {
				return
			}
			continue
		}
		if string(buf[:n]) == "VERIF-SYNC" {
			s.syncCh <- struct{}{}
			continue
		}
		msg := buf[:n]
		if s.proxy != proxyNone {
			target, m, err := stripProxyHeader(s.proxy, msg)
			if err != nil || target != s.dnsAP {
				s.mu.Lock()
				s.nDatagrams++
				s.badQ = fmt.Sprintf("datagram #%d from the resolver's %s client: framing error %v, target %v (configured server %v) raw=%x", s.nDatagrams, proxyNames[s.proxy], err, target, s.dnsAP, msg)
				s.mu.Unlock()
				continue
			}
			msg = m
		}
		if s.sealed {
			ms, ml, err := openInPlace(buf, 0, n)
			if err != nil {
				s.mu.Lock()
				s.nDatagrams++
				s.badQ = fmt.Sprintf("datagram #%d from the resolver does not decode at the far end of its UDP client: %v", s.nDatagrams, err)
				s.mu.Unlock()
				continue
			}
			msg = buf[ms : ms+ml]
		}
		q, err := parseQuery(msg)
		s.mu.Lock()
		s.nDatagrams++
		if err != nil || !queryOK(&q, s.name) {
			s.badQ = fmt.Sprintf("datagram #%d query=%+v err=%v raw=%x", s.nDatagrams, q, err, msg)
			s.mu.Unlock()
			continue
		}
		port := src.Port()
		k := -1
		for i, p := range s.ports {
			if p == port {
				k = i
			}
		}
		if k < 0 {
			s.ports = append(s.ports, port)
			s.queries = append(s.queries, map[int]int{})
			s.played = append(s.played, false)
			k = len(s.ports) - 1
		}
		fam := 4
		if q.Type == tAAAA {
			fam = 6
		}
		s.ids[fam] = q.ID
		s.queries[k][fam]++
		var play *udpLookup
		if !s.played[k] && k < len(s.scripts) && s.queries[k][4] > 0 && s.queries[k][6] > 0 {
			sc := &s.scripts[k]
			if r := sc.answerRound(); !sc.Silent && s.queries[k][4] >= r && s.queries[k][6] >= r {
				s.played[k] = true
				play = sc
			}
		}
		ids := map[int]uint16{4: s.ids[4], 6: s.ids[6]}
		s.mu.Unlock()
		if play != nil {
			dst := netip.AddrPortFrom(src.Addr().Unmap(), port)
			for i := range play.Datagrams {
				d := &play.Datagrams[i]
				if d.GapMs > 0 {
					time.Sleep(time.Duration(d.GapMs) * time.Millisecond)
				}
				var b []byte
				if d.It.Kind != kZeroLen {
					b = wire(&d.It, s.name, ids)
				}
				if (len(b) > 1232 && !d.Over) || len(b) > 1472 { // would not fit the size the resolver advertises: generator error
					s.mu.Lock()
					s.oversize = len(b)
					s.mu.Unlock()
				}
				if s.sealed {
					b = seal(b)
					if d.From == fromServerBadSeal {
						b[len(b)-1] ^= 0x5a
					}
				}
				sock := s.pc
				switch d.From {
				case fromForeignPort:
					sock = s.fport
				case fromForeignIP:
					sock = s.fip
				}
				if s.proxy != proxyNone {
					// everything comes from the proxy server's socket; who sent the payload is what the
					// framing says: the configured DNS server, or somebody else (same IP / other port,
					// other IP / same port) - the resolver's own source check has to tell them apart
					src := s.dnsAP
					switch d.From {
					case fromForeignPort:
						src = netip.AddrPortFrom(src.Addr(), src.Port()+1)
					case fromForeignIP:
						src = netip.AddrPortFrom(netip.AddrFrom4([4]byte{192, 0, 2, 54}), src.Port())
					}
					sock = s.pc
					b = append(proxyHeader(s.proxy, src), b...)
				}
				sock.WriteToUDPAddrPort(b, dst)
			}
		}
	}
}

var udpBadKinds = []string{kWrongID, kWrongID, kNotResp, kNoRA, kBadRCode, kZeroLen, kShort, kGarbage, kCut, kExtraCount, kPtrLoop}

var udpTTLs = []uint32{3600, 3600, 86400, 0}

// genUDPMsg draws an acceptable response body with real-time-safe TTLs.
func genUDPMsg(rt *rapid.T, fam int, ag *addrGen, poison bool) wmsg {
	rk := rapid.SampledFrom([]int{rkValid, rkValid, rkValid, rkValid, rkNoDataSOA, rkNXSOA, rkFail, rkNoData}).Draw(rt, "udpRespKind")
	m := genMsg(rt, fam, ag, poison, rk)
	base := rapid.SampledFrom(udpTTLs).Draw(rt, "udpTTL")
	for i := range m.Answers {
		m.Answers[i].TTL = base
	}
	for i := range m.Authority {
		m.Authority[i].TTL = base
		m.Authority[i].SOAMin = base
	}
	return m
}

// compressOwners makes every record use a compression pointer to the question name.
func compressOwners(m *wmsg) {
	for i := range m.Answers {
		m.Answers[i].Full = false
	}
	for i := range m.Authority {
		m.Authority[i].Full = false
	}
}

// crossClean gives the other-family records of a message that the server itself sends (with one
// of the lookup's IDs) ordinary addresses: the poison marking is reserved for addresses whose
// use is a violation under every reading of the documentation.
func crossClean(it *item, ag *addrGen) {
	for i := range it.Msg.Answers {
		r := &it.Msg.Answers[i]
		if r.Type == tA && it.Fam == 6 {
			r.Addr = ag.v4(false)
		} else if r.Type == tAAAA && it.Fam == 4 {
			r.Addr = ag.v6(false)
		}
	}
}

func realtimeScript(s lookupScript) lookupScript {
	for ci := range s.Conns {
		for i := range s.Conns[ci].Items {
			it := &s.Conns[ci].Items[i]
			it.DelayMs = 0
			if it.Msg.PadTTL < 3600 {
				it.Msg.PadTTL = 3600
			}
			if it.Kind == kSilence {
				it.Kind = kZeroLen
			}
			for j := range it.Msg.Answers {
				if it.Msg.Answers[j].TTL < 3600 {
					it.Msg.Answers[j].TTL = 3600
				}
			}
			for j := range it.Msg.Authority {
				if it.Msg.Authority[j].TTL < 3600 {
					it.Msg.Authority[j].TTL = 3600
				}
				it.Msg.Authority[j].SOAMin = it.Msg.Authority[j].TTL
			}
		}
	}
	return s
}

// sizedAnswer is an acceptable answer to the query of family fam for name whose message is `size`
// bytes long (or up to 12 bytes less when the rest is too small for a padding record): as many
// address records as fit (70..74 A records for an everyday name), TTL 3600.
func sizedAnswer(fam, size int, name string, opt bool, ag *addrGen) wmsg {
	m := wmsg{QR: true, RA: true, RD: true, OPT: opt, PadTTL: 3600}
	rrSize := 16
	if fam == 6 {
		rrSize = 28
	}
	room := size - 12 - (len(name) + 2 + 4)
	if opt {
		room -= 11
	}
	n := max(1, room/rrSize)
	for range n {
		r := rr{Type: tA, TTL: 3600}
		if fam == 6 {
			r.Type = tAAAA
			r.Addr = ag.v6(false)
		} else {
			r.Addr = ag.v4(false)
		}
		m.Answers = append(m.Answers, r)
	}
	if room-n*rrSize >= 13 {
		m.PadTo = size
	}
	return m
}

func genUDPLookup(rt *rapid.T, ag *addrGen, mutating bool, proxy int, name string) udpLookup {
	var l udpLookup
	n := rapid.IntRange(0, 7).Draw(rt, "nDatagrams")
	spoofFirst := rapid.Bool().Draw(rt, "spoofFirst")
	for i := range n {
		d := udpDatagram{GapMs: rapid.SampledFrom([]int{0, 0, 1, 2}).Draw(rt, "gapMs")}
		fam := rapid.SampledFrom([]int{4, 6}).Draw(rt, "fam")
		k := rapid.IntRange(0, 19).Draw(rt, "dgClass")
		if i == 0 && spoofFirst {
			k = 7
		}
		if mutating && k == 19 {
			k = 20
		}
		switch {
		case k == 20: // comes from the server's socket but does not verify in the client's unpacker
			d.From = fromServerBadSeal
			d.It = item{Kind: kResp, Fam: fam, Msg: genUDPMsg(rt, fam, ag, true)}
		case k < 7: // acceptable answer from the server
			d.It = item{Kind: kResp, Fam: fam, Msg: genUDPMsg(rt, fam, ag, false)}
			switch sz := rapid.IntRange(0, 5).Draw(rt, "answerSize"); {
			case sz <= 1: // close to the advertised EDNS(0) size, from below
				d.Near = true
				d.It.Msg = sizedAnswer(fam, rapid.SampledFrom([]int{1200, 1216, 1225, 1230, 1231, 1232, 1232}).Draw(rt, "nearSize"), name, rapid.Bool().Draw(rt, "opt"), ag)
			case sz == 2 && proxy == proxyNone && !mutating: // longer than advertised, no TC, still fits the client's packet size
				d.Over = true
				d.It.Msg = sizedAnswer(fam, rapid.SampledFrom([]int{1233, 1234, 1280, 1400, 1452, 1471, 1472}).Draw(rt, "overSize"), name, rapid.Bool().Draw(rt, "opt"), ag)
			}
		case k < 12: // spoofed: right ID, foreign source, poison addresses
			d.From = rapid.SampledFrom([]int{fromForeignPort, fromForeignIP}).Draw(rt, "foreign")
			d.It = item{Kind: kResp, Fam: fam, Msg: genUDPMsg(rt, fam, ag, true)}
			d.It.Msg.RCode, d.It.Msg.Authority = 0, nil
			if len(d.It.Msg.Answers) == 0 {
				d.It.Msg.Answers = []rr{{Type: tA, TTL: 3600, Addr: ag.v4(true)}}
			}
		case k < 14: // truncated answer from the server (carries partial answers that must not be used)
			d.It = item{Kind: kResp, Fam: fam, Msg: genMsg(rt, fam, ag, true, rkValid)}
			d.It.Msg.TC = true
			crossClean(&d.It, ag)
		case k < 15: // foreign source and foreign ID
			d.From = rapid.SampledFrom([]int{fromForeignPort, fromForeignIP}).Draw(rt, "foreign")
			d.It = genBad(rt, fam, ag, []string{kWrongID, kGarbage, kNotResp})
		default: // unusable datagram from the server
			d.It = genBad(rt, fam, ag, udpBadKinds)
			if d.It.Kind != kWrongID {
				crossClean(&d.It, ag)
			}
		}
		d.It.DelayMs = 0
		compressOwners(&d.It.Msg) // keeps every datagram below the advertised 1232 bytes for the longest names too
		l.Datagrams = append(l.Datagrams, d)
	}
	// Make sure the UDP phase ends promptly even for a resolver that skips every unusable
	// datagram and keeps waiting: finish with the answers still missing under that reading, or
	// with a truncated answer for a family still missing (which must trigger the TCP retry).
	acc := map[int]bool{}
	for i := range l.Datagrams {
		d := &l.Datagrams[i]
		if d.From == fromServer && usableUDP(&d.It) && !d.Over { // a resolver may ignore an over-long datagram
			acc[d.It.Fam] = true
		}
	}
	if !(acc[4] && acc[6]) {
		var missing []int
		for _, f := range []int{4, 6} {
			if !acc[f] {
				missing = append(missing, f)
			}
		}
		if rapid.IntRange(0, 2).Draw(rt, "finishWithTC") == 0 {
			fam := rapid.SampledFrom(missing).Draw(rt, "tcFam")
			it := item{Kind: kResp, Fam: fam, Msg: genMsg(rt, fam, ag, true, rkValid)}
			it.Msg.TC = true
			crossClean(&it, ag)
			compressOwners(&it.Msg)
			l.Datagrams = append(l.Datagrams, udpDatagram{It: it, GapMs: 1})
		} else {
			for _, f := range missing {
				it := item{Kind: kResp, Fam: f, Msg: genUDPMsg(rt, f, ag, false)}
				d := udpDatagram{It: it, GapMs: 1}
				if rapid.IntRange(0, 2).Draw(rt, "finishNear") == 0 {
					d.Near = true
					d.It.Msg = sizedAnswer(f, rapid.SampledFrom([]int{1200, 1229, 1232}).Draw(rt, "nearSize"), name, false, ag)
				}
				compressOwners(&d.It.Msg)
				l.Datagrams = append(l.Datagrams, d)
			}
		}
	}
	// loss plan: the first datagram(s) of the transaction are lost, a retransmission matters
	if rapid.IntRange(0, 19).Draw(rt, "loss") == 13 {
		switch rapid.IntRange(0, 4).Draw(rt, "lossKind") {
		case 0, 1:
			l.LostQueries = 1
		case 2, 3:
			l.LostReplies = 1
		default:
			l.LostQueries, l.LostReplies = 1, 1
		}
	}
	s, _ := genLookupScript(rt, ag)
	// "TC=1 over UDP, then the large answer over TCP": when the server truncates, the TCP side
	// usually carries an answer that really does not fit a datagram (up to the 65535-byte limit).
	tcFam := 0
	for i := range l.Datagrams {
		if d := &l.Datagrams[i]; d.From == fromServer && d.It.Kind == kResp && d.It.Msg.TC && tcFam == 0 {
			tcFam = d.It.Fam
		}
	}
	if tcFam != 0 && rapid.IntRange(0, 3).Draw(rt, "bigAfterTC") != 0 {
		big := item{Kind: kResp, Fam: tcFam, Msg: genBigMsg(rt, tcFam, ag, false), RK: rkValid}
		other := item{Kind: kResp, Fam: 10 - tcFam, Msg: genUDPMsg(rt, 10-tcFam, ag, false)}
		if rapid.Bool().Draw(rt, "bigBothFamilies") {
			other.Msg = genBigMsg(rt, 10-tcFam, ag, false)
		}
		items := []item{big, other}
		if rapid.Bool().Draw(rt, "otherFirst") {
			items = []item{other, big}
		}
		s = lookupScript{Conns: []connScript{{Items: items}}}
	}
	l.TCP = realtimeScript(s)
	return l
}

func goodUDPLookup(ag *addrGen) udpLookup {
	var l udpLookup
	for _, f := range []int{6, 4} {
		m := wmsg{QR: true, RA: true, RD: true}
		if f == 4 {
			m.Answers = []rr{{Type: tA, TTL: 3600, Addr: ag.v4(false)}}
		} else {
			m.Answers = []rr{{Type: tAAAA, TTL: 3600, Addr: ag.v6(false)}}
		}
		l.Datagrams = append(l.Datagrams, udpDatagram{It: item{Kind: kResp, Fam: f, Msg: m}})
	}
	return l
}

// udpExpect is one admissible reading of a lookup (see evalUDPVariants).
type udpExpect struct {
	desc  string
	entry *entry // nil: failure expected
	big   int    // size of the largest padded (TCP) answer among the accepted responses
	dials int    // -1: any
	near  bool   // an answer of 1200..1232 bytes was accepted over UDP in this reading
	over  bool   // an over-long answer (1233..1472 bytes, no TC) was accepted over UDP in this reading
	why   string // why this variant was rejected
}

// evalUDPVariants enumerates the admissible conducts of the UDP phase: the datagrams from the
// configured server are processed in order; foreign-source datagrams never count; an unusable
// or truncated datagram from the server either ends the UDP phase (TCP retry) or is skipped —
// the property text does not fix which, so every break point is a variant. Each variant is
// completed by the reference evaluation of the TCP phase over what the TCP upstream observed.
func evalUDPVariants(name string, l *udpLookup, useTCP bool, obs []*connObs, t0, t1 time.Time) []udpExpect {
	out := evalUDPVariantsOver(name, l, useTCP, obs, t0, t1, false)
	for i := range l.Datagrams {
		if d := &l.Datagrams[i]; d.Over && d.From == fromServer {
			// Nothing documents what happens to a valid response that is longer than the advertised
			// size but fits the client's packet size: using it and ignoring it are both admissible.
			return append(out, evalUDPVariantsOver(name, l, useTCP, obs, t0, t1, true)...)
		}
	}
	return out
}

func evalUDPVariantsOver(name string, l *udpLookup, useTCP bool, obs []*connObs, t0, t1 time.Time, skipOver bool) []udpExpect {
	var serverIdx []int
	var skipped []*item
	for i := range l.Datagrams {
		if l.Datagrams[i].From == fromServer {
			if skipOver && l.Datagrams[i].Over {
				skipped = append(skipped, &l.Datagrams[i].It)
				continue
			}
			serverIdx = append(serverIdx, i)
		}
	}
	breakPoints := []int{-1} // -1: never break early
	for _, i := range serverIdx {
		if !usableUDP(&l.Datagrams[i].It) {
			breakPoints = append(breakPoints, i)
		}
	}
	if l.Silent {
		breakPoints = []int{-1}
	}
	var out []udpExpect
	for _, bp := range breakPoints {
		acc := map[int]*item{}
		left := append([]*item(nil), skipped...) // unusable datagrams from the server the resolver may have looked into
		if !l.Silent {
			for _, i := range serverIdx {
				it := &l.Datagrams[i].It
				if !usableUDP(it) {
					left = append(left, it)
				}
				if i == bp {
					break
				}
				if usableUDP(it) && acc[it.Fam] == nil {
					acc[it.Fam] = it
					if acc[4] != nil && acc[6] != nil {
						break
					}
				}
			}
		}
		x := udpExpect{desc: fmt.Sprintf("udp-phase-ends-at-datagram=%d over-long-ignored=%v", bp, skipOver)}
		for i := range l.Datagrams {
			if d := &l.Datagrams[i]; acc[d.It.Fam] == &d.It {
				x.near = x.near || d.Near
				x.over = x.over || d.Over
			}
		}
		if acc[4] != nil && acc[6] != nil {
			x.entry = buildEntry(acc, t0, t1, left...)
			x.dials = 0
			out = append(out, x)
			continue
		}
		evl, v := evalTCP(name, &l.TCP, obs, t0, t1, acc)
		x.dials = len(obs)
		if useTCP && len(obs) == 0 {
			v = "SIG=C17/no-tcp-retry-after-incomplete-udp"
		}
		if v != "" {
			x.why = v
		} else if evl.done() {
			x.entry = buildEntry(evl.acc, t0, t1, left...)
			for _, it := range evl.acc {
				if it.Msg.PadTo > 0 {
					x.big = max(x.big, len(wire(it, name, map[int]uint16{4: 4, 6: 6})))
				}
			}
		}
		out = append(out, x)
	}
	return out
}

var recUDP = ev.New("C17", "udp-loopback",
	"rapid, real time: name looked up as in the histories (everyday, or total length 1..253 with 63-byte / 1-byte / mixed labels); resolver with the pass-through direct UDP client or (half of the cases) a harness sealing client whose packer rewrites the message bytes in place (per-packet nonce in the front headroom, XOR keystream, tag in the rear headroom; the upstream undoes it, and may send a packet that does not verify), loss plans in 1/20 of the cases (first query of each family lost / first round of replies lost / both) plus two fixed such cases with the sealing client; direct UDP client towards a kernel socket on 127.0.0.1 plus (usually) the in-memory TCP upstream as fallback; per lookup 0..6 datagrams in a "+
		"drawn order: acceptable answers from the server, spoofed answers with the right IDs from a foreign port or a foreign IP (127.0.0.2, same port) carrying poison addresses, "+
		"truncated answers (then the TCP side usually carries a large answer padded to 512..65535 bytes), foreign-ID/garbage/QR=0/RA=0/short/cut/empty datagrams from the server; optionally the server answers only a retransmitted query; then a second lookup of the "+
		"same name (cache hit expected for TTL>=3600, fresh answers expected after a failure). Non-trivial: a spoofed datagram arrives before the lookup is complete AND (TCP fallback "+
		"happened or an unusable server datagram was sent); distinct key = datagram class string + outcome").
	Require("proxy-client-ss-none", "proxy-client-socks5", "udp-answer-1200..1232B-accepted", "udp-answer-1200..1232B-through-ss-none", "udp-answer-1200..1232B-through-socks5",
		"udp-overlong-1233..1472B-no-tc-sent", "udp-answered-after-k-lost=1", "udp-answered-after-k-lost=2", "udp-answered-after-k-lost=3", "udp-answered-after-k-lost=5",
		"udp-client-mutates-payload", "first-datagram-lost/answered-on-retransmission", "retransmission-through-mutating-client", "name-length>=243", "failure-is-ErrLookup", "tc-udp-then-tcp-answer>1234B", "spoofed-before-complete", "tcp-fallback", "truncated-udp", "udp-complete", "second-lookup-cache-hit", "second-lookup-after-failure", "foreign-ip", "foreign-port")

func runUDPPlan(t *testing.T, p *udpPlan) (viol string, labels map[string]bool, key string) {
	labels = map[string]bool{}
	name := "udp.verif.test"
	if p.Name != "" {
		name = p.Name
	}
	for _, l := range nameLabels(name) {
		labels[l] = true
	}
	srv, err := newUDPServer(name, p.L[:], p.Mutating, p.Proxy)
	if err != nil {
		return harnessTrouble + "cannot bind loopback sockets: " + err.Error(), labels, ""
	}
	defer srv.close()
	up := &tcpUpstream{idSource: srv.idSnapshot}
	rc := dns.ResolverConfig{Name: "verif-udp", AddrPort: srv.dnsAP, UDPClientName: "u", CacheSize: 4}
	tcpMap := map[string]netio.StreamClient{}
	if p.UseTCP {
		rc.TCPClientName = "t"
		tcpMap["t"] = up
	}
	udpMap := map[string]zerocopy.UDPClient{"u": direct.NewDirectUDPClient("direct", "ip", 1500, conn.DefaultUDPClientListenConfig)}
	if p.Mutating {
		udpMap["u"] = sealingUDPClient{}
		labels["udp-client-mutates-payload"] = true
	}
	switch p.Proxy {
	case proxySSNone:
		udpMap["u"] = direct.NewShadowsocksNoneUDPClient("verif-ss-none", "ip4", conn.AddrFromIPPort(srv.ap), 1500, conn.DefaultUDPClientListenConfig)
	case proxySocks5:
		cfg := direct.Socks5UDPClientConfig{Logger: zap.NewNop(), Name: "verif-socks5", NetworkTCP: "tcp4", NetworkIP: "ip4",
			Address: srv.ctl.Addr().String(), Dialer: conn.DefaultTCPDialer, MTU: 1500, ListenConfig: conn.DefaultUDPClientListenConfig}
		udpMap["u"] = cfg.NewClient()
	}
	if p.Proxy != proxyNone {
		labels["proxy-client-"+proxyNames[p.Proxy]] = true
	}
	sr, err := rc.NewSimpleResolver(tcpMap, udpMap, zap.NewNop())
	if err != nil {
		return "SIG=C17/harness-resolver-construction " + err.Error(), labels, ""
	}
	r := sr.(*dns.Resolver)
	var prev *entry
	// alts: the stored answers of the OTHER admissible readings of the first lookup that give the
	// same addresses as prev (e.g. "the UDP phase ended at the garbage datagram" and "... at the
	// truncated datagram after it" differ only in which discarded datagrams' TTLs were looked at).
	// What the second lookup does has to be consistent with at least one of them.
	var alts []*entry
	prevFailed := false
	var keyb strings.Builder
	for k := range p.L {
		l := &p.L[k]
		for i := range l.Datagrams {
			d := &l.Datagrams[i]
			c := "s"
			if d.Near {
				c = "s~1232B"
			}
			if d.Over {
				c = "s>1232B"
				labels["udp-overlong-1233..1472B-no-tc-sent"] = true
			}
			switch d.From {
			case fromForeignPort:
				c = "p"
				labels["foreign-port"] = true
			case fromForeignIP:
				c = "i"
				labels["foreign-ip"] = true
			case fromServerBadSeal:
				c = "b"
				labels["undecodable-packet-from-server"] = true
			}
			kind := d.It.Kind
			if kind == kResp && d.It.Msg.TC {
				kind = "tc"
				if d.From == fromServer {
					labels["truncated-udp"] = true
				}
			}
			fmt.Fprintf(&keyb, "%s:%s%d ", c, kind, d.It.Fam)
		}
		up.begin(name, &l.TCP)
		t0 := time.Now()
		res := make(chan *lookupOut, 1)
		go func() { res <- callAPI(r, k*2%3, name) }() // Lookup for the first, LookupIPs for the second
		var out *lookupOut
		select {
		case out = <-res:
		case <-time.After(90 * time.Second):
			return fmt.Sprintf("SIG=C17/udp-lookup-hangs lookup=%d plan=%s", k, keyb.String()), labels, ""
		}
		t1 := time.Now()
		obs := up.end()
		if err := srv.sync(); err != nil {
			return harnessTrouble + "loopback upstream unresponsive: " + err.Error(), labels, ""
		}
		srv.mu.Lock()
		reached := len(srv.ports)
		badQ := srv.badQ
		oversize := srv.oversize
		var nq map[int]int
		if reached > 0 {
			nq = srv.queries[reached-1]
		}
		srv.mu.Unlock()
		ctxs := func() string {
			return fmt.Sprintf("lookup=%d udp-client=%s(payload-rewriting=%v) useTCP=%v datagrams=[%s] tcp=%v dur=%v out{%s} lookupsSeenByUDPUpstream=%d queries=%v tcpConns=%d",
				k, proxyNames[p.Proxy], p.Mutating, p.UseTCP, keyb.String(), describeScript(&l.TCP), t1.Sub(t0), out, reached, nq, len(obs))
		}
		if l.MustSucceed && out.isFailure() {
			return "SIG=C17/udp-unanswered-or-unusable-but-healthy-tcp-retry-failed " + ctxs(), labels, ""
		}
		if oversize > 0 {
			return fmt.Sprintf("%sgenerated datagram of %d bytes", harnessTrouble, oversize), labels, ""
		}
		if badQ != "" {
			return "SIG=C17/udp-query-wrong " + badQ + " " + ctxs(), labels, ""
		}
		// Bounded liveness: every generated (non-silent) scenario ends either with usable answers
		// to both queries or with a truncated answer to an open query, which is documented to
		// trigger the TCP retry immediately; observed durations are milliseconds (2 s when the
		// upstream waits for a retransmission), the UDP time limit is 20 s.
		bound := promptBound
		if l.MaxMs > 0 {
			bound = time.Duration(l.MaxMs) * time.Millisecond
		}
		if !l.Silent && !l.OpenEnded && t1.Sub(t0) > bound {
			return fmt.Sprintf("%s bound=%v ", sigSlow, bound) + ctxs(), labels, ""
		}
		if out.hasPoison() {
			return "SIG=C17/foreign-or-malformed-message-address-in-answer " + ctxs(), labels, ""
		}
		if k == 0 && reached != 1 {
			return "SIG=C17/udp-first-lookup-did-not-query-upstream " + ctxs(), labels, ""
		}
		if k == 1 {
			// first lookup always reached the upstream (1 port); a second port means a refresh
			if reached < 2 && len(obs) == 0 {
				// served from cache
				if prev == nil {
					return "SIG=C17/no-upstream-query-without-cached-entry " + ctxs(), labels, ""
				}
				hitOK := prev.observeHit(t0)
				for _, e := range alts {
					hitOK = e.observeHit(t0) || hitOK
				}
				if !hitOK {
					return "SIG=C17/served-after-expiry-without-refresh " + ctxs(), labels, ""
				}
				if !out.matches(prev) {
					return "SIG=C17/cache-hit-wrong-answer " + ctxs() + " want{" + prev.String() + "}", labels, ""
				}
				labels["second-lookup-cache-hit"] = true
				keyb.WriteString("=> hit")
				continue
			}
			missOK := prev == nil || prev.observeMiss(t0)
			for _, e := range alts {
				missOK = e.observeMiss(t0) || missOK
			}
			if !missOK {
				return "SIG=C17/requery-before-expiry " + ctxs() + " entry{" + prev.String() + "}", labels, ""
			}
			if prevFailed {
				labels["second-lookup-after-failure"] = true
			}
		}
		// spoofed datagram before the lookup is complete?
		{
			acc := map[int]bool{}
			for i := range l.Datagrams {
				d := &l.Datagrams[i]
				if d.From != fromServer {
					if d.From != fromServerBadSeal && d.It.Kind == kResp && !(acc[4] && acc[6]) {
						labels["spoofed-before-complete"] = true
					}
					continue
				}
				if !usableUDP(&d.It) {
					labels["unusable-from-server"] = true
					break
				}
				acc[d.It.Fam] = true
			}
		}
		if r := l.answerRound(); r > 1 && !l.Silent {
			// The replies only got through in round r: every earlier datagram was lost, so the
			// retransmissions are what completes the lookup, and all of them decoded to the query.
			if nq[4] < r || nq[6] < r {
				return "SIG=C17/udp-no-retransmission " + ctxs(), labels, ""
			}
			labels["first-datagram-lost/answered-on-retransmission"] = true
			if l.LostReplies > 0 {
				labels["reply-lost"] = true
			}
			if l.LostQueries > 0 || l.WaitRetransmit {
				labels["query-lost"] = true
			}
			if p.Mutating {
				labels["retransmission-through-mutating-client"] = true
			}
		}
		if l.Silent {
			if nq[4] < 2 && nq[6] < 2 {
				return "SIG=C17/udp-no-retransmission " + ctxs(), labels, ""
			}
			labels["retransmitted-while-silent"] = true
		}
		variants := evalUDPVariants(name, l, p.UseTCP, obs, t0, t1)
		matched := false
		var why []string
		for _, x := range variants {
			if matched {
				// the first matching reading decides the labels; further readings with the same
				// addresses only widen what the next lookup may do
				if x.why == "" && !(x.dials == 0 && len(obs) != 0) && x.entry != nil && !prevFailed && prev != nil && k == 0 && out.matches(x.entry) {
					alts = append(alts, x.entry)
				}
				continue
			}
			switch {
			case x.why != "":
				why = append(why, x.desc+": "+x.why)
			case x.dials >= 0 && x.dials != len(obs) && x.dials == 0:
				why = append(why, x.desc+": UDP phase complete but TCP was dialed")
			case x.entry != nil && out.matches(x.entry):
				matched = true
				prev, prevFailed = x.entry, false
				if len(obs) > 0 {
					labels["tcp-fallback"] = true
					keyb.WriteString("=> ok-via-tcp ")
					if x.big > 0 {
						labels[bigClass(x.big)] = true
						fmt.Fprintf(&keyb, "big=%d ", x.big)
						if labels["truncated-udp"] && x.big > 1234 {
							labels["tc-udp-then-tcp-answer>1234B"] = true
						}
					}
				} else {
					labels["udp-complete"] = true
					keyb.WriteString("=> ok-via-udp ")
				}
				if x.near {
					labels["udp-answer-1200..1232B-accepted"] = true
					if p.Proxy != proxyNone {
						labels["udp-answer-1200..1232B-through-"+proxyNames[p.Proxy]] = true
					}
				}
				if x.over {
					labels["udp-overlong-1233..1472B-no-tc-used"] = true
				}
			case x.entry == nil && out.isFailure():
				if !out.isSentinel() {
					return sigNotSentinel + " " + ctxs(), labels, ""
				}
				labels["failure-is-ErrLookup"] = true
				matched = true
				prev, prevFailed = nil, true
				if len(obs) > 0 {
					labels["tcp-fallback"] = true
				}
				keyb.WriteString("=> fail ")
			case x.entry == nil && k == 1 && prev != nil && out.matches(prev):
				matched = true // stale after failed refresh
				keyb.WriteString("=> stale ")
			default:
				want := "failure"
				if x.entry != nil {
					want = x.entry.String()
				}
				why = append(why, x.desc+": want{"+want+"}")
			}
		}
		if !matched {
			return "SIG=C17/udp-wrong-answer " + ctxs() + "\n  no admissible reading matches:\n    " + strings.Join(why, "\n    "), labels, ""
		}
	}
	return "", labels, keyb.String()
}

func describeScript(s *lookupScript) string {
	var b strings.Builder
	for i := range s.Conns {
		b.WriteString(s.Conns[i].describe())
	}
	return b.String()
}

func TestResolverUDP(t *testing.T) {
	// One "UDP unanswered for the whole UDP wait, TCP healthy" case (about 20 s of real time) runs
	// next to the generated scenarios so that the quick tier has it too.
	fixed := make(chan string, 3)
	go func() {
		v, _ := runSilence(t, silenceScens[0])
		fixed <- v
	}()
	// ... and so do the fixed "first datagrams lost, payload-rewriting client" cases (2 s + 4 s).
	go func() { fixed <- runFixedLossScenarios(t) }()
	// ... and the retransmission schedule: the first k = 1, 2, 3, 5 transmissions of each query are ignored
	go func() { fixed <- runRetransmitSchedule(t) }()
	defer func() {
		if t.Failed() {
			return
		}
		for range 3 {
			if v := <-fixed; v != "" && !strings.HasPrefix(v, harnessTrouble) {
				t.Fatalf("%s", v)
			}
		}
	}()
	rapid.Check(t, func(rt *rapid.T) {
		p := &udpPlan{UseTCP: rapid.IntRange(0, 5).Draw(rt, "useTCP") != 0, Name: genName(rt, 20)}
		switch rapid.IntRange(0, 3).Draw(rt, "udpClient") {
		case 1:
			p.Mutating = true
		case 2:
			p.Proxy = proxySSNone
		case 3:
			p.Proxy = proxySocks5
		}
		p.L[0] = genUDPLookup(rt, &addrGen{scope: 1}, p.Mutating, p.Proxy, p.Name)
		p.L[1] = goodUDPLookup(&addrGen{scope: 2})
		j := writeJournal("udp", p)
		viol, labels, key := runUDPPlan(t, p)
		if j != "" {
			os.Remove(j)
		}
		if strings.HasPrefix(viol, sigSlow) {
			// a missed real-time bound is retried once before it counts
			recUDP.Label("slow-retried", 1)
			viol, labels, key = runUDPPlan(t, p)
		}
		if strings.HasPrefix(viol, harnessTrouble) {
			recUDP.Label("harness-trouble-skipped", 1)
			rt.Skip(viol)
		}
		if viol != "" {
			if sig := sigOf(viol); ev.IsKnown("C17", sig) {
				recUDP.KnownHit(sig)
				return
			}
			rt.Fatalf("%s", viol)
		}
		var ls []string
		for l := range labels {
			ls = append(ls, l)
		}
		nt := labels["spoofed-before-complete"] && (labels["tcp-fallback"] || labels["unusable-from-server"])
		recUDP.Case(key, nt, ls...)
		if nt {
			recUDP.Sample(map[string]any{"useTCP": p.UseTCP, "scenario": key})
		}
	})
}

var recSilence = ev.New("C17", "udp-silence",
	"fixed real-time scenarios (first one in quick next to the generated UDP scenarios, all four in thorough): resolver with UDP and TCP client, the UDP upstream never answers / answers only "+
		"the A query for the whole UDP wait (20 s) while the TCP side is healthy (AAAA answer of 16385 / 65535 bytes); the lookup must succeed with exactly the TCP answers (hard assertion), "+
		"the TCP attempt must get its own time (no dial on an expired context, no hang-up on a healthy connection), queries must have been retransmitted meanwhile, "+
		"without a TCP client the lookup must fail and the next lookup must work. Non-trivial: always; distinct key = scenario").
	Require("silence-all-silent-tcp-fallback")

type silenceScen struct {
	name    string
	answerA bool
	useTCP  bool
	big     int // size of the AAAA answer on the TCP side (0: small)
}

var silenceScens = []silenceScen{
	{"all-silent-tcp-fallback", false, true, 16385},
	{"a-answered-aaaa-silent", true, true, 0},
	{"all-silent-no-tcp", false, false, 0},
	{"all-silent-tcp-fallback-64k", false, true, 65535},
}

// runSilence plays one scenario in which the UDP upstream stays silent for the whole UDP wait
// (about 20 s of real time) while the TCP side is healthy.
func runSilence(t *testing.T, sc silenceScen) (viol string, elapsed time.Duration) {
	ag := &addrGen{scope: 9}
	p := &udpPlan{UseTCP: sc.useTCP}
	switch sc.name { // the longest legal names, too
	case "all-silent-tcp-fallback":
		p.Name = makeName(253, 0, 17, 's')
		p.Mutating = true // all ten transmissions of each query go through the payload-rewriting client
	case "all-silent-tcp-fallback-64k":
		p.Name = makeName(253, 1, 18, 't')
	}
	l := udpLookup{Silent: !sc.answerA, OpenEnded: sc.answerA, MustSucceed: sc.useTCP}
	if sc.answerA {
		l.Datagrams = []udpDatagram{{It: item{Kind: kResp, Fam: 4, Msg: wmsg{QR: true, RA: true, RD: true, Answers: []rr{{Type: tA, TTL: 3600, Addr: ag.v4(false)}}}}}}
	}
	six := wmsg{QR: true, RA: true, RD: true, Answers: []rr{{Type: tAAAA, TTL: 3600, Addr: ag.v6(false)}}}
	if sc.big > 0 {
		six = genBigFixed(6, sc.big, true, ag)
	}
	l.TCP = lookupScript{Conns: []connScript{{Items: []item{
		{Kind: kResp, Fam: 4, Msg: wmsg{QR: true, RA: true, RD: true, Answers: []rr{{Type: tA, TTL: 3600, Addr: ag.v4(false)}}}},
		{Kind: kResp, Fam: 6, Msg: six},
	}}}}
	p.L[0] = l
	p.L[1] = goodUDPLookup(&addrGen{scope: 10})
	start := time.Now()
	viol, labels, key := runUDPPlan(t, p)
	elapsed = time.Since(start)
	if viol != "" {
		return viol, elapsed
	}
	ls := []string{"silence-" + sc.name}
	for l := range labels {
		ls = append(ls, l)
	}
	recSilence.Case(sc.name+"|"+key, true, ls...)
	recSilence.Sample(map[string]any{"scenario": sc.name, "elapsed_s": strconv.FormatFloat(elapsed.Seconds(), 'f', 1, 64), "outcome": key})
	return "", elapsed
}

// TestResolverUDPSilence runs the 20 s cases in parallel (thorough tier only; the first scenario
// also runs in the quick tier, concurrently with TestResolverUDP's generated scenarios).
func TestResolverUDPSilence(t *testing.T) {
	if os.Getenv("VERIF_TIER") != "thorough" && os.Getenv("VERIF_C17_SILENCE") == "" {
		t.Skip("20 s real-time scenarios run in the thorough tier only")
	}
	for _, sc := range silenceScens {
		t.Run(sc.name, func(t *testing.T) {
			t.Parallel()
			viol, _ := runSilence(t, sc)
			if strings.HasPrefix(viol, harnessTrouble) {
				t.Skip(viol)
			}
			if viol != "" {
				t.Fatalf("%s", viol)
			}
		})
	}
}

// TestReplayUDP re-runs a journaled UDP plan ($VERIF_REPLAY) outside rapid.
func TestReplayUDP(t *testing.T) {
	f := os.Getenv("VERIF_REPLAY")
	if f == "" || !strings.Contains(filepath.Base(f), "journal-udp") {
		t.Skip("no UDP journal to replay")
	}
	b, err := os.ReadFile(f)
	if err != nil {
		t.Fatal(err)
	}
	var plan udpPlan
	if err := json.Unmarshal(b, &plan); err != nil {
		t.Fatal(err)
	}
	if viol, _, _ := runUDPPlan(t, &plan); viol != "" && !strings.HasPrefix(viol, harnessTrouble) {
		t.Fatal(viol)
	}
}

// runFixedLossScenarios: resolver with the sealing (payload-rewriting) UDP client; the first query
// of each family is lost, resp. the first query and the first round of replies; the lookup must
// be completed over UDP by the retransmission, every datagram the upstream receives must decode
// to the query, and no TCP connection may be needed. Always part of TestResolverUDP.
func runFixedLossScenarios(t *testing.T) string {
	for i, lost := range [][2]int{{1, 0}, {1, 1}} {
		p := &udpPlan{UseTCP: true, Mutating: true, Name: makeName(250+i, i, 21, 'l')}
		p.L[0] = goodUDPLookup(&addrGen{scope: 3})
		p.L[0].LostQueries, p.L[0].LostReplies = lost[0], lost[1]
		p.L[0].TCP = goodScript(&addrGen{scope: 4}, 3600)
		p.L[1] = goodUDPLookup(&addrGen{scope: 5})
		viol, labels, key := runUDPPlan(t, p)
		if strings.HasPrefix(viol, sigSlow) {
			viol, labels, key = runUDPPlan(t, p) // a missed real-time bound is retried once
		}
		if strings.HasPrefix(viol, harnessTrouble) {
			continue
		}
		if viol != "" {
			return viol
		}
		if !labels["udp-complete"] || labels["tcp-fallback"] {
			return fmt.Sprintf("SIG=C17/udp-retransmission-answered-but-lookup-not-completed-over-udp lost(queries,replies)=%v %s", lost, key)
		}
		ls := []string{"fixed-loss-scenario"}
		for l := range labels {
			ls = append(ls, l)
		}
		recUDP.Case(fmt.Sprintf("fixed-loss-%d|%s", i, key), true, ls...)
	}
	return ""
}

// retransmitInterval is what dns.go documents for the UDP senders: "Each sender will keep sending
// at 2s intervals until done unblocks or after 10 iterations."
const retransmitInterval = 2 * time.Second

// runRetransmitSchedule: a UDP-ONLY resolver; the upstream ignores the first k transmissions of
// each query (k = 1, 2, 3, 5) and answers transmission k+1, with answers of up to exactly 1232
// bytes. The lookup has to return those answers after about k retransmission intervals: not
// ErrLookup, and not only when the 20 s limit of the UDP phase runs out (bound: k*2 s + 2.5 s,
// a missed bound is retried once). The four cases run in parallel, each through another UDP
// client (socks5, ss-none, the sealing harness client, direct), next to the generated scenarios.
func runRetransmitSchedule(t *testing.T) string {
	type scen struct {
		k, proxy int
		mutating bool
	}
	scens := []scen{{1, proxySocks5, false}, {2, proxySSNone, false}, {3, proxyNone, true}, {5, proxyNone, false}}
	res := make(chan string, len(scens))
	for i, sc := range scens {
		go func() {
			name := makeName(60+i, i%3, uint64(31+i), 'r')
			mk := func() *udpPlan {
				p := &udpPlan{UseTCP: false, Mutating: sc.mutating, Proxy: sc.proxy, Name: name}
				ag := &addrGen{scope: byte(11 + i)}
				p.L[0] = udpLookup{LostQueries: sc.k, MaxMs: (time.Duration(sc.k)*retransmitInterval + 2500*time.Millisecond).Milliseconds()}
				for _, f := range []int{6, 4} {
					p.L[0].Datagrams = append(p.L[0].Datagrams, udpDatagram{Near: true, It: item{Kind: kResp, Fam: f, Msg: sizedAnswer(f, 1232-i, name, i%2 == 0, ag)}})
				}
				p.L[1] = goodUDPLookup(&addrGen{scope: byte(7)})
				return p
			}
			start := time.Now()
			viol, labels, key := runUDPPlan(t, mk())
			if strings.HasPrefix(viol, sigSlow) {
				start = time.Now()
				viol, labels, key = runUDPPlan(t, mk()) // a missed real-time bound is retried once
			}
			el := time.Since(start)
			if strings.HasPrefix(viol, harnessTrouble) {
				res <- ""
				return
			}
			if viol != "" {
				res <- fmt.Sprintf("%s\n  (retransmission schedule: first %d transmissions of each query ignored, UDP-only resolver, %s client)", viol, sc.k, proxyNames[sc.proxy])
				return
			}
			if !labels["udp-complete"] {
				res <- fmt.Sprintf("SIG=C17/udp-retransmission-answered-but-lookup-not-completed-over-udp k=%d %s", sc.k, key)
				return
			}
			ls := []string{"retransmission-schedule", fmt.Sprintf("udp-answered-after-k-lost=%d", sc.k)}
			for l := range labels {
				ls = append(ls, l)
			}
			recUDP.Case(fmt.Sprintf("retransmit-k=%d|%s", sc.k, key), true, ls...)
			recUDP.Sample(map[string]any{"scenario": fmt.Sprintf("first %d transmissions ignored", sc.k), "elapsed_s": strconv.FormatFloat(el.Seconds(), 'f', 2, 64), "outcome": key})
			res <- ""
		}()
	}
	out := ""
	for range scens {
		if v := <-res; v != "" && out == "" {
			out = v
		}
	}
	return out
}
