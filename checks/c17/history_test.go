package c17

// (a) TCP-only resolver inside a testing/synctest bubble: lookup histories over a scripted
// upstream with virtual-time advances around the admissible expiry instants, small caches with
// more names than capacity, checked against the reference model in model_test.go.

import (
	"context"
	"encoding/json"
	"fmt"
	"net/netip"
	"os"
	"path/filepath"
	"strings"
	"testing"
	"testing/synctest"
	"time"

	"github.com/database64128/shadowsocks-go/conn"
	"github.com/database64128/shadowsocks-go/dns"
	"github.com/database64128/shadowsocks-go/netio"
	"go.uber.org/zap"
	"pgregory.net/rapid"

	"verif/internal/ev"
)

type advSpec struct {
	Kind    int   // 0 none, 1 absolute, 2 relative to an admissible expiry instant of the name's entry
	AbsMs   int64 // kind 1
	Member  int   // kind 2: which admissible member (mod count)
	Hi      bool  // kind 2: upper or lower end of the member's interval
	DeltaMs int64 // kind 2: offset from that instant
}

type stepPlan struct {
	Name    int
	API     int
	Adv     advSpec
	Script  lookupScript
	Pattern string
}

type histPlan struct {
	CacheSize int // as in dns.ResolverConfig: 0 = default 1024, negative = unbounded
	Names     int
	NameStrs  []string // the names looked up (index = stepPlan.Name)
	Steps     []stepPlan
}

func (p *histPlan) nameStr(i int) string {
	if i < len(p.NameStrs) {
		return p.NameStrs[i]
	}
	return nameOf(i)
}

var serverAP = netip.AddrPortFrom(netip.AddrFrom4([4]byte{192, 0, 2, 53}), 53)

var absAdvances = []int64{1, 500, 1000, 2000, 5000, 29999, 30000, 30001, 60000, 61000, 300000, 3600000, 86400000}
var relDeltas = []int64{-1, 0, 1, -1, 0, 1, -1000, 1000, 10000}

func genHistPlan(rt *rapid.T) *histPlan {
	p := &histPlan{}
	p.CacheSize = rapid.SampledFrom([]int{1, 1, 2, 2, 2, 3, 3, 4, 4, -1, 0}).Draw(rt, "cacheSize")
	capEff := p.CacheSize
	if capEff <= 0 {
		capEff = 3
	}
	p.Names = capEff + rapid.IntRange(0, 2).Draw(rt, "extraNames")
	for i := range p.Names {
		p.NameStrs = append(p.NameStrs, genName(rt, i))
	}
	n := rapid.IntRange(3, 14).Draw(rt, "steps")
	for i := range n {
		var s stepPlan
		s.Name = rapid.IntRange(0, p.Names-1).Draw(rt, "name")
		s.API = rapid.SampledFrom([]int{0, 0, 0, 1, 2, 2}).Draw(rt, "api")
		switch k := rapid.IntRange(0, 9).Draw(rt, "advKind"); {
		case k < 2:
		case k < 4:
			s.Adv = advSpec{Kind: 1, AbsMs: rapid.SampledFrom(absAdvances).Draw(rt, "absMs")}
		default:
			s.Adv = advSpec{Kind: 2, Member: rapid.IntRange(0, 3).Draw(rt, "member"), Hi: rapid.Bool().Draw(rt, "hi"),
				DeltaMs: rapid.SampledFrom(relDeltas).Draw(rt, "deltaMs")}
		}
		ag := &addrGen{scope: byte(i + 1)}
		s.Script, s.Pattern = genLookupScript(rt, ag)
		p.Steps = append(p.Steps, s)
	}
	return p
}

// describe renders a plan compactly for failure messages (the rapid .fail file reproduces it exactly).
func (p *histPlan) describe() string {
	var b strings.Builder
	fmt.Fprintf(&b, "cacheSize=%d names=%d", p.CacheSize, p.Names)
	for i, n := range p.NameStrs {
		fmt.Fprintf(&b, "\n  n%d = %q (%d chars)", i, n, len(n))
	}
	for i := range p.Steps {
		s := &p.Steps[i]
		fmt.Fprintf(&b, "\n  step %d: name=n%d api=%d adv=%+v upstream(%s):", i, s.Name, s.API, s.Adv, s.Pattern)
		for ci := range s.Script.Conns {
			b.WriteString(" " + s.Script.Conns[ci].describe())
		}
	}
	return b.String()
}

func (cs *connScript) describe() string {
	if cs.DialErr {
		return "[dial-error]"
	}
	var b strings.Builder
	b.WriteString("[")
	for i := range cs.Items {
		it := &cs.Items[i]
		if i > 0 {
			b.WriteString(", ")
		}
		fmt.Fprintf(&b, "%s/%d", it.Kind, it.Fam)
		if it.Kind == kResp {
			fmt.Fprintf(&b, ":%s rcode=%d", respKindNames[it.RK], it.Msg.RCode)
		}
		if len(it.Msg.Answers) > 0 && it.Kind != kSilence && it.Kind != kZeroLen && it.Kind != kShort && it.Kind != kGarbage {
			b.WriteString(" an=")
			for i, r := range it.Msg.Answers {
				if i == 4 && len(it.Msg.Answers) > 6 {
					fmt.Fprintf(&b, "...%d records...", len(it.Msg.Answers)-5)
				}
				if i < 4 || i == len(it.Msg.Answers)-1 || len(it.Msg.Answers) <= 6 {
					fmt.Fprintf(&b, "(t%d ttl=%d %v)", r.Type, r.TTL, r.Addr)
				}
			}
			if it.Msg.PadTo > 0 {
				fmt.Fprintf(&b, " paddedTo=%dB", it.Msg.PadTo)
			}
		}
		for _, r := range it.Msg.Authority {
			if it.Kind == kResp {
				fmt.Fprintf(&b, " ns=(t%d ttl=%d min=%d)", r.Type, r.TTL, r.SOAMin)
			}
		}
		if it.DelayMs > 0 {
			fmt.Fprintf(&b, " delay=%dms", it.DelayMs)
		}
	}
	b.WriteString("]")
	return b.String()
}

func nameOf(i int) string { return fmt.Sprintf("n%d.verif.test", i) }

type histStats struct {
	classes                                strings.Builder
	labels                                 map[string]bool
	crossed                                bool
	failThenOK                             bool
	hits, misses, fails, stales, evictions int
	openEntries, exactEntries              int // stored answers with several admissible expiry instants / exactly one (or none)
}

func (h *histStats) label(l string) { h.labels[l] = true }

func callAPI(r *dns.Resolver, api int, name string) *lookupOut {
	out := &lookupOut{api: api}
	ctx := context.Background()
	switch api {
	case 0:
		res, err := r.Lookup(ctx, name)
		out.err = err
		if err == nil {
			for a := range res.A() {
				out.a = append(out.a, a)
			}
			for a := range res.AAAA() {
				out.aaaa = append(out.aaaa, a)
			}
		}
	case 1:
		out.one, out.err = r.LookupIP(ctx, name)
	default:
		ips, err := r.LookupIPs(ctx, name)
		out.err = err
		for _, a := range ips {
			if a.Is4() {
				out.a = append(out.a, a)
			} else {
				out.aaaa = append(out.aaaa, a)
			}
		}
	}
	return out
}

func (o *lookupOut) hasPoison() bool {
	for _, a := range o.a {
		if isPoison(a) {
			return true
		}
	}
	for _, a := range o.aaaa {
		if isPoison(a) {
			return true
		}
	}
	return o.one.IsValid() && isPoison(o.one)
}

// virtual clock limit: the bubble clock is an int64 of nanoseconds, keep far away from its end
var clockLimit = time.Date(2200, 1, 1, 0, 0, 0, 0, time.UTC)

// runHistory executes the plan in a bubble and returns the first violation ("" if none).
func runHistory(t *testing.T, p *histPlan) (viol string, st *histStats) {
	st = &histStats{labels: map[string]bool{}}
	synctest.Test(t, func(t *testing.T) {
		up := &tcpUpstream{}
		rc := dns.ResolverConfig{Name: "verif", AddrPort: serverAP, TCPClientName: "up", CacheSize: p.CacheSize}
		sr, err := rc.NewSimpleResolver(map[string]netio.StreamClient{"up": up}, nil, zap.NewNop())
		if err != nil {
			viol = "SIG=C17/harness-resolver-construction " + err.Error()
			return
		}
		r, ok := sr.(*dns.Resolver)
		if !ok {
			viol = "SIG=C17/harness-resolver-type"
			return
		}
		capacity := p.CacheSize
		if capacity == 0 {
			capacity = 1024 // documented default
		} else if capacity < 0 {
			capacity = 0 // unbounded
		}
		lru := newLRU(capacity)
		failed := map[string]bool{}
		wantAddr := conn.AddrFromIPPort(serverAP)
		for i := range p.Steps {
			s := &p.Steps[i]
			name := p.nameStr(s.Name)
			for _, l := range nameLabels(name) {
				st.label(l)
			}
			e := lru.m[name]
			// advance the virtual clock
			switch s.Adv.Kind {
			case 1:
				time.Sleep(time.Duration(s.Adv.AbsMs) * time.Millisecond)
			case 2:
				if e != nil && len(e.members) > 0 {
					m := e.members[s.Adv.Member%len(e.members)]
					target := m.lo
					if s.Adv.Hi {
						target = m.hi
					}
					target = target.Add(time.Duration(s.Adv.DeltaMs) * time.Millisecond)
					if d := time.Until(target); d > 0 && target.Before(clockLimit) {
						time.Sleep(d)
						st.label("adv-to-expiry")
					}
				}
			}
			t0 := time.Now()
			if e != nil {
				for _, m := range e.members {
					switch {
					case m.lo.Equal(m.hi) && m.lo.Equal(t0):
						st.label("at-expiry-instant")
					case m.hi.Add(time.Millisecond).Equal(t0):
						st.label("expiry+1ms")
					case m.lo.Add(-time.Millisecond).Equal(t0):
						st.label("expiry-1ms")
					}
				}
			}
			up.begin(name, &s.Script)
			out := callAPI(r, s.API, name)
			t1 := time.Now()
			obs := up.end()
			ctxs := func() string {
				return fmt.Sprintf("step=%d name=%s t0=+%v dur=%v out{%s} entry{%s} conns=%d", i, name, t0.Sub(bubbleEpoch), t1.Sub(t0), out, e, len(obs))
			}
			if out.hasPoison() {
				viol = "SIG=C17/foreign-or-malformed-message-address-in-answer " + ctxs()
				return
			}
			cls := ""
			if len(obs) == 0 {
				// no upstream traffic: must be a fresh cached answer
				if e == nil {
					viol = "SIG=C17/no-upstream-query-without-cached-entry " + ctxs()
					return
				}
				lru.get(name)
				if !e.observeHit(t0) {
					viol = "SIG=C17/served-after-expiry-without-refresh " + ctxs()
					return
				}
				if !out.matches(e) {
					viol = "SIG=C17/cache-hit-wrong-answer " + ctxs()
					return
				}
				cls = "H"
				st.hits++
			} else {
				for _, o := range obs {
					if !o.Addr.Equals(wantAddr) {
						viol = fmt.Sprintf("SIG=C17/dialed-wrong-server got=%v %s", o.Addr, ctxs())
						return
					}
				}
				if e != nil {
					lru.get(name)
					hadMembers := len(e.members) > 0
					if !e.observeMiss(t0) {
						viol = "SIG=C17/requery-before-expiry " + ctxs()
						return
					}
					if hadMembers {
						st.crossed = true
						st.label("expiry-crossed")
					} else {
						st.label("uncacheable-entry-requeried")
					}
				}
				evl, v := evalTCP(name, &s.Script, obs, t0, t1, map[int]*item{})
				if v != "" {
					viol = v + " " + ctxs()
					return
				}
				for _, k := range evl.malformed {
					st.label("consumed-" + k)
				}
				if evl.retried {
					st.label("second-connection")
				}
				if evl.timedOut {
					st.label("timeout-20s")
				}
				if evl.done() {
					ne := buildEntry(evl.acc, t0, t1)
					if !out.matches(ne) {
						if e != nil && out.matches(e) {
							viol = "SIG=C17/stale-served-despite-successful-refresh " + ctxs() + " want{" + ne.String() + "}"
						} else {
							viol = "SIG=C17/wrong-answer " + ctxs() + " want{" + ne.String() + "}"
						}
						return
					}
					for _, f := range []int{4, 6} {
						st.label("acc-" + respKindNames[evl.acc[f].RK])
						if pt := evl.acc[f].Msg.PadTo; pt > 0 {
							st.label(bigClass(len(wire(evl.acc[f], name, up.ids))))
							st.label(fmt.Sprintf("tcp-response-%d-records+", len(evl.acc[f].Msg.Answers)/1000*1000))
						}
					}
					if len(ne.members) > 1 {
						st.label("expiry-choice-open")
						st.openEntries++
					} else {
						st.exactEntries++
					}
					for _, m := range ne.members {
						if m.tag == "ttl-msb-as-zero" {
							st.label("ttl-top-bit-set")
						}
					}
					if len(ne.crossA)+len(ne.crossAAAA) > 0 {
						st.label("cross-family-rr")
					}
					cls = "M"
					st.misses++
					if ev := lru.set(name, ne); ev != "" {
						cls = "ME"
						st.evictions++
						st.label("lru-eviction")
					}
					if failed[name] {
						st.failThenOK = true
						st.label("failure-then-success")
					}
				} else {
					failed[name] = true
					switch {
					case e == nil:
						if !out.isFailure() {
							viol = "SIG=C17/failure-not-reported " + ctxs()
							return
						}
						if !out.isSentinel() {
							viol = sigNotSentinel + " " + ctxs()
							return
						}
						st.label("failure-is-ErrLookup")
						cls = "F"
						st.fails++
					case out.isFailure():
						if !out.isSentinel() {
							viol = sigNotSentinel + " " + ctxs()
							return
						}
						cls = "F"
						st.fails++
					case out.matches(e):
						cls = "S"
						st.stales++
						st.label("stale-served-after-failed-refresh")
					default:
						viol = "SIG=C17/failed-refresh-wrong-answer " + ctxs()
						return
					}
				}
			}
			fmt.Fprintf(&st.classes, "%d%s", s.Name, cls)
		}
	})
	return viol, st
}

var bubbleEpoch = time.Date(2000, 1, 1, 0, 0, 0, 0, time.UTC)

var recHist = ev.New("C17", "tcp-histories",
	"rapid + synctest: TCP-only resolver built through dns.ResolverConfig, cache size {1..4, default, unbounded}, capacity+0..2 names (40 % everyday names, else total length from {1,2,3,63,64,65,127,128,200, every value 240..253} built from 63-byte labels / 1-byte labels / mixed labels), 3..14 lookups "+
		"(Lookup/LookupIP/LookupIPs); before each lookup the virtual clock is advanced by nothing, a fixed amount (1 ms..1 d, 30 s±1 ms) or to an admissible "+
		"expiry instant of the name's entry ±{0,1 ms,1 s,10 s}; each lookup has a scripted upstream of up to two connections whose items are acceptable responses "+
		"(addresses with CNAME/TXT/MX/other-family RRs mixed in, large answers padded to exactly 512/1232/1234/4096/16384/65535 bytes -1..+40 with up to 4000 A / 2300 AAAA records, NODATA/NXDOMAIN with/without SOA, failure rcodes, TC over TCP; TTL alphabet 0..2^31-1 plus 2^31, 2^32-1) "+
		"or unusable ones (foreign ID, QR=0, RA=0, rcode>5, zero length, <12 bytes, garbage, cut RR, ANCOUNT too large, pointer loop, close mid-message, silence), "+
		"optionally delayed (1 ms..25 s), plus dial errors. Oracle: reference model over the items the upstream saw consumed. "+
		"Non-trivial: the history re-queries an entry whose admissible expiry passed AND has a failed lookup followed by a successful one for the same name; "+
		"distinct key = cache size, name count and per-step (name, hit/miss/evict/fail/stale) string").
	Require("name-length>=243", "name-length-253", "name-length<=2", "label-63-bytes", "failure-is-ErrLookup", "expiry-crossed", "failure-then-success", "stale-served-after-failed-refresh", "lru-eviction", "at-expiry-instant", "expiry+1ms", "expiry-1ms",
		"second-connection", "timeout-20s", "tcp-response>512B", "tcp-response>1234B", "tcp-response>4096B", "tcp-response>16384B", "tcp-response>=65000B", "consumed-wrongid", "consumed-notresp", "consumed-nora", "consumed-garbage", "consumed-zerolen", "consumed-midclose",
		"consumed-cut", "acc-failure-rcode", "acc-nxdomain+soa", "acc-nodata+soa", "acc-nodata", "acc-tc-over-tcp", "expiry-choice-open")

func journalPath(name string) string {
	d := os.Getenv("VERIF_WORK")
	if d == "" {
		return ""
	}
	return filepath.Join(d, fmt.Sprintf("journal-%s-%d.json", name, os.Getpid()))
}

func writeJournal(name string, v any) string {
	p := journalPath(name)
	if p == "" {
		return ""
	}
	b, err := json.Marshal(v)
	if err != nil {
		return ""
	}
	if os.WriteFile(p, b, 0o644) != nil {
		return ""
	}
	return p
}

// checkPadding makes sure the encoder really produces the sizes the labels claim.
func checkPadding(t *testing.T) {
	// exact unless fewer than 13 bytes remain to pad (possible for the longest names only); the
	// evidence labels use the real wire size
	for _, name := range []string{nameOf(0), "udp.verif.test", makeName(63, 0, 1, 'a'), makeName(200, 2, 2, 'b')} {
		for _, target := range []int{511, 512, 1232, 1233, 1234, 1235, 4096, 16384, 65534, 65535} {
			for _, fam := range []int{4, 6} {
				for _, opt := range []bool{false, true} {
					m := genBigFixed(fam, target, opt, &addrGen{scope: 1})
					m.QName, m.QType, m.ID = name, tA, 4
					if got := len(m.pack()); got != target {
						t.Fatalf("harness: padded message is %d bytes, want %d (fam %d opt %v name %s)", got, target, fam, opt, name)
					}
				}
			}
		}
	}
}

func TestResolverHistories(t *testing.T) {
	checkPadding(t)
	rapid.Check(t, func(rt *rapid.T) {
		p := genHistPlan(rt)
		j := writeJournal("hist", p)
		viol, st := runHistory(t, p)
		if j != "" {
			os.Remove(j)
		}
		if viol != "" {
			if sig := sigOf(viol); ev.IsKnown("C17", sig) {
				recHist.KnownHit(sig)
				return
			}
			rt.Fatalf("%s\nplan: %s", viol, p.describe())
		}
		labels := make([]string, 0, len(st.labels))
		for l := range st.labels {
			labels = append(labels, l)
		}
		nt := st.crossed && st.failThenOK
		key := fmt.Sprintf("c%d|n%d|%s", p.CacheSize, p.Names, st.classes.String())
		recHist.Case(key, nt, labels...)
		recHist.Label("n-lookups-cache-hit", int64(st.hits))
		recHist.Label("n-lookups-refreshed", int64(st.misses))
		recHist.Label("n-lookups-failed", int64(st.fails))
		recHist.Label("n-lookups-stale", int64(st.stales))
		recHist.Label("n-entries-expiry-exact", int64(st.exactEntries))
		recHist.Label("n-entries-expiry-open", int64(st.openEntries))
		if nt {
			recHist.Sample(map[string]any{"cacheSize": p.CacheSize, "names": p.Names, "steps(name,class)": st.classes.String(),
				"hits": st.hits, "refreshes": st.misses, "failures": st.fails, "stale": st.stales, "evictions": st.evictions})
		}
	})
}

// sigOf extracts the signature (without the property prefix) from "SIG=C17/<sig> ...".
func sigOf(v string) string {
	s := strings.TrimPrefix(v, "SIG=C17/")
	if i := strings.IndexAny(s, " \n"); i >= 0 {
		s = s[:i]
	}
	return s
}

// TestReplayHistory re-runs a journaled plan ($VERIF_REPLAY) outside rapid.
func TestReplayHistory(t *testing.T) {
	p := os.Getenv("VERIF_REPLAY")
	if p == "" || !strings.Contains(filepath.Base(p), "journal-hist") {
		t.Skip("no history journal to replay")
	}
	b, err := os.ReadFile(p)
	if err != nil {
		t.Fatal(err)
	}
	var plan histPlan
	if err := json.Unmarshal(b, &plan); err != nil {
		t.Fatal(err)
	}
	if viol, _ := runHistory(t, &plan); viol != "" {
		t.Fatal(viol)
	}
}
