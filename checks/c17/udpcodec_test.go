package c17

// A harness zerocopy.UDPClient whose packer rewrites the payload in place, the way an
// encrypting proxy client (Shadowsocks 2022 UDP) does: PackInPlace writes a fresh per-packet
// nonce into the front headroom, XORs the DNS message with a keystream derived from it and
// appends a 4-byte integrity tag in the rear headroom. The fake upstream undoes it. With the
// pass-through `direct` client whatever the resolver's sender loop does with its buffer between
// retransmissions is invisible; with this client a retransmitted datagram only decodes to the
// query if the resolver hands the packer the *plain* message every time.

import (
	"context"
	"encoding/binary"
	"errors"
	"hash/fnv"
	"net/netip"
	"sync/atomic"

	"github.com/database64128/shadowsocks-go/conn"
	"github.com/database64128/shadowsocks-go/zerocopy"
)

const (
	sealFront = 8 // nonce
	sealRear  = 4 // tag over the plain message
	sealKey   = 0x5eed5eed17c17c17
)

var errSeal = errors.New("sealed packet does not verify")

var sealNonce atomic.Uint64

func sealXOR(nonce uint64, b []byte) {
	ks := splitmix64(sealKey ^ nonce)
	for i := range b {
		if i%8 == 0 {
			ks.next()
		}
		b[i] ^= byte(uint64(ks) >> (8 * (i % 8)))
	}
}

func sealTag(nonce uint64, plain []byte) uint32 {
	h := fnv.New32a()
	var n [8]byte
	binary.BigEndian.PutUint64(n[:], nonce)
	h.Write(n[:])
	h.Write(plain)
	return h.Sum32()
}

// sealInPlace turns b[start:start+n] (plain message) into a packet b[start-8 : start+n+4].
func sealInPlace(b []byte, start, n int) (pktStart, pktLen int, err error) {
	if start < sealFront || len(b) < start+n+sealRear {
		return 0, 0, zerocopy.ErrPayloadTooBig
	}
	nonce := sealNonce.Add(0x9E3779B97F4A7C15)
	binary.BigEndian.PutUint64(b[start-sealFront:], nonce)
	binary.BigEndian.PutUint32(b[start+n:], sealTag(nonce, b[start:start+n]))
	sealXOR(nonce, b[start:start+n])
	return start - sealFront, sealFront + n + sealRear, nil
}

// openInPlace undoes sealInPlace on b[start:start+n].
func openInPlace(b []byte, start, n int) (msgStart, msgLen int, err error) {
	if n < sealFront+sealRear {
		return 0, 0, errSeal
	}
	nonce := binary.BigEndian.Uint64(b[start:])
	msgStart, msgLen = start+sealFront, n-sealFront-sealRear
	sealXOR(nonce, b[msgStart:msgStart+msgLen])
	if binary.BigEndian.Uint32(b[msgStart+msgLen:]) != sealTag(nonce, b[msgStart:msgStart+msgLen]) {
		return 0, 0, errSeal
	}
	return msgStart, msgLen, nil
}

// seal returns a fresh packet for msg (upstream side).
func seal(msg []byte) []byte {
	b := make([]byte, sealFront+len(msg)+sealRear)
	copy(b[sealFront:], msg)
	s, n, _ := sealInPlace(b, sealFront, len(msg))
	return b[s : s+n]
}

type sealingUDPClient struct{}

var sealHeadroom = zerocopy.Headroom{Front: sealFront, Rear: sealRear}

func (sealingUDPClient) Info() zerocopy.UDPClientInfo {
	return zerocopy.UDPClientInfo{Name: "verif-sealing", PackerHeadroom: sealHeadroom}
}

func (sealingUDPClient) NewSession(ctx context.Context) (zerocopy.UDPClientSessionInfo, zerocopy.UDPClientSession, error) {
	return zerocopy.UDPClientSessionInfo{Name: "verif-sealing", PackerHeadroom: sealHeadroom, MTU: 1500, ListenConfig: conn.DefaultUDPClientListenConfig},
		zerocopy.UDPClientSession{MaxPacketSize: 1472, Packer: sealPacker{}, Unpacker: sealUnpacker{}, Close: zerocopy.NoopClose}, nil
}

type sealPacker struct{}

func (sealPacker) ClientPackerInfo() zerocopy.ClientPackerInfo {
	return zerocopy.ClientPackerInfo{Headroom: sealHeadroom}
}

func (sealPacker) PackInPlace(ctx context.Context, b []byte, targetAddr conn.Addr, payloadStart, payloadLen int) (netip.AddrPort, int, int, error) {
	s, n, err := sealInPlace(b, payloadStart, payloadLen)
	if err != nil {
		return netip.AddrPort{}, 0, 0, err
	}
	return targetAddr.IPPort(), s, n, nil
}

type sealUnpacker struct{}

func (sealUnpacker) ClientUnpackerInfo() zerocopy.ClientUnpackerInfo {
	return zerocopy.ClientUnpackerInfo{}
}

func (sealUnpacker) UnpackInPlace(b []byte, packetSourceAddrPort netip.AddrPort, packetStart, packetLen int) (netip.AddrPort, int, int, error) {
	s, n, err := openInPlace(b, packetStart, packetLen)
	// The payload's source is the packet's source: the resolver's own source check stays the
	// only thing between a spoofed datagram and the parser.
	return packetSourceAddrPort, s, n, err
}
