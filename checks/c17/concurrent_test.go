package c17

// (round 6) One Resolver used from 2..16 real goroutines at once: lookups of names that are
// already cached (cache hits, each of which promotes its LRU node) run next to lookups of new
// names that insert into a FULL cache (LRU eviction). The upstream is an in-memory DNS-over-TCP
// responder that is safe for concurrent dials, answers every query with the addresses scripted
// for that name and counts the dials per name.
//
// Oracle (sound for every interleaving of the goroutines): a cached name is evicted only by an
// insertion that finds it least recently used, i.e. after `capacity` OTHER distinct names have
// been used since its own last use. The model knows the exact LRU order before a concurrent
// round (everything before it is sequential). For a name h cached at the start of a round over
// the name set R:  others(h) = {names more recent than h at the start} ∪ (R \ {h}).  If
// |others(h)| < capacity, h cannot be evicted during the round whatever the schedule, its TTL
// (3600 s, real time) is still running, so upstream must not be asked for h again - neither
// during the round nor by the sequential lookups of those names right after it. Every answer
// equals the scripted one; a name not cached at the start is asked at least once and at most
// once per lookup of it.

import (
	"context"
	"encoding/json"
	"fmt"
	"net"
	"net/netip"
	"os"
	"path/filepath"
	"slices"
	"sort"
	"strings"
	"sync"
	"testing"
	"time"

	"github.com/database64128/shadowsocks-go/conn"
	"github.com/database64128/shadowsocks-go/dns"
	"github.com/database64128/shadowsocks-go/netio"
	"go.uber.org/zap"
	"pgregory.net/rapid"

	"verif/internal/ev"
)

type concOp struct {
	Name int
	API  int
}

type concRound struct {
	Prelude []int      // C distinct names looked up sequentially: afterwards the LRU order is known exactly
	G       [][]concOp // one op list per goroutine
}

type concPlan struct {
	Capacity int
	DelayUs  []int // per name index (mod len): how long the upstream waits before answering
	Rounds   []concRound
}

func concName(i int) string {
	if i%5 == 4 { // some long names too
		return makeName(200+i%50, i%3, uint64(i)*977+5, byte('a'+i%26))
	}
	return fmt.Sprintf("h%d.conc.verif.test", i)
}

// concAnswers is the scripted answer for name index i.
func concAnswers(i int) (a, aaaa []netip.Addr) {
	for k := range 1 + i%3 {
		a = append(a, netip.AddrFrom4([4]byte{10, 77, byte(i), byte(k + 1)}))
	}
	for k := range (i / 3) % 3 { // 0..2 AAAA records: LookupIP falls back to A when there is none
		aaaa = append(aaaa, netip.AddrFrom16([16]byte{0: 0xfd, 1: 0x77, 13: byte(i >> 8), 14: byte(i), 15: byte(k + 1)}))
	}
	return
}

// concUpstream implements netio.StreamClient and netio.StreamDialer for concurrent use.
type concUpstream struct {
	mu      sync.Mutex
	dials   map[string]int
	idx     map[string]int // name -> index
	delayUs []int
	bad     string
	wg      sync.WaitGroup
}

func (u *concUpstream) NewStreamDialer() (netio.StreamDialer, netio.StreamDialerInfo) {
	return u, netio.StreamDialerInfo{Name: "verif-conc-upstream", NativeInitialPayload: true}
}

func (u *concUpstream) DialStream(ctx context.Context, addr conn.Addr, payload []byte) (netio.Conn, error) {
	qs, err := parseTCPQueries(payload)
	u.mu.Lock()
	if err != nil || len(qs) == 0 {
		u.bad = fmt.Sprintf("unparsable queries %x: %v", payload, err)
		u.mu.Unlock()
		return nil, errScriptedDial
	}
	name := qs[0].Name
	i, known := u.idx[name]
	for k := range qs {
		if !known || !queryOK(&qs[k], name) {
			u.bad = fmt.Sprintf("query %+v (known name: %v)", qs[k], known)
		}
	}
	u.dials[name]++
	d := 0
	if len(u.delayUs) > 0 {
		d = u.delayUs[i%len(u.delayUs)]
	}
	u.mu.Unlock()
	if !known {
		return nil, errScriptedDial
	}
	cl, sv := net.Pipe()
	u.wg.Add(1)
	go func() {
		defer u.wg.Done()
		defer sv.Close()
		if d > 0 {
			time.Sleep(time.Duration(d) * time.Microsecond)
		}
		a, aaaa := concAnswers(i)
		for _, q := range qs {
			m := wmsg{ID: q.ID, QR: true, RA: true, RD: true, QName: name, QType: q.Type}
			if q.Type == tA {
				for _, x := range a {
					m.Answers = append(m.Answers, rr{Type: tA, TTL: 3600, Addr: x})
				}
			} else {
				for _, x := range aaaa {
					m.Answers = append(m.Answers, rr{Type: tAAAA, TTL: 3600, Addr: x})
				}
				if len(aaaa) == 0 {
					m.Authority = []rr{{Type: tSOA, TTL: 3600, SOAMin: 3600, Target: "ns.test"}}
				}
			}
			if _, err := sv.Write(frame(m.pack())); err != nil {
				return
			}
		}
	}()
	return pipeConn{cl}, nil
}

func (u *concUpstream) snapshot() map[string]int {
	u.mu.Lock()
	defer u.mu.Unlock()
	out := make(map[string]int, len(u.dials))
	for k, v := range u.dials {
		out[k] = v
	}
	return out
}

func sameAddrs(got, want []netip.Addr) bool {
	g, w := addrKey(got), addrKey(want)
	return slices.Equal(g, w)
}

// concCheckOut compares one outcome with the scripted answer of name index i.
func concCheckOut(o *lookupOut, i int) string {
	a, aaaa := concAnswers(i)
	switch o.api {
	case 1:
		if o.err != nil {
			return fmt.Sprintf("LookupIP error %v", o.err)
		}
		if len(aaaa) > 0 {
			if !slices.Contains(aaaa, o.one) {
				return fmt.Sprintf("LookupIP=%v, scripted AAAA=%v", o.one, aaaa)
			}
		} else if !slices.Contains(a, o.one) {
			return fmt.Sprintf("LookupIP=%v, scripted A=%v", o.one, a)
		}
	default:
		if o.err != nil {
			return fmt.Sprintf("lookup error %v", o.err)
		}
		if !sameAddrs(o.a, a) || !sameAddrs(o.aaaa, aaaa) {
			return fmt.Sprintf("got {%s}, scripted A=%v AAAA=%v", o, a, aaaa)
		}
	}
	return ""
}

func genConcPlan(rt *rapid.T) *concPlan {
	p := &concPlan{Capacity: rapid.SampledFrom([]int{1, 2, 2, 3, 3, 4, 4, 8}).Draw(rt, "capacity")}
	for range 4 {
		p.DelayUs = append(p.DelayUs, rapid.SampledFrom([]int{0, 0, 50, 300, 1500}).Draw(rt, "delayUs"))
	}
	c := p.Capacity
	next := 0 // next unused name index
	var cached []int
	for range rapid.IntRange(1, 3).Draw(rt, "rounds") {
		var r concRound
		// prelude: C distinct names, old (possibly still cached) or new
		for len(r.Prelude) < c {
			var n int
			if len(cached) > 0 && rapid.IntRange(0, 2).Draw(rt, "preludeOld") == 0 {
				n = rapid.SampledFrom(cached).Draw(rt, "oldName")
			} else {
				n = next
				next++
			}
			if !slices.Contains(r.Prelude, n) {
				r.Prelude = append(r.Prelude, n)
			}
		}
		cached = append([]int(nil), r.Prelude...)
		// the round's name set: the k most recent cached names (hot) plus cold names, at most C in all
		// (with C names in all nobody is protected; with fewer the hot ones must stay)
		size := rapid.IntRange(1, c).Draw(rt, "roundNames")
		hot := rapid.IntRange(0, size).Draw(rt, "hotNames")
		if c > 1 && rapid.IntRange(0, 3).Draw(rt, "protectHot") != 0 {
			size = max(1, min(size, c-1))
			hot = min(max(hot, 1), size)
		}
		var names []int
		if rapid.Bool().Draw(rt, "hotMostRecent") {
			names = append(names, cached[len(cached)-hot:]...)
		} else {
			names = append(names, rapid.Permutation(cached).Draw(rt, "hotPick")[:hot]...)
		}
		for len(names) < size {
			names = append(names, next)
			next++
		}
		g := rapid.SampledFrom([]int{2, 3, 4, 8, 8, 16}).Draw(rt, "goroutines")
		for range g {
			var ops []concOp
			for range rapid.IntRange(2, 10).Draw(rt, "ops") {
				ops = append(ops, concOp{Name: rapid.SampledFrom(names).Draw(rt, "opName"), API: rapid.IntRange(0, 2).Draw(rt, "api")})
			}
			r.G = append(r.G, ops)
		}
		p.Rounds = append(p.Rounds, r)
		// after the round the content is uncertain; the next prelude re-establishes it
		for _, n := range names {
			if !slices.Contains(cached, n) {
				cached = append(cached, n)
			}
		}
	}
	return p
}

var recConc = ev.New("C17", "concurrent-lookups",
	"rapid, real goroutines: one dns.Resolver (cache capacity 1..8, TCP-only, in-memory upstream that counts dials per name and answers the scripted addresses, per-name answer delay 0..1.5 ms), "+
		"1..3 rounds of: sequential prelude of `capacity` distinct names (exact LRU order known) then 2..16 goroutines each doing 2..10 Lookup/LookupIP/LookupIPs calls over a name set of at most `capacity` names "+
		"(already cached names = concurrent cache hits with promotion; new names = insertion into the full cache with eviction; the same new name from several goroutines), then sequential lookups of the names that cannot have been evicted. "+
		"Oracle: every answer is the scripted one; a cached name h with |more-recent names ∪ (round names \\ h)| < capacity is never asked upstream again; a name not cached is asked 1..(number of its lookups) times; untouched names are not asked. "+
		"Non-trivial: a round has protected cached names looked up by >=2 goroutines AND new names inserted; distinct key = capacity, goroutines, hot/cold/protected counts").
	Require("concurrent-cache-hits", "concurrent-insert-into-full-cache", "protected-name-hit-while-evicting", "goroutines>=8", "goroutines=16", "same-new-name-from-several-goroutines")

func runConcPlan(p *concPlan) (viol string, labels map[string]bool, key string, nt bool) {
	labels = map[string]bool{}
	up := &concUpstream{dials: map[string]int{}, idx: map[string]int{}, delayUs: p.DelayUs}
	maxName := 0
	for _, r := range p.Rounds {
		for _, n := range r.Prelude {
			maxName = max(maxName, n)
		}
		for _, g := range r.G {
			for _, op := range g {
				maxName = max(maxName, op.Name)
			}
		}
	}
	names := make([]string, maxName+1)
	for i := range names {
		names[i] = concName(i)
		up.idx[names[i]] = i
	}
	rc := dns.ResolverConfig{Name: "verif-conc", AddrPort: serverAP, TCPClientName: "t", CacheSize: p.Capacity}
	sr, err := rc.NewSimpleResolver(map[string]netio.StreamClient{"t": up}, nil, zap.NewNop())
	if err != nil {
		return "SIG=C17/harness-resolver-construction " + err.Error(), labels, "", false
	}
	r := sr.(*dns.Resolver)
	defer up.wg.Wait()
	c := p.Capacity
	var keyb strings.Builder
	fmt.Fprintf(&keyb, "cap=%d", c)
	firstRound := true
	for ri := range p.Rounds {
		rd := &p.Rounds[ri]
		// sequential prelude
		for k, n := range rd.Prelude {
			before := up.snapshot()[names[n]]
			out := callAPI(r, k%3, names[n])
			if v := concCheckOut(out, n); v != "" {
				return fmt.Sprintf("SIG=C17/concurrent-wrong-answer round=%d prelude name=%d %s", ri, n, v), labels, "", false
			}
			d := up.snapshot()[names[n]] - before
			if d > 1 || (firstRound && d != 1) {
				return fmt.Sprintf("SIG=C17/concurrent-upstream-query-count round=%d prelude name=%d asked %d times by one sequential lookup (first round: %v)", ri, n, d, firstRound), labels, "", false
			}
		}
		firstRound = false
		order := rd.Prelude // LRU ... MRU, exactly
		// the round's name set and the lookups per name
		perName := map[int]int{}
		perNameG := map[int]map[int]bool{}
		for gi, g := range rd.G {
			for _, op := range g {
				perName[op.Name]++
				if perNameG[op.Name] == nil {
					perNameG[op.Name] = map[int]bool{}
				}
				perNameG[op.Name][gi] = true
			}
		}
		var safe []int
		cold, hot := 0, 0
		for n := range perName {
			if slices.Contains(order, n) {
				hot++
			} else {
				cold++
			}
		}
		for pos, h := range order {
			others := map[int]bool{}
			for _, m := range order[pos+1:] {
				others[m] = true
			}
			for n := range perName {
				if n != h {
					others[n] = true
				}
			}
			if len(others) < c {
				safe = append(safe, h)
			}
		}
		sort.Ints(safe)
		before := up.snapshot()
		// concurrent round
		results := make([][]*lookupOut, len(rd.G))
		start := make(chan struct{})
		var wg sync.WaitGroup
		for gi := range rd.G {
			results[gi] = make([]*lookupOut, len(rd.G[gi]))
			wg.Add(1)
			go func() {
				defer wg.Done()
				<-start
				for i, op := range rd.G[gi] {
					results[gi][i] = callAPI(r, op.API, names[op.Name])
				}
			}()
		}
		close(start)
		done := make(chan struct{})
		go func() { wg.Wait(); close(done) }()
		select {
		case <-done:
		case <-time.After(60 * time.Second):
			return fmt.Sprintf("SIG=C17/concurrent-lookups-hang round=%d", ri), labels, "", false
		}
		for gi := range rd.G {
			for i, op := range rd.G[gi] {
				if v := concCheckOut(results[gi][i], op.Name); v != "" {
					return fmt.Sprintf("SIG=C17/concurrent-wrong-answer round=%d goroutine=%d op=%d name=%d %s", ri, gi, i, op.Name, v), labels, "", false
				}
			}
		}
		if up.bad != "" {
			return "SIG=C17/tcp-query-wrong " + up.bad, labels, "", false
		}
		after := up.snapshot()
		ctxs := func() string {
			return fmt.Sprintf("round=%d capacity=%d lru-before(LRU..MRU)=%v round-names=%v goroutines=%d protected=%v", ri, c, order, perName, len(rd.G), safe)
		}
		for i, nm := range names {
			d := after[nm] - before[nm]
			switch {
			case slices.Contains(safe, i):
				if d != 0 {
					return fmt.Sprintf("SIG=C17/cached-name-asked-upstream-again name=%d asked %d more times during the concurrent round although fewer than capacity other names were used since its last use; %s", i, d, ctxs()), labels, "", false
				}
			case perName[i] == 0:
				if d != 0 {
					return fmt.Sprintf("SIG=C17/concurrent-upstream-query-count name=%d was not looked up but asked upstream %d times; %s", i, d, ctxs()), labels, "", false
				}
			case !slices.Contains(order, i):
				if d < 1 || d > perName[i] {
					return fmt.Sprintf("SIG=C17/concurrent-upstream-query-count new name=%d looked up %d times, asked upstream %d times; %s", i, perName[i], d, ctxs()), labels, "", false
				}
			default:
				if d > perName[i] {
					return fmt.Sprintf("SIG=C17/concurrent-upstream-query-count name=%d looked up %d times, asked upstream %d times; %s", i, perName[i], d, ctxs()), labels, "", false
				}
			}
		}
		// the protected names are still there afterwards
		for k, h := range safe {
			out := callAPI(r, k%3, names[h])
			if v := concCheckOut(out, h); v != "" {
				return fmt.Sprintf("SIG=C17/concurrent-wrong-answer round=%d after name=%d %s", ri, h, v), labels, "", false
			}
			if d := up.snapshot()[names[h]] - after[names[h]]; d != 0 {
				return fmt.Sprintf("SIG=C17/cached-name-asked-upstream-again name=%d asked upstream after the concurrent round although it cannot have been evicted; %s", h, ctxs()), labels, "", false
			}
		}
		// evidence
		safeHitG := 0
		for _, h := range safe {
			if len(perNameG[h]) >= 2 {
				safeHitG++
				labels["concurrent-cache-hits"] = true
			}
		}
		if cold > 0 {
			labels["concurrent-insert-into-full-cache"] = true
			for n, gs := range perNameG {
				if !slices.Contains(order, n) && len(gs) >= 2 {
					labels["same-new-name-from-several-goroutines"] = true
				}
			}
		}
		if safeHitG > 0 && cold > 0 {
			labels["protected-name-hit-while-evicting"] = true
			nt = true
		}
		if len(rd.G) >= 8 {
			labels["goroutines>=8"] = true
		}
		if len(rd.G) == 16 {
			labels["goroutines=16"] = true
		}
		if hot > len(safe) {
			labels["unprotected-cached-name-in-round"] = true
		}
		fmt.Fprintf(&keyb, "|g=%d hot=%d cold=%d prot=%d", len(rd.G), hot, cold, len(safe))
	}
	return "", labels, keyb.String(), nt
}

func TestResolverConcurrent(t *testing.T) {
	rapid.Check(t, func(rt *rapid.T) {
		p := genConcPlan(rt)
		j := writeJournal("conc", p)
		viol, labels, key, nt := runConcPlan(p)
		if j != "" {
			os.Remove(j)
		}
		if viol != "" {
			if sig := sigOf(viol); ev.IsKnown("C17", sig) {
				recConc.KnownHit(sig)
				return
			}
			rt.Fatalf("%s", viol)
		}
		var ls []string
		for l := range labels {
			ls = append(ls, l)
		}
		recConc.Case(key, nt, ls...)
		if nt {
			recConc.Sample(map[string]any{"plan": key})
		}
	})
}

// TestReplayConcurrent re-runs a journaled concurrent plan ($VERIF_REPLAY) outside rapid.
func TestReplayConcurrent(t *testing.T) {
	f := os.Getenv("VERIF_REPLAY")
	if f == "" || !strings.Contains(filepath.Base(f), "journal-conc") {
		t.Skip("no concurrent-lookups journal to replay")
	}
	b, err := os.ReadFile(f)
	if err != nil {
		t.Fatal(err)
	}
	var plan concPlan
	if err := json.Unmarshal(b, &plan); err != nil {
		t.Fatal(err)
	}
	for range 20 { // the schedule is not part of the plan
		if viol, _, _, _ := runConcPlan(&plan); viol != "" {
			t.Fatal(viol)
		}
	}
}
