package c17

// cache.BoundedCache against a slice-based reference written from its doc comments: bounded
// by capacity, tail = most recently used, insertion at capacity evicts the head (least recently
// used), Get/GetEntry/Set promote, Contains does not, All iterates LRU→MRU, Backward MRU→LRU.

import (
	"fmt"
	"slices"
	"strings"
	"testing"

	"github.com/database64128/shadowsocks-go/cache"
	"pgregory.net/rapid"

	"verif/internal/ev"
)

type refCache struct {
	capacity int // 0 = unbounded
	keys     []int
	vals     map[int]int
}

func (r *refCache) promote(k int) {
	i := slices.Index(r.keys, k)
	r.keys = append(slices.Delete(r.keys, i, i+1), k)
}

func (r *refCache) insert(k, v int) (evicted int, did bool) {
	if r.capacity > 0 && len(r.keys) == r.capacity {
		evicted, did = r.keys[0], true
		delete(r.vals, evicted)
		r.keys = r.keys[1:]
	}
	r.keys = append(r.keys, k)
	r.vals[k] = v
	return
}

var recCache = ev.New("C17", "lru-cache-model",
	"rapid: cache.BoundedCache[int,int] with capacity {1,2,3,4, 0 and -1 = unbounded}, 1..80 operations from {Get, GetEntry, Set, Insert, InsertUnchecked (absent keys only), "+
		"Contains, Remove, Clear, Len/Capacity, All, Backward} over capacity+2 keys, compared after every operation with a slice-ordered reference (return values, full LRU→MRU order in both "+
		"directions, length ≤ capacity). Non-trivial: at least one eviction, one promotion of a non-tail entry and one removal; distinct key = capacity + operation string").
	Require("eviction", "promotion", "removal", "clear")

func TestCacheModel(t *testing.T) {
	rapid.Check(t, func(rt *rapid.T) {
		capArg := rapid.SampledFrom([]int{1, 1, 2, 2, 3, 3, 4, 4, 0, -1}).Draw(rt, "capacity")
		c := cache.NewBoundedCache[int, int](capArg)
		ref := &refCache{capacity: max(capArg, 0), vals: map[int]int{}}
		nKeys := max(capArg, 3) + 2
		n := rapid.IntRange(1, 80).Draw(rt, "ops")
		var ops strings.Builder
		var evicted, promoted, removed, cleared bool
		fail := func(sig, format string, a ...any) {
			rt.Fatalf("SIG=C17/%s capacity=%d ops=%s: %s", sig, capArg, ops.String(), fmt.Sprintf(format, a...))
		}
		for i := range n {
			op := rapid.SampledFrom([]string{"get", "get", "get", "getentry", "set", "set", "set", "set", "insert", "insert", "insertu", "contains", "remove", "remove", "len",
				"get", "get", "get", "getentry", "set", "set", "set", "set", "insert", "insert", "insertu", "contains", "remove", "remove", "clear"}).Draw(rt, "op")
			k := rapid.IntRange(0, nKeys-1).Draw(rt, "key")
			v := i + 1
			fmt.Fprintf(&ops, "%s(%d) ", op, k)
			_, present := ref.vals[k]
			nonTail := present && ref.keys[len(ref.keys)-1] != k
			switch op {
			case "get":
				got, ok := c.Get(k)
				if ok != present || (ok && got != ref.vals[k]) {
					fail("lru-get", "Get(%d)=(%d,%v) want (%d,%v)", k, got, ok, ref.vals[k], present)
				}
				if present {
					ref.promote(k)
					promoted = promoted || nonTail
				}
			case "getentry":
				e, ok := c.GetEntry(k)
				if ok != present || (ok && (e.Key != k || e.Value != ref.vals[k])) {
					fail("lru-getentry", "GetEntry(%d) ok=%v want %v", k, ok, present)
				}
				if present {
					ref.promote(k)
					promoted = promoted || nonTail
				}
			case "set":
				c.Set(k, v)
				if present {
					ref.vals[k] = v
					ref.promote(k)
					promoted = promoted || nonTail
				} else if _, did := ref.insert(k, v); did {
					evicted = true
				}
			case "insert":
				ok := c.Insert(k, v)
				if ok == present {
					fail("lru-insert", "Insert(%d)=%v but present=%v", k, ok, present)
				}
				if !present {
					if _, did := ref.insert(k, v); did {
						evicted = true
					}
				}
			case "insertu":
				if present {
					continue // documented as undefined behaviour for existing keys
				}
				c.InsertUnchecked(k, v)
				if _, did := ref.insert(k, v); did {
					evicted = true
				}
			case "contains":
				if got := c.Contains(k); got != present {
					fail("lru-contains", "Contains(%d)=%v want %v", k, got, present)
				}
			case "remove":
				ok := c.Remove(k)
				if ok != present {
					fail("lru-remove", "Remove(%d)=%v want %v", k, ok, present)
				}
				if present {
					i := slices.Index(ref.keys, k)
					ref.keys = slices.Delete(ref.keys, i, i+1)
					delete(ref.vals, k)
					removed = true
				}
			case "clear":
				c.Clear()
				ref.keys, ref.vals = nil, map[int]int{}
				cleared = true
			case "len":
			}
			// full state comparison after every operation
			if c.Len() != len(ref.keys) {
				fail("lru-len", "Len=%d want %d", c.Len(), len(ref.keys))
			}
			if capArg > 0 && (c.Len() > capArg || c.Capacity() != capArg) {
				fail("lru-over-capacity", "Len=%d Capacity()=%d", c.Len(), c.Capacity())
			}
			var fw, bw []int
			for key, val := range c.All() {
				fw = append(fw, key)
				if val != ref.vals[key] {
					fail("lru-value", "All: key %d value %d want %d", key, val, ref.vals[key])
				}
				if len(fw) > len(ref.keys)+1 {
					break
				}
			}
			for key := range c.Backward() {
				bw = append(bw, key)
				if len(bw) > len(ref.keys)+1 {
					break
				}
			}
			slices.Reverse(bw)
			if !slices.Equal(fw, ref.keys) || !slices.Equal(bw, ref.keys) {
				fail("lru-order", "All=%v reverse(Backward)=%v want %v", fw, bw, ref.keys)
			}
		}
		var labels []string
		for l, b := range map[string]bool{"eviction": evicted, "promotion": promoted, "removal": removed, "clear": cleared} {
			if b {
				labels = append(labels, l)
			}
		}
		nt := evicted && promoted && removed
		recCache.Case(fmt.Sprintf("%d|%s", capArg, ops.String()), nt, labels...)
		if nt {
			recCache.Sample(map[string]any{"capacity": capArg, "ops": ops.String()})
		}
	})
}
