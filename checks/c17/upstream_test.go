package c17

// Scripted DNS-over-TCP upstream. The resolver under test gets a harness netio.StreamClient
// whose DialStream returns one end of a net.Pipe; a responder goroutine plays the scripted
// items of that connection on the other end. net.Pipe is synchronous, so the responder knows
// exactly which items the resolver consumed completely: the reference model is evaluated over
// those observations.

import (
	"context"
	"encoding/binary"
	"errors"
	"net"
	"sync"
	"time"

	"github.com/database64128/shadowsocks-go/conn"
	"github.com/database64128/shadowsocks-go/netio"
)

// item kinds
const (
	kResp       = "resp"       // acceptable response (QR=1, RA=1, rcode 0..5, own ID, well-formed)
	kWrongID    = "wrongid"    // well-formed response whose ID is neither of the lookup's two query IDs
	kNotResp    = "notresp"    // QR=0
	kNoRA       = "nora"       // RA=0
	kBadRCode   = "badrcode"   // rcode 6..15
	kZeroLen    = "zerolen"    // TCP length field 0
	kShort      = "short"      // fewer than 12 bytes
	kGarbage    = "garbage"    // own ID, QR, RA, ANCOUNT=4 and then too few random bytes
	kCut        = "cut"        // well-formed message with the tail of the last answer RR missing
	kExtraCount = "extracount" // ANCOUNT larger than the RRs present
	kPtrLoop    = "ptrloop"    // owner name is a compression pointer to itself
	kMidClose   = "midclose"   // connection closed in the middle of a message
	kSilence    = "silence"    // nothing is sent any more; the connection stays open
)

// item is one scripted action of the upstream on one connection (or one datagram in the UDP check).
type item struct {
	Kind    string
	Fam     int   // 4: answers the A query, 6: answers the AAAA query
	Msg     wmsg  // template; ID, QName, QType are filled in when it is sent
	Seed    uint64
	N       int   // garbage/short length, midclose byte count
	RK      int   // response kind (rk* constant) of an acceptable response; evidence label only
	WrongID uint16
	DelayMs int64
}

func (it *item) acceptable() bool { return it.Kind == kResp }

type connScript struct {
	DialErr bool
	Items   []item
}

type lookupScript struct {
	Conns []connScript
}

// connObs is what the upstream saw on one connection.
type connObs struct {
	Queries    []query
	QueryErr   error
	DialErr    bool
	Consumed   int       // number of leading items the resolver read completely
	CleanClose bool      // all items consumed, then the upstream closed (EOF at a message boundary)
	Silence    bool      // the script reached a silence item and waited for the resolver to hang up
	FailIdx    int       // index of the item whose write was cut short by the resolver hanging up (-1: none)
	FailN      int       // bytes of that item that were consumed
	EndAt      time.Time // when the responder finished (hang-up seen, or clean close done)
	Aborted    bool      // the lookup returned while the responder was still delaying an item
	Addr       conn.Addr
}

var errScriptedDial = errors.New("scripted dial failure")

// tcpUpstream implements netio.StreamClient.
type tcpUpstream struct {
	name   string // name being looked up (set by begin)
	script *lookupScript
	obs    []*connObs
	ids    map[int]uint16 // family -> ID observed in this lookup's queries
	stop   chan struct{}
	wg     sync.WaitGroup
}

type pipeConn struct{ net.Conn }

func (pipeConn) CloseWrite() error { return nil }

func (u *tcpUpstream) begin(name string, s *lookupScript) {
	u.name, u.script, u.obs, u.ids, u.stop = name, s, nil, map[int]uint16{}, make(chan struct{})
}

// end releases delaying responders and waits for all of them.
func (u *tcpUpstream) end() []*connObs {
	close(u.stop)
	u.wg.Wait()
	return u.obs
}

func (u *tcpUpstream) NewStreamDialer() (netio.StreamDialer, netio.StreamDialerInfo) {
	return u, netio.StreamDialerInfo{Name: "verif-upstream", NativeInitialPayload: true}
}

func (u *tcpUpstream) noteQueries(qs []query) {
	for _, q := range qs {
		switch q.Type {
		case tA:
			u.ids[4] = q.ID
		case tAAAA:
			u.ids[6] = q.ID
		}
	}
}

func (u *tcpUpstream) DialStream(ctx context.Context, addr conn.Addr, payload []byte) (netio.Conn, error) {
	o := &connObs{FailIdx: -1, Addr: addr}
	idx := len(u.obs)
	u.obs = append(u.obs, o)
	o.Queries, o.QueryErr = parseTCPQueries(payload)
	u.noteQueries(o.Queries)
	var cs connScript
	if u.script != nil && idx < len(u.script.Conns) {
		cs = u.script.Conns[idx]
	}
	if cs.DialErr {
		o.DialErr = true
		o.EndAt = time.Now()
		return nil, errScriptedDial
	}
	cl, sv := net.Pipe()
	u.wg.Add(1)
	go u.serve(sv, cs, o)
	return pipeConn{cl}, nil
}

// wrongID returns an ID that differs from both query IDs of the lookup.
func (u *tcpUpstream) wrongID(cand uint16) uint16 {
	for cand == u.ids[4] || cand == u.ids[6] {
		cand += 0x0101
	}
	return cand
}

// wire builds the message bytes of an item (without TCP framing); ok=false for items that are
// not a single complete message (zerolen, midclose, silence).
func (u *tcpUpstream) wire(it *item) []byte {
	m := it.Msg
	m.QName = u.name
	if it.Fam == 6 {
		m.QType = tAAAA
		m.ID = u.ids[6]
	} else {
		m.QType = tA
		m.ID = u.ids[4]
	}
	switch it.Kind {
	case kWrongID:
		m.ID = u.wrongID(it.WrongID)
		return m.pack()
	case kShort:
		return prngBytes(it.Seed, max(1, it.N%12))
	case kGarbage:
		b := make([]byte, 12, 12+30)
		binary.BigEndian.PutUint16(b, m.ID)
		b[2], b[3] = 0x81, 0x80
		binary.BigEndian.PutUint16(b[4:], 1)
		binary.BigEndian.PutUint16(b[6:], 4)
		return append(b, prngBytes(it.Seed, 1+it.N%30)...)
	default:
		return m.pack()
	}
}

func (u *tcpUpstream) tcpBytes(it *item) []byte {
	switch it.Kind {
	case kZeroLen:
		return []byte{0, 0}
	case kMidClose:
		full := frame(u.wire(it))
		k := 1 + it.N%(len(full)-1)
		return full[:k]
	default:
		return frame(u.wire(it))
	}
}

func (u *tcpUpstream) serve(c net.Conn, cs connScript, o *connObs) {
	defer u.wg.Done()
	defer func() { o.EndAt = time.Now(); c.Close() }()
	for i := range cs.Items {
		it := &cs.Items[i]
		if it.DelayMs > 0 {
			tm := time.NewTimer(time.Duration(it.DelayMs) * time.Millisecond)
			select {
			case <-tm.C:
			case <-u.stop:
				tm.Stop()
				o.Aborted = true
				return
			}
		}
		if it.Kind == kSilence {
			o.Silence = true
			buf := make([]byte, 16)
			for {
				if _, err := c.Read(buf); err != nil {
					return
				}
			}
		}
		b := u.tcpBytes(it)
		n, err := c.Write(b)
		if err != nil || n < len(b) {
			o.FailIdx, o.FailN = i, n
			return
		}
		o.Consumed = i + 1
		if it.Kind == kMidClose {
			return
		}
	}
	o.CleanClose = true
}
