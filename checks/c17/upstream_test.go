package c17

// Scripted DNS-over-TCP upstream. The resolver under test gets a harness netio.StreamClient
// whose DialStream returns one end of a net.Pipe; a responder goroutine plays the scripted
// items of that connection on the other end. net.Pipe is synchronous, so the responder knows
// exactly which items the resolver consumed completely: the reference model is evaluated over
// those observations.

import (
	"context"
	"encoding/binary"
	"errors"
	"net"
	"sync"
	"time"

	"github.com/database64128/shadowsocks-go/conn"
	"github.com/database64128/shadowsocks-go/netio"
)

// item kinds
const (
	kResp       = "resp"       // acceptable response (QR=1, RA=1, rcode 0..5, own ID, well-formed)
	kWrongID    = "wrongid"    // well-formed response whose ID is neither of the lookup's two query IDs
	kNotResp    = "notresp"    // QR=0
	kNoRA       = "nora"       // RA=0
	kBadRCode   = "badrcode"   // rcode 6..15
	kZeroLen    = "zerolen"    // TCP length field 0
	kShort      = "short"      // fewer than 12 bytes
	kGarbage    = "garbage"    // own ID, QR, RA, ANCOUNT=4 and then too few random bytes
	kCut        = "cut"        // well-formed message with the tail of the last answer RR missing
	kExtraCount = "extracount" // ANCOUNT larger than the RRs present
	kPtrLoop    = "ptrloop"    // owner name is a compression pointer to itself
	kMidClose   = "midclose"   // connection closed in the middle of a message
	kSilence    = "silence"    // nothing is sent any more; the connection stays open
	kRaw        = "raw"        // arbitrary bytes written to the stream as they are (no framing added)
	kMutated    = "mutated"    // a well-formed response with byte-level mutations applied after packing
)

// mut is one byte-level mutation of a packed message.
type mut struct {
	Op  int // 0 flip bit, 1 set byte, 2 truncate, 3 insert byte, 4 delete byte, 5 overwrite a header count
	Off int
	Val byte
}

func applyMuts(b []byte, ms []mut) []byte {
	b = append([]byte(nil), b...)
	for _, m := range ms {
		if len(b) == 0 {
			break
		}
		off := m.Off % len(b)
		switch m.Op {
		case 0:
			b[off] ^= 1 << (m.Val % 8)
		case 1:
			b[off] = m.Val
		case 2:
			b = b[:off]
		case 3:
			b = append(b[:off], append([]byte{m.Val}, b[off:]...)...)
		case 4:
			b = append(b[:off], b[off+1:]...)
		case 5:
			if len(b) >= 12 {
				b[4+2*(m.Off%4)], b[5+2*(m.Off%4)] = 0, m.Val%8
			}
		}
	}
	return b
}

// item is one scripted action of the upstream on one connection (or one datagram in the UDP check).
type item struct {
	Kind    string
	Fam     int  // 4: answers the A query, 6: answers the AAAA query
	Msg     wmsg // template; ID, QName, QType are filled in when it is sent
	Seed    uint64
	N       int // garbage/short length, midclose byte count
	RK      int // response kind (rk* constant) of an acceptable response; evidence label only
	WrongID uint16
	DelayMs int64
	Raw     []byte // kRaw
	Muts    []mut  // kMutated
	LenAdj  int    // kMutated: added to the TCP length field
}

func (it *item) acceptable() bool { return it.Kind == kResp }

type connScript struct {
	DialErr bool
	Items   []item
}

type lookupScript struct {
	Conns []connScript
}

// connObs is what the upstream saw on one connection.
type connObs struct {
	Queries    []query
	QueryErr   error
	DialErr    bool
	CtxExpired bool      // the resolver dialed with a context that was already done (the dial fails like a real dialer's)
	Consumed   int       // number of leading items the resolver read completely
	CleanClose bool      // all items consumed, then the upstream closed (EOF at a message boundary)
	Silence    bool      // the script reached a silence item and waited for the resolver to hang up
	FailIdx    int       // index of the item whose write was cut short by the resolver hanging up (-1: none)
	FailN      int       // bytes of that item that were consumed
	DialAt     time.Time // when the resolver dialed this connection
	EndAt      time.Time // when the responder finished (hang-up seen, or clean close done)
	Aborted    bool      // the lookup returned while the responder was still delaying an item
	Addr       conn.Addr
	Bytes      []byte // every byte the resolver consumed on this connection
}

var errScriptedDial = errors.New("scripted dial failure")

// tcpUpstream implements netio.StreamClient.
type tcpUpstream struct {
	name   string // name being looked up (set by begin)
	script *lookupScript
	obs    []*connObs
	ids    map[int]uint16 // family -> ID observed in this lookup's queries
	stop   chan struct{}
	wg     sync.WaitGroup
	// idSource, if set, returns the query IDs a UDP upstream of the same lookup has seen
	// (a family answered over UDP is not asked again over TCP).
	idSource func() map[int]uint16
}

type pipeConn struct{ net.Conn }

func (pipeConn) CloseWrite() error { return nil }

func (u *tcpUpstream) begin(name string, s *lookupScript) {
	u.name, u.script, u.obs, u.ids, u.stop = name, s, nil, map[int]uint16{}, make(chan struct{})
}

// end releases delaying responders and waits for all of them.
func (u *tcpUpstream) end() []*connObs {
	close(u.stop)
	u.wg.Wait()
	return u.obs
}

func (u *tcpUpstream) NewStreamDialer() (netio.StreamDialer, netio.StreamDialerInfo) {
	return u, netio.StreamDialerInfo{Name: "verif-upstream", NativeInitialPayload: true}
}

func (u *tcpUpstream) noteQueries(qs []query) {
	for _, q := range qs {
		switch q.Type {
		case tA:
			u.ids[4] = q.ID
		case tAAAA:
			u.ids[6] = q.ID
		}
	}
}

func (u *tcpUpstream) DialStream(ctx context.Context, addr conn.Addr, payload []byte) (netio.Conn, error) {
	o := &connObs{FailIdx: -1, Addr: addr, DialAt: time.Now()}
	idx := len(u.obs)
	u.obs = append(u.obs, o)
	o.Queries, o.QueryErr = parseTCPQueries(payload)
	if u.idSource != nil {
		for f, id := range u.idSource() {
			u.ids[f] = id
		}
	}
	u.noteQueries(o.Queries)
	var cs connScript
	if u.script != nil && idx < len(u.script.Conns) {
		cs = u.script.Conns[idx]
	}
	if err := ctx.Err(); err != nil {
		o.DialErr, o.CtxExpired = true, true
		o.EndAt = time.Now()
		return nil, err
	}
	if cs.DialErr {
		o.DialErr = true
		o.EndAt = time.Now()
		return nil, errScriptedDial
	}
	cl, sv := net.Pipe()
	u.wg.Add(1)
	go u.serve(sv, cs, o)
	return pipeConn{cl}, nil
}

// wire builds the message bytes of an item (without TCP framing) for a lookup of name whose
// two queries carried the IDs in ids (family -> ID, as observed by the upstream).
func wire(it *item, name string, ids map[int]uint16) []byte {
	m := it.Msg
	m.QName = name
	if it.Fam == 6 {
		m.QType = tAAAA
		m.ID = ids[6]
	} else {
		m.QType = tA
		m.ID = ids[4]
	}
	switch it.Kind {
	case kWrongID:
		// an ID that differs from both query IDs of the lookup
		m.ID = it.WrongID
		for m.ID == ids[4] || m.ID == ids[6] {
			m.ID += 0x0101
		}
		return m.pack()
	case kShort:
		return prngBytes(it.Seed, max(1, it.N%12))
	case kGarbage:
		b := make([]byte, 12, 12+30)
		binary.BigEndian.PutUint16(b, m.ID)
		b[2], b[3] = 0x81, 0x80
		binary.BigEndian.PutUint16(b[4:], 1)
		binary.BigEndian.PutUint16(b[6:], 4)
		return append(b, prngBytes(it.Seed, 1+it.N%30)...)
	default:
		return m.pack()
	}
}

func (u *tcpUpstream) tcpBytes(it *item) []byte {
	switch it.Kind {
	case kRaw:
		return it.Raw
	case kMutated:
		b := frame(applyMuts(wire(it, u.name, u.ids), it.Muts))
		binary.BigEndian.PutUint16(b, uint16(int(binary.BigEndian.Uint16(b))+it.LenAdj))
		return b
	case kZeroLen:
		return []byte{0, 0}
	case kMidClose:
		full := frame(wire(it, u.name, u.ids))
		k := 1 + it.N%(len(full)-1)
		return full[:k]
	default:
		return frame(wire(it, u.name, u.ids))
	}
}

func (u *tcpUpstream) serve(c net.Conn, cs connScript, o *connObs) {
	defer u.wg.Done()
	defer func() { o.EndAt = time.Now(); c.Close() }()
	for i := range cs.Items {
		it := &cs.Items[i]
		if it.DelayMs > 0 {
			tm := time.NewTimer(time.Duration(it.DelayMs) * time.Millisecond)
			select {
			case <-tm.C:
			case <-u.stop:
				tm.Stop()
				o.Aborted = true
				return
			}
		}
		if it.Kind == kSilence {
			o.Silence = true
			buf := make([]byte, 16)
			for {
				if _, err := c.Read(buf); err != nil {
					return
				}
			}
		}
		b := u.tcpBytes(it)
		if len(b) == 0 {
			o.Consumed = i + 1
			continue
		}
		n, err := c.Write(b)
		o.Bytes = append(o.Bytes, b[:n]...)
		if err != nil || n < len(b) {
			o.FailIdx, o.FailN = i, n
			return
		}
		o.Consumed = i + 1
		if it.Kind == kMidClose {
			return
		}
	}
	o.CleanClose = true
}
