package c17

// Differential through the real consumer of the resolver's failure report: router.Config with
// two (or three) real dns.Resolvers and a route with an IP criterion on a domain target.
// RouteConfig.Resolver documents "If unspecified, use all resolvers by order": a resolver whose
// lookup failed must be followed by the next one, and when every resolver failed the router must
// report a domain name lookup error (router.DialResultCodeFromError), never a silent match.

import (
	"context"
	"encoding/json"
	"fmt"
	"net/netip"
	"os"
	"path/filepath"
	"strings"
	"testing"
	"testing/synctest"
	"time"

	"github.com/database64128/shadowsocks-go/conn"
	"github.com/database64128/shadowsocks-go/dns"
	"github.com/database64128/shadowsocks-go/netio"
	"github.com/database64128/shadowsocks-go/router"
	"go.uber.org/zap"
	"pgregory.net/rapid"

	"verif/internal/ev"
)

type routerResolverPlan struct {
	Script  lookupScript
	Outside bool // the addresses this upstream hands out lie outside the route's prefixes
}

type routerPlan struct {
	Resolvers []routerResolverPlan
	Domain    string // the request's target domain
	Pinned    int    // 0: route uses all resolvers by order; k>0: RouteConfig.Resolver names resolver k-1
}

// relocate moves every address of the script out of 10.0.0.0/8 and fd00::/8.
func relocate(s *lookupScript) {
	for ci := range s.Conns {
		for i := range s.Conns[ci].Items {
			m := &s.Conns[ci].Items[i].Msg
			for j := range m.Answers {
				a := &m.Answers[j].Addr
				switch {
				case !a.IsValid():
				case a.Is4():
					b := a.As4()
					b[0] = 172
					*a = netip.AddrFrom4(b)
				default:
					b := a.As16()
					b[0] = 0xfc
					*a = netip.AddrFrom16(b)
				}
			}
		}
	}
}

func genFailingScript(rt *rapid.T, ag *addrGen) lookupScript {
	switch rapid.IntRange(0, 5).Draw(rt, "failKind") {
	case 0:
		return lookupScript{Conns: []connScript{{}, {}}} // two clean EOFs without any answer
	case 1:
		return lookupScript{Conns: []connScript{{DialErr: true}}}
	case 2:
		return lookupScript{Conns: []connScript{{Items: []item{genBad(rt, 4, ag, badKinds)}}}}
	case 3: // one answer only, on both connections
		f := rapid.SampledFrom([]int{4, 6}).Draw(rt, "fam")
		return lookupScript{Conns: []connScript{{Items: []item{genGood(rt, f, ag)}}, {Items: []item{genGood(rt, f, ag)}}}}
	case 4:
		return lookupScript{Conns: []connScript{{Items: []item{genGood(rt, 6, ag), genBad(rt, 4, ag, badKinds)}}}}
	default:
		return lookupScript{Conns: []connScript{{Items: []item{{Kind: kSilence}}}}}
	}
}

func genRouterPlan(rt *rapid.T) *routerPlan {
	p := &routerPlan{}
	p.Domain = genName(rt, 0)
	n := rapid.SampledFrom([]int{2, 2, 2, 3}).Draw(rt, "resolvers")
	for k := range n {
		ag := &addrGen{scope: byte(k + 1)}
		var rp routerResolverPlan
		switch c := rapid.IntRange(0, 9).Draw(rt, "resolverClass"); {
		case c < 5:
			rp.Script = genFailingScript(rt, ag)
		case c < 8:
			rp.Script = lookupScript{Conns: []connScript{genConnGood(rt, ag)}}
		default:
			rp.Script, _ = genLookupScript(rt, ag)
		}
		rp.Outside = rapid.IntRange(0, 3).Draw(rt, "outside") == 0
		if rp.Outside {
			relocate(&rp.Script)
		}
		p.Resolvers = append(p.Resolvers, rp)
	}
	if rapid.IntRange(0, 4).Draw(rt, "pinned") == 0 {
		p.Pinned = rapid.IntRange(1, n).Draw(rt, "pinnedResolver")
	}
	return p
}

const (
	roMatch     = "route-matched"
	roDefault   = "default-route"
	roLookupErr = "domain-name-lookup-error"
)

func runRouterPlan(t *testing.T, p *routerPlan) (viol string, labels []string, key string) {
	domain := p.Domain
	if domain == "" {
		domain = "n0.verif.test"
	}
	labels = append(labels, nameLabels(domain)...)
	synctest.Test(t, func(t *testing.T) {
		ups := make([]*tcpUpstream, len(p.Resolvers))
		var resolvers []dns.SimpleResolver
		resolverMap := map[string]dns.SimpleResolver{}
		for k := range p.Resolvers {
			ups[k] = &tcpUpstream{}
			name := fmt.Sprintf("r%d", k)
			rc := dns.ResolverConfig{Name: name, AddrPort: serverAP, TCPClientName: "up", CacheSize: 4}
			sr, err := rc.NewSimpleResolver(map[string]netio.StreamClient{"up": ups[k]}, nil, zap.NewNop())
			if err != nil {
				viol = "SIG=C17/harness-resolver-construction " + err.Error()
				return
			}
			resolvers = append(resolvers, sr)
			resolverMap[name] = sr
			ups[k].begin(domain, &p.Resolvers[k].Script)
		}
		matchClient, defaultClient := &tcpUpstream{name: "match"}, &tcpUpstream{name: "default"}
		route := router.RouteConfig{Name: "by-resolved-ip", Network: "tcp", Client: "match",
			ToPrefixes: []netip.Prefix{netip.MustParsePrefix("10.0.0.0/8"), netip.MustParsePrefix("fd00::/8")}}
		if p.Pinned > 0 {
			route.Resolver = fmt.Sprintf("r%d", p.Pinned-1)
		}
		cfg := router.Config{DefaultTCPClientName: "default", Routes: []router.RouteConfig{route}}
		rtr, err := cfg.Router(zap.NewNop(), resolvers, resolverMap,
			map[string]netio.StreamClient{"match": matchClient, "default": defaultClient}, nil, map[string]int{})
		if err != nil {
			viol = "SIG=C17/harness-router-construction " + err.Error()
			return
		}
		defer rtr.Close()

		t0 := time.Now()
		client, gerr := rtr.GetTCPClient(context.Background(), router.RequestInfo{
			SourceAddrPort: netip.MustParseAddrPort("127.0.0.1:40000"),
			TargetAddr:     conn.MustAddrFromDomainPort(domain, 443),
		})
		t1 := time.Now()

		got := ""
		switch {
		case gerr == nil && client == netio.StreamClient(matchClient):
			got = roMatch
		case gerr == nil && client == netio.StreamClient(defaultClient):
			got = roDefault
		case gerr != nil && router.DialResultCodeFromError(gerr) == conn.DialResultCodeErrDomainNameLookup:
			got = roLookupErr
		default:
			got = fmt.Sprintf("error(%v: %v)", router.DialResultCodeFromError(gerr), gerr)
		}

		// reference walk over the resolvers the route is documented to use, in order
		order := make([]int, 0, len(p.Resolvers))
		if p.Pinned > 0 {
			order = append(order, p.Pinned-1)
		} else {
			for k := range p.Resolvers {
				order = append(order, k)
			}
		}
		admissible := map[string]bool{}
		var walk strings.Builder
		failedBefore := 0
		finished := false
		for _, k := range order {
			obs := ups[k].end()
			if finished {
				continue
			}
			evl, v := evalTCP(domain, &p.Resolvers[k].Script, obs, t0, t1, map[int]*item{})
			if v != "" {
				viol = fmt.Sprintf("%s (resolver r%d consulted by the router)", v, k)
				return
			}
			if !evl.done() {
				fmt.Fprintf(&walk, "r%d:fail(%dconn,%s) ", k, len(obs), strings.Join(evl.malformed, ","))
				failedBefore++
				continue
			}
			e := buildEntry(evl.acc, t0, t1)
			if len(e.a)+len(e.aaaa) == 0 {
				// an empty answer: reported as a lookup error, or the walk goes on (left open)
				fmt.Fprintf(&walk, "r%d:empty ", k)
				admissible[roLookupErr] = true
				continue
			}
			if p.Resolvers[k].Outside {
				fmt.Fprintf(&walk, "r%d:outside ", k)
				admissible[roDefault] = true
			} else {
				fmt.Fprintf(&walk, "r%d:inside ", k)
				admissible[roMatch] = true
			}
			finished = true
			if failedBefore > 0 {
				labels = append(labels, "failed-resolver-then-answering-resolver")
			} else {
				labels = append(labels, "first-resolver-answered")
			}
		}
		for k := range ups { // resolvers outside the route's list
			if ups[k].stop != nil {
				select {
				case <-ups[k].stop:
				default:
					ups[k].end()
				}
			}
		}
		if !finished {
			admissible[roLookupErr] = true
			if failedBefore == len(order) {
				labels = append(labels, "all-resolvers-failed")
			}
		}
		if p.Pinned > 0 {
			labels = append(labels, "route-pins-one-resolver")
		}
		key = fmt.Sprintf("pinned=%d namelen=%d %s=> %s", p.Pinned, len(domain), walk.String(), got)
		if !admissible[got] {
			sig := "router-wrong-route-for-resolved-domain"
			switch {
			case finished && failedBefore > 0 && strings.HasPrefix(got, "error") || finished && failedBefore > 0 && got == roLookupErr:
				sig = "router-did-not-fall-through-to-next-resolver"
			case !finished && got != roLookupErr:
				sig = "router-lookup-failure-not-reported-as-domain-name-lookup-error"
			}
			want := make([]string, 0, 2)
			for _, o := range []string{roMatch, roDefault, roLookupErr} {
				if admissible[o] {
					want = append(want, o)
				}
			}
			viol = fmt.Sprintf("SIG=C17/%s walk=[%s] got=%s want one of %v", sig, walk.String(), got, want)
		}
	})
	return viol, labels, key
}

var recRouter = ev.New("C17", "router-resolver-fallthrough",
	"rapid + synctest: target domain as in the histories (everyday, or total length 1..253 with 63-byte / 1-byte / mixed labels); router.Config with 2..3 real TCP-only dns.Resolvers (each with its own scripted upstream: failing in one of six ways / healthy / anything from the history generator; "+
		"addresses inside or outside the route's prefixes) and one route `network tcp, toPrefixes 10/8+fd00::/8` (resolver unspecified = all by order, or pinned to one); "+
		"GetTCPClient for a domain target is compared with a reference walk over the resolvers in order using the TCP reference model: failed lookup -> next resolver; answer inside -> the route's client; "+
		"outside -> default client; all failed -> error classified by router.DialResultCodeFromError as domain name lookup error. "+
		"Non-trivial: at least one resolver failed before the outcome was decided; distinct key = walk + outcome").
	Require("name-length>=243", "failed-resolver-then-answering-resolver", "all-resolvers-failed", "first-resolver-answered", "route-pins-one-resolver")

func TestRouterResolverFallthrough(t *testing.T) {
	rapid.Check(t, func(rt *rapid.T) {
		p := genRouterPlan(rt)
		j := writeJournal("router", p)
		viol, labels, key := runRouterPlan(t, p)
		if j != "" {
			os.Remove(j)
		}
		if viol != "" {
			if sig := sigOf(viol); ev.IsKnown("C17", sig) {
				recRouter.KnownHit(sig)
				return
			}
			var d strings.Builder
			for k := range p.Resolvers {
				fmt.Fprintf(&d, "\n  r%d outside=%v upstream: %s", k, p.Resolvers[k].Outside, describeScript(&p.Resolvers[k].Script))
			}
			rt.Fatalf("%s\nplan: pinned=%d%s", viol, p.Pinned, d.String())
		}
		nt := strings.Contains(key, ":fail")
		recRouter.Case(key, nt, labels...)
		if nt {
			recRouter.Sample(map[string]any{"walk => outcome": key})
		}
	})
}

// TestReplayRouter re-runs a journaled router plan ($VERIF_REPLAY) outside rapid.
func TestReplayRouter(t *testing.T) {
	f := os.Getenv("VERIF_REPLAY")
	if f == "" || !strings.Contains(filepath.Base(f), "journal-router") {
		t.Skip("no router journal to replay")
	}
	b, err := os.ReadFile(f)
	if err != nil {
		t.Fatal(err)
	}
	var plan routerPlan
	if err := json.Unmarshal(b, &plan); err != nil {
		t.Fatal(err)
	}
	if viol, _, _ := runRouterPlan(t, &plan); viol != "" {
		t.Fatal(viol)
	}
}
