package c17

// (c) Arbitrary bytes as DNS-over-TCP responses: a native fuzz target over two raw connection
// streams and a seeded rapid variant that mutates well-formed responses byte-wise. The resolver
// must not crash or hang, a successful lookup must be backed by the bytes it consumed, and
// afterwards good lookups of another name and of the same name must be answered correctly
// (no poisoning).

import (
	"bytes"
	"encoding/binary"
	"encoding/json"
	"fmt"
	"net/netip"
	"os"
	"path/filepath"
	"slices"
	"strings"
	"testing"
	"time"

	"github.com/database64128/shadowsocks-go/dns"
	"github.com/database64128/shadowsocks-go/netio"
	"go.uber.org/zap"
	"pgregory.net/rapid"

	"verif/internal/ev"
)

// framesOf cuts a consumed DNS-over-TCP byte stream into the complete messages it contains.
func framesOf(b []byte) [][]byte {
	var out [][]byte
	for len(b) >= 2 {
		l := int(binary.BigEndian.Uint16(b))
		if l == 0 || 2+l > len(b) {
			break
		}
		out = append(out, b[2:2+l])
		b = b[2+l:]
	}
	return out
}

type rawOutcome struct {
	success  bool
	consumed int
	frames   int
}

// goodScript is a plain well-formed upstream for the follow-up lookups.
func goodScript(ag *addrGen, ttl uint32) lookupScript {
	return lookupScript{Conns: []connScript{{Items: []item{
		{Kind: kResp, Fam: 6, Msg: wmsg{QR: true, RA: true, RD: true, Answers: []rr{{Type: tAAAA, TTL: ttl, Addr: ag.v6(false)}, {Type: tAAAA, TTL: ttl, Addr: ag.v6(false)}}}},
		{Kind: kResp, Fam: 4, Msg: wmsg{QR: true, RA: true, RD: true, Answers: []rr{{Type: tA, TTL: ttl, Addr: ag.v4(false)}}}},
	}}}}
}

// checkArbitrary feeds the script (raw or mutated items) to a lookup and applies the oracle.
func checkArbitrary(script *lookupScript) (viol string, oc rawOutcome) {
	const fuzzName, otherName = "fuzz.verif.test", "good.verif.test"
	up := &tcpUpstream{}
	rc := dns.ResolverConfig{Name: "verif-raw", AddrPort: serverAP, TCPClientName: "up", CacheSize: 2}
	sr, err := rc.NewSimpleResolver(map[string]netio.StreamClient{"up": up}, nil, zap.NewNop())
	if err != nil {
		return "SIG=C17/harness-resolver-construction " + err.Error(), oc
	}
	r := sr.(*dns.Resolver)

	// lookup 1: arbitrary upstream bytes
	up.begin(fuzzName, script)
	ids := up.ids
	out1 := callAPI(r, 0, fuzzName)
	obs := up.end()
	if len(obs) == 0 {
		return "SIG=C17/no-upstream-query-without-cached-entry first lookup", oc
	}
	var frames [][]byte
	for _, o := range obs {
		oc.consumed += len(o.Bytes)
		frames = append(frames, framesOf(o.Bytes)...)
	}
	oc.frames = len(frames)
	oc.success = out1.err == nil
	if !oc.success && !out1.isSentinel() {
		return fmt.Sprintf("%s out{%s} frames=%d", sigNotSentinel, out1, len(frames)), oc
	}
	if oc.success {
		// necessary conditions for success
		for _, f := range []int{4, 6} {
			ok := false
			for _, fr := range frames {
				if len(fr) >= 12 && binary.BigEndian.Uint16(fr) == ids[f] && fr[2]&0x80 != 0 && fr[3]&0x80 != 0 && fr[3]&0x0F <= 5 {
					ok = true
				}
			}
			if !ok {
				return fmt.Sprintf("SIG=C17/success-without-acceptable-response family=%d out{%s} frames=%x", f, out1, frames), oc
			}
		}
		for _, a := range slices.Concat(out1.a, out1.aaaa) {
			raw := a.AsSlice()
			ok := false
			for _, fr := range frames {
				if len(fr) >= 12 {
					id := binary.BigEndian.Uint16(fr)
					if (id == ids[4] || id == ids[6]) && bytes.Contains(fr[12:], raw) {
						ok = true
					}
				}
			}
			if !ok {
				return fmt.Sprintf("SIG=C17/address-not-in-any-own-response addr=%v out{%s} frames=%x", a, out1, frames), oc
			}
		}
	}

	// lookup 2: another name, well-formed upstream
	ag := &addrGen{scope: 12}
	s2 := goodScript(ag, 3600)
	up.begin(otherName, &s2)
	t0 := time.Now()
	out2 := callAPI(r, 0, otherName)
	t1 := time.Now()
	obs2 := up.end()
	evl, v := evalTCP(otherName, &s2, obs2, t0, t1, map[int]*item{})
	if v != "" {
		return v + " (lookup of another name after arbitrary bytes)", oc
	}
	if !evl.done() || !out2.matches(buildEntry(evl.acc, t0, t1)) {
		return fmt.Sprintf("SIG=C17/poisoned-other-name out{%s} conns=%d", out2, len(obs2)), oc
	}

	// lookup 3: the same name again, well-formed upstream
	s3 := goodScript(ag, 3600)
	up.begin(fuzzName, &s3)
	t0 = time.Now()
	out3 := callAPI(r, 0, fuzzName)
	t1 = time.Now()
	obs3 := up.end()
	if len(obs3) == 0 {
		if !oc.success {
			return fmt.Sprintf("SIG=C17/no-upstream-query-without-cached-entry after failed lookup: out{%s}", out3), oc
		}
		if out3.err != nil || !slices.Equal(addrKey(out3.a), addrKey(out1.a)) || !slices.Equal(addrKey(out3.aaaa), addrKey(out1.aaaa)) {
			return fmt.Sprintf("SIG=C17/cache-hit-wrong-answer first{%s} again{%s}", out1, out3), oc
		}
		return "", oc
	}
	evl, v = evalTCP(fuzzName, &s3, obs3, t0, t1, map[int]*item{})
	if v != "" {
		return v + " (same name after arbitrary bytes)", oc
	}
	if !evl.done() || !out3.matches(buildEntry(evl.acc, t0, t1)) {
		return fmt.Sprintf("SIG=C17/poisoned-same-name first{%s} again{%s}", out1, out3), oc
	}
	return "", oc
}

// ---- native fuzz target

func seedMsg(id uint16, qtype uint16, rcode uint8, answers []rr, auth []rr) []byte {
	m := wmsg{ID: id, QR: true, RA: true, RD: true, RCode: rcode, QName: "fuzz.verif.test", QType: qtype, Answers: answers, Authority: auth, OPT: true}
	return frame(m.pack())
}

func FuzzTCPStream(f *testing.F) {
	a1 := netip.MustParseAddr("10.9.8.7")
	a6 := netip.MustParseAddr("fd00::9:8:7")
	v4 := seedMsg(4, tA, 0, []rr{{Type: tCNAME, TTL: 5, Target: "alias.test"}, {Type: tA, TTL: 60, Addr: a1}}, nil)
	v6 := seedMsg(6, tAAAA, 0, []rr{{Type: tAAAA, TTL: 60, Addr: a6}, {Type: tTXT, TTL: 1, Target: "x"}}, nil)
	nx4 := seedMsg(4, tA, 3, nil, []rr{{Type: tSOA, TTL: 30, Target: "ns.test", SOAMin: 10}})
	sf6 := seedMsg(6, tAAAA, 2, nil, nil)
	cross := seedMsg(4, tA, 0, []rr{{Type: tAAAA, TTL: 9, Addr: a6}, {Type: tA, TTL: 1 << 31, Addr: a1, Full: true}}, nil)
	wrong := seedMsg(7, tA, 0, []rr{{Type: tA, TTL: 60, Addr: a1}}, nil)
	f.Add(slices.Concat(v4, v6), []byte{})
	f.Add(slices.Concat(v6, v4), []byte{})
	f.Add(v4, v6)
	f.Add(slices.Concat(nx4, sf6), []byte{})
	f.Add(slices.Concat(cross, v6), v4)
	f.Add(slices.Concat(wrong, v4, v6), slices.Concat(v4, v6))
	f.Add(slices.Concat(v4, v4[:len(v4)-3]), v6)
	f.Add([]byte{0, 0}, slices.Concat(v4, v6))
	f.Add([]byte{0}, []byte{0xff, 0xff, 1, 2, 3})
	f.Add(slices.Concat(v4, []byte{0, 12, 0, 6, 0x81, 0x80, 0, 1, 0, 4, 0, 0, 0, 0}), v6)
	f.Add([]byte{}, []byte{})
	f.Fuzz(func(t *testing.T, conn1, conn2 []byte) {
		if len(conn1) > 1<<16 || len(conn2) > 1<<16 {
			t.Skip()
		}
		script := &lookupScript{Conns: []connScript{{Items: []item{{Kind: kRaw, Raw: conn1}}}, {Items: []item{{Kind: kRaw, Raw: conn2}}}}}
		viol, oc := checkArbitrary(script)
		if viol != "" {
			if sig := sigOf(viol); ev.IsKnown("C17", sig) {
				recFuzz.KnownHit(sig)
				return
			}
			t.Fatalf("%s\nconn1=%x\nconn2=%x", viol, conn1, conn2)
		}
		ls := []string{"lookup-failed"}
		if oc.success {
			ls = []string{"lookup-succeeded"}
		}
		recFuzz.Case(fmt.Sprintf("%x|%x", conn1, conn2), oc.success || oc.frames > 0, ls...)
	})
}

var recFuzz = ev.New("C17", "fuzz-tcp-stream",
	"native fuzz target (seed corpus in quick, coverage-guided in thorough): two arbitrary byte strings are the raw streams of the lookup's two TCP connections; "+
		"oracle: no crash/hang, success only with an acceptable-looking header for both IDs among the consumed frames, every returned address occurs in a consumed frame with an own ID, "+
		"then well-formed lookups of another name and of the same name are answered correctly. Non-trivial: at least one complete frame was consumed; distinct key = the input")

// ---- seeded rapid variant: byte-level mutations of well-formed responses

var recMut = ev.New("C17", "mutated-responses",
	"rapid: 1..2 connections of 2..4 items (the first usually answers both queries), each a well-formed response (all kinds of the history generator) left intact or hit by 1..3 byte-level mutations "+
		"(bit flip, byte set, truncate, insert, delete, header count overwrite) and optionally a wrong TCP length field; same oracle as the fuzz target. "+
		"Non-trivial: at least one mutated item was consumed and the follow-up lookups ran; distinct key = item classes + outcome").
	Require("lookup-succeeded", "lookup-failed", "mutated-consumed")

type mutPlan struct {
	Script lookupScript
}

func genMutPlan(rt *rapid.T) *mutPlan {
	p := &mutPlan{}
	ag := &addrGen{scope: 1}
	for ci := range rapid.IntRange(1, 2).Draw(rt, "conns") {
		var cs connScript
		fams := []int{4, 6}
		if rapid.Bool().Draw(rt, "sixFirst") {
			fams = []int{6, 4}
		}
		if ci > 0 || rapid.IntRange(0, 3).Draw(rt, "randomFams") == 0 {
			fams = nil
		}
		for range rapid.IntRange(0, 2).Draw(rt, "extraItems") + 2 - len(fams) {
			fams = append(fams, rapid.SampledFrom([]int{4, 6}).Draw(rt, "fam"))
		}
		for _, fam := range fams {
			it := genGood(rt, fam, ag)
			it.DelayMs = 0
			if rapid.IntRange(0, 9).Draw(rt, "mutate") < 4 {
				it.Kind = kMutated
				for range rapid.IntRange(1, 3).Draw(rt, "nMuts") {
					it.Muts = append(it.Muts, mut{Op: rapid.IntRange(0, 5).Draw(rt, "op"), Off: rapid.IntRange(0, 600).Draw(rt, "off"), Val: rapid.Byte().Draw(rt, "val")})
				}
				if rapid.IntRange(0, 7).Draw(rt, "lenAdj") == 0 {
					it.LenAdj = rapid.SampledFrom([]int{-2, -1, 1, 2, 40}).Draw(rt, "adj")
				}
			}
			cs.Items = append(cs.Items, it)
		}
		p.Script.Conns = append(p.Script.Conns, cs)
	}
	return p
}

func TestMutatedResponses(t *testing.T) {
	rapid.Check(t, func(rt *rapid.T) {
		p := genMutPlan(rt)
		j := writeJournal("mut", p)
		viol, oc := checkArbitrary(&p.Script)
		if j != "" {
			os.Remove(j)
		}
		if viol != "" {
			if sig := sigOf(viol); ev.IsKnown("C17", sig) {
				recMut.KnownHit(sig)
				return
			}
			rt.Fatalf("%s\nplan: %s", viol, describeScript(&p.Script))
		}
		var key strings.Builder
		mutated := false
		for ci := range p.Script.Conns {
			for i := range p.Script.Conns[ci].Items {
				it := &p.Script.Conns[ci].Items[i]
				fmt.Fprintf(&key, "%d%s%d", ci, it.Kind[:1], it.Fam)
				for _, m := range it.Muts {
					fmt.Fprintf(&key, "o%d@%d", m.Op, m.Off)
				}
				mutated = mutated || it.Kind == kMutated
			}
		}
		ls := []string{"lookup-failed"}
		if oc.success {
			ls = []string{"lookup-succeeded"}
			key.WriteString("=>ok")
		}
		nt := mutated && oc.consumed > 0
		if nt {
			ls = append(ls, "mutated-consumed")
		}
		recMut.Case(key.String(), nt, ls...)
		if nt {
			recMut.Sample(map[string]any{"script": describeScript(&p.Script), "success": oc.success, "framesConsumed": oc.frames})
		}
	})
}

// TestReplayArbitrary re-runs a journaled mutation plan ($VERIF_REPLAY) outside rapid.
func TestReplayArbitrary(t *testing.T) {
	p := os.Getenv("VERIF_REPLAY")
	if p == "" || !strings.Contains(filepath.Base(p), "journal-mut") {
		t.Skip("no mutation journal to replay")
	}
	b, err := os.ReadFile(p)
	if err != nil {
		t.Fatal(err)
	}
	var plan mutPlan
	if err := json.Unmarshal(b, &plan); err != nil {
		t.Fatal(err)
	}
	if viol, _ := checkArbitrary(&plan.Script); viol != "" {
		t.Fatal(viol)
	}
}
