package c17

// rapid generators for scripted upstream behaviour.

import (
	"fmt"
	"net/netip"
	"strings"

	"pgregory.net/rapid"
)

// nameLens are total name lengths (characters, dots included, no trailing dot): single-character
// and two-character names, one full 63-byte label and just beyond, two full labels, 200, and
// every length from 240 up to the longest legal name (253; 255 bytes on the wire). The resolver
// packs both queries into one buffer, so the longest names are where size arithmetic shows.
var nameLens = func() []int {
	l := []int{1, 2, 3, 63, 64, 65, 127, 128, 200}
	for n := 240; n <= 253; n++ {
		l = append(l, n, n) // weight the top range
	}
	return l
}()

// makeName builds a legal name of exactly total characters. style 0: labels as long as possible
// (63), style 1: single-character labels, style 2: label lengths mixed by a PRNG. The first
// character is tag, which keeps the names of one case distinct.
func makeName(total, style int, seed uint64, tag byte) string {
	prng := splitmix64(seed)
	const alnum = "abcdefghijklmnopqrstuvwxyz0123456789"
	var b strings.Builder
	rem := total
	for rem > 0 {
		l := min(63, rem)
		switch style {
		case 1:
			l = 1
		case 2:
			l = min(rem, []int{1, 2, 7, 31, 62, 63}[prng.next()%6])
		}
		if rem-l == 1 { // a dot needs a label after it
			if l > 1 {
				l--
			} else {
				l++
			}
		}
		for range l {
			b.WriteByte(alnum[prng.next()%uint64(len(alnum))])
		}
		rem -= l
		if rem > 0 {
			b.WriteByte('.')
			rem--
		}
	}
	n := []byte(b.String())
	n[0] = tag
	return string(n)
}

// genName draws a name: an everyday short one, or one of a boundary length and label structure.
func genName(rt *rapid.T, idx int) string {
	tag := byte('a' + idx)
	if rapid.IntRange(0, 9).Draw(rt, "nameClass") < 4 {
		return fmt.Sprintf("%c%d.verif.test", tag, idx)
	}
	return makeName(rapid.SampledFrom(nameLens).Draw(rt, "nameLen"), rapid.IntRange(0, 2).Draw(rt, "nameStyle"), rapid.Uint64().Draw(rt, "nameSeed"), tag)
}

// nameLabels classifies a name for the evidence.
func nameLabels(name string) []string {
	var out []string
	switch l := len(name); {
	case l >= 243:
		out = append(out, "name-length>=243")
		if l == 253 {
			out = append(out, "name-length-253")
		}
	case l >= 200:
		out = append(out, "name-length-200..242")
	case l <= 2:
		out = append(out, "name-length<=2")
	}
	for _, lab := range strings.Split(name, ".") {
		if len(lab) == 63 {
			out = append(out, "label-63-bytes")
			break
		}
	}
	if strings.Count(name, ".") >= 100 {
		out = append(out, "name-100+labels")
	}
	return out
}

var ttlAlphabet = []uint32{0, 0, 1, 1, 2, 5, 5, 10, 29, 30, 31, 59, 60, 61, 300, 3600, 86400, 1<<31 - 1}

func genTTL(rt *rapid.T) uint32 {
	switch k := rapid.IntRange(0, 39).Draw(rt, "ttlClass"); {
	case k < 34:
		return rapid.SampledFrom(ttlAlphabet).Draw(rt, "ttl")
	case k < 38:
		return rapid.Uint32Range(0, 1<<31-1).Draw(rt, "ttlAny")
	case k == 38:
		return 1 << 31
	default:
		return rapid.SampledFrom([]uint32{1<<31 + 1, 1<<32 - 1}).Draw(rt, "ttlMSB")
	}
}

// addrGen hands out addresses that are unique within a case, so that every address in an answer
// identifies the one scripted message it came from. Poison addresses (66.0.0.0/8, bad0::/16)
// are put into messages that must never be used.
type addrGen struct {
	scope byte // 0..15
	n     uint32
}

func (g *addrGen) v4(poison bool) netip.Addr {
	g.n++ // up to 2^20 addresses per scope (large responses carry thousands)
	first := byte(10)
	if poison {
		first = 66
	}
	return netip.AddrFrom4([4]byte{first, g.scope<<4 | byte(g.n>>16)&0xF, byte(g.n >> 8), byte(g.n)})
}

func (g *addrGen) v6(poison bool) netip.Addr {
	g.n++
	b := [16]byte{0: 0xfd, 1: 0x00, 12: g.scope, 13: byte(g.n >> 16), 14: byte(g.n >> 8), 15: byte(g.n)}
	if poison {
		b[0], b[1] = 0xba, 0xd0
	}
	return netip.AddrFrom16(b)
}

func isPoison(a netip.Addr) bool {
	if a.Is4() {
		return a.As4()[0] == 66
	}
	b := a.As16()
	return b[0] == 0xba && b[1] == 0xd0
}

const (
	rkValid = iota
	rkNoDataSOA
	rkNoData
	rkNXSOA
	rkNX
	rkFail
	rkCNAMEOnlySOA
	rkTruncated
)

var respKindNames = []string{"valid", "nodata+soa", "nodata", "nxdomain+soa", "nxdomain", "failure-rcode", "cname-only+soa", "tc-over-tcp"}

// genMsg draws the body of a well-formed response to the query of family fam.
func genMsg(rt *rapid.T, fam int, ag *addrGen, poison bool, rk int) wmsg {
	m := wmsg{QR: true, RA: true, RD: true}
	m.AA = rapid.IntRange(0, 3).Draw(rt, "aa") == 0
	m.OPT = rapid.IntRange(0, 2).Draw(rt, "opt") == 0
	full := rapid.IntRange(0, 3).Draw(rt, "fullNames") == 0
	sameTTL := rapid.Bool().Draw(rt, "sameTTL")
	base := genTTL(rt)
	ttl := func() uint32 {
		if sameTTL {
			return base
		}
		return genTTL(rt)
	}
	addr := func(t uint16) rr {
		r := rr{Type: t, TTL: ttl(), Full: full}
		if t == tA {
			r.Addr = ag.v4(poison)
		} else {
			r.Addr = ag.v6(poison)
		}
		return r
	}
	own, cross := uint16(tA), uint16(tAAAA)
	if fam == 6 {
		own, cross = tAAAA, tA
	}
	soa := func() {
		n := rapid.IntRange(1, 2).Draw(rt, "nSOA")
		if rapid.IntRange(0, 4).Draw(rt, "nsFirst") == 0 {
			m.Authority = append(m.Authority, rr{Type: tNS, TTL: ttl(), Target: "ns.test", Full: full})
		}
		for range n {
			m.Authority = append(m.Authority, rr{Type: tSOA, TTL: ttl(), Target: "ns.test", SOAMin: genTTL(rt), Full: full})
		}
	}
	switch rk {
	case rkValid, rkTruncated:
		m.TC = rk == rkTruncated
		for range rapid.SampledFrom([]int{0, 0, 0, 0, 1, 1, 2}).Draw(rt, "nCNAME") {
			m.Answers = append(m.Answers, rr{Type: tCNAME, TTL: ttl(), Target: "alias.test", Full: full})
		}
		n := rapid.SampledFrom([]int{1, 1, 1, 2, 2, 3, 4}).Draw(rt, "nAddr")
		for range n {
			m.Answers = append(m.Answers, addr(own))
		}
		switch rapid.IntRange(0, 19).Draw(rt, "extraRR") {
		case 0: // duplicate of the last address
			d := m.Answers[len(m.Answers)-1]
			m.Answers = append(m.Answers, d)
		case 1, 2: // unrelated RR type mixed in
			pos := rapid.IntRange(0, len(m.Answers)).Draw(rt, "otherPos")
			o := rr{Type: rapid.SampledFrom([]uint16{tTXT, tMX}).Draw(rt, "otherType"), TTL: ttl(), Target: "x.test", Full: full}
			m.Answers = append(m.Answers[:pos], append([]rr{o}, m.Answers[pos:]...)...)
		case 3: // record of the other address family inside this response
			m.Answers = append(m.Answers, addr(cross))
		}
	case rkNoDataSOA:
		soa()
	case rkNoData:
	case rkNXSOA:
		m.RCode = 3
		soa()
	case rkNX:
		m.RCode = 3
	case rkFail:
		m.RCode = rapid.SampledFrom([]uint8{1, 2, 2, 4, 5, 5}).Draw(rt, "failRCode")
	case rkCNAMEOnlySOA:
		m.Answers = append(m.Answers, rr{Type: tCNAME, TTL: ttl(), Target: "alias.test", Full: full})
		soa()
	}
	return m
}

// bigTargets are message sizes (bytes, without the TCP length prefix) around the classic limits:
// 512 (plain UDP), 1232 (the EDNS size the resolver advertises) and 1234 (that plus the TCP
// length prefix), 4096 and 16384 (common buffer sizes), 65535 (largest DNS-over-TCP message).
var bigTargets = []int{512, 1232, 1234, 4096, 16384, 65535}

func bigClass(size int) string {
	switch {
	case size >= 65000:
		return "tcp-response>=65000B"
	case size > 16384:
		return "tcp-response>16384B"
	case size > 4096:
		return "tcp-response>4096B"
	case size > 1234:
		return "tcp-response>1234B"
	case size > 512:
		return "tcp-response>512B"
	}
	return "tcp-response<=512B"
}

// genBigMsg draws a well-formed answer with as many address records as fit into a target size
// (43+ AAAA or 75+ A records are beyond 1232 bytes) and pads it to exactly that size.
func genBigMsg(rt *rapid.T, fam int, ag *addrGen, poison bool) wmsg {
	opt := rapid.Bool().Draw(rt, "opt")
	target := rapid.SampledFrom(bigTargets).Draw(rt, "bigTarget") + rapid.SampledFrom([]int{-1, 0, 0, 1, 2, 3, 40}).Draw(rt, "bigDelta")
	m := genBigFixed(fam, min(target, 65535), opt, ag)
	ttl := genTTL(rt)
	m.PadTTL = ttl
	for i := range m.Answers {
		m.Answers[i].TTL = ttl
		if poison {
			if fam == 6 {
				m.Answers[i].Addr = ag.v6(true)
			} else {
				m.Answers[i].Addr = ag.v4(true)
			}
		}
	}
	return m
}

// genBigFixed builds the large answer for a given exact size.
func genBigFixed(fam, target int, opt bool, ag *addrGen) wmsg {
	const poison = false
	var ttl uint32 = 3600
	m := wmsg{QR: true, RA: true, RD: true, OPT: opt}
	m.PadTo, m.PadTTL = target, ttl
	rrSize := 16
	if fam == 6 {
		rrSize = 28
	}
	// header 12 + question (longest legal name: 255 bytes + 4) + OPT 11 + at least 13 for the padding
	// record: the message never exceeds the target (nor 65535) whatever name is looked up; the
	// padding records fill the rest (exactly, unless fewer than 13 bytes remain)
	n := max(1, (target-12-259-11-13-rrSize)/rrSize)
	m.Answers = make([]rr, 0, n)
	for range n {
		r := rr{Type: tA, TTL: ttl}
		if fam == 6 {
			r.Type = tAAAA
			r.Addr = ag.v6(poison)
		} else {
			r.Addr = ag.v4(poison)
		}
		m.Answers = append(m.Answers, r)
	}
	return m
}

func genRespKind(rt *rapid.T) int {
	return rapid.SampledFrom([]int{rkValid, rkValid, rkValid, rkValid, rkValid, rkValid, rkValid, rkValid, rkValid, rkValid, rkValid,
		rkNoDataSOA, rkNoDataSOA, rkNoData, rkNXSOA, rkNXSOA, rkNX, rkFail, rkFail, rkCNAMEOnlySOA, rkTruncated, rkTruncated}).Draw(rt, "respKind")
}

func genDelay(rt *rapid.T) int64 {
	if rapid.IntRange(0, 11).Draw(rt, "delayed") != 0 {
		return 0
	}
	return rapid.SampledFrom([]int64{1, 1000, 5000, 19999, 20000, 20001, 25000}).Draw(rt, "delayMs")
}

func genGood(rt *rapid.T, fam int, ag *addrGen) item {
	if rapid.IntRange(0, 15).Draw(rt, "big") == 11 {
		m := genBigMsg(rt, fam, ag, false)
		rk := rkValid
		if rapid.IntRange(0, 5).Draw(rt, "bigTC") == 0 {
			m.TC, rk = true, rkTruncated // a 64 KiB answer that is itself truncated is used as it is
		}
		return item{Kind: kResp, Fam: fam, Msg: m, RK: rk, DelayMs: genDelay(rt)}
	}
	rk := genRespKind(rt)
	return item{Kind: kResp, Fam: fam, Msg: genMsg(rt, fam, ag, false, rk), RK: rk, DelayMs: genDelay(rt)}
}

var badKinds = []string{kWrongID, kWrongID, kNotResp, kNoRA, kBadRCode, kZeroLen, kShort, kGarbage, kCut, kExtraCount, kPtrLoop, kMidClose, kSilence}

// genBad draws an unusable item. Its template is a well-formed address-bearing response with
// poison addresses, damaged in exactly one way.
func genBad(rt *rapid.T, fam int, ag *addrGen, kinds []string) item {
	k := rapid.SampledFrom(kinds).Draw(rt, "badKind")
	it := item{Kind: k, Fam: fam, DelayMs: genDelay(rt)}
	it.Msg = genMsg(rt, fam, ag, true, rkValid)
	it.Seed = rapid.Uint64().Draw(rt, "seed")
	it.N = rapid.IntRange(0, 4096).Draw(rt, "n")
	switch k {
	case kWrongID:
		it.WrongID = rapid.SampledFrom([]uint16{0, 1, 5, 7, 0x0400, 0x0600, 0x0404, 65535, 3, 46}).Draw(rt, "wrongID")
	case kNotResp:
		it.Msg.QR = false
	case kNoRA:
		it.Msg.RA = false
	case kBadRCode:
		it.Msg.RCode = uint8(rapid.IntRange(6, 15).Draw(rt, "badRCode"))
	case kCut:
		it.Msg.OPT, it.Msg.Authority = false, nil
		it.Msg.CutTail = rapid.IntRange(1, 10).Draw(rt, "cut")
	case kExtraCount:
		it.Msg.OPT, it.Msg.Authority = false, nil
		it.Msg.ExtraCount = rapid.IntRange(1, 3).Draw(rt, "extraCount")
	case kPtrLoop:
		it.Msg.PtrLoop = true
	}
	return it
}

// genConnMixed draws a connection on which anything can happen.
func genConnMixed(rt *rapid.T, ag *addrGen) connScript {
	var cs connScript
	n := rapid.IntRange(0, 5).Draw(rt, "nItems")
	for range n {
		fam := rapid.SampledFrom([]int{4, 6}).Draw(rt, "fam")
		if rapid.IntRange(0, 9).Draw(rt, "good") < 6 {
			cs.Items = append(cs.Items, genGood(rt, fam, ag))
		} else {
			it := genBad(rt, fam, ag, badKinds)
			cs.Items = append(cs.Items, it)
			if it.Kind == kSilence {
				break
			}
		}
	}
	return cs
}

func genConnGood(rt *rapid.T, ag *addrGen) connScript {
	a, b := genGood(rt, 4, ag), genGood(rt, 6, ag)
	if rapid.Bool().Draw(rt, "sixFirst") {
		a, b = b, a
	}
	return connScript{Items: []item{a, b}}
}

// genLookupScript draws what the upstream does if the lookup reaches it.
func genLookupScript(rt *rapid.T, ag *addrGen) (lookupScript, string) {
	switch p := rapid.IntRange(0, 99).Draw(rt, "pattern"); {
	case p < 50:
		return lookupScript{Conns: []connScript{genConnGood(rt, ag)}}, "good"
	case p < 62: // one answer per connection: clean EOF, retry of the unanswered query
		f := rapid.SampledFrom([]int{4, 6}).Draw(rt, "firstFam")
		return lookupScript{Conns: []connScript{{Items: []item{genGood(rt, f, ag)}}, {Items: []item{genGood(rt, 10-f, ag)}}}}, "split"
	case p < 70:
		f := rapid.SampledFrom([]int{4, 6}).Draw(rt, "firstFam")
		return lookupScript{Conns: []connScript{{Items: []item{genGood(rt, f, ag)}}, genConnMixed(rt, ag)}}, "half+mixed"
	case p < 74:
		return lookupScript{Conns: []connScript{{}, genConnGood(rt, ag)}}, "empty+good"
	case p < 78: // a good connection with one unusable item spliced in
		cs := genConnGood(rt, ag)
		pos := rapid.IntRange(0, 2).Draw(rt, "badPos")
		bad := genBad(rt, rapid.SampledFrom([]int{4, 6}).Draw(rt, "fam"), ag, badKinds)
		cs.Items = append(cs.Items[:pos], append([]item{bad}, cs.Items[pos:]...)...)
		return lookupScript{Conns: []connScript{cs, genConnGood(rt, ag)}}, "good+1bad"
	case p < 95:
		return lookupScript{Conns: []connScript{genConnMixed(rt, ag), genConnMixed(rt, ag)}}, "mixed"
	case p < 97:
		return lookupScript{Conns: []connScript{{DialErr: true}, genConnGood(rt, ag)}}, "dialerr"
	default:
		f := rapid.SampledFrom([]int{4, 6}).Draw(rt, "firstFam")
		return lookupScript{Conns: []connScript{{Items: []item{genGood(rt, f, ag)}}, {DialErr: true}}}, "half+dialerr"
	}
}
