package udpsvc

import (
	"encoding/binary"
	"errors"
	"hash/crc32"
)

// Tagged payloads. Every datagram the harness originates carries who sent it, which target it is
// meant for, and a filler derived from (scenario, session, seq, len) so that "unmodified" can be
// decided at the receiving end without sharing state.
//
//	magic "uP11" | kind | scenario u32 | session u16 | seq u32 | target u16 | responder u16 | fill u16 | filler | crc32
const (
	payloadMagic   = "uP11"
	PayloadHdrLen  = 4 + 1 + 4 + 2 + 4 + 2 + 2 + 2
	PayloadMinLen  = PayloadHdrLen + 4
	KindRequest    = 0
	KindReply      = 1
	KindReplyExtra = 2 // an additional reply the destination sends before the genuine echo (oversize, or from a non-target source); never counts as the echo
	NoResponder    = 0xFFFF
	payloadCRCSize = 4
)

// Tag is the decoded header of a tagged payload.
type Tag struct {
	Kind      byte
	Scenario  uint32
	Session   uint16
	Seq       uint32
	Target    uint16 // index of the destination the sender addressed
	Responder uint16 // index of the socket that produced a reply (NoResponder in requests)
	Fill      uint16
}

func fillByte(t Tag, i int) byte {
	x := uint64(t.Scenario)*0x9E3779B97F4A7C15 ^ uint64(t.Session)<<40 ^ uint64(t.Seq)<<8 ^ uint64(i)*0xD6E8FEB86659FD93
	x ^= x >> 29
	x *= 0xBF58476D1CE4E5B9
	x ^= x >> 32
	return byte(x)
}

// EncodePayload appends the payload for tag t to dst.
func EncodePayload(dst []byte, t Tag) []byte {
	start := len(dst)
	dst = append(dst, payloadMagic...)
	dst = append(dst, t.Kind)
	dst = binary.BigEndian.AppendUint32(dst, t.Scenario)
	dst = binary.BigEndian.AppendUint16(dst, t.Session)
	dst = binary.BigEndian.AppendUint32(dst, t.Seq)
	dst = binary.BigEndian.AppendUint16(dst, t.Target)
	dst = binary.BigEndian.AppendUint16(dst, t.Responder)
	dst = binary.BigEndian.AppendUint16(dst, t.Fill)
	for i := 0; i < int(t.Fill); i++ {
		dst = append(dst, fillByte(t, i))
	}
	dst = binary.BigEndian.AppendUint32(dst, crc32.ChecksumIEEE(dst[start:]))
	return dst
}

var (
	ErrNotTagged = errors.New("payload is not a harness payload")
	ErrCorrupt   = errors.New("payload was modified")
)

// DecodePayload checks a received payload byte for byte.
func DecodePayload(b []byte) (Tag, error) {
	var t Tag
	if len(b) < PayloadMinLen || string(b[:4]) != payloadMagic {
		return t, ErrNotTagged
	}
	t.Kind = b[4]
	t.Scenario = binary.BigEndian.Uint32(b[5:])
	t.Session = binary.BigEndian.Uint16(b[9:])
	t.Seq = binary.BigEndian.Uint32(b[11:])
	t.Target = binary.BigEndian.Uint16(b[15:])
	t.Responder = binary.BigEndian.Uint16(b[17:])
	t.Fill = binary.BigEndian.Uint16(b[19:])
	if len(b) != PayloadMinLen+int(t.Fill) {
		return t, ErrCorrupt
	}
	for i := 0; i < int(t.Fill); i++ {
		if b[PayloadHdrLen+i] != fillByte(t, i) {
			return t, ErrCorrupt
		}
	}
	if binary.BigEndian.Uint32(b[len(b)-4:]) != crc32.ChecksumIEEE(b[:len(b)-4]) {
		return t, ErrCorrupt
	}
	return t, nil
}

// ReplyTo turns a request tag into the reply a responder sends back.
func ReplyTo(t Tag, responder uint16) Tag {
	t.Kind = KindReply
	t.Responder = responder
	return t
}
