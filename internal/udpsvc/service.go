package udpsvc

import (
	"bytes"
	"context"
	"encoding/json"
	"errors"
	"fmt"
	"io"
	"net"
	"net/http"
	"net/netip"
	"os"
	"path/filepath"
	"strings"
	"sync"
	"time"

	"github.com/database64128/shadowsocks-go/service"
	"go.uber.org/zap"
)

// Spec is what a generated case says about the service; ToJSON turns it into the configuration
// document the real program would load.
type Spec struct {
	ServerProto string     `json:"serverProto"` // socks5 | none | direct | 2022-blake3-aes-{128,256}-gcm
	ServerKeys  SS2022Keys `json:"-"`
	BatchMode   string     `json:"batchMode"` // "no" | "sendmmsg"
	NATTimeout  string     `json:"natTimeout"`
	// perf knobs (0 = default)
	RelayBatchSize      int `json:"relayBatchSize,omitempty"`
	ServerRecvBatchSize int `json:"serverRecvBatchSize,omitempty"`
	SendChannelCapacity int `json:"sendChannelCapacity,omitempty"`
	// direct (tunnel) server
	TunnelTarget     string `json:"tunnelTarget,omitempty"`
	TunnelTargetOnly bool   `json:"tunnelTargetOnly,omitempty"`
	ServerPadding    string `json:"serverPadding,omitempty"`

	ClientProto    string     `json:"clientProto"` // direct | socks5 | none | 2022-...
	ClientKeys     SS2022Keys `json:"-"`
	ClientEndpoint string     `json:"clientEndpoint,omitempty"` // host:port of the upstream (IP or name)
	ClientPadding  string     `json:"clientPadding,omitempty"`
	ClientNetwork  string     `json:"clientNetwork,omitempty"` // "", "ip", "ip4", "ip6": address family of resolved names
	ClientMTU      int        `json:"clientMTU,omitempty"`     // MTU of the outbound client (default 1500)
	// ClientUser/ClientPass: socks5 client with username/password authentication
	ClientUser string `json:"clientUser,omitempty"`
	ClientPass string `json:"clientPass,omitempty"`

	// ListenWildcard: "" (listen on 127.0.0.1), "0.0.0.0" or "[::]": the UDP listener is bound to the wildcard
	// address, so clients can reach the relay at several local addresses (ServerAddr and RelayAddrs).
	ListenWildcard string `json:"listenWildcard,omitempty"`

	// API enables the management API on a loopback TCP port (Stats reads it).
	API bool `json:"api,omitempty"`

	// Chain: the upstream is a second server of the same process (protocol = ClientProto) that
	// goes out directly; ClientEndpoint is then filled by Start.
	Chain bool `json:"chain,omitempty"`

	RejectDomains []string `json:"rejectDomains,omitempty"`
	RejectPorts   []uint16 `json:"rejectPorts,omitempty"`

	// filled by Start
	ServerAddr netip.AddrPort `json:"-"`
	HopAddr    netip.AddrPort `json:"-"`
	APIAddr    netip.AddrPort `json:"-"`
	// RelayAddrs: the client-facing addresses of the relay (first = ServerAddr); more than one with ListenWildcard.
	RelayAddrs []netip.AddrPort `json:"-"`
}

func isSS2022(p string) bool { return strings.HasPrefix(p, "2022-") }

// IsSS2022 reports whether a protocol name is a Shadowsocks 2022 method.
func IsSS2022(p string) bool { return isSS2022(p) }

type jmap = map[string]any

// ToJSON renders the configuration document. dir receives the uPSK store files.
func (sp *Spec) ToJSON(dir string) ([]byte, error) {
	listen := sp.ServerAddr.String()
	if sp.ListenWildcard != "" {
		listen = fmt.Sprintf("%s:%d", sp.ListenWildcard, sp.ServerAddr.Port())
	}
	lis := jmap{"network": "udp", "address": listen, "batchMode": sp.BatchMode}
	if sp.NATTimeout != "" {
		lis["natTimeout"] = sp.NATTimeout
	}
	if sp.RelayBatchSize != 0 {
		lis["relayBatchSize"] = sp.RelayBatchSize
	}
	if sp.ServerRecvBatchSize != 0 {
		lis["serverRecvBatchSize"] = sp.ServerRecvBatchSize
	}
	if sp.SendChannelCapacity != 0 {
		lis["sendChannelCapacity"] = sp.SendChannelCapacity
	}
	srv := jmap{"name": "srv", "protocol": sp.ServerProto, "udpListeners": []any{lis}, "mtu": 1500}
	addSS := func(m jmap, k SS2022Keys, name string) error {
		m["psk"] = k.PSK
		if k.EIH() {
			p := filepath.Join(dir, name+"-upsks.json")
			doc, _ := json.Marshal(map[string][]byte{k.User: k.UPSK})
			if err := os.WriteFile(p, doc, 0o600); err != nil {
				return err
			}
			m["uPSKStorePath"] = p
		}
		return nil
	}
	switch {
	case sp.ServerProto == "direct":
		srv["tunnelRemoteAddress"] = sp.TunnelTarget
		if sp.TunnelTargetOnly {
			srv["tunnelUDPTargetOnly"] = true
		}
	case isSS2022(sp.ServerProto):
		if err := addSS(srv, sp.ServerKeys, "srv"); err != nil {
			return nil, err
		}
		if sp.ServerPadding != "" {
			srv["paddingPolicy"] = sp.ServerPadding
		}
	}
	servers := []any{srv}

	cmtu := 1500
	if sp.ClientMTU != 0 {
		cmtu = sp.ClientMTU
	}
	var clients []any
	router := jmap{}
	var routes []any
	if len(sp.RejectDomains) > 0 {
		routes = append(routes, jmap{"name": "rej-names", "network": "udp", "client": "reject", "toDomains": sp.RejectDomains})
	}
	if len(sp.RejectPorts) > 0 {
		routes = append(routes, jmap{"name": "rej-ports", "network": "udp", "client": "reject", "toPorts": sp.RejectPorts})
	}
	if sp.ClientProto == "direct" {
		c := jmap{"name": "out", "protocol": "direct", "enableUDP": true, "mtu": cmtu}
		if sp.ClientNetwork != "" {
			c["network"] = sp.ClientNetwork
		}
		clients = append(clients, c)
	} else {
		c := jmap{"name": "out", "protocol": sp.ClientProto, "endpoint": sp.ClientEndpoint, "enableUDP": true, "mtu": cmtu}
		if sp.ClientProto == "socks5" && sp.ClientUser != "" {
			c["socks5"] = jmap{"username": sp.ClientUser, "password": sp.ClientPass, "enableUserPassAuth": true}
		}
		if sp.ClientNetwork != "" {
			c["network"] = sp.ClientNetwork
		}
		if isSS2022(sp.ClientProto) {
			k := sp.ClientKeys
			if k.EIH() {
				c["psk"] = k.UPSK
				c["iPSKs"] = [][]byte{k.PSK}
			} else {
				c["psk"] = k.PSK
			}
			if sp.ClientPadding != "" {
				c["paddingPolicy"] = sp.ClientPadding
			}
		}
		clients = append(clients, c)
		if sp.Chain {
			hl := jmap{"network": "udp", "address": sp.HopAddr.String(), "batchMode": sp.BatchMode}
			if isSS2022(sp.ClientProto) {
				hl["natTimeout"] = "60s"
			} else if sp.NATTimeout != "" {
				hl["natTimeout"] = sp.NATTimeout
			}
			hop := jmap{"name": "hop", "protocol": sp.ClientProto, "udpListeners": []any{hl}, "mtu": 1500}
			if sp.ClientProto == "socks5" {
				hop["tcpListeners"] = []any{jmap{"network": "tcp", "address": sp.HopAddr.String()}}
			}
			if isSS2022(sp.ClientProto) {
				if err := addSS(hop, sp.ClientKeys, "hop"); err != nil {
					return nil, err
				}
			}
			servers = append(servers, hop)
			clients = append(clients, jmap{"name": "direct", "protocol": "direct", "enableUDP": true, "mtu": 1500})
			routes = append(routes, jmap{"name": "hop-out", "fromServers": []string{"hop"}, "network": "udp", "client": "direct"})
			router["defaultUDPClientName"] = "out"
			router["defaultTCPClientName"] = "reject"
		}
	}
	if len(routes) > 0 {
		router["routes"] = routes
	}
	doc := jmap{"servers": servers, "clients": clients}
	if len(router) > 0 {
		doc["router"] = router
	}
	if sp.API {
		doc["api"] = jmap{"enabled": true, "listeners": []any{jmap{"network": "tcp", "address": sp.APIAddr.String()}}}
	}
	return json.MarshalIndent(doc, "", " ")
}

// Service is one running instance of the real service.
type Service struct {
	Spec   *Spec
	JSON   []byte
	mgr    *service.Manager
	cancel context.CancelFunc
	done   chan struct{}
	ok     bool
	once   sync.Once
	stopAt time.Time
	doneAt time.Time
}

var logger = func() *zap.Logger {
	if os.Getenv("VERIF_UDPSVC_LOG") != "" {
		l, err := zap.NewDevelopment()
		if err == nil {
			return l
		}
	}
	return zap.NewNop()
}()

// Start allocates ports, renders the JSON, decodes it like the program does (unknown fields are
// errors), builds the manager and runs it. It returns once the UDP listeners are bound.
func Start(sp *Spec, dir string) (*Service, error) {
	InstallResolver()
	for attempt := 0; ; attempt++ {
		s, err := startOnce(sp, dir)
		if err == nil {
			return s, nil
		}
		if attempt >= 3 || !errors.Is(err, errNotBound) {
			return nil, err
		}
	}
}

var errNotBound = errors.New("listener did not come up")

func startOnce(sp *Spec, dir string) (*Service, error) {
	p, err := FreePort(netip.MustParseAddr("127.0.0.1"), false)
	if err != nil {
		return nil, err
	}
	sp.ServerAddr = netip.AddrPortFrom(netip.MustParseAddr("127.0.0.1"), p)
	sp.RelayAddrs = []netip.AddrPort{sp.ServerAddr}
	if sp.ListenWildcard != "" {
		sp.RelayAddrs = append(sp.RelayAddrs, netip.AddrPortFrom(netip.MustParseAddr("127.0.0.2"), p), netip.AddrPortFrom(netip.MustParseAddr("127.0.0.3"), p))
	}
	if sp.Chain {
		hp, err := FreePort(netip.MustParseAddr("127.0.0.1"), sp.ClientProto == "socks5")
		if err != nil {
			return nil, err
		}
		sp.HopAddr = netip.AddrPortFrom(netip.MustParseAddr("127.0.0.1"), hp)
		sp.ClientEndpoint = sp.HopAddr.String()
	}
	if sp.API {
		ap, err := FreeTCPPort(netip.MustParseAddr("127.0.0.1"))
		if err != nil {
			return nil, err
		}
		sp.APIAddr = netip.AddrPortFrom(netip.MustParseAddr("127.0.0.1"), ap)
	}
	doc, err := sp.ToJSON(dir)
	if err != nil {
		return nil, err
	}
	var cfg service.Config
	dec := json.NewDecoder(bytes.NewReader(doc))
	dec.DisallowUnknownFields()
	if err := dec.Decode(&cfg); err != nil {
		return nil, fmt.Errorf("config rejected by decoder: %w\n%s", err, doc)
	}
	mgr, err := cfg.Manager(logger)
	if err != nil {
		return nil, fmt.Errorf("config rejected by Manager: %w\n%s", err, doc)
	}
	ctx, cancel := context.WithCancel(context.Background())
	s := &Service{Spec: sp, JSON: doc, mgr: mgr, cancel: cancel, done: make(chan struct{})}
	go func() {
		s.ok = mgr.Run(ctx)
		s.doneAt = time.Now()
		mgr.Close()
		close(s.done)
	}()
	ports := []uint16{sp.ServerAddr.Port()}
	if sp.Chain {
		ports = append(ports, sp.HopAddr.Port())
	}
	deadline := time.Now().Add(10 * time.Second)
	for {
		all := true
		for _, p := range ports {
			if !UDPPortBound(p) {
				all = false
			}
		}
		if all {
			return s, nil
		}
		select {
		case <-s.done:
			return nil, fmt.Errorf("%w: Run returned early (ok=%v)", errNotBound, s.ok)
		default:
		}
		if time.Now().After(deadline) {
			s.cancel()
			<-s.done
			return nil, errNotBound
		}
		time.Sleep(2 * time.Millisecond)
	}
}

// StopAsync cancels the run context (what the program does on SIGTERM) and returns a channel that
// is closed when Manager.Run has returned.
func (s *Service) StopAsync() <-chan struct{} {
	s.once.Do(func() {
		s.stopAt = time.Now()
		s.cancel()
	})
	return s.done
}

// Stop waits up to max for Run to return and reports how long it took.
func (s *Service) Stop(max time.Duration) (time.Duration, bool) {
	ch := s.StopAsync()
	select {
	case <-ch:
		return time.Since(s.stopAt), true
	case <-time.After(max):
		return time.Since(s.stopAt), false
	}
}

// StopDuration returns how long Manager.Run took to return after the cancel (valid once done).
func (s *Service) StopDuration() time.Duration { return s.doneAt.Sub(s.stopAt) }

// StoppedFor returns the time since StopAsync was first called.
func (s *Service) StoppedFor() time.Duration { return time.Since(s.stopAt) }

// RunOK reports Manager.Run's result (valid after done).
func (s *Service) RunOK() bool { return s.ok }

// FreeTCPPort picks a TCP port by bind-and-close.
func FreeTCPPort(ip netip.Addr) (uint16, error) {
	l, err := net.ListenTCP("tcp", net.TCPAddrFromAddrPort(netip.AddrPortFrom(ip, 0)))
	if err != nil {
		return 0, err
	}
	defer l.Close()
	return l.Addr().(*net.TCPAddr).AddrPort().Port(), nil
}

// Traffic mirrors the JSON of GET /api/ssm/v1/servers/{server}/stats.
type Traffic struct {
	DownlinkPackets uint64 `json:"downlinkPackets"`
	DownlinkBytes   uint64 `json:"downlinkBytes"`
	UplinkPackets   uint64 `json:"uplinkPackets"`
	UplinkBytes     uint64 `json:"uplinkBytes"`
	TCPSessions     uint64 `json:"tcpSessions"`
	UDPSessions     uint64 `json:"udpSessions"`
}

// UserTraffic is one entry of the "users" array.
type UserTraffic struct {
	Name string `json:"username"`
	Traffic
}

// ServerStats is the document returned for one server.
type ServerStats struct {
	Traffic
	Users []UserTraffic `json:"users"`
}

// Stats asks the running service's management API for a server's statistics.
func (s *Service) Stats(server string) (ServerStats, error) {
	var st ServerStats
	tr := &http.Transport{DisableKeepAlives: true}
	defer tr.CloseIdleConnections()
	cl := &http.Client{Transport: tr, Timeout: 5 * time.Second}
	var lastErr error
	for range 20 {
		resp, err := cl.Get("http://" + s.Spec.APIAddr.String() + "/api/ssm/v1/servers/" + server + "/stats")
		if err != nil {
			lastErr = err
			time.Sleep(20 * time.Millisecond)
			continue
		}
		b, err := io.ReadAll(resp.Body)
		resp.Body.Close()
		if err != nil {
			return st, err
		}
		if resp.StatusCode != 200 {
			return st, fmt.Errorf("GET stats: %s: %s", resp.Status, b)
		}
		return st, json.Unmarshal(b, &st)
	}
	return st, lastErr
}

// FreePort picks a port by bind-and-close on ip; with tcpToo the port is free for TCP as well.
func FreePort(ip netip.Addr, tcpToo bool) (uint16, error) {
	for range 50 {
		c, err := net.ListenUDP("udp", net.UDPAddrFromAddrPort(netip.AddrPortFrom(ip, 0)))
		if err != nil {
			return 0, err
		}
		port := c.LocalAddr().(*net.UDPAddr).AddrPort().Port()
		if tcpToo {
			l, err := net.ListenTCP("tcp", net.TCPAddrFromAddrPort(netip.AddrPortFrom(ip, port)))
			if err != nil {
				c.Close()
				continue
			}
			l.Close()
		}
		c.Close()
		return port, nil
	}
	return 0, errors.New("no free port")
}

// UDPPortBound reports whether some UDP socket of this network namespace is bound to port.
func UDPPortBound(port uint16) bool {
	needle := fmt.Sprintf(":%04X ", port)
	for _, f := range []string{"/proc/net/udp", "/proc/net/udp6"} {
		b, err := os.ReadFile(f)
		if err != nil {
			continue
		}
		for _, line := range strings.Split(string(b), "\n")[1:] {
			fs := strings.Fields(line)
			if len(fs) > 1 && strings.HasSuffix(fs[1]+" ", needle) {
				return true
			}
		}
	}
	return false
}
