package udpsvc

import (
	"context"
	"encoding/binary"
	"errors"
	"fmt"
	"net/netip"
	"sync"

	"github.com/database64128/shadowsocks-go/conn"
	"github.com/database64128/shadowsocks-go/ss2022"
	"github.com/database64128/shadowsocks-go/zerocopy"
)

// ---- SOCKS5 address, written from RFC 1928 §5 (independent of the repo's socks5 package) ----

func appendSocksAddr(dst []byte, a conn.Addr) []byte {
	if a.IsIP() {
		ip := a.IP().Unmap()
		if ip.Is4() {
			b := ip.As4()
			dst = append(dst, 1)
			dst = append(dst, b[:]...)
		} else {
			b := ip.As16()
			dst = append(dst, 4)
			dst = append(dst, b[:]...)
		}
	} else {
		d := a.Domain()
		dst = append(dst, 3, byte(len(d)))
		dst = append(dst, d...)
	}
	return binary.BigEndian.AppendUint16(dst, a.Port())
}

var errBadSocksAddr = errors.New("bad socks address")

// parseSocksAddr returns the address and its encoded length.
func parseSocksAddr(b []byte) (conn.Addr, int, error) {
	if len(b) < 1 {
		return conn.Addr{}, 0, errBadSocksAddr
	}
	switch b[0] {
	case 1:
		if len(b) < 7 {
			return conn.Addr{}, 0, errBadSocksAddr
		}
		ip := netip.AddrFrom4([4]byte(b[1:5]))
		return conn.AddrFromIPAndPort(ip, binary.BigEndian.Uint16(b[5:])), 7, nil
	case 4:
		if len(b) < 19 {
			return conn.Addr{}, 0, errBadSocksAddr
		}
		ip := netip.AddrFrom16([16]byte(b[1:17]))
		return conn.AddrFromIPAndPort(ip, binary.BigEndian.Uint16(b[17:])), 19, nil
	case 3:
		if len(b) < 2 || len(b) < 2+int(b[1])+2 {
			return conn.Addr{}, 0, errBadSocksAddr
		}
		l := int(b[1])
		a, err := conn.AddrFromDomainPort(string(b[2:2+l]), binary.BigEndian.Uint16(b[2+l:]))
		return a, 2 + l + 2, err
	}
	return conn.Addr{}, 0, errBadSocksAddr
}

// ClientCodec is the harness speaking the client side of one server protocol. One value per
// client session.
type ClientCodec interface {
	Pack(target conn.Addr, payload []byte) ([]byte, error)
	// Unpack decodes a datagram that arrived from the relay. src is the payload source the protocol
	// attaches (zero AddrPort when the protocol carries none).
	Unpack(pkt []byte, from netip.AddrPort) (src netip.AddrPort, payload []byte, err error)
	CarriesSource() bool
}

type socks5ClientCodec struct{}

func (socks5ClientCodec) CarriesSource() bool { return true }
func (socks5ClientCodec) Pack(target conn.Addr, payload []byte) ([]byte, error) {
	b := make([]byte, 0, 3+1+1+255+2+len(payload))
	b = append(b, 0, 0, 0)
	b = appendSocksAddr(b, target)
	return append(b, payload...), nil
}
func (socks5ClientCodec) Unpack(pkt []byte, _ netip.AddrPort) (netip.AddrPort, []byte, error) {
	if len(pkt) < 3 || pkt[0] != 0 || pkt[1] != 0 || pkt[2] != 0 {
		return netip.AddrPort{}, nil, fmt.Errorf("bad socks5 udp header % x", pkt[:min(len(pkt), 3)])
	}
	a, n, err := parseSocksAddr(pkt[3:])
	if err != nil {
		return netip.AddrPort{}, nil, err
	}
	if !a.IsIP() {
		return netip.AddrPort{}, nil, errors.New("reply carries a domain source")
	}
	return a.IPPort(), pkt[3+n:], nil
}

type noneClientCodec struct{}

func (noneClientCodec) CarriesSource() bool { return true }
func (noneClientCodec) Pack(target conn.Addr, payload []byte) ([]byte, error) {
	b := make([]byte, 0, 1+1+255+2+len(payload))
	b = appendSocksAddr(b, target)
	return append(b, payload...), nil
}
func (noneClientCodec) Unpack(pkt []byte, _ netip.AddrPort) (netip.AddrPort, []byte, error) {
	a, n, err := parseSocksAddr(pkt)
	if err != nil {
		return netip.AddrPort{}, nil, err
	}
	if !a.IsIP() {
		return netip.AddrPort{}, nil, errors.New("reply carries a domain source")
	}
	return a.IPPort(), pkt[n:], nil
}

type directClientCodec struct{}

func (directClientCodec) CarriesSource() bool { return false }
func (directClientCodec) Pack(_ conn.Addr, payload []byte) ([]byte, error) {
	return append([]byte(nil), payload...), nil
}
func (directClientCodec) Unpack(pkt []byte, _ netip.AddrPort) (netip.AddrPort, []byte, error) {
	return netip.AddrPort{}, pkt, nil
}

// SS2022Keys describes the key material of one ss2022 hop.
type SS2022Keys struct {
	Method string // "2022-blake3-aes-128-gcm" | "2022-blake3-aes-256-gcm"
	PSK    []byte // server PSK (single user) or iPSK (EIH)
	UPSK   []byte // user PSK when EIH is used, else nil
	User   string
}

func (k SS2022Keys) EIH() bool { return k.UPSK != nil }

// ss2022ClientCodec drives the repo's own ss2022 UDP client session (the peer implementation of
// the server under test).
type ss2022ClientCodec struct {
	mu      sync.Mutex
	session zerocopy.UDPClientSession
	front   int
	rear    int
}

// NewSS2022ClientCodec creates a client session towards server.
func NewSS2022ClientCodec(keys SS2022Keys, server netip.AddrPort, padAll bool) (ClientCodec, error) {
	var (
		cc  *ss2022.ClientCipherConfig
		err error
	)
	if keys.EIH() {
		cc, err = ss2022.NewClientCipherConfig(keys.UPSK, [][]byte{keys.PSK}, true)
	} else {
		cc, err = ss2022.NewClientCipherConfig(keys.PSK, nil, true)
	}
	if err != nil {
		return nil, err
	}
	pad := ss2022.PaddingPolicy(ss2022.NoPadding)
	if padAll {
		pad = ss2022.PadAll
	}
	c := ss2022.NewUDPClient("harness", "ip", conn.AddrFromIPPort(server), 1500, conn.ListenConfig{}, 0, cc, pad)
	_, sess, err := c.NewSession(context.Background())
	if err != nil {
		return nil, err
	}
	h := sess.Packer.ClientPackerInfo().Headroom
	return &ss2022ClientCodec{session: sess, front: h.Front, rear: h.Rear}, nil
}

func (c *ss2022ClientCodec) CarriesSource() bool { return true }

func (c *ss2022ClientCodec) Pack(target conn.Addr, payload []byte) ([]byte, error) {
	c.mu.Lock()
	defer c.mu.Unlock()
	b := make([]byte, c.front+len(payload)+c.rear)
	copy(b[c.front:], payload)
	_, ps, pl, err := c.session.Packer.PackInPlace(context.Background(), b, target, c.front, len(payload))
	if err != nil {
		return nil, err
	}
	return b[ps : ps+pl], nil
}

func (c *ss2022ClientCodec) Unpack(pkt []byte, from netip.AddrPort) (netip.AddrPort, []byte, error) {
	c.mu.Lock()
	defer c.mu.Unlock()
	b := append([]byte(nil), pkt...)
	src, ps, pl, err := c.session.Unpacker.UnpackInPlace(b, from, 0, len(b))
	if err != nil {
		return netip.AddrPort{}, nil, err
	}
	return src, b[ps : ps+pl], nil
}

// NewClientCodec returns the harness-side speaker of a server protocol.
func NewClientCodec(proto string, keys SS2022Keys, server netip.AddrPort, padAll bool) (ClientCodec, error) {
	switch proto {
	case "socks5":
		return socks5ClientCodec{}, nil
	case "none":
		return noneClientCodec{}, nil
	case "direct":
		return directClientCodec{}, nil
	case "2022-blake3-aes-128-gcm", "2022-blake3-aes-256-gcm":
		return NewSS2022ClientCodec(keys, server, padAll)
	}
	return nil, fmt.Errorf("unknown server protocol %q", proto)
}

// ---- harness as the upstream proxy (server side of the relay's client protocol) ----

// ServerCodec is the harness speaking the server side of a client protocol: it decodes what the
// relay's client packer produced ("T inside") and encodes replies.
type ServerCodec interface {
	// Unpack returns the relay-side session key (source address, or client session id), the target
	// carried inside and the payload.
	Unpack(pkt []byte, from netip.AddrPort) (key string, target conn.Addr, payload []byte, err error)
	Pack(key string, src netip.AddrPort, payload []byte) ([]byte, error)
}

type socks5ServerCodec struct{}

func (socks5ServerCodec) Unpack(pkt []byte, from netip.AddrPort) (string, conn.Addr, []byte, error) {
	if len(pkt) < 3 || pkt[0] != 0 || pkt[1] != 0 || pkt[2] != 0 {
		return "", conn.Addr{}, nil, fmt.Errorf("bad socks5 udp header")
	}
	a, n, err := parseSocksAddr(pkt[3:])
	if err != nil {
		return "", conn.Addr{}, nil, err
	}
	return from.String(), a, pkt[3+n:], nil
}
func (socks5ServerCodec) Pack(_ string, src netip.AddrPort, payload []byte) ([]byte, error) {
	b := []byte{0, 0, 0}
	b = appendSocksAddr(b, conn.AddrFromIPPort(src))
	return append(b, payload...), nil
}

type noneServerCodec struct{}

func (noneServerCodec) Unpack(pkt []byte, from netip.AddrPort) (string, conn.Addr, []byte, error) {
	a, n, err := parseSocksAddr(pkt)
	if err != nil {
		return "", conn.Addr{}, nil, err
	}
	return from.String(), a, pkt[n:], nil
}
func (noneServerCodec) Pack(_ string, src netip.AddrPort, payload []byte) ([]byte, error) {
	b := appendSocksAddr(nil, conn.AddrFromIPPort(src))
	return append(b, payload...), nil
}

type ss2022ServerSession struct {
	unpacker zerocopy.ServerUnpacker
	packer   zerocopy.ServerPacker
}

type ss2022ServerCodec struct {
	mu       sync.Mutex
	srv      *ss2022.UDPServer
	front    int
	sessions map[uint64]*ss2022ServerSession
}

// NewSS2022ServerCodec builds the repo's ss2022 UDP server as the peer of the relay's ss2022 client.
func NewSS2022ServerCodec(keys SS2022Keys) (ServerCodec, error) {
	var (
		ucc ss2022.UserCipherConfig
		icc ss2022.ServerIdentityCipherConfig
		err error
	)
	if keys.EIH() {
		icc, err = ss2022.NewServerIdentityCipherConfig(keys.PSK, true)
	} else {
		ucc, err = ss2022.NewUserCipherConfig(keys.PSK, true)
	}
	if err != nil {
		return nil, err
	}
	srv := ss2022.NewUDPServer(0, ucc, icc, ss2022.NoPadding)
	if keys.EIH() {
		su, err := ss2022.NewServerUserCipherConfig(keys.User, keys.UPSK, true)
		if err != nil {
			return nil, err
		}
		srv.ReplaceUserLookupMap(ss2022.UserLookupMap{ss2022.PSKHash(keys.UPSK): su})
	}
	return &ss2022ServerCodec{srv: srv, front: srv.Info().UnpackerHeadroom.Front, sessions: map[uint64]*ss2022ServerSession{}}, nil
}

func (c *ss2022ServerCodec) Unpack(pkt []byte, from netip.AddrPort) (string, conn.Addr, []byte, error) {
	c.mu.Lock()
	defer c.mu.Unlock()
	b := append([]byte(nil), pkt...)
	csid, err := c.srv.SessionInfo(b)
	if err != nil {
		return "", conn.Addr{}, nil, err
	}
	s := c.sessions[csid]
	fresh := s == nil
	if fresh {
		s = &ss2022ServerSession{}
		s.unpacker, _, err = c.srv.NewUnpacker(b, csid)
		if err != nil {
			return "", conn.Addr{}, nil, err
		}
	}
	target, ps, pl, err := s.unpacker.UnpackInPlace(b, from, 0, len(b))
	if err != nil {
		return "", conn.Addr{}, nil, err
	}
	if fresh {
		s.packer, err = s.unpacker.NewPacker()
		if err != nil {
			return "", conn.Addr{}, nil, err
		}
		c.sessions[csid] = s
	}
	// the domain string may alias the unpacker's cache; copy it
	if !target.IsIP() {
		target = conn.MustAddrFromDomainPort(string(append([]byte(nil), target.Domain()...)), target.Port())
	}
	return fmt.Sprintf("csid:%016x", csid), target, b[ps : ps+pl], nil
}

func (c *ss2022ServerCodec) Pack(key string, src netip.AddrPort, payload []byte) ([]byte, error) {
	var csid uint64
	if _, err := fmt.Sscanf(key, "csid:%016x", &csid); err != nil {
		return nil, err
	}
	c.mu.Lock()
	defer c.mu.Unlock()
	s := c.sessions[csid]
	if s == nil {
		return nil, errors.New("unknown client session")
	}
	h := ss2022.ShadowPacketServerMessageHeadroom
	b := make([]byte, h.Front+len(payload)+h.Rear)
	copy(b[h.Front:], payload)
	ps, pl, err := s.packer.PackInPlace(b, src, h.Front, len(payload), 1472)
	if err != nil {
		return nil, err
	}
	return b[ps : ps+pl], nil
}

// NewServerCodec returns the harness-side upstream speaker of a client protocol.
func NewServerCodec(proto string, keys SS2022Keys) (ServerCodec, error) {
	switch proto {
	case "socks5":
		return socks5ServerCodec{}, nil
	case "none":
		return noneServerCodec{}, nil
	case "2022-blake3-aes-128-gcm", "2022-blake3-aes-256-gcm":
		return NewSS2022ServerCodec(keys)
	}
	return nil, fmt.Errorf("no upstream codec for client protocol %q", proto)
}
