// Package udpsvc holds the helpers shared by the C11 and C12 checks: an owned name resolver, a
// builder that turns a generated specification into service.Config JSON and runs the real service
// on loopback, harness-side speakers of every UDP protocol, tagged payloads, harness-owned target
// sockets and upstream proxy peers, and goroutine / file-descriptor accounting.
package udpsvc

import (
	"context"
	"encoding/binary"
	"io"
	"net"
	"net/netip"
	"strings"
	"sync"
	"sync/atomic"
	"time"
)

// NameRule scripts how the owned resolver answers one name.
type NameRule struct {
	IP    netip.Addr      // A record (IPv4) or AAAA record (IPv6); invalid => NXDOMAIN
	Delay time.Duration   // answer delay (every query type)
	Gate  <-chan struct{} // if non-nil the answer is held until the channel is closed
	Fail  bool            // answer SERVFAIL
}

type nameEntry struct {
	rule    NameRule
	queries atomic.Int64
}

var (
	installOnce sync.Once
	names       sync.Map // lower-case name without trailing dot -> *nameEntry
	dnsConns    atomic.Int64
)

// InstallResolver replaces net.DefaultResolver by a pure-Go resolver whose transport is an
// in-memory DNS-over-TCP conversation with the scripted responder of this package. Every lookup of
// the code under test that goes through net.DefaultResolver (conn.Addr.ResolveIP, the direct UDP
// packer, the "system" resolver) is therefore answered from the table filled with SetName.
func InstallResolver() {
	installOnce.Do(func() {
		net.DefaultResolver = &net.Resolver{
			PreferGo: true,
			Dial: func(ctx context.Context, network, address string) (net.Conn, error) {
				c1, c2 := net.Pipe()
				dnsConns.Add(1)
				go serveDNS(c2)
				return c1, nil
			},
		}
	})
}

// SetName installs or replaces the rule of a name.
func SetName(name string, r NameRule) {
	names.Store(strings.ToLower(strings.TrimSuffix(name, ".")), &nameEntry{rule: r})
}

// DelName removes a name.
func DelName(name string) { names.Delete(strings.ToLower(strings.TrimSuffix(name, "."))) }

// NameQueries returns how many questions were received for the name.
func NameQueries(name string) int64 {
	if v, ok := names.Load(strings.ToLower(strings.TrimSuffix(name, "."))); ok {
		return v.(*nameEntry).queries.Load()
	}
	return 0
}

func serveDNS(c net.Conn) {
	defer c.Close()
	var lb [2]byte
	for {
		if _, err := io.ReadFull(c, lb[:]); err != nil {
			return
		}
		n := int(binary.BigEndian.Uint16(lb[:]))
		q := make([]byte, n)
		if _, err := io.ReadFull(c, q); err != nil {
			return
		}
		resp := answerDNS(q)
		if resp == nil {
			return
		}
		out := make([]byte, 2+len(resp))
		binary.BigEndian.PutUint16(out, uint16(len(resp)))
		copy(out[2:], resp)
		c.SetWriteDeadline(time.Now().Add(5 * time.Second))
		if _, err := c.Write(out); err != nil {
			return
		}
	}
}

// answerDNS builds the response to one query message (one question, as the Go resolver sends).
func answerDNS(q []byte) []byte {
	if len(q) < 12 {
		return nil
	}
	// parse the question name
	off := 12
	var labels []string
	for {
		if off >= len(q) {
			return nil
		}
		l := int(q[off])
		off++
		if l == 0 {
			break
		}
		if l&0xC0 != 0 || off+l > len(q) {
			return nil
		}
		labels = append(labels, string(q[off:off+l]))
		off += l
	}
	if off+4 > len(q) {
		return nil
	}
	qtype := binary.BigEndian.Uint16(q[off:])
	qend := off + 4
	name := strings.ToLower(strings.Join(labels, "."))

	var (
		rcode byte
		rdata []byte
	)
	v, ok := names.Load(name)
	if !ok {
		rcode = 3 // NXDOMAIN
	} else {
		e := v.(*nameEntry)
		e.queries.Add(1)
		r := e.rule
		if r.Gate != nil {
			select {
			case <-r.Gate:
			case <-time.After(30 * time.Second):
			}
		}
		if r.Delay > 0 {
			time.Sleep(r.Delay)
		}
		switch {
		case r.Fail:
			rcode = 2
		case !r.IP.IsValid():
			rcode = 3
		case qtype == 1 && r.IP.Is4():
			a := r.IP.As4()
			rdata = a[:]
		case qtype == 28 && r.IP.Is6() && !r.IP.Is4In6():
			a := r.IP.As16()
			rdata = a[:]
		}
	}

	resp := make([]byte, 0, qend+16+len(rdata))
	resp = append(resp, q[0], q[1]) // ID
	resp = append(resp, 0x80|(q[2]&0x01), 0x80|rcode)
	resp = append(resp, 0, 1) // QDCOUNT
	if rdata != nil {
		resp = append(resp, 0, 1)
	} else {
		resp = append(resp, 0, 0)
	}
	resp = append(resp, 0, 0, 0, 0) // NSCOUNT, ARCOUNT
	resp = append(resp, q[12:qend]...)
	if rdata != nil {
		resp = append(resp, 0xC0, 0x0C)
		resp = binary.BigEndian.AppendUint16(resp, qtype)
		resp = append(resp, 0, 1)        // IN
		resp = append(resp, 0, 0, 0, 60) // TTL (the Go resolver does not cache)
		resp = binary.BigEndian.AppendUint16(resp, uint16(len(rdata)))
		resp = append(resp, rdata...)
	}
	return resp
}
