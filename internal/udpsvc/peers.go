package udpsvc

import (
	"errors"
	"fmt"
	"io"
	"net"
	"net/netip"
	"sync"
	"sync/atomic"
	"time"

	"github.com/database64128/shadowsocks-go/conn"
)

// Dest is something a client can address: a socket of the world by IP, or a name that the owned
// resolver maps to one of the sockets.
type Dest struct {
	Index   int
	Sock    int    // index of the target socket (IP) this dest lives on
	Name    string // non-empty: addressed by name
	AltPort bool   // addressed with the port of the target's second ("alt") socket: same IP / same name, other port
	Port0   bool   // the target's IP with port 0: the kernel refuses to send such a datagram (EINVAL)
}

// Arrival is one datagram seen at a harness-owned endpoint (target socket or upstream proxy).
type Arrival struct {
	Sock   int            // receiving target socket; -1 at the upstream proxy
	From   netip.AddrPort // relay-side socket the datagram came from
	Key    string         // upstream: relay-side session key
	Inside conn.Addr      // upstream: the target carried inside
	Tag    Tag
	Err    error // payload decode error
	Len    int
}

// World is the set of harness-owned endpoints of one scenario.
type World struct {
	Scenario uint32
	Port     uint16
	IPs      []netip.Addr
	Dests    []Dest

	socks []*net.UDPConn // target sockets, then one "alt" socket per target (replies from a non-target source)
	up    *Upstream

	mu       sync.Mutex
	arrivals []Arrival
	last     map[uint16]Arrival // last arrival per session
	replyOff atomic.Bool
	altEvery atomic.Int32 // every n-th reply is sent from the alt socket (0 = never)
	dropMode atomic.Int32 // see SetDropFirst
	nreply   atomic.Int64
	wg       sync.WaitGroup
	closed   atomic.Bool
}

// Upstream is the harness playing the upstream proxy of the relay's client protocol.
type Upstream struct {
	Proto string
	Addr  netip.AddrPort
	codec ServerCodec
	udp   *net.UDPConn
	tcp   *net.TCPListener
	live  atomic.Int64 // open SOCKS5 associations
	total atomic.Int64
	conns sync.Map
	hs    atomic.Pointer[chan struct{}] // when set: the UDP ASSOCIATE reply is held until the channel is closed
	held  atomic.Int64                  // handshakes currently held

	script   atomic.Pointer[AssocScript]
	authUser string
	authPass string
	accepted atomic.Int64
	open     atomic.Int64
	authOK   atomic.Int64
}

// HoldHandshakes makes the SOCKS5 upstream accept TCP connections and read the requests but hold
// its UDP ASSOCIATE replies until gate is closed (session initialisation in the relay keeps running).
// nil removes the hold for later handshakes.
func (u *Upstream) HoldHandshakes(gate chan struct{}) {
	if gate == nil {
		u.hs.Store(nil)
		return
	}
	u.hs.Store(&gate)
}

// Held returns how many handshakes are being held right now.
func (u *Upstream) Held() int64 { return u.held.Load() }

// NewWorld binds nsock target sockets on consecutive loopback IPs starting at base (and, with v6,
// one more on ::1), all with the same port, plus one alternative reply socket per target (same IP,
// different port).
func NewWorld(scenario uint32, base netip.Addr, nsock int, v6 bool) (*World, error) {
	for range 40 {
		w, err := newWorldOnce(scenario, base, nsock, v6)
		if err == nil {
			return w, nil
		}
		if !errors.Is(err, errPortTaken) {
			return nil, err
		}
	}
	return nil, errors.New("could not find a port free on all target addresses")
}

var errPortTaken = errors.New("port taken")

func newWorldOnce(scenario uint32, base netip.Addr, nsock int, v6 bool) (*World, error) {
	w := &World{Scenario: scenario, last: map[uint16]Arrival{}}
	ip := base
	for i := 0; i < nsock; i++ {
		w.IPs = append(w.IPs, ip)
		ip = ip.Next()
	}
	if v6 {
		w.IPs = append(w.IPs, netip.IPv6Loopback())
	}
	c0, err := net.ListenUDP("udp", net.UDPAddrFromAddrPort(netip.AddrPortFrom(w.IPs[0], 0)))
	if err != nil {
		return nil, err
	}
	w.Port = c0.LocalAddr().(*net.UDPAddr).AddrPort().Port()
	w.socks = append(w.socks, c0)
	for _, ip := range w.IPs[1:] {
		c, err := net.ListenUDP("udp", net.UDPAddrFromAddrPort(netip.AddrPortFrom(ip, w.Port)))
		if err != nil {
			w.closeSocks()
			return nil, errPortTaken
		}
		w.socks = append(w.socks, c)
	}
	for _, ip := range w.IPs {
		c, err := net.ListenUDP("udp", net.UDPAddrFromAddrPort(netip.AddrPortFrom(ip, 0)))
		if err != nil {
			w.closeSocks()
			return nil, err
		}
		w.socks = append(w.socks, c)
	}
	for i := range w.socks {
		c := w.socks[i]
		c.SetReadBuffer(4 << 20)
		w.wg.Go(func() { w.serveSock(i, c) })
	}
	return w, nil
}

func (w *World) closeSocks() {
	for _, c := range w.socks {
		c.Close()
	}
}

// NSock is the number of target sockets (alt sockets have indexes NSock..2*NSock-1).
func (w *World) NSock() int { return len(w.IPs) }

// SockAddr returns the address of socket i (target or alt).
func (w *World) SockAddr(i int) netip.AddrPort {
	return w.socks[i].LocalAddr().(*net.UDPAddr).AddrPort()
}

// AddDest registers a destination and returns its index. name == "" addresses the socket by IP.
func (w *World) AddDest(sock int, name string) int {
	d := Dest{Index: len(w.Dests), Sock: sock, Name: name}
	w.Dests = append(w.Dests, d)
	return d.Index
}

// AddDestAltPort registers a destination that names the same IP (or the same name) as a target but
// with the port of that target's alt socket.
func (w *World) AddDestAltPort(sock int, name string) int {
	d := Dest{Index: len(w.Dests), Sock: sock, Name: name, AltPort: true}
	w.Dests = append(w.Dests, d)
	return d.Index
}

// AddDestPort0 registers the unsendable destination ip:0 on a target's IP.
func (w *World) AddDestPort0(sock int) int {
	d := Dest{Index: len(w.Dests), Sock: sock, Port0: true}
	w.Dests = append(w.Dests, d)
	return d.Index
}

// DestSock is the index of the socket that must receive datagrams addressed to dest i.
func (w *World) DestSock(i int) int {
	d := w.Dests[i]
	if d.AltPort {
		return w.NSock() + d.Sock
	}
	return d.Sock
}

// DestAddr is the address a client puts into its datagrams for dest i.
func (w *World) DestAddr(i int) conn.Addr {
	d := w.Dests[i]
	port := w.Port
	if d.AltPort {
		port = w.SockAddr(w.NSock() + d.Sock).Port()
	}
	if d.Port0 {
		port = 0
	}
	if d.Name != "" {
		return conn.MustAddrFromDomainPort(d.Name, port)
	}
	return conn.AddrFromIPPort(netip.AddrPortFrom(w.IPs[d.Sock], port))
}

// SetReplies switches echoing on or off; SetAltEvery makes every n-th echo come from the alt socket.
func (w *World) SetReplies(on bool) { w.replyOff.Store(!on) }
func (w *World) SetAltEvery(n int)  { w.altEvery.Store(int32(n)) }

// Drop-first modes: before every genuine echo the destination first sends a reply that the relay has
// to drop, back to back, so that both tend to sit in one recvmmsg batch of the session's downlink.
const (
	DropNone    = 0
	DropBig1470 = 1 // 1470-byte payload: fits the relay's receive buffer but not the client-side packet once a header is added
	DropBig1480 = 2 // 1480-byte payload: larger than the relay's receive buffer (truncated on receipt)
	DropAltSrc  = 3 // ordinary reply from the alt socket (a non-target source; dropped by a tunnel with tunnelUDPTargetOnly)
)

// SetDropFirst selects the drop-first mode.
func (w *World) SetDropFirst(mode int) { w.dropMode.Store(int32(mode)) }

// extraReply builds the payload of the reply that precedes the genuine echo.
func extraReply(tag Tag, resp uint16, total int) []byte {
	t := ReplyTo(tag, resp)
	t.Kind = KindReplyExtra
	if total > PayloadMinLen {
		t.Fill = uint16(total - PayloadMinLen)
	}
	return EncodePayload(nil, t)
}

func (w *World) record(a Arrival) {
	w.mu.Lock()
	w.arrivals = append(w.arrivals, a)
	if a.Err == nil {
		w.last[a.Tag.Session] = a
	}
	w.mu.Unlock()
}

// Arrivals returns a copy of everything seen so far.
func (w *World) Arrivals() []Arrival {
	w.mu.Lock()
	defer w.mu.Unlock()
	return append([]Arrival(nil), w.arrivals...)
}

// Last returns the latest well-formed arrival of a session.
func (w *World) Last(session uint16) (Arrival, bool) {
	w.mu.Lock()
	defer w.mu.Unlock()
	a, ok := w.last[session]
	return a, ok
}

func (w *World) serveSock(i int, c *net.UDPConn) {
	buf := make([]byte, 65536)
	for {
		n, from, err := c.ReadFromUDPAddrPort(buf)
		if err != nil {
			return
		}
		from = netip.AddrPortFrom(from.Addr().Unmap(), from.Port())
		// alt sockets are destinations of their own (same IP, other port) for dests with AltPort
		tag, derr := DecodePayload(buf[:n])
		w.record(Arrival{Sock: i, From: from, Tag: tag, Err: derr, Len: n})
		if derr != nil || tag.Kind != KindRequest || w.replyOff.Load() {
			continue
		}
		out := c
		resp := uint16(i)
		if i < w.NSock() {
			if k := w.altEvery.Load(); k > 0 && w.nreply.Add(1)%int64(k) == 0 {
				out = w.socks[w.NSock()+i]
				resp = uint16(w.NSock() + i)
			}
			switch w.dropMode.Load() {
			case DropBig1470:
				c.WriteToUDPAddrPort(extraReply(tag, uint16(i), 1470), from)
			case DropBig1480:
				c.WriteToUDPAddrPort(extraReply(tag, uint16(i), 1480), from)
			case DropAltSrc:
				w.socks[w.NSock()+i].WriteToUDPAddrPort(extraReply(tag, uint16(w.NSock()+i), 0), from)
			}
		}
		out.WriteToUDPAddrPort(EncodePayload(nil, ReplyTo(tag, resp)), from)
	}
}

// Flood sends n extra replies for the session's latest datagram, as fast as the socket takes them
// (pause > 0 spaces them). It returns the number of datagrams written.
func (w *World) Flood(session uint16, n int, pause time.Duration, stop <-chan struct{}) int {
	a, ok := w.Last(session)
	if !ok {
		return 0
	}
	sent := 0
	for i := 0; i < n; i++ {
		select {
		case <-stop:
			return sent
		default:
		}
		var err error
		if a.Sock >= 0 {
			_, err = w.socks[a.Sock].WriteToUDPAddrPort(EncodePayload(nil, ReplyTo(a.Tag, uint16(a.Sock))), a.From)
		} else {
			err = w.up.reply(w, a)
		}
		if err == nil {
			sent++
		}
		if pause > 0 {
			time.Sleep(pause)
		}
	}
	return sent
}

// ---- upstream proxy ----

// StartUpstream makes the world answer as the upstream proxy of client protocol proto.
func (w *World) StartUpstream(proto string, keys SS2022Keys) (*Upstream, error) {
	codec, err := NewServerCodec(proto, keys)
	if err != nil {
		return nil, err
	}
	lo := netip.MustParseAddr("127.0.0.1")
	for range 40 {
		u := &Upstream{Proto: proto, codec: codec}
		u.udp, err = net.ListenUDP("udp", net.UDPAddrFromAddrPort(netip.AddrPortFrom(lo, 0)))
		if err != nil {
			return nil, err
		}
		u.Addr = u.udp.LocalAddr().(*net.UDPAddr).AddrPort()
		if proto == "socks5" {
			u.tcp, err = net.ListenTCP("tcp", net.TCPAddrFromAddrPort(u.Addr))
			if err != nil {
				u.udp.Close()
				continue
			}
			w.wg.Go(func() { u.acceptLoop(w) })
		}
		u.udp.SetReadBuffer(4 << 20)
		w.up = u
		w.wg.Go(func() { u.serve(w) })
		return u, nil
	}
	return nil, errors.New("no port free for both TCP and UDP")
}

// Associations returns (currently open, ever opened) SOCKS5 UDP associations.
func (u *Upstream) Associations() (live, total int64) { return u.live.Load(), u.total.Load() }

// AssocScript tells the SOCKS5 upstream how to treat the next UDP ASSOCIATE requests (failures that
// happen after the control connection is up).
type AssocScript struct {
	// Mode: "" (succeed, bound address = the upstream's UDP socket) | "bound-domain" (succeed with the
	// domain name BoundName as bound address) | "reply-failure" (REP=1 general failure) |
	// "close-after-reply" (succeed, then the upstream closes the control connection at once)
	Mode      string
	BoundName string
}

// SetAssocScript installs the script (nil = normal behaviour).
func (u *Upstream) SetAssocScript(sc *AssocScript) { u.script.Store(sc) }

// RequireAuth makes the upstream insist on RFC 1929 username/password authentication with these credentials.
func (u *Upstream) RequireAuth(user, pass string) { u.authUser, u.authPass = user, pass }

// ControlConns reports the SOCKS5 control connections: accepted so far, and how many of those the
// harness has not yet seen closed by the peer (EOF / reset) - the relay's side still holds them open.
func (u *Upstream) ControlConns() (accepted, stillOpen int64) {
	return u.accepted.Load(), u.open.Load()
}

// AuthOK reports how many control connections passed username/password authentication.
func (u *Upstream) AuthOK() int64 { return u.authOK.Load() }

func (u *Upstream) acceptLoop(w *World) {
	for {
		c, err := u.tcp.AcceptTCP()
		if err != nil {
			return
		}
		u.conns.Store(c, struct{}{})
		u.accepted.Add(1)
		u.open.Add(1)
		w.wg.Go(func() {
			defer func() { c.Close(); u.conns.Delete(c) }()
			weClosed := u.handleAssoc(c)
			if weClosed {
				u.open.Add(-1)
				return
			}
			// wait for the peer to close its side; only then the connection counts as released
			c.SetDeadline(time.Time{})
			var b [64]byte
			for {
				if _, err := c.Read(b[:]); err != nil {
					break
				}
			}
			u.open.Add(-1)
		})
	}
}

// handleAssoc is a minimal RFC 1928 / RFC 1929 server for UDP ASSOCIATE. It returns true when the
// upstream itself ends the conversation (protocol error or scripted close).
func (u *Upstream) handleAssoc(c *net.TCPConn) (weClosed bool) {
	c.SetDeadline(time.Now().Add(10 * time.Second))
	var b [600]byte
	if _, err := io.ReadFull(c, b[:2]); err != nil || b[0] != 5 {
		return true
	}
	nm := int(b[1])
	if _, err := io.ReadFull(c, b[:nm]); err != nil {
		return true
	}
	if u.authUser != "" {
		offered := false
		for _, m := range b[:nm] {
			if m == 2 {
				offered = true
			}
		}
		if !offered {
			c.Write([]byte{5, 0xFF})
			return true
		}
		if _, err := c.Write([]byte{5, 2}); err != nil {
			return true
		}
		// RFC 1929: VER=1 ULEN UNAME PLEN PASSWD
		if _, err := io.ReadFull(c, b[:2]); err != nil || b[0] != 1 {
			return true
		}
		ul := int(b[1])
		if _, err := io.ReadFull(c, b[:ul+1]); err != nil {
			return true
		}
		user := string(b[:ul])
		pl := int(b[ul])
		if _, err := io.ReadFull(c, b[:pl]); err != nil {
			return true
		}
		if user != u.authUser || string(b[:pl]) != u.authPass {
			c.Write([]byte{1, 1})
			return true
		}
		if _, err := c.Write([]byte{1, 0}); err != nil {
			return true
		}
		u.authOK.Add(1)
	} else if _, err := c.Write([]byte{5, 0}); err != nil {
		return true
	}
	if _, err := io.ReadFull(c, b[:4]); err != nil || b[0] != 5 || b[1] != 3 {
		return true
	}
	var alen int
	switch b[3] {
	case 1:
		alen = 4 + 2
	case 4:
		alen = 16 + 2
	case 3:
		if _, err := io.ReadFull(c, b[:1]); err != nil {
			return true
		}
		alen = int(b[0]) + 2
	default:
		return true
	}
	if _, err := io.ReadFull(c, b[:alen]); err != nil {
		return true
	}
	if g := u.hs.Load(); g != nil {
		u.held.Add(1)
		c.SetDeadline(time.Time{})
		select {
		case <-*g:
		case <-time.After(60 * time.Second):
		}
		u.held.Add(-1)
		c.SetDeadline(time.Now().Add(10 * time.Second))
	}
	port := []byte{byte(u.Addr.Port() >> 8), byte(u.Addr.Port())}
	ip := u.Addr.Addr().As4()
	reply := append(append([]byte{5, 0, 0, 1}, ip[:]...), port...)
	sc := u.script.Load()
	if sc != nil {
		switch sc.Mode {
		case "bound-domain":
			reply = append(append([]byte{5, 0, 0, 3, byte(len(sc.BoundName))}, sc.BoundName...), port...)
		case "reply-failure":
			reply = append(append([]byte{5, 1, 0, 1}, 0, 0, 0, 0), 0, 0)
		}
	}
	if _, err := c.Write(reply); err != nil {
		return true
	}
	if sc != nil && sc.Mode == "close-after-reply" {
		return true
	}
	if sc != nil && sc.Mode != "" {
		return false // a failed association: now the peer has to close
	}
	u.live.Add(1)
	u.total.Add(1)
	defer u.live.Add(-1)
	c.SetDeadline(time.Time{})
	c.Read(b[:1]) // the association lives as long as the TCP connection
	return false
}

func (u *Upstream) serve(w *World) {
	buf := make([]byte, 65536)
	for {
		n, from, err := u.udp.ReadFromUDPAddrPort(buf)
		if err != nil {
			return
		}
		from = netip.AddrPortFrom(from.Addr().Unmap(), from.Port())
		key, inside, payload, err := u.codec.Unpack(buf[:n], from)
		if err != nil {
			w.record(Arrival{Sock: -1, From: from, Err: fmt.Errorf("upstream could not decode the relay's datagram: %w", err), Len: n})
			continue
		}
		tag, derr := DecodePayload(payload)
		a := Arrival{Sock: -1, From: from, Key: key, Inside: inside, Tag: tag, Err: derr, Len: len(payload)}
		w.record(a)
		if derr != nil || tag.Kind != KindRequest || w.replyOff.Load() || int(tag.Target) >= len(w.Dests) {
			continue
		}
		u.reply(w, a)
	}
}

// reply answers as the destination the datagram names (the upstream is the last hop here).
func (u *Upstream) reply(w *World, a Arrival) error {
	if int(a.Tag.Target) >= len(w.Dests) {
		return errors.New("no such dest")
	}
	sock := w.DestSock(int(a.Tag.Target))
	if sock < w.NSock() {
		if k := w.altEvery.Load(); k > 0 && w.nreply.Add(1)%int64(k) == 0 {
			sock += w.NSock()
		}
		total := 0
		switch w.dropMode.Load() {
		case DropBig1470:
			total = 1470
		case DropBig1480:
			total = 1480
		}
		if total > 0 {
			if pkt, err := u.codec.Pack(a.Key, w.SockAddr(sock%w.NSock()), extraReply(a.Tag, uint16(sock%w.NSock()), total)); err == nil {
				u.udp.WriteToUDPAddrPort(pkt, a.From)
			}
		}
	}
	pkt, err := u.codec.Pack(a.Key, w.SockAddr(sock), EncodePayload(nil, ReplyTo(a.Tag, uint16(sock))))
	if err != nil {
		return err
	}
	_, err = u.udp.WriteToUDPAddrPort(pkt, a.From)
	return err
}

// Close shuts every harness endpoint down and waits for its goroutines.
func (w *World) Close() {
	if w.closed.Swap(true) {
		return
	}
	w.closeSocks()
	if w.up != nil {
		w.up.udp.Close()
		if w.up.tcp != nil {
			w.up.tcp.Close()
		}
		w.up.conns.Range(func(k, _ any) bool { k.(*net.TCPConn).Close(); return true })
	}
	w.wg.Wait()
}
