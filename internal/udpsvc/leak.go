package udpsvc

import (
	"os"
	"runtime"
	"strings"
	"time"
)

const repoPath = "github.com/database64128/shadowsocks-go/"

// Goroutine is one entry of a full goroutine dump.
type Goroutine struct {
	Header string // "goroutine 12 [IO wait, 2 minutes]:"
	Text   string
}

// Dump returns all goroutines.
func Dump() []Goroutine {
	buf := make([]byte, 1<<20)
	for {
		n := runtime.Stack(buf, true)
		if n < len(buf) {
			buf = buf[:n]
			break
		}
		buf = make([]byte, 2*len(buf))
	}
	var out []Goroutine
	for _, g := range strings.Split(string(buf), "\n\n") {
		g = strings.TrimSpace(g)
		if g == "" {
			continue
		}
		h, _, _ := strings.Cut(g, "\n")
		out = append(out, Goroutine{Header: h, Text: g})
	}
	return out
}

// frames returns the function lines of a goroutine (not the file lines, not "created by").
func frames(g Goroutine) []string {
	var fs []string
	for _, l := range strings.Split(g.Text, "\n")[1:] {
		if strings.HasPrefix(l, "\t") || strings.HasPrefix(l, "created by ") {
			continue
		}
		fs = append(fs, l)
	}
	return fs
}

// RepoGoroutines returns the goroutines that are executing code of the repository and were not
// started by the harness to call into it (those have a verif/ frame of their own).
func RepoGoroutines() []Goroutine {
	var out []Goroutine
	for _, g := range Dump() {
		repo, harness := false, false
		for _, f := range frames(g) {
			if strings.HasPrefix(f, repoPath) {
				repo = true
			}
			if strings.HasPrefix(f, "verif/") {
				harness = true
			}
		}
		if repo && !harness {
			out = append(out, g)
		}
	}
	return out
}

// HasFrame reports whether a goroutine has a function frame containing sub.
func (g Goroutine) HasFrame(sub string) bool {
	for _, f := range frames(g) {
		if strings.Contains(f, sub) {
			return true
		}
	}
	return false
}

// FDs returns the number of open descriptors and how many of them are sockets.
func FDs() (total, sockets int) {
	ents, err := os.ReadDir("/proc/self/fd")
	if err != nil {
		return -1, -1
	}
	for _, e := range ents {
		l, err := os.Readlink("/proc/self/fd/" + e.Name())
		if err != nil {
			continue // the directory handle itself
		}
		total++
		if strings.HasPrefix(l, "socket:") {
			sockets++
		}
	}
	return
}

// WaitFor polls cond every few milliseconds until it holds or d has passed.
func WaitFor(d time.Duration, cond func() bool) bool {
	deadline := time.Now().Add(d)
	for {
		if cond() {
			return true
		}
		if time.Now().After(deadline) {
			return cond()
		}
		time.Sleep(3 * time.Millisecond)
	}
}

// Summaries renders goroutines compactly for messages: the innermost frames plus every frame of
// the repository.
func Summaries(gs []Goroutine) string {
	var sb strings.Builder
	for _, g := range gs {
		sb.WriteString(g.Header)
		fs := frames(g)
		skipped := false
		for i, f := range fs {
			if i >= 3 && !strings.HasPrefix(f, repoPath) {
				skipped = true
				continue
			}
			if skipped {
				sb.WriteString("\n    ...")
				skipped = false
			}
			sb.WriteString("\n    ")
			if j := strings.LastIndex(f, "("); j > 0 && strings.HasPrefix(f, repoPath) {
				f = f[:j] + "(...)"
			}
			sb.WriteString(f)
		}
		sb.WriteString("\n")
	}
	return sb.String()
}
