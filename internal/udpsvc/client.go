package udpsvc

import (
	"net"
	"net/netip"
	"sync"
	"time"
)

// Reply is one datagram that reached a client-side socket of the harness.
type Reply struct {
	SockIdx int            // which of the client's sockets (0 = first, +1 per address change)
	From    netip.AddrPort // must be the relay's listener
	Src     netip.AddrPort // source attached by the protocol (zero if none)
	Tag     Tag
	Err     error // protocol or payload decode error
	Len     int   // wire length
	PLen    int   // payload length after removing the protocol's framing (valid when the protocol decode succeeded)
}

// Client is one harness client session: a codec plus the sockets it has used.
type Client struct {
	ID     uint16
	Codec  ClientCodec
	Server netip.AddrPort
	world  *World

	mu      sync.Mutex
	cond    *sync.Cond
	socks   []*net.UDPConn
	seq     uint32
	sentOn  map[uint32]int // seq -> index of the socket that sent it
	replies []Reply
	got     map[uint32]int // seq -> number of well-formed replies
	wg      sync.WaitGroup
	Sent    int
	sentTo  map[uint32]int   // seq -> relay-address epoch in which it was first sent
	epochs  []netip.AddrPort // relay address of each epoch (a new epoch starts with every SetServer)
	nsent   map[uint32]int   // seq -> number of transmissions
	lastPkt []byte
	ackPkt  []byte            // wire bytes of the latest datagram that was echoed on its first transmission
	sent    map[uint32][2]int // seq -> (dest, fill) of the first transmission
}

// NewClient opens the first socket of a session.
func NewClient(w *World, id uint16, codec ClientCodec, server netip.AddrPort) (*Client, error) {
	c := &Client{ID: id, Codec: codec, Server: server, world: w, sentOn: map[uint32]int{}, got: map[uint32]int{}, sent: map[uint32][2]int{},
		sentTo: map[uint32]int{}, nsent: map[uint32]int{}, epochs: []netip.AddrPort{server}}
	c.cond = sync.NewCond(&c.mu)
	if err := c.Rebind(); err != nil {
		return nil, err
	}
	return c, nil
}

// Rebind opens a fresh socket; later datagrams leave from it (client address change).
func (c *Client) Rebind() error {
	s, err := net.ListenUDP("udp", net.UDPAddrFromAddrPort(netip.AddrPortFrom(netip.MustParseAddr("127.0.0.1"), 0)))
	if err != nil {
		return err
	}
	s.SetReadBuffer(4 << 20)
	c.mu.Lock()
	idx := len(c.socks)
	c.socks = append(c.socks, s)
	c.mu.Unlock()
	c.wg.Go(func() { c.recvLoop(idx, s) })
	return nil
}

// NSocks returns how many sockets the session has used.
func (c *Client) NSocks() int { c.mu.Lock(); defer c.mu.Unlock(); return len(c.socks) }

// LocalAddr returns the address of the i-th socket.
func (c *Client) LocalAddr(i int) netip.AddrPort {
	c.mu.Lock()
	defer c.mu.Unlock()
	return c.socks[i].LocalAddr().(*net.UDPAddr).AddrPort()
}

func (c *Client) recvLoop(idx int, s *net.UDPConn) {
	buf := make([]byte, 65536)
	for {
		n, from, err := s.ReadFromUDPAddrPort(buf)
		if err != nil {
			return
		}
		from = netip.AddrPortFrom(from.Addr().Unmap(), from.Port())
		r := Reply{SockIdx: idx, From: from, Len: n}
		src, payload, err := c.Codec.Unpack(buf[:n], from)
		if err != nil {
			r.Err = err
		} else {
			r.Src = netip.AddrPortFrom(src.Addr().Unmap(), src.Port())
			r.PLen = len(payload)
			r.Tag, r.Err = DecodePayload(payload)
		}
		c.mu.Lock()
		c.replies = append(c.replies, r)
		if r.Err == nil && r.Tag.Session == c.ID && r.Tag.Kind == KindReply {
			c.got[r.Tag.Seq]++
		}
		c.cond.Broadcast()
		c.mu.Unlock()
	}
}

// NextSeq reserves a sequence number.
func (c *Client) NextSeq() uint32 { c.mu.Lock(); defer c.mu.Unlock(); c.seq++; return c.seq }

// Send emits one datagram with the given seq to dest from the current socket.
func (c *Client) Send(seq uint32, dest int, fill int) error {
	tag := Tag{Kind: KindRequest, Scenario: c.world.Scenario, Session: c.ID, Seq: seq, Target: uint16(dest), Responder: NoResponder, Fill: uint16(fill)}
	pkt, err := c.Codec.Pack(c.world.DestAddr(dest), EncodePayload(nil, tag))
	if err != nil {
		return err
	}
	c.mu.Lock()
	idx := len(c.socks) - 1
	s := c.socks[idx]
	if _, ok := c.sentOn[seq]; !ok {
		c.sentOn[seq] = idx
		c.sent[seq] = [2]int{dest, fill}
		c.sentTo[seq] = len(c.epochs) - 1
	}
	c.nsent[seq]++
	c.Sent++
	c.lastPkt = pkt
	server := c.Server
	c.mu.Unlock()
	_, err = s.WriteToUDPAddrPort(pkt, server)
	return err
}

// Burst packs one datagram per entry of dests first and then writes them back to back, so that they
// reach the relay faster than it forwards them (queues and sendmmsg batches form).
func (c *Client) Burst(dests []int, fill int) {
	fills := make([]int, len(dests))
	for i := range fills {
		fills[i] = fill
	}
	c.BurstFills(dests, fills)
}

// BurstFills is Burst with one filler length per datagram (mixed sizes in one batch).
func (c *Client) BurstFills(dests []int, fills []int) {
	pkts := make([][]byte, 0, len(dests))
	c.mu.Lock()
	idx := len(c.socks) - 1
	s := c.socks[idx]
	c.mu.Unlock()
	for i, dest := range dests {
		fill := fills[i]
		seq := c.NextSeq()
		tag := Tag{Kind: KindRequest, Scenario: c.world.Scenario, Session: c.ID, Seq: seq, Target: uint16(dest), Responder: NoResponder, Fill: uint16(fill)}
		pkt, err := c.Codec.Pack(c.world.DestAddr(dest), EncodePayload(nil, tag))
		if err != nil {
			continue
		}
		c.mu.Lock()
		c.sentOn[seq] = idx
		c.sent[seq] = [2]int{dest, fill}
		c.sentTo[seq] = len(c.epochs) - 1
		c.nsent[seq]++
		c.Sent++
		c.mu.Unlock()
		pkts = append(pkts, pkt)
	}
	c.mu.Lock()
	server := c.Server
	c.mu.Unlock()
	for _, pkt := range pkts {
		s.WriteToUDPAddrPort(pkt, server)
	}
}

// SendRaw emits arbitrary bytes from the current socket (garbage from a live session's address).
func (c *Client) SendRaw(b []byte) error {
	c.mu.Lock()
	s := c.socks[len(c.socks)-1]
	server := c.Server
	c.mu.Unlock()
	_, err := s.WriteToUDPAddrPort(b, server)
	return err
}

// WaitReply waits until a well-formed reply for seq has been received.
func (c *Client) WaitReply(seq uint32, d time.Duration) bool {
	deadline := time.Now().Add(d)
	t := time.AfterFunc(d, func() { c.mu.Lock(); c.cond.Broadcast(); c.mu.Unlock() })
	defer t.Stop()
	c.mu.Lock()
	defer c.mu.Unlock()
	for c.got[seq] == 0 {
		if !time.Now().Before(deadline) {
			return false
		}
		c.cond.Wait()
	}
	return true
}

// Paced sends one datagram and waits up to wait for its echo, retrying (same seq) up to tries
// times in total. It returns whether an echo arrived and how many datagrams were sent.
func (c *Client) Paced(dest, fill int, wait time.Duration, tries int) (seq uint32, ok bool, attempts int) {
	seq = c.NextSeq()
	for attempts < tries {
		attempts++
		if err := c.Send(seq, dest, fill); err != nil {
			continue
		}
		if c.WaitReply(seq, wait) {
			if attempts == 1 {
				c.mu.Lock()
				c.ackPkt = c.lastPkt
				c.mu.Unlock()
			}
			return seq, true, attempts
		}
	}
	return seq, false, attempts
}

// Replies returns a copy of everything received so far; SentOn maps seq to the sending socket.
func (c *Client) Replies() []Reply {
	c.mu.Lock()
	defer c.mu.Unlock()
	return append([]Reply(nil), c.replies...)
}

func (c *Client) SentOn(seq uint32) (int, bool) {
	c.mu.Lock()
	defer c.mu.Unlock()
	i, ok := c.sentOn[seq]
	return i, ok
}

// ReplyCount returns how many well-formed echoes for seq have arrived.
func (c *Client) ReplyCount(seq uint32) int { c.mu.Lock(); defer c.mu.Unlock(); return c.got[seq] }

// SetServer makes later datagrams go to another client-facing address of the relay (new epoch).
func (c *Client) SetServer(a netip.AddrPort) {
	c.mu.Lock()
	c.Server = a
	c.epochs = append(c.epochs, a)
	c.mu.Unlock()
}

// SentTo returns the relay-address epoch in which seq was first sent; Epochs lists the relay address of every epoch.
func (c *Client) SentTo(seq uint32) int { c.mu.Lock(); defer c.mu.Unlock(); return c.sentTo[seq] }
func (c *Client) Epochs() []netip.AddrPort {
	c.mu.Lock()
	defer c.mu.Unlock()
	return append([]netip.AddrPort(nil), c.epochs...)
}

// Transmissions returns how many times seq was put on the wire by the harness.
func (c *Client) Transmissions(seq uint32) int { c.mu.Lock(); defer c.mu.Unlock(); return c.nsent[seq] }

// SentInfo returns the destination and fill of seq.
func (c *Client) SentInfo(seq uint32) (dest, fill int, ok bool) {
	c.mu.Lock()
	defer c.mu.Unlock()
	v, ok := c.sent[seq]
	return v[0], v[1], ok
}

// AckedPacket returns the wire bytes of the latest paced datagram whose echo arrived after a single
// transmission, i.e. a datagram the relay is known to have processed already.
func (c *Client) AckedPacket() []byte {
	c.mu.Lock()
	defer c.mu.Unlock()
	return append([]byte(nil), c.ackPkt...)
}

// MaxSeq returns the highest seq handed out.
func (c *Client) MaxSeq() uint32 { c.mu.Lock(); defer c.mu.Unlock(); return c.seq }

// Close closes the sockets and waits for the receive loops.
func (c *Client) Close() {
	c.mu.Lock()
	ss := append([]*net.UDPConn(nil), c.socks...)
	c.mu.Unlock()
	for _, s := range ss {
		s.Close()
	}
	c.wg.Wait()
}

// RawSocket is a socket that only ever sends bytes the relay must not accept; whatever comes back
// is recorded.
type RawSocket struct {
	c    *net.UDPConn
	mu   sync.Mutex
	recv [][]byte
	wg   sync.WaitGroup
}

func NewRawSocket() (*RawSocket, error) {
	s, err := net.ListenUDP("udp", net.UDPAddrFromAddrPort(netip.AddrPortFrom(netip.MustParseAddr("127.0.0.1"), 0)))
	if err != nil {
		return nil, err
	}
	r := &RawSocket{c: s}
	r.wg.Go(func() {
		buf := make([]byte, 65536)
		for {
			n, _, err := s.ReadFromUDPAddrPort(buf)
			if err != nil {
				return
			}
			r.mu.Lock()
			r.recv = append(r.recv, append([]byte(nil), buf[:n]...))
			r.mu.Unlock()
		}
	})
	return r, nil
}

func (r *RawSocket) Send(b []byte, to netip.AddrPort) error {
	_, err := r.c.WriteToUDPAddrPort(b, to)
	return err
}
func (r *RawSocket) Received() int { r.mu.Lock(); defer r.mu.Unlock(); return len(r.recv) }
func (r *RawSocket) Close()        { r.c.Close(); r.wg.Wait() }
