// Package routex holds the helpers shared by the C09 (router) and C10 (set representations)
// checks: a naive domain matcher written from the README rule semantics, a writer for the
// documented domain-set text format (with the decorations the format allows), name vocabularies
// and address boundary helpers. Nothing in here calls the matching code of /repo.
package routex

import (
	"fmt"
	"net/netip"
	"regexp"
	"strings"
)

// Rule kinds of the domain-set text format (README "Domain Sets").
const (
	KindDomain  = 0 // domain:  match the domain
	KindSuffix  = 1 // suffix:  match the domain and its subdomains
	KindKeyword = 2 // keyword: match if the domain contains the keyword
	KindRegexp  = 3 // regexp:  match if the domain matches the regular expression
)

var KindPrefix = [4]string{"domain:", "suffix:", "keyword:", "regexp:"}

// Rule is one line of a domain set.
type Rule struct {
	Kind int
	Text string
}

func (r Rule) String() string { return KindPrefix[r.Kind] + r.Text }

// Naive is the reference matcher: every rule is tried, nothing is indexed.
type Naive struct {
	rules []Rule
	res   []*regexp.Regexp // parallel to rules (nil for non-regexp rules)
}

// NewNaive compiles the regular expressions (Go syntax, as the README example uses) and returns
// the reference matcher, or the compile error.
func NewNaive(rules []Rule) (*Naive, error) {
	n := &Naive{rules: rules, res: make([]*regexp.Regexp, len(rules))}
	for i, r := range rules {
		if r.Kind == KindRegexp {
			re, err := regexp.Compile(r.Text)
			if err != nil {
				return nil, err
			}
			n.res[i] = re
		}
	}
	return n, nil
}

// SuffixMatch: "Match the domain and its subdomains": the name itself or anything ending in
// "." + suffix.
func SuffixMatch(name, suffix string) bool {
	return name == suffix || strings.HasSuffix(name, "."+suffix)
}

// MatchRule reports whether one rule matches.
func (n *Naive) matchRule(i int, name string) bool {
	r := n.rules[i]
	switch r.Kind {
	case KindDomain:
		return name == r.Text
	case KindSuffix:
		return SuffixMatch(name, r.Text)
	case KindKeyword:
		return strings.Contains(name, r.Text)
	case KindRegexp:
		return n.res[i].MatchString(name)
	}
	return false
}

// Match reports whether any rule matches the name.
func (n *Naive) Match(name string) bool {
	for i := range n.rules {
		if n.matchRule(i, name) {
			return true
		}
	}
	return false
}

// MatchKind reports whether any rule of the given kind matches.
func (n *Naive) MatchKind(kind int, name string) bool {
	for i := range n.rules {
		if n.rules[i].Kind == kind && n.matchRule(i, name) {
			return true
		}
	}
	return false
}

// Count returns the number of rules per kind.
func Count(rules []Rule) (c [4]int) {
	for _, r := range rules {
		c[r.Kind]++
	}
	return
}

// OfKind returns the rule texts of one kind in order.
func OfKind(rules []Rule, kind int) []string {
	var out []string
	for _, r := range rules {
		if r.Kind == kind {
			out = append(out, r.Text)
		}
	}
	return out
}

// TextOpts are the decorations the text format documents: an optional capacity hint as the first
// line, comment lines starting with '#', blank lines, LF or CRLF line ends, optional final newline.
type TextOpts struct {
	Hint      int    // 0 absent, 1 exact counts, 2 custom counts from HintVals
	HintVals  [4]int // used when Hint == 2
	CRLF      bool
	NoFinalNL bool
	// Decor[i] is inserted before rule i (Decor[len(rules)] after the last one):
	// bit0 blank line, bit1 comment line, bit2 two blank lines.
	Decor []uint8
}

// HintLine formats a capacity hint.
func HintLine(c [4]int) string {
	return fmt.Sprintf("# shadowsocks-go domain set capacity hint %d %d %d %d DSKR", c[0], c[1], c[2], c[3])
}

// Text renders rules in the given order in the documented text format.
func Text(rules []Rule, o TextOpts) string {
	nl := "\n"
	if o.CRLF {
		nl = "\r\n"
	}
	var lines []string
	switch o.Hint {
	case 1:
		lines = append(lines, HintLine(Count(rules)))
	case 2:
		lines = append(lines, HintLine(o.HintVals))
	}
	decor := func(i int) {
		if i >= len(o.Decor) {
			return
		}
		d := o.Decor[i]
		if d&1 != 0 {
			lines = append(lines, "")
		}
		if d&2 != 0 {
			lines = append(lines, "# comment domain:not.a.rule")
		}
		if d&4 != 0 {
			lines = append(lines, "", "")
		}
	}
	for i, r := range rules {
		decor(i)
		lines = append(lines, r.String())
	}
	decor(len(rules))
	if len(rules) == 0 {
		// A file without any line besides the capacity hint is rejected by the loader ("empty
		// domain set"); a comment is the documented way to write a file that holds no rule.
		lines = append(lines, "# empty")
	}
	s := strings.Join(lines, nl)
	if !o.NoFinalNL || strings.HasSuffix(s, "\r") {
		s += nl
	}
	return s
}

// Names returns every name of 1..maxLabels labels over the label vocabulary, joined by '.'.
// With "" in the vocabulary this yields leading, trailing and doubled dots.
func Names(labels []string, maxLabels int) []string {
	var out []string
	var cur []string
	for _, l := range labels {
		cur = append(cur, l)
	}
	out = append(out, cur...)
	for n := 2; n <= maxLabels; n++ {
		var next []string
		for _, p := range cur {
			for _, l := range labels {
				next = append(next, l+"."+p)
			}
		}
		out = append(out, next...)
		cur = next
	}
	return out
}

// Mutations returns probe names derived from one rule text: extensions to the left without a
// dot (label-boundary test), with a dot (subdomain), truncations, appended characters.
func Mutations(rule string) []string {
	out := []string{rule, "x" + rule, "x." + rule, rule + "x", rule + ".x", "." + rule, rule + ".", "a." + rule, "b" + rule}
	if len(rule) > 1 {
		out = append(out, rule[1:], rule[:len(rule)-1])
	}
	if i := strings.IndexByte(rule, '.'); i >= 0 {
		out = append(out, rule[i+1:], rule[:i], rule[:i]+rule[i+1:], rule[:i]+".."+rule[i+1:])
	}
	return out
}

// ProperSuffixPair reports whether some rule text is a proper label-boundary suffix of another.
func ProperSuffixPair(texts []string) bool {
	for i, a := range texts {
		for j, b := range texts {
			if i != j && a != b && strings.HasSuffix(b, "."+a) {
				return true
			}
		}
	}
	return false
}

// LastAddr returns the last address of a prefix.
func LastAddr(p netip.Prefix) netip.Addr {
	p = p.Masked()
	a := p.Addr().AsSlice()
	bits := p.Bits()
	for i := bits; i < len(a)*8; i++ {
		a[i/8] |= 1 << (7 - uint(i%8))
	}
	out, _ := netip.AddrFromSlice(a)
	return out
}

// Boundary returns the addresses that decide membership of a prefix: first, last, the one before
// the first and the one after the last (when they exist).
func Boundary(p netip.Prefix) []netip.Addr {
	first := p.Masked().Addr()
	last := LastAddr(p)
	out := []netip.Addr{first, last}
	if prev := first.Prev(); prev.IsValid() {
		out = append(out, prev)
	}
	if next := last.Next(); next.IsValid() {
		out = append(out, next)
	}
	return out
}

// AnyContains is the reference membership test of a prefix list.
func AnyContains(ps []netip.Prefix, a netip.Addr) bool {
	for _, p := range ps {
		if p.Contains(a) {
			return true
		}
	}
	return false
}
