package ev

import (
	"encoding/json"
	"os"
	"strings"
	"sync"
)

// Finding is one entry of /verif/known_findings.json (read-only at run time).
type Finding struct {
	Property    string `json:"property"`
	Signature   string `json:"signature"`
	Where       string `json:"where"`
	Description string `json:"description"`
	Status      string `json:"status"` // "open" (suppresses exactly this signature) or "fixed" (suppresses nothing)
	Commit      string `json:"commit,omitempty"`
}

var (
	knownOnce sync.Once
	knownSet  map[string]bool
)

func loadKnown() {
	knownSet = map[string]bool{}
	p := os.Getenv("VERIF_KNOWN")
	if p == "" {
		return
	}
	b, err := os.ReadFile(p)
	if err != nil {
		return
	}
	var doc struct {
		Findings []Finding `json:"findings"`
	}
	if json.Unmarshal(b, &doc) != nil {
		return
	}
	for _, f := range doc.Findings {
		if strings.EqualFold(f.Status, "open") {
			knownSet[f.Property+"|"+normSig(f.Property, f.Signature)] = true
		}
	}
}

// IsKnown reports whether (property, signature) is listed as an open finding.
func IsKnown(property, sig string) bool {
	knownOnce.Do(loadKnown)
	return knownSet[property+"|"+normSig(property, sig)]
}

// normSig strips an optional "<property>/" prefix so "C16/x" and "x" name the same finding.
func normSig(property, sig string) string {
	return strings.TrimPrefix(sig, property+"/")
}
