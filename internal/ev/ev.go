// Package ev records what a generated-input check actually explored: case counts, labels,
// the set of distinct non-trivial cases and a reservoir of sample cases. Every test binary
// writes one fragment per recorder into $VERIF_EVDIR; bin/check merges the fragments of all
// stages and shards into /verif/evidence/<ID>.json.
package ev

import (
	"encoding/json"
	"fmt"
	"hash/fnv"
	"os"
	"path/filepath"
	"sort"
	"strconv"
	"sync"
	"testing"
)

const maxKeys = 400000
const maxSamples = 12

// Recorder accumulates evidence for one check (one test function) of one property.
type Recorder struct {
	mu        sync.Mutex
	Property  string
	Check     string
	Rule      string
	evals     int64
	nontriv   int64
	labels    map[string]int64
	required  []string
	keys      map[uint64]struct{}
	samples   []any
	seen      int64 // non-trivial samples offered
	known     map[string]int64
	excluded  int64
	exhaust   bool
	extra     map[string]any
}

var (
	regMu sync.Mutex
	reg   []*Recorder
)

// New creates and registers a recorder. rule states how cases are generated and what makes
// one non-trivial / distinct.
func New(property, check, rule string) *Recorder {
	r := &Recorder{Property: property, Check: check, Rule: rule,
		labels: map[string]int64{}, keys: map[uint64]struct{}{}, known: map[string]int64{}, extra: map[string]any{}}
	regMu.Lock()
	reg = append(reg, r)
	regMu.Unlock()
	return r
}

// Require names labels that must have at least one case in the merged run, otherwise the run
// is inconclusive (generator health rule).
func (r *Recorder) Require(labels ...string) *Recorder {
	r.mu.Lock()
	r.required = append(r.required, labels...)
	r.mu.Unlock()
	return r
}

// Case records one executed case. key identifies the case class for the distinct count (only
// used when nontrivial); labels are free-form classification counters.
func (r *Recorder) Case(key string, nontrivial bool, labels ...string) {
	r.mu.Lock()
	defer r.mu.Unlock()
	r.evals++
	for _, l := range labels {
		r.labels[l]++
	}
	if nontrivial {
		r.nontriv++
		if len(r.keys) < maxKeys {
			h := fnv.New64a()
			h.Write([]byte(key))
			r.keys[h.Sum64()] = struct{}{}
		}
	}
}

// Label bumps a label counter without counting a case.
func (r *Recorder) Label(l string, n int64) {
	r.mu.Lock()
	r.labels[l] += n
	r.mu.Unlock()
}

// Sample offers a case to the sample reservoir (deterministic: keeps the first few and then
// every 2^k-th offered one so late cases are represented too).
func (r *Recorder) Sample(v any) {
	r.mu.Lock()
	defer r.mu.Unlock()
	r.seen++
	if len(r.samples) < maxSamples {
		r.samples = append(r.samples, v)
		return
	}
	if r.seen&(r.seen-1) == 0 { // power of two
		r.samples[int(r.seen)%maxSamples] = v
	}
}

// KnownHit records that a case reproduced a finding listed in known_findings.json.
func (r *Recorder) KnownHit(sig string) {
	r.mu.Lock()
	r.known[sig]++
	r.excluded++
	r.mu.Unlock()
}

// Excluded counts a case the generator dropped by construction because it would only
// re-trigger a listed finding.
func (r *Recorder) Excluded(n int64) {
	r.mu.Lock()
	r.excluded += n
	r.mu.Unlock()
}

// Exhaustive marks the run as having enumerated a finite space completely.
func (r *Recorder) Exhaustive(b bool) { r.mu.Lock(); r.exhaust = b; r.mu.Unlock() }

// Extra attaches a free-form measured value.
func (r *Recorder) Extra(k string, v any) { r.mu.Lock(); r.extra[k] = v; r.mu.Unlock() }

type fragment struct {
	Property   string           `json:"property"`
	Check      string           `json:"check"`
	Rule       string           `json:"rule"`
	Evals      int64            `json:"evaluations"`
	Nontrivial int64            `json:"nontrivial"`
	Labels     map[string]int64 `json:"labels"`
	Required   []string         `json:"required"`
	Keys       []string         `json:"keys"`
	Samples    []any            `json:"samples"`
	Known      map[string]int64 `json:"known_hits"`
	Excluded   int64            `json:"excluded"`
	Exhaustive bool             `json:"exhaustive"`
	Extra      map[string]any   `json:"extra"`
}

// Flush writes all fragments. Called by Main; safe to call more than once.
func Flush() {
	dir := os.Getenv("VERIF_EVDIR")
	if dir == "" {
		return
	}
	regMu.Lock()
	defer regMu.Unlock()
	for i, r := range reg {
		r.mu.Lock()
		f := fragment{Property: r.Property, Check: r.Check, Rule: r.Rule, Evals: r.evals, Nontrivial: r.nontriv,
			Labels: r.labels, Required: r.required, Samples: r.samples, Known: r.known, Excluded: r.excluded,
			Exhaustive: r.exhaust, Extra: r.extra}
		for k := range r.keys {
			f.Keys = append(f.Keys, strconv.FormatUint(k, 16))
		}
		sort.Strings(f.Keys)
		r.mu.Unlock()
		if f.Evals == 0 && len(f.Labels) == 0 {
			continue
		}
		b, err := json.Marshal(f)
		if err != nil {
			// samples must be JSON-encodable; degrade to strings
			for j, s := range f.Samples {
				f.Samples[j] = fmt.Sprint(s)
			}
			b, _ = json.Marshal(f)
		}
		name := fmt.Sprintf("%s-%s-%d-%d.json", r.Property, r.Check, os.Getpid(), i)
		tmp := filepath.Join(dir, name+".tmp")
		if os.WriteFile(tmp, b, 0o644) == nil {
			os.Rename(tmp, filepath.Join(dir, name))
		}
	}
}

// Main is the TestMain body: run, flush, exit.
func Main(m *testing.M) {
	code := m.Run()
	Flush()
	os.Exit(code)
}
