package tcpsvc

import (
	"bytes"
	"context"
	"encoding/json"
	"errors"
	"fmt"
	"io"
	"net"
	"net/http"
	"strings"
	"sync"
	"time"

	"github.com/database64128/shadowsocks-go/service"
	"go.uber.org/zap"
	"go.uber.org/zap/zapcore"
	"go.uber.org/zap/zaptest/observer"
)

// Instance is one running service.Manager built from JSON, with every listener on a
// kernel-chosen loopback port (addresses are learnt from the service's own start-up log lines,
// so no port is ever picked by bind-and-close).
type Instance struct {
	cancel  context.CancelFunc
	done    chan bool
	mgr     *service.Manager
	logs    *observer.ObservedLogs
	TCPAddr map[string]string // server name -> first listener address
	APIAddr string
	stopped sync.Once
	runOK   bool
}

// Options of StartWith.
type Options struct {
	// DebugLog runs the instance with a debug-level logger: besides the observer (which keeps
	// info and above, for the listener addresses and the log tail) every entry of every level is
	// encoded as JSON, with all its fields, and written to io.Discard - so the debug statements
	// of the code under test execute with their real field values.
	DebugLog bool
}

// NewLogger returns the logger the harness gives to code under test, and the observer behind it.
func NewLogger(debug bool) (*zap.Logger, *observer.ObservedLogs) {
	core, logs := observer.New(zapcore.InfoLevel)
	if debug {
		enc := zapcore.NewJSONEncoder(zapcore.EncoderConfig{
			MessageKey: "msg", LevelKey: "level", TimeKey: "ts", NameKey: "logger",
			EncodeLevel: zapcore.LowercaseLevelEncoder, EncodeTime: zapcore.ISO8601TimeEncoder, EncodeDuration: zapcore.StringDurationEncoder,
		})
		core = zapcore.NewTee(core, zapcore.NewCore(enc, zapcore.AddSync(io.Discard), zapcore.DebugLevel))
	}
	return zap.New(core), logs
}

// Start decodes cfgJSON exactly as the binary does (unknown fields are errors), builds the
// manager, runs it and waits until nTCP relay listeners (and the API listener if wantAPI)
// have reported their addresses.
func Start(cfgJSON []byte, nTCP int, wantAPI bool) (*Instance, error) {
	return StartWith(cfgJSON, nTCP, wantAPI, Options{})
}

// StartWith is Start with options.
func StartWith(cfgJSON []byte, nTCP int, wantAPI bool, opt Options) (*Instance, error) {
	var sc service.Config
	dec := json.NewDecoder(bytes.NewReader(cfgJSON))
	dec.DisallowUnknownFields()
	if err := dec.Decode(&sc); err != nil {
		return nil, fmt.Errorf("decode config: %w", err)
	}
	logger, logs := NewLogger(opt.DebugLog)
	m, err := sc.Manager(logger)
	if err != nil {
		return nil, fmt.Errorf("Manager: %w", err)
	}
	ctx, cancel := context.WithCancel(context.Background())
	in := &Instance{cancel: cancel, done: make(chan bool, 1), mgr: m, logs: logs, TCPAddr: map[string]string{}}
	go func() { in.done <- m.Run(ctx) }()

	deadline := time.Now().Add(20 * time.Second)
	for {
		in.scan()
		if len(in.TCPAddr) >= nTCP && (!wantAPI || in.APIAddr != "") {
			return in, nil
		}
		select {
		case ok := <-in.done:
			in.done <- ok
			cancel()
			m.Close()
			return nil, fmt.Errorf("service stopped during start-up (ok=%v): %s", ok, in.LogTail(10))
		default:
		}
		if time.Now().After(deadline) {
			in.Stop()
			return nil, errors.New("service did not report its listeners within 20s")
		}
		time.Sleep(time.Millisecond)
	}
}

func (in *Instance) scan() {
	for _, e := range in.logs.All() {
		switch e.Message {
		case "Started TCP relay service listener":
			cm := e.ContextMap()
			name, _ := cm["server"].(string)
			addr, _ := cm["listenAddress"].(string)
			if name != "" && addr != "" {
				if _, ok := in.TCPAddr[name]; !ok {
					in.TCPAddr[name] = addr
				}
			}
		case "Started API server listener":
			cm := e.ContextMap()
			if addr, ok := cm["listenAddress"].(string); ok && in.APIAddr == "" {
				in.APIAddr = addr
			}
		}
	}
}

// Stop cancels the manager's context, waits for Run to return and closes the manager.
// It returns false if Run reported an error or did not return within 20s.
func (in *Instance) Stop() bool {
	in.stopped.Do(func() {
		in.cancel()
		select {
		case ok := <-in.done:
			in.runOK = ok
		case <-time.After(20 * time.Second):
			in.runOK = false
		}
		in.mgr.Close()
	})
	return in.runOK
}

// LogTail returns the last n warn/error (and, if there are few, info) log lines of the service.
func (in *Instance) LogTail(n int) string {
	all := in.logs.All()
	var out []string
	for i := len(all) - 1; i >= 0 && len(out) < n; i-- {
		e := all[i]
		if e.Level < zapcore.WarnLevel {
			continue
		}
		var fs []string
		for k, v := range e.ContextMap() {
			fs = append(fs, fmt.Sprintf("%s=%v", k, v))
		}
		out = append(out, fmt.Sprintf("[%s] %s {%s}", e.Level, e.Message, strings.Join(fs, " ")))
	}
	return strings.Join(out, "\n")
}

// CountLogs counts log entries with the given message.
func (in *Instance) CountLogs(msg string) int {
	return in.logs.FilterMessage(msg).Len()
}

var apiClient = &http.Client{
	Transport: &http.Transport{
		DisableKeepAlives: true,
		DialContext:       (&net.Dialer{Timeout: 5 * time.Second}).DialContext,
	},
	Timeout: 10 * time.Second,
}

// APIGet performs GET http://<api>/api/ssm/v1<path> against the instance's real API server.
func (in *Instance) APIGet(path string) (int, []byte, error) {
	resp, err := apiClient.Get("http://" + in.APIAddr + "/api/ssm/v1" + path)
	if err != nil {
		return 0, nil, err
	}
	defer resp.Body.Close()
	b, err := io.ReadAll(resp.Body)
	return resp.StatusCode, b, err
}
