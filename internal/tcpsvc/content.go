package tcpsvc

import "encoding/binary"

// Stream content is a pure function of (seed, absolute stream offset), so any receiver can
// verify any fragment without a shared buffer: 8-byte blocks, block k = splitmix64(seed + k).

func mix(x uint64) uint64 {
	x += 0x9E3779B97F4A7C15
	x = (x ^ (x >> 30)) * 0xBF58476D1CE4E5B9
	x = (x ^ (x >> 27)) * 0x94D049BB133111EB
	return x ^ (x >> 31)
}

// Fill writes the content of stream seed at offsets [off, off+len(b)) into b.
func Fill(seed uint64, off int64, b []byte) {
	var blk [8]byte
	cur := int64(-1)
	for i := range b {
		o := off + int64(i)
		if k := o >> 3; k != cur {
			cur = k
			binary.LittleEndian.PutUint64(blk[:], mix(seed+uint64(k)))
		}
		b[i] = blk[o&7]
	}
}

// Check compares b with the expected content at off and returns the index of the first
// mismatching byte, or -1.
func Check(seed uint64, off int64, b []byte) int {
	var blk [8]byte
	cur := int64(-1)
	for i := range b {
		o := off + int64(i)
		if k := o >> 3; k != cur {
			cur = k
			binary.LittleEndian.PutUint64(blk[:], mix(seed+uint64(k)))
		}
		if b[i] != blk[o&7] {
			return i
		}
	}
	return -1
}
