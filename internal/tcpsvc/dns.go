// Package tcpsvc holds the harness devices shared by checks/c13 (and usable by c14): an owned
// name resolver, a helper to run a real service.Manager on loopback from generated JSON, and
// offset-derived stream content.
package tcpsvc

import (
	"context"
	"encoding/binary"
	"fmt"
	"io"
	"net"
	"strconv"
	"strings"
	"sync"
	"sync/atomic"
)

// Owned name resolution. net.DefaultResolver is replaced by a pure-Go resolver whose Dial
// returns one end of an in-memory pipe; the other end is served by a scripted DNS-over-TCP
// responder (the Go resolver uses TCP framing when the dialled conn is not a net.PacketConn).
//
// Name scheme (stateless, so cases share nothing):
//
//	ip-A-B-C-D.ok.test   -> A record A.B.C.D (AAAA: empty NOERROR answer)
//	anything else        -> NXDOMAIN
var (
	installOnce sync.Once
	// Queries counts questions answered, per kind, for evidence.
	QueriesOK atomic.Int64
	QueriesNX atomic.Int64
)

// OKName returns the resolvable name for an IPv4 address.
func OKName(ip net.IP) string {
	v4 := ip.To4()
	return fmt.Sprintf("ip-%d-%d-%d-%d.ok.test", v4[0], v4[1], v4[2], v4[3])
}

// NXName returns a name that never resolves.
func NXName(tag string) string { return tag + ".nx.test" }

// InstallResolver replaces net.DefaultResolver for the whole process (idempotent).
func InstallResolver() {
	installOnce.Do(func() {
		net.DefaultResolver = &net.Resolver{
			PreferGo: true,
			Dial: func(ctx context.Context, network, address string) (net.Conn, error) {
				c, s := net.Pipe()
				go serveDNS(s)
				return c, nil
			},
		}
	})
}

func serveDNS(c net.Conn) {
	defer c.Close()
	var lb [2]byte
	for {
		if _, err := io.ReadFull(c, lb[:]); err != nil {
			return
		}
		n := int(binary.BigEndian.Uint16(lb[:]))
		q := make([]byte, n)
		if _, err := io.ReadFull(c, q); err != nil {
			return
		}
		resp := answer(q)
		if resp == nil {
			return
		}
		out := make([]byte, 2+len(resp))
		binary.BigEndian.PutUint16(out, uint16(len(resp)))
		copy(out[2:], resp)
		if _, err := c.Write(out); err != nil {
			return
		}
	}
}

// answer builds the response to a single-question query.
func answer(q []byte) []byte {
	if len(q) < 12 || binary.BigEndian.Uint16(q[4:6]) < 1 {
		return nil
	}
	// parse the question name
	off := 12
	var labels []string
	for {
		if off >= len(q) {
			return nil
		}
		l := int(q[off])
		off++
		if l == 0 {
			break
		}
		if l&0xC0 != 0 || off+l > len(q) {
			return nil
		}
		labels = append(labels, strings.ToLower(string(q[off:off+l])))
		off += l
	}
	if off+4 > len(q) {
		return nil
	}
	qtype := binary.BigEndian.Uint16(q[off : off+2])
	qend := off + 4
	name := strings.Join(labels, ".")

	var ip net.IP
	if len(labels) == 3 && labels[1] == "ok" && labels[2] == "test" && strings.HasPrefix(labels[0], "ip-") {
		parts := strings.Split(labels[0][3:], "-")
		if len(parts) == 4 {
			b := make([]byte, 4)
			ok := true
			for i, p := range parts {
				v, err := strconv.Atoi(p)
				if err != nil || v < 0 || v > 255 {
					ok = false
					break
				}
				b[i] = byte(v)
			}
			if ok {
				ip = net.IP(b)
			}
		}
	}
	_ = name

	resp := make([]byte, 0, qend+16)
	resp = append(resp, q[0], q[1])           // ID
	flags := uint16(0x8000 | 0x0400 | 0x0080) // QR, AA, RA
	flags |= uint16(q[2]&0x01) << 8           // RD copied
	rcode := uint16(0)
	if ip == nil {
		rcode = 3 // NXDOMAIN
		QueriesNX.Add(1)
	} else {
		QueriesOK.Add(1)
	}
	flags |= rcode
	resp = binary.BigEndian.AppendUint16(resp, flags)
	resp = binary.BigEndian.AppendUint16(resp, 1) // QDCOUNT
	an := uint16(0)
	if ip != nil && qtype == 1 {
		an = 1
	}
	resp = binary.BigEndian.AppendUint16(resp, an)
	resp = binary.BigEndian.AppendUint16(resp, 0)
	resp = binary.BigEndian.AppendUint16(resp, 0)
	resp = append(resp, q[12:qend]...)
	if an == 1 {
		resp = append(resp, 0xC0, 12)                 // pointer to the question name
		resp = binary.BigEndian.AppendUint16(resp, 1) // A
		resp = binary.BigEndian.AppendUint16(resp, 1) // IN
		resp = binary.BigEndian.AppendUint32(resp, 60)
		resp = binary.BigEndian.AppendUint16(resp, 4)
		resp = append(resp, ip...)
	}
	return resp
}
