// Package tlsx makes throw-away certificate authorities and leaf certificates for checks that
// exercise the TLS options of the HTTP proxy server and client (enableTLS / useTLS, certList,
// clientCAs / rootCAs, requireAndVerifyClientCert). Keys are ECDSA P-256; everything is written
// as PEM files so that it can be referenced from JSON configuration (tlscerts.Config).
//
// Key generation reads crypto/rand: certificates are set-up material, never part of a generated
// case's decisions, so this does not affect replayability of a plan.
package tlsx

import (
	"crypto/ecdsa"
	"crypto/elliptic"
	"crypto/rand"
	"crypto/tls"
	"crypto/x509"
	"crypto/x509/pkix"
	"encoding/pem"
	"math/big"
	"net"
	"os"
	"path/filepath"
	"time"
)

// CA is a self-signed certificate authority.
type CA struct {
	Cert     *x509.Certificate
	Key      *ecdsa.PrivateKey
	CertPEM  []byte
	CertPath string // set by WriteFiles
}

// Leaf is a certificate signed by a CA together with its key.
type Leaf struct {
	CertPEM, KeyPEM   []byte
	CertPath, KeyPath string // set by WriteFiles
	TLS               tls.Certificate
}

// Validity is a fixed, wide interval so that the material is also accepted on the virtual clock of a
// testing/synctest bubble (which starts at 2000-01-01).
var (
	notBefore = time.Date(1990, 1, 1, 0, 0, 0, 0, time.UTC)
	notAfter  = time.Date(2090, 1, 1, 0, 0, 0, 0, time.UTC)
)

var serial int64 = 1000

func nextSerial() *big.Int { serial++; return big.NewInt(serial) }

// NewCA creates a self-signed CA.
func NewCA(commonName string) (*CA, error) {
	key, err := ecdsa.GenerateKey(elliptic.P256(), rand.Reader)
	if err != nil {
		return nil, err
	}
	tmpl := &x509.Certificate{
		SerialNumber:          nextSerial(),
		Subject:               pkix.Name{CommonName: commonName},
		NotBefore:             notBefore,
		NotAfter:              notAfter,
		KeyUsage:              x509.KeyUsageCertSign | x509.KeyUsageDigitalSignature,
		BasicConstraintsValid: true,
		IsCA:                  true,
	}
	der, err := x509.CreateCertificate(rand.Reader, tmpl, tmpl, &key.PublicKey, key)
	if err != nil {
		return nil, err
	}
	cert, err := x509.ParseCertificate(der)
	if err != nil {
		return nil, err
	}
	return &CA{Cert: cert, Key: key, CertPEM: pem.EncodeToMemory(&pem.Block{Type: "CERTIFICATE", Bytes: der})}, nil
}

// Pool returns a certificate pool holding only this CA.
func (ca *CA) Pool() *x509.CertPool {
	p := x509.NewCertPool()
	p.AddCert(ca.Cert)
	return p
}

// Issue signs a leaf certificate usable for both server and client authentication.
// hosts may be DNS names or IP literals (they go to the matching SAN list).
func (ca *CA) Issue(commonName string, hosts ...string) (*Leaf, error) {
	key, err := ecdsa.GenerateKey(elliptic.P256(), rand.Reader)
	if err != nil {
		return nil, err
	}
	tmpl := &x509.Certificate{
		SerialNumber: nextSerial(),
		Subject:      pkix.Name{CommonName: commonName},
		NotBefore:    notBefore,
		NotAfter:     notAfter,
		KeyUsage:     x509.KeyUsageDigitalSignature,
		ExtKeyUsage:  []x509.ExtKeyUsage{x509.ExtKeyUsageServerAuth, x509.ExtKeyUsageClientAuth},
	}
	for _, h := range hosts {
		if ip := net.ParseIP(h); ip != nil {
			tmpl.IPAddresses = append(tmpl.IPAddresses, ip)
		} else {
			tmpl.DNSNames = append(tmpl.DNSNames, h)
		}
	}
	der, err := x509.CreateCertificate(rand.Reader, tmpl, ca.Cert, &key.PublicKey, ca.Key)
	if err != nil {
		return nil, err
	}
	kder, err := x509.MarshalECPrivateKey(key)
	if err != nil {
		return nil, err
	}
	l := &Leaf{
		CertPEM: pem.EncodeToMemory(&pem.Block{Type: "CERTIFICATE", Bytes: der}),
		KeyPEM:  pem.EncodeToMemory(&pem.Block{Type: "EC PRIVATE KEY", Bytes: kder}),
	}
	l.TLS, err = tls.X509KeyPair(l.CertPEM, l.KeyPEM)
	if err != nil {
		return nil, err
	}
	return l, nil
}

// WriteFiles writes <dir>/<name>.crt for the CA.
func (ca *CA) WriteFiles(dir, name string) error {
	ca.CertPath = filepath.Join(dir, name+".crt")
	return os.WriteFile(ca.CertPath, ca.CertPEM, 0o600)
}

// WriteFiles writes <dir>/<name>.crt and <dir>/<name>.key for the leaf.
func (l *Leaf) WriteFiles(dir, name string) error {
	l.CertPath = filepath.Join(dir, name+".crt")
	l.KeyPath = filepath.Join(dir, name+".key")
	if err := os.WriteFile(l.CertPath, l.CertPEM, 0o600); err != nil {
		return err
	}
	return os.WriteFile(l.KeyPath, l.KeyPEM, 0o600)
}
