// Package ssudp is a harness-owned, independent codec for Shadowsocks 2022 UDP packets
// (SIP022 layout as restated in the comments of /repo/ss2022/packet.go and header.go). It only
// uses crypto/aes, crypto/cipher and blake3 - none of the repo's packing/unpacking code - so it
// can serve as an independent peer (C05) and as a forging encoder (C04): any session id, packet
// id, timestamp, type byte, client session id, padding length and key can be put on the wire.
//
// Client -> server packet:
//
//	AES-ECB(sepKey, sid(8) | pid(8)) | EIH_0 .. EIH_{k-1} | AEAD(sessionKey(uPSK, sid), nonce = (sid|pid)[4:16],
//	    type(1)=0 | unix ts(8) | padLen(2) | padding | SOCKS addr | payload)
//	sepKey = iPSK_0 if k > 0 else uPSK;  EIH_i = AES-ECB(iPSK_i, hash(iPSK_{i+1} or uPSK)[:16] XOR (sid|pid))
//
// Server -> client packet:
//
//	AES-ECB(uPSK, ssid(8) | spid(8)) | AEAD(sessionKey(uPSK, ssid), nonce = (ssid|spid)[4:16],
//	    type(1)=1 | unix ts(8) | csid(8) | padLen(2) | padding | SOCKS addr | payload)
//
// sessionKey(psk, sid) = BLAKE3-DeriveKey("shadowsocks 2022 session subkey", psk | sid)[:len(psk)]
package ssudp

import (
	"crypto/aes"
	"crypto/cipher"
	"encoding/binary"
	"errors"
	"fmt"
	"net/netip"
	"sync"

	"lukechampine.com/blake3"
)

const (
	SepLen      = 16
	EIHLen      = 16
	TagLen      = 16
	ClientFixed = 1 + 8 + 2
	ServerFixed = 1 + 8 + 8 + 2
	TypeClient  = 0
	TypeServer  = 1
	sessionCtx  = "shadowsocks 2022 session subkey"
)

// Keys is the keying of one user: the user PSK and the identity PSK chain in client order
// (IPSKs[0] is the outermost one and also encrypts the separate header).
type Keys struct {
	PSK   []byte
	IPSKs [][]byte
}

// PSKHash is the identity-header hash of a PSK.
func PSKHash(psk []byte) (h [16]byte) {
	s := blake3.Sum512(psk)
	copy(h[:], s[:16])
	return
}

// small caches: a history re-derives the same few keys thousands of times
var (
	cacheMu   sync.Mutex
	aeadCache = map[string]cipher.AEAD{}
	blkCache  = map[string]cipher.Block{}
)

// SessionAEAD derives the per-session AEAD.
func SessionAEAD(psk []byte, sid uint64) cipher.AEAD {
	material := make([]byte, 0, len(psk)+8)
	material = append(material, psk...)
	material = binary.BigEndian.AppendUint64(material, sid)
	cacheMu.Lock()
	defer cacheMu.Unlock()
	if g, ok := aeadCache[string(material)]; ok {
		return g
	}
	key := make([]byte, len(psk))
	blake3.DeriveKey(key, sessionCtx, material)
	blk, err := aes.NewCipher(key)
	if err != nil {
		panic(err)
	}
	g, err := cipher.NewGCM(blk)
	if err != nil {
		panic(err)
	}
	if len(aeadCache) > 4096 {
		clear(aeadCache)
	}
	aeadCache[string(material)] = g
	return g
}

func block(key []byte) cipher.Block {
	cacheMu.Lock()
	defer cacheMu.Unlock()
	if b, ok := blkCache[string(key)]; ok {
		return b
	}
	b, err := aes.NewCipher(key)
	if err != nil {
		panic(err)
	}
	if len(blkCache) > 1024 {
		clear(blkCache)
	}
	blkCache[string(key)] = b
	return b
}

func (k Keys) clientSepKey() []byte {
	if len(k.IPSKs) > 0 {
		return k.IPSKs[0]
	}
	return k.PSK
}

// ClientHeaderLen is the length of the non-AEAD part of a client packet.
func (k Keys) ClientHeaderLen() int { return SepLen + EIHLen*len(k.IPSKs) }

// ClientPacket is the decoded form of a client -> server packet.
type ClientPacket struct {
	SID, PID uint64
	Type     byte
	TS       uint64
	PadLen   int
	Addr     []byte // raw SOCKS address
	Payload  []byte
}

// ServerPacket is the decoded form of a server -> client packet.
type ServerPacket struct {
	SID, PID uint64
	Type     byte
	TS       uint64
	CSID     uint64
	PadLen   int
	Addr     []byte
	Payload  []byte
}

// EncodeClient builds the wire form. bodyPSK overrides the key of the AEAD body when non-nil
// (forging a packet that decrypts its headers correctly but fails authentication).
func (k Keys) EncodeClient(p ClientPacket, bodyPSK []byte) []byte {
	if bodyPSK == nil {
		bodyPSK = k.PSK
	}
	hl := k.ClientHeaderLen()
	out := make([]byte, hl, hl+ClientFixed+p.PadLen+len(p.Addr)+len(p.Payload)+TagLen)
	binary.BigEndian.PutUint64(out[0:], p.SID)
	binary.BigEndian.PutUint64(out[8:], p.PID)
	sep := append([]byte(nil), out[:SepLen]...)
	body := make([]byte, 0, ClientFixed+p.PadLen+len(p.Addr)+len(p.Payload))
	body = append(body, p.Type)
	body = binary.BigEndian.AppendUint64(body, p.TS)
	body = binary.BigEndian.AppendUint16(body, uint16(p.PadLen))
	body = append(body, make([]byte, p.PadLen)...)
	body = append(body, p.Addr...)
	body = append(body, p.Payload...)
	for i := range k.IPSKs {
		var h [16]byte
		if i+1 < len(k.IPSKs) {
			h = PSKHash(k.IPSKs[i+1])
		} else {
			h = PSKHash(k.PSK)
		}
		eih := out[SepLen+i*EIHLen : SepLen+(i+1)*EIHLen]
		for j := range eih {
			eih[j] = h[j] ^ sep[j]
		}
		block(k.IPSKs[i]).Encrypt(eih, eih)
	}
	out = SessionAEAD(bodyPSK, p.SID).Seal(out, sep[4:16], body, nil)
	block(k.clientSepKey()).Encrypt(out[:SepLen], out[:SepLen])
	return out
}

// DecodeClient parses a client packet as the final server would after every relay of the
// identity chain verified its header: all identity headers are checked here.
func (k Keys) DecodeClient(b []byte) (p ClientPacket, err error) {
	hl := k.ClientHeaderLen()
	if len(b) < hl+TagLen {
		return p, fmt.Errorf("ssudp: client packet too short: %d", len(b))
	}
	sep := make([]byte, SepLen)
	block(k.clientSepKey()).Decrypt(sep, b[:SepLen])
	p.SID = binary.BigEndian.Uint64(sep)
	p.PID = binary.BigEndian.Uint64(sep[8:])
	for i := range k.IPSKs {
		var want [16]byte
		if i+1 < len(k.IPSKs) {
			want = PSKHash(k.IPSKs[i+1])
		} else {
			want = PSKHash(k.PSK)
		}
		eih := make([]byte, EIHLen)
		block(k.IPSKs[i]).Decrypt(eih, b[SepLen+i*EIHLen:SepLen+(i+1)*EIHLen])
		for j := range eih {
			eih[j] ^= sep[j]
		}
		if [16]byte(eih) != want {
			return p, fmt.Errorf("ssudp: identity header %d does not carry the hash of the next PSK", i)
		}
	}
	body, err := SessionAEAD(k.PSK, p.SID).Open(nil, sep[4:16], b[hl:], nil)
	if err != nil {
		return p, fmt.Errorf("ssudp: client body: %w", err)
	}
	if len(body) < ClientFixed {
		return p, errors.New("ssudp: client body shorter than the fixed header")
	}
	p.Type = body[0]
	p.TS = binary.BigEndian.Uint64(body[1:])
	p.PadLen = int(binary.BigEndian.Uint16(body[9:]))
	rest := body[ClientFixed:]
	if p.PadLen > len(rest) {
		return p, errors.New("ssudp: padding longer than body")
	}
	rest = rest[p.PadLen:]
	n, err := SocksAddrLen(rest)
	if err != nil {
		return p, err
	}
	p.Addr = rest[:n]
	p.Payload = rest[n:]
	return p, nil
}

// EncodeServer builds a server -> client packet.
func (k Keys) EncodeServer(p ServerPacket, bodyPSK []byte) []byte {
	if bodyPSK == nil {
		bodyPSK = k.PSK
	}
	out := make([]byte, SepLen, SepLen+ServerFixed+p.PadLen+len(p.Addr)+len(p.Payload)+TagLen)
	binary.BigEndian.PutUint64(out[0:], p.SID)
	binary.BigEndian.PutUint64(out[8:], p.PID)
	sep := append([]byte(nil), out[:SepLen]...)
	body := make([]byte, 0, ServerFixed+p.PadLen+len(p.Addr)+len(p.Payload))
	body = append(body, p.Type)
	body = binary.BigEndian.AppendUint64(body, p.TS)
	body = binary.BigEndian.AppendUint64(body, p.CSID)
	body = binary.BigEndian.AppendUint16(body, uint16(p.PadLen))
	body = append(body, make([]byte, p.PadLen)...)
	body = append(body, p.Addr...)
	body = append(body, p.Payload...)
	out = SessionAEAD(bodyPSK, p.SID).Seal(out, sep[4:16], body, nil)
	block(k.PSK).Encrypt(out[:SepLen], out[:SepLen])
	return out
}

// DecodeServer parses a server -> client packet.
func (k Keys) DecodeServer(b []byte) (p ServerPacket, err error) {
	if len(b) < SepLen+TagLen {
		return p, fmt.Errorf("ssudp: server packet too short: %d", len(b))
	}
	sep := make([]byte, SepLen)
	block(k.PSK).Decrypt(sep, b[:SepLen])
	p.SID = binary.BigEndian.Uint64(sep)
	p.PID = binary.BigEndian.Uint64(sep[8:])
	body, err := SessionAEAD(k.PSK, p.SID).Open(nil, sep[4:16], b[SepLen:], nil)
	if err != nil {
		return p, fmt.Errorf("ssudp: server body: %w", err)
	}
	if len(body) < ServerFixed {
		return p, errors.New("ssudp: server body shorter than the fixed header")
	}
	p.Type = body[0]
	p.TS = binary.BigEndian.Uint64(body[1:])
	p.CSID = binary.BigEndian.Uint64(body[9:])
	p.PadLen = int(binary.BigEndian.Uint16(body[17:]))
	rest := body[ServerFixed:]
	if p.PadLen > len(rest) {
		return p, errors.New("ssudp: padding longer than body")
	}
	rest = rest[p.PadLen:]
	n, err := SocksAddrLen(rest)
	if err != nil {
		return p, err
	}
	p.Addr = rest[:n]
	p.Payload = rest[n:]
	return p, nil
}

// PeekClientIDs decrypts only the separate header of a client packet.
func (k Keys) PeekClientIDs(b []byte) (sid, pid uint64) {
	sep := make([]byte, SepLen)
	block(k.clientSepKey()).Decrypt(sep, b[:SepLen])
	return binary.BigEndian.Uint64(sep), binary.BigEndian.Uint64(sep[8:])
}

// PeekServerIDs decrypts only the separate header of a server packet.
func (k Keys) PeekServerIDs(b []byte) (sid, pid uint64) {
	sep := make([]byte, SepLen)
	block(k.PSK).Decrypt(sep, b[:SepLen])
	return binary.BigEndian.Uint64(sep), binary.BigEndian.Uint64(sep[8:])
}

// Addr is a harness-side target/source address: an IP (possibly IPv4-mapped) or a domain name.
type Addr struct {
	IP     netip.Addr
	Domain string
	Port   uint16
}

// IsIP reports whether a carries an IP address.
func (a Addr) IsIP() bool { return a.IP.IsValid() }

// Unmapped returns a with an IPv4-mapped IPv6 address replaced by the IPv4 address: the SOCKS
// address format cannot carry the mapped form (documented in socks5/addr.go).
func (a Addr) Unmapped() Addr {
	if a.IsIP() {
		a.IP = a.IP.Unmap()
	}
	return a
}

func (a Addr) String() string {
	if a.IsIP() {
		return netip.AddrPortFrom(a.IP, a.Port).String()
	}
	return fmt.Sprintf("%s:%d", a.Domain, a.Port)
}

// Wire is the SOCKS5 address encoding (RFC 1928 section 5) of the unmapped address.
func (a Addr) Wire() []byte {
	a = a.Unmapped()
	var out []byte
	switch {
	case a.IsIP() && a.IP.Is4():
		ip := a.IP.As4()
		out = append(out, 1)
		out = append(out, ip[:]...)
	case a.IsIP():
		ip := a.IP.As16()
		out = append(out, 4)
		out = append(out, ip[:]...)
	default:
		out = append(out, 3, byte(len(a.Domain)))
		out = append(out, a.Domain...)
	}
	return binary.BigEndian.AppendUint16(out, a.Port)
}

// WireLen is len(a.Wire()).
func (a Addr) WireLen() int {
	a = a.Unmapped()
	switch {
	case a.IsIP() && a.IP.Is4():
		return 7
	case a.IsIP():
		return 19
	default:
		return 4 + len(a.Domain)
	}
}

// SocksAddrLen returns the length of the SOCKS address at the start of b.
func SocksAddrLen(b []byte) (int, error) {
	if len(b) < 1 {
		return 0, errors.New("ssudp: empty address")
	}
	var n int
	switch b[0] {
	case 1:
		n = 7
	case 4:
		n = 19
	case 3:
		if len(b) < 2 {
			return 0, errors.New("ssudp: short domain address")
		}
		n = 4 + int(b[1])
	default:
		return 0, fmt.Errorf("ssudp: bad ATYP %d", b[0])
	}
	if len(b) < n {
		return 0, fmt.Errorf("ssudp: address needs %d bytes, have %d", n, len(b))
	}
	return n, nil
}

// ParseSocksAddr decodes a complete SOCKS address.
func ParseSocksAddr(b []byte) (Addr, error) {
	n, err := SocksAddrLen(b)
	if err != nil {
		return Addr{}, err
	}
	if n != len(b) {
		return Addr{}, fmt.Errorf("ssudp: address has %d trailing bytes", len(b)-n)
	}
	port := binary.BigEndian.Uint16(b[n-2:])
	switch b[0] {
	case 1:
		return Addr{IP: netip.AddrFrom4([4]byte(b[1:5])), Port: port}, nil
	case 4:
		return Addr{IP: netip.AddrFrom16([16]byte(b[1:17])), Port: port}, nil
	default:
		return Addr{Domain: string(b[2 : n-2]), Port: port}, nil
	}
}

// Fill writes a deterministic pseudo-random byte stream derived from seed into b (xorshift64*).
func Fill(b []byte, seed uint64) {
	x := seed | 1
	for len(b) >= 8 {
		x ^= x >> 12
		x ^= x << 25
		x ^= x >> 27
		binary.LittleEndian.PutUint64(b, x*2685821657736338717)
		b = b[8:]
	}
	for i := range b {
		x ^= x >> 12
		x ^= x << 25
		x ^= x >> 27
		b[i] = byte((x * 2685821657736338717) >> 56)
	}
}
