// Package sstcp holds what the C02 and C03 checks share: deterministic construction of
// Shadowsocks 2022 TCP configurations (key length x identity headers x stream prefixes x
// segmented-header switch x fallback), a store-and-forward dialer over the owned transport, the
// wire layout of a handshake as documented in ss2022/header.go and ss2022/tcp.go, and the
// harness-side relay that strips outer identity headers.
//
// Nothing in here decides a property; it only builds inputs and describes the wire format.
package sstcp

import (
	"bytes"
	"context"
	"encoding/binary"
	"fmt"
	"math/rand/v2"
	"net/netip"

	"github.com/database64128/shadowsocks-go/conn"
	"github.com/database64128/shadowsocks-go/netio"
	"github.com/database64128/shadowsocks-go/ss2022"

	"verif/internal/xnet"
)

// FallbackAddr is the fallback destination used when a class has Fallback set. No generated
// target ever equals it.
var FallbackAddr = conn.AddrFromIPAndPort(netip.AddrFrom4([4]byte{127, 0, 0, 9}), 9)

const (
	TagSize       = 16 // AES-GCM tag
	FixedReqLen   = 11 // type + timestamp + length
	IdentityLen   = 16
	LenChunkLen   = 2 + TagSize
	PrefixNone    = 0
	PrefixShort   = 1
	PrefixBig     = 2 // longer than 64 KiB
	MaxOuterIPSKs = 3
)

// Class is one configuration class.
type Class struct {
	KeyLen    int  // 16 or 32
	NIPSK     int  // 0 = no identity header; 1..3 identity PSKs on the client
	Prefix    int  // PrefixNone / PrefixShort / PrefixBig, applies to both directions
	Segmented bool // AllowSegmentedFixedLengthHeader
	Fallback  bool // UnsafeFallbackAddr configured
}

func (c Class) String() string {
	return fmt.Sprintf("k%d/eih%d/pfx%d/seg%v/fb%v", c.KeyLen, c.NIPSK, c.Prefix, c.Segmented, c.Fallback)
}

// AllClasses enumerates every class with at most maxIPSK identity PSKs.
func AllClasses(maxIPSK int) []Class {
	var out []Class
	for _, k := range []int{16, 32} {
		for n := 0; n <= maxIPSK; n++ {
			for p := PrefixNone; p <= PrefixBig; p++ {
				for _, seg := range []bool{true, false} {
					for _, fb := range []bool{false, true} {
						out = append(out, Class{k, n, p, seg, fb})
					}
				}
			}
		}
	}
	return out
}

// Fill fills b with bytes derived from seed only.
func Fill(b []byte, seed uint64) {
	var s [32]byte
	binary.LittleEndian.PutUint64(s[:], seed)
	binary.LittleEndian.PutUint64(s[8:], seed^0x9e3779b97f4a7c15)
	s[16] = 0xC2
	rand.NewChaCha8(s).Read(b)
}

// Bytes returns n bytes derived from seed.
func Bytes(n int, seed uint64) []byte {
	b := make([]byte, n)
	Fill(b, seed)
	return b
}

// World is a complete key/prefix universe for one class: the client's keys, the matching server
// configuration and the relays in between.
type World struct {
	Class      Class
	ReqPrefix  []byte
	RespPrefix []byte
	UPSK       []byte
	IPSKs      [][]byte
	UserName   string

	clientCipher *ss2022.ClientCipherConfig
	userCipher   ss2022.UserCipherConfig
	identity     ss2022.ServerIdentityCipherConfig
	ulm          ss2022.UserLookupMap
	outer        []ss2022.ServerIdentityCipherConfig // relays that strip the outer identity headers
	outerExpect  [][IdentityLen]byte
}

// NewWorld derives prefixes from prefixSeed and all keys from keySeed. Two worlds with the same
// prefixSeed and different keySeed differ only in their keys ("foreign key" sessions).
func NewWorld(c Class, prefixSeed, keySeed uint64) (*World, error) {
	w := &World{Class: c, UserName: "user-under-test"}
	switch c.Prefix {
	case PrefixShort:
		w.ReqPrefix = Bytes(1+int(prefixSeed%40), prefixSeed^0x11)
		w.RespPrefix = Bytes(1+int((prefixSeed>>8)%40), prefixSeed^0x12)
	case PrefixBig:
		w.ReqPrefix = Bytes(65536+1+int(prefixSeed%4000), prefixSeed^0x21)
		w.RespPrefix = Bytes(65536+1+int((prefixSeed>>8)%4000), prefixSeed^0x22)
	}
	w.UPSK = Bytes(c.KeyLen, keySeed^0x31)
	for i := 0; i < c.NIPSK; i++ {
		w.IPSKs = append(w.IPSKs, Bytes(c.KeyLen, keySeed^uint64(0x41+i)))
	}
	var err error
	if w.clientCipher, err = ss2022.NewClientCipherConfig(w.UPSK, w.IPSKs, false); err != nil {
		return nil, err
	}
	if c.NIPSK == 0 {
		if w.userCipher, err = ss2022.NewUserCipherConfig(w.UPSK, false); err != nil {
			return nil, err
		}
		return w, nil
	}
	// The repo's server consumes exactly one identity header: it holds the last iPSK.
	if w.identity, err = ss2022.NewServerIdentityCipherConfig(w.IPSKs[c.NIPSK-1], false); err != nil {
		return nil, err
	}
	w.ulm = ss2022.UserLookupMap{}
	for i := 0; i < 3; i++ {
		name, psk := fmt.Sprintf("other-%d", i), Bytes(c.KeyLen, keySeed^uint64(0x51+i))
		if i == 1 {
			name, psk = w.UserName, w.UPSK
		}
		uc, err := ss2022.NewServerUserCipherConfig(name, psk, false)
		if err != nil {
			return nil, err
		}
		w.ulm[ss2022.PSKHash(psk)] = uc
	}
	for i := 0; i+1 < c.NIPSK; i++ {
		ic, err := ss2022.NewServerIdentityCipherConfig(w.IPSKs[i], false)
		if err != nil {
			return nil, err
		}
		w.outer = append(w.outer, ic)
		w.outerExpect = append(w.outerExpect, ss2022.PSKHash(w.IPSKs[i+1]))
	}
	return w, nil
}

// NewServer returns a fresh server (empty salt pool) for this world.
func (w *World) NewServer() *ss2022.StreamServer {
	cfg := ss2022.StreamServerConfig{
		AllowSegmentedFixedLengthHeader: w.Class.Segmented,
		UserCipherConfig:                w.userCipher,
		IdentityCipherConfig:            w.identity,
		UnsafeRequestStreamPrefix:       w.ReqPrefix,
		UnsafeResponseStreamPrefix:      w.RespPrefix,
	}
	if w.Class.Fallback {
		cfg.UnsafeFallbackAddr = FallbackAddr
	}
	s := cfg.NewStreamServer()
	if w.ulm != nil {
		s.ReplaceUserLookupMap(w.ulm)
	}
	return s
}

// Link is one owned connection: C is the end handed to the client code, S the end handed to the
// server code. Both ends withhold what is written (store and forward): the harness reads the
// frames with Written() and decides what to Inject on the other end.
type Link struct {
	C, S *xnet.Conn
}

func withhold(int, []byte) [][]byte { return nil }

// NewLink returns a store-and-forward connection.
func NewLink() *Link {
	a, b := xnet.Pair()
	a.SetWriteFilter(withhold)
	b.SetWriteFilter(withhold)
	return &Link{C: a, S: b}
}

// dialer is the inner stream client given to ss2022.StreamClient.
type dialer struct{ link *Link }

func (d *dialer) NewStreamDialer() (netio.StreamDialer, netio.StreamDialerInfo) {
	return d, netio.StreamDialerInfo{Name: "xnet", NativeInitialPayload: true}
}

func (d *dialer) DialStream(_ context.Context, _ conn.Addr, payload []byte) (netio.Conn, error) {
	d.link = NewLink()
	if _, err := d.link.C.Write(payload); err != nil {
		return nil, err
	}
	return d.link.C, nil
}

// Dial runs the real client's DialStream for target with the initial payload over a fresh link.
// Every Conn.Write of the client code is one frame in link.C.Written().
func (w *World) Dial(target conn.Addr, payload []byte) (netio.Conn, *Link, error) {
	d := &dialer{}
	cc := ss2022.StreamClientConfig{
		Name:                            "c",
		InnerClient:                     d,
		Addr:                            conn.AddrFromIPAndPort(netip.IPv6Loopback(), 20220),
		AllowSegmentedFixedLengthHeader: w.Class.Segmented,
		CipherConfig:                    w.clientCipher,
		UnsafeRequestStreamPrefix:       w.ReqPrefix,
		UnsafeResponseStreamPrefix:      w.RespPrefix,
	}
	c, err := cc.NewStreamClient().DialStream(context.Background(), target, payload)
	if err != nil {
		return nil, d.link, err
	}
	return c, d.link, nil
}

// Region is a named byte range of a stream.
type Region struct {
	Name       string
	Start, End int
}

// ReqFixedEnd is the end offset of the part of the request that is read before authentication
// (prefix, salt, the identity headers the *client* writes, sealed fixed-length header).
func (w *World) ReqFixedEnd() int {
	return len(w.ReqPrefix) + w.Class.KeyLen + IdentityLen*w.Class.NIPSK + FixedReqLen + TagSize
}

// ServerFixedEnd is the same offset as seen by the server, i.e. after the relays stripped the
// outer identity headers.
func (w *World) ServerFixedEnd() int { return w.ReqFixedEnd() - w.StrippedLen() }

// StrippedLen is the number of bytes the relays remove from a request.
func (w *World) StrippedLen() int { return IdentityLen * len(w.outer) }

// RespHeaderEnd is the end offset of prefix + salt + sealed response header.
func (w *World) RespHeaderEnd() int {
	return len(w.RespPrefix) + w.Class.KeyLen + FixedReqLen + w.Class.KeyLen + TagSize
}

// ReqRegions describes the client's first frame (length n).
func (w *World) ReqRegions(n int) []Region {
	var rs []Region
	o := 0
	add := func(name string, l int) {
		if l > 0 {
			rs = append(rs, Region{name, o, o + l})
		}
		o += l
	}
	add("prefix", len(w.ReqPrefix))
	add("salt", w.Class.KeyLen)
	add("eih", IdentityLen*w.Class.NIPSK)
	add("fixed", FixedReqLen+TagSize)
	add("var", n-o)
	return rs
}

// RespRegions describes the server's first frame (length n).
func (w *World) RespRegions(n int) []Region {
	var rs []Region
	o := 0
	add := func(name string, l int) {
		if l > 0 {
			rs = append(rs, Region{name, o, o + l})
		}
		o += l
	}
	add("prefix", len(w.RespPrefix))
	add("salt", w.Class.KeyLen)
	add("resphdr", FixedReqLen+w.Class.KeyLen+TagSize)
	add("payload0", n-o)
	return rs
}

// Relay plays the chain of intermediate relays of the identity-header scheme on a request
// stream: every relay derives the identity subkey from the salt with the server-side primitive,
// decrypts the outermost identity header, checks that it names the next hop and strips it.
// It returns the stream that reaches the final server, or ok=false when a relay rejects (or
// starves on) the stream.
func (w *World) Relay(stream []byte) (out []byte, ok bool) {
	if len(w.outer) == 0 {
		return stream, true
	}
	p, s := len(w.ReqPrefix), w.Class.KeyLen
	need := p + s + IdentityLen*len(w.outer)
	if len(stream) < need {
		return nil, false
	}
	salt := stream[p : p+s]
	for i, ic := range w.outer {
		blk, err := ic.TCP(salt)
		if err != nil {
			return nil, false
		}
		var plain [IdentityLen]byte
		blk.Decrypt(plain[:], stream[p+s+IdentityLen*i:p+s+IdentityLen*(i+1)])
		if !bytes.Equal(plain[:], w.outerExpect[i][:]) {
			return nil, false
		}
	}
	out = make([]byte, 0, len(stream)-IdentityLen*len(w.outer))
	out = append(out, stream[:p+s]...)
	out = append(out, stream[need:]...)
	return out, true
}

// Target builds a destination address from a kind and a seed: IPv4, IPv6 or a domain name of
// a boundary length.
func Target(kind int, seed uint64) conn.Addr {
	port := uint16(1 + seed%65535)
	switch kind % 4 {
	case 0:
		return conn.AddrFromIPAndPort(netip.AddrFrom4([4]byte{10, byte(seed >> 8), byte(seed >> 16), byte(1 + seed%250)}), port)
	case 1:
		var a [16]byte
		Fill(a[:], seed)
		a[0] = 0x20
		return conn.AddrFromIPAndPort(netip.AddrFrom16(a), port)
	case 2:
		return conn.MustAddrFromDomainPort(fmt.Sprintf("h%d.example", seed%1000), port)
	default:
		lens := []int{1, 2, 63, 64, 253, 255}
		n := lens[int(seed>>3)%len(lens)]
		d := make([]byte, n)
		for i := range d {
			d[i] = 'a' + byte((seed+uint64(i)*7)%26)
		}
		return conn.MustAddrFromDomainPort(string(d), port)
	}
}

// Join concatenates frames.
func Join(frames [][]byte) []byte {
	n := 0
	for _, f := range frames {
		n += len(f)
	}
	out := make([]byte, 0, n)
	for _, f := range frames {
		out = append(out, f...)
	}
	return out
}
