// Package xnet holds the harness-owned transports: an in-memory netio.Conn pair whose
// fragmentation, coalescing, recording and in-flight tampering are driven by generated values.
package xnet

import (
	"io"
	"net"
	"os"
	"sync"
	"time"
)

type addr struct{}

func (addr) Network() string { return "xnet" }
func (addr) String() string  { return "xnet" }

// half is one direction of a connection: a queue of frames (one per Write of the sender).
type half struct {
	mu   sync.Mutex
	cond *sync.Cond

	frames  [][]byte // pending frames (first one may be partially consumed)
	off     int      // consumed bytes of frames[0]
	wclosed bool     // writer closed: EOF after drain
	rclosed bool     // reader closed: writes fail
	werr    error    // injected: reader sees this error after drain instead of EOF

	// plan
	Plan     []int // cyclic per-read max sizes; empty = no limit. <=0 entries mean "no limit"
	planIdx  int
	FirstMin int  // the first read is allowed to return at least this many bytes (if available)
	Coalesce bool // a read may span frames
	reads    int

	// recording
	Recorded  [][]byte // every frame as written by the sender (before Filter)
	Delivered int64    // bytes handed to the reader
	ReadSizes []int    // sizes returned by each read (capped list)

	// Filter, if set, is applied to each written frame (index counts frames written so far) and
	// returns the frames to enqueue instead. It runs under the half's lock.
	Filter func(idx int, frame []byte) [][]byte
	widx   int

	rdeadline time.Time
	rtimer    *time.Timer
	wdeadline time.Time // writes never block, but an expired write deadline fails them (net.Conn semantics)
}

func newHalf() *half {
	h := &half{}
	h.cond = sync.NewCond(&h.mu)
	return h
}

func (h *half) write(b []byte) (int, error) {
	h.mu.Lock()
	defer h.mu.Unlock()
	if h.wclosed {
		return 0, io.ErrClosedPipe
	}
	if h.rclosed {
		return 0, io.ErrClosedPipe
	}
	if !h.wdeadline.IsZero() && !time.Now().Before(h.wdeadline) {
		return 0, os.ErrDeadlineExceeded
	}
	cp := append([]byte(nil), b...)
	h.Recorded = append(h.Recorded, cp)
	out := [][]byte{cp}
	if h.Filter != nil {
		out = h.Filter(h.widx, append([]byte(nil), b...))
	}
	h.widx++
	for _, f := range out {
		if len(f) > 0 {
			h.frames = append(h.frames, f)
		}
	}
	h.cond.Broadcast()
	return len(b), nil
}

func (h *half) read(b []byte) (int, error) {
	h.mu.Lock()
	defer h.mu.Unlock()
	for {
		if h.rclosed {
			return 0, io.ErrClosedPipe
		}
		if len(h.frames) > 0 {
			break
		}
		if h.wclosed {
			if h.werr != nil {
				return 0, h.werr
			}
			return 0, io.EOF
		}
		if !h.rdeadline.IsZero() && !time.Now().Before(h.rdeadline) {
			return 0, os.ErrDeadlineExceeded
		}
		h.cond.Wait()
	}
	if len(b) == 0 {
		return 0, nil
	}
	limit := len(b)
	if len(h.Plan) > 0 {
		p := h.Plan[h.planIdx%len(h.Plan)]
		h.planIdx++
		if p > 0 && p < limit {
			limit = p
		}
	}
	if h.reads == 0 && h.FirstMin > limit {
		limit = min(h.FirstMin, len(b))
	}
	h.reads++
	n := 0
	for n < limit && len(h.frames) > 0 {
		f := h.frames[0][h.off:]
		c := copy(b[n:limit], f)
		n += c
		h.off += c
		if h.off == len(h.frames[0]) {
			h.frames = h.frames[1:]
			h.off = 0
			if !h.Coalesce {
				break
			}
		}
	}
	h.Delivered += int64(n)
	if len(h.ReadSizes) < 64 {
		h.ReadSizes = append(h.ReadSizes, n)
	}
	return n, nil
}

func (h *half) closeWrite() {
	h.mu.Lock()
	h.wclosed = true
	h.cond.Broadcast()
	h.mu.Unlock()
}

func (h *half) closeRead() {
	h.mu.Lock()
	h.rclosed = true
	h.cond.Broadcast()
	h.mu.Unlock()
}

func (h *half) setWriteDeadline(t time.Time) {
	h.mu.Lock()
	h.wdeadline = t
	h.mu.Unlock()
}

func (h *half) setReadDeadline(t time.Time) {
	h.mu.Lock()
	defer h.mu.Unlock()
	h.rdeadline = t
	if h.rtimer != nil {
		h.rtimer.Stop()
		h.rtimer = nil
	}
	if !t.IsZero() {
		d := time.Until(t)
		if d <= 0 {
			h.cond.Broadcast()
		} else {
			h.rtimer = time.AfterFunc(d, func() {
				h.mu.Lock()
				h.cond.Broadcast()
				h.mu.Unlock()
			})
		}
	}
}

// Conn is one end of an owned in-memory connection. It implements netio.Conn.
type Conn struct {
	rd *half // direction peer -> this
	wr *half // direction this -> peer
}

// Pair returns the two ends of a fresh connection.
func Pair() (a, b *Conn) {
	ab, ba := newHalf(), newHalf()
	return &Conn{rd: ba, wr: ab}, &Conn{rd: ab, wr: ba}
}

func (c *Conn) Read(b []byte) (int, error)  { return c.rd.read(b) }
func (c *Conn) Write(b []byte) (int, error) { return c.wr.write(b) }
func (c *Conn) CloseWrite() error           { c.wr.closeWrite(); return nil }
func (c *Conn) CloseRead() error            { c.rd.closeRead(); return nil }
func (c *Conn) Close() error                { c.wr.closeWrite(); c.rd.closeRead(); return nil }
func (c *Conn) LocalAddr() net.Addr         { return addr{} }
func (c *Conn) RemoteAddr() net.Addr        { return addr{} }
func (c *Conn) SetDeadline(t time.Time) error {
	c.rd.setReadDeadline(t)
	c.wr.setWriteDeadline(t)
	return nil
}
func (c *Conn) SetReadDeadline(t time.Time) error  { c.rd.setReadDeadline(t); return nil }
func (c *Conn) SetWriteDeadline(t time.Time) error { c.wr.setWriteDeadline(t); return nil }

// SetReadPlan controls how the bytes written by the peer are cut up when this end reads them.
func (c *Conn) SetReadPlan(plan []int, firstMin int, coalesce bool) {
	c.rd.mu.Lock()
	c.rd.Plan, c.rd.FirstMin, c.rd.Coalesce = plan, firstMin, coalesce
	c.rd.mu.Unlock()
}

// SetWriteFilter installs a tamper function on the frames this end writes.
func (c *Conn) SetWriteFilter(f func(idx int, frame []byte) [][]byte) {
	c.wr.mu.Lock()
	c.wr.Filter = f
	c.wr.mu.Unlock()
}

// Written returns copies of the frames this end has written so far (one per Write call).
func (c *Conn) Written() [][]byte {
	c.wr.mu.Lock()
	defer c.wr.mu.Unlock()
	return append([][]byte(nil), c.wr.Recorded...)
}

// DeliveredToMe returns how many bytes this end's reader has consumed.
func (c *Conn) DeliveredToMe() int64 {
	c.rd.mu.Lock()
	defer c.rd.mu.Unlock()
	return c.rd.Delivered
}

// ReadSizes returns the sizes of the first reads performed on this end.
func (c *Conn) ReadSizes() []int {
	c.rd.mu.Lock()
	defer c.rd.mu.Unlock()
	return append([]int(nil), c.rd.ReadSizes...)
}

// Inject enqueues raw bytes towards this end's reader as if the peer had written them
// (not recorded, not filtered).
func (c *Conn) Inject(b []byte) {
	c.rd.mu.Lock()
	if len(b) > 0 {
		c.rd.frames = append(c.rd.frames, append([]byte(nil), b...))
	}
	c.rd.cond.Broadcast()
	c.rd.mu.Unlock()
}

// EndInput makes this end's reader see EOF once the queue drains.
func (c *Conn) EndInput() { c.rd.closeWrite() }
