package mmdbx

import (
	"fmt"
	"net/netip"
	"testing"

	"github.com/oschwald/geoip2-golang/v2"
	"github.com/oschwald/maxminddb-golang/v2"
	"pgregory.net/rapid"
)

var testPool = func() []netip.Prefix {
	var out []netip.Prefix
	for _, s := range []string{
		"0.0.0.0/0", "0.0.0.0/1", "128.0.0.0/1", "10.0.0.0/8", "10.1.0.0/16", "10.1.2.0/24", "10.1.2.128/25", "10.1.2.3/32",
		"0.0.0.0/32", "255.255.255.255/32", "192.168.0.0/16", "172.16.0.0/12", "127.0.0.1/32",
		"::/0", "::/1", "8000::/1", "::/80", "::/64", "2001:db8::/32", "2001:db8:1::/48", "2001:db8:1:2::/64", "2001:db8::1/128",
		"fd00::/8", "fe80::/10", "ffff:ffff:ffff:ffff:ffff:ffff:ffff:ffff/128", "0:0:0:0:1::/80", "2002::/16",
	} {
		out = append(out, netip.MustParsePrefix(s))
	}
	return out
}()

var testCountries = []string{"CN", "US", "DE", "JP", ""}

func drawEntries(rt *rapid.T) []Entry {
	n := rapid.IntRange(0, 10).Draw(rt, "n")
	var es []Entry
	for i := 0; i < n; i++ {
		var p netip.Prefix
		if rapid.IntRange(0, 3).Draw(rt, "random") == 0 {
			var b [16]byte
			for j := range b {
				b[j] = rapid.Byte().Draw(rt, "b")
			}
			if rapid.Bool().Draw(rt, "v4") {
				p = netip.PrefixFrom(netip.AddrFrom4([4]byte(b[:4])), rapid.IntRange(0, 32).Draw(rt, "bits")).Masked()
			} else {
				b[0] |= 0x20 // keep away from ::/80
				p = netip.PrefixFrom(netip.AddrFrom16(b), rapid.IntRange(0, 128).Draw(rt, "bits")).Masked()
			}
		} else {
			p = rapid.SampledFrom(testPool).Draw(rt, "p")
		}
		e := Entry{Prefix: p, Country: rapid.SampledFrom(testCountries).Draw(rt, "c"), Registered: rapid.SampledFrom(testCountries).Draw(rt, "r")}
		if Check(e) != nil {
			continue
		}
		es = append(es, e)
	}
	return es
}

// TestWriterAgainstReader: every boundary address of every network, in IPv4, IPv4-mapped and IPv6
// form, read through geoip2.Reader.Country gives what the naive longest-prefix table gives.
func TestWriterAgainstReader(t *testing.T) {
	var cases, lookups, found, notFound, mapped, nested, verified int
	rapid.Check(t, func(rt *rapid.T) {
		es := drawEntries(rt)
		o := Options{
			RecordSize: rapid.SampledFrom([]int{0, 24, 28, 32}).Draw(rt, "rs"),
			NoAlias:    rapid.IntRange(0, 3).Draw(rt, "noalias") == 0,
			Pointers:   rapid.Bool().Draw(rt, "pointers"),
			BuildEpoch: uint64(rapid.IntRange(0, 1<<40).Draw(rt, "epoch")),
		}
		b, err := Build(es, o)
		if err != nil {
			rt.Fatalf("Build(%v, %+v): %v", es, o, err)
		}
		r, err := geoip2.OpenBytes(b)
		if err != nil {
			rt.Fatalf("OpenBytes: %v (entries %v options %+v)", err, es, o)
		}
		md := r.Metadata()
		wantRS := uint(o.RecordSize)
		if wantRS == 0 {
			wantRS = 24
		}
		if md.DatabaseType != "GeoLite2-Country" || md.IPVersion != 6 || md.RecordSize != wantRS || md.BinaryFormatMajorVersion != 2 ||
			md.BinaryFormatMinorVersion != 0 || md.BuildEpoch != uint(o.BuildEpoch) || len(md.Languages) != 1 || md.Description["en"] == "" {
			rt.Fatalf("metadata %+v", md)
		}
		if !o.Pointers {
			// the strict verifier wants every top-level datum referenced from the tree, which shared
			// sub-maps are not
			mr, err := maxminddb.OpenBytes(b)
			if err != nil {
				rt.Fatalf("maxminddb.OpenBytes: %v", err)
			}
			if err := mr.Verify(); err != nil {
				rt.Fatalf("Verify: %v (entries %v options %+v)", err, es, o)
			}
			verified++
		}
		tab := Table{Entries: es, NoAlias: o.NoAlias}
		probes := Probes(es)
		for _, s := range []string{"0.0.0.0", "255.255.255.255", "8.8.8.8", "::", "::1", "::ffff:8.8.8.8", "::8.8.8.8", "2606:4700::1111", "ffff::", "0:0:0:0:0:8000::"} {
			probes = append(probes, netip.MustParseAddr(s))
		}
		for _, a := range probes {
			want, ok := tab.Lookup(a)
			got, err := r.Country(a)
			if err != nil {
				rt.Fatalf("Country(%v): %v (entries %v options %+v)", a, err, es, o)
			}
			lookups++
			if a.Is4In6() {
				mapped++
			}
			if ok {
				found++
				if want.Prefix.Bits() > 0 {
					if outer, ok2 := (Table{Entries: without(es, want), NoAlias: o.NoAlias}).Lookup(a); ok2 && outer.Country != want.Country {
						nested++
					}
				}
			} else {
				notFound++
			}
			if got.Country.ISOCode != want.Country || got.RegisteredCountry.ISOCode != want.Registered || got.HasData() != ok {
				rt.Fatalf("Country(%v) = country %q registered %q hasData %v, table says %+v found=%v (entries %v options %+v)",
					a, got.Country.ISOCode, got.RegisteredCountry.ISOCode, got.HasData(), want, ok, es, o)
			}
			if ok && got.Continent.Code != "NA" {
				rt.Fatalf("Country(%v): continent %q", a, got.Continent.Code)
			}
			if ok && want.Country != "" && (got.Country.Names.English != "Country "+want.Country || got.Country.GeoNameID == 0) {
				rt.Fatalf("Country(%v): names %+v id %d", a, got.Country.Names, got.Country.GeoNameID)
			}
		}
		cases++
	})
	t.Log(fmt.Sprintf("cases %d lookups %d found %d not-found %d mapped %d nested-deciding %d verified %d", cases, lookups, found, notFound, mapped, nested, verified))
	if found == 0 || notFound == 0 || mapped == 0 || nested == 0 || verified == 0 {
		t.Fatalf("self-check did not exercise a class")
	}
}

func without(es []Entry, e Entry) []Entry {
	var out []Entry
	for _, x := range es {
		if x.Prefix != e.Prefix {
			out = append(out, x)
		}
	}
	return out
}

func TestRefused(t *testing.T) {
	for _, s := range []string{"::ffff:10.0.0.0/104", "::1/128", "::/96", "::/81", "0:0:0:0:0:ffff::/96"} {
		if _, err := Build([]Entry{{Prefix: netip.MustParsePrefix(s), Country: "US"}}, Options{}); err == nil {
			t.Errorf("%s accepted", s)
		}
	}
	if _, err := Build(nil, Options{RecordSize: 20}); err == nil {
		t.Errorf("record size 20 accepted")
	}
}
