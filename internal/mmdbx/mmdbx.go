// Package mmdbx is an independent writer for the MaxMind DB file format 2.0 (the format of the
// GeoLite2 Country database), written from the format specification
// (https://maxmind.github.io/MaxMind-DB/) for the harness: the C09 check needs country databases
// with known content and none exists offline. It uses the standard library only and shares no code
// with the readers (github.com/oschwald/maxminddb-golang, geoip2-golang) it is read back with.
//
// File layout: binary search tree (node_count nodes, two records of record_size bits each),
// 16 zero bytes, data section, the marker "\xab\xcd\xefMaxMind.com", metadata map.
//
// The tree is always an IPv6 tree (ip_version 6). An IPv4 network a.b.c.d/n is stored as
// ::a.b.c.d/(96+n) ("they occupy the first 32 bits of the address space"), and, like the databases
// MaxMind publishes, ::ffff:0:0/96 is an alias of the IPv4 subtree unless Options.NoAlias is set.
//
// Table is the reference: a linear longest-prefix scan over the same entries. The package test
// compares the two through geoip2.Reader for every boundary address.
package mmdbx

import (
	"bytes"
	"encoding/binary"
	"errors"
	"fmt"
	"net/netip"
	"sort"
)

// Entry is one network of the database.
type Entry struct {
	Prefix netip.Prefix // IPv4 or IPv6 network (an IPv4-mapped IPv6 prefix is refused)
	// Country is the value of country.iso_code. With "" the record has no "country" map at all (the
	// GeoLite2 databases contain such records: only continent / registered_country).
	Country string
	// Registered is the value of registered_country.iso_code ("" = no such map). It is a decoy: the
	// country of an address is country.iso_code.
	Registered string
}

// Options of the writer.
type Options struct {
	RecordSize   int    // 24, 28 or 32; 0 means 24
	NoAlias      bool   // do not make ::ffff:0:0/96 an alias of the IPv4 subtree
	DatabaseType string // "" means "GeoLite2-Country"
	Pointers     bool   // store the continent / country maps once and reference them with data-section pointers
	BuildEpoch   uint64
}

// Table is the naive reference for a list of entries.
type Table struct {
	Entries []Entry
	NoAlias bool
}

var mappedPrefix = netip.MustParsePrefix("::ffff:0:0/96")

// key128 returns the position of an address in the IPv6 tree.
func key128(a netip.Addr, alias bool) [16]byte {
	switch {
	case a.Is4():
		var k [16]byte
		v4 := a.As4()
		copy(k[12:], v4[:])
		return k
	case a.Is4In6() && alias:
		var k [16]byte
		b := a.As16()
		copy(k[12:], b[12:])
		return k
	}
	return a.As16()
}

// entryKey returns the tree position and depth of an entry.
func entryKey(p netip.Prefix) ([16]byte, int) {
	p = p.Masked()
	if p.Addr().Is4() {
		return key128(p.Addr(), false), 96 + p.Bits()
	}
	return p.Addr().As16(), p.Bits()
}

func hasPrefixBits(k, p [16]byte, n int) bool {
	for i := 0; i < n; i++ {
		m := byte(1) << (7 - uint(i%8))
		if k[i/8]&m != p[i/8]&m {
			return false
		}
	}
	return true
}

// Lookup returns the entry the database holds for an address: the longest network that contains
// it (of equally long ones the later entry); found is false when no network contains it.
func (t Table) Lookup(a netip.Addr) (e Entry, found bool) {
	k := key128(a, !t.NoAlias)
	best := -1
	for _, c := range t.Entries {
		pk, n := entryKey(c.Prefix)
		if n >= best && hasPrefixBits(k, pk, n) {
			best, e, found = n, c, true
		}
	}
	return
}

// Check reports why an entry cannot be stored.
func Check(e Entry) error {
	p := e.Prefix
	if !p.IsValid() {
		return errors.New("invalid prefix")
	}
	a := p.Addr()
	if a.Is4() {
		return nil
	}
	if a.Is4In6() {
		return errors.New("IPv4-mapped prefix: write it as an IPv4 network")
	}
	// ::/80 holds the IPv4 subtree (::/96) and its alias (::ffff:0:0/96); only IPv4 entries may go
	// deeper than 80 bits there, so that both paths to the IPv4 subtree inherit the same record.
	if p.Bits() > 80 && netip.PrefixFrom(netip.IPv6Unspecified(), 80).Contains(a) {
		return errors.New("IPv6 network longer than /80 inside ::/80 (reserved for the IPv4 subtree and its alias)")
	}
	return nil
}

type tnode struct {
	child [2]*tnode
	data  int // index of the record stored exactly here, -1 none
	id    int // node number once numbered, -1
	inh   int // record inherited from shorter networks, -1 none
	seen  bool
}

func newNode() *tnode { return &tnode{data: -1, id: -1, inh: -1} }

func (n *tnode) leaf() bool { return n.child[0] == nil && n.child[1] == nil }

func bitAt(k [16]byte, i int) int { return int(k[i/8]>>(7-uint(i%8))) & 1 }

// Build writes the database.
func Build(entries []Entry, o Options) ([]byte, error) {
	rs := o.RecordSize
	if rs == 0 {
		rs = 24
	}
	if rs != 24 && rs != 28 && rs != 32 {
		return nil, fmt.Errorf("mmdbx: record size %d", rs)
	}
	dbType := o.DatabaseType
	if dbType == "" {
		dbType = "GeoLite2-Country"
	}

	// ---- records: one per distinct (country, registered) pair
	type recKey struct{ c, r string }
	var data dataWriter
	data.pointers = o.Pointers
	recIndex := map[recKey]int{}
	var order []recKey
	// of equal networks only the last entry is stored
	lastOf := map[netip.Prefix]int{}
	for i, e := range entries {
		if err := Check(e); err != nil {
			return nil, fmt.Errorf("mmdbx: %v: %w", e.Prefix, err)
		}
		lastOf[e.Prefix.Masked()] = i
	}
	var eff []Entry
	for i, e := range entries {
		if lastOf[e.Prefix.Masked()] == i {
			eff = append(eff, e)
		}
	}
	entries = eff
	for _, e := range entries {
		k := recKey{e.Country, e.Registered}
		if _, ok := recIndex[k]; !ok {
			recIndex[k] = len(order)
			order = append(order, k)
		}
	}
	// ---- trie
	root := newNode()
	for _, e := range entries {
		k, depth := entryKey(e.Prefix)
		n := root
		for i := 0; i < depth; i++ {
			b := bitAt(k, i)
			if n.child[b] == nil {
				n.child[b] = newNode()
			}
			n = n.child[b]
		}
		n.data = recIndex[recKey{e.Country, e.Registered}] // the later entry replaces an equal network
	}
	if !o.NoAlias {
		v4 := root
		for i := 0; i < 96 && v4 != nil; i++ {
			v4 = v4.child[0]
		}
		if v4 != nil {
			k := mappedPrefix.Addr().As16()
			n := root
			for i := 0; i < 95; i++ {
				b := bitAt(k, i)
				if n.child[b] == nil {
					n.child[b] = newNode()
				}
				n = n.child[b]
			}
			n.child[1] = v4
		}
	}

	// ---- number the nodes breadth first (root = node 0; a node is a trie vertex with a child)
	var nodes []*tnode
	root.id, root.seen = 0, true
	nodes = append(nodes, root)
	for i := 0; i < len(nodes); i++ {
		n := nodes[i]
		down := n.inh
		if n.data >= 0 {
			down = n.data
		}
		for _, c := range n.child {
			if c == nil || c.leaf() {
				continue
			}
			if c.seen {
				if c.inh != down {
					return nil, errors.New("mmdbx: aliased subtree inherits different records on its two paths")
				}
				continue
			}
			c.seen, c.inh, c.id = true, down, len(nodes)
			nodes = append(nodes, c)
		}
	}
	nodeCount := len(nodes)
	// what a record holds: a node number (>= 0), or -1-rec for the record rec, or -1-len(order) for "no data"
	none := -1 - len(order)
	rec := func(r int) int {
		if r < 0 {
			return none
		}
		return -1 - r
	}
	record := func(n *tnode, side int) int {
		down := n.inh
		if n.data >= 0 {
			down = n.data
		}
		c := n.child[side]
		switch {
		case c == nil:
			return rec(down)
		case c.leaf():
			if c.data >= 0 {
				return rec(c.data)
			}
			return rec(down)
		}
		return c.id
	}

	// ---- data section: only the records the tree refers to (a network can be covered entirely by
	// longer ones), in entry order
	used := make([]bool, len(order))
	for _, n := range nodes {
		for side := 0; side < 2; side++ {
			if v := record(n, side); v < 0 && v != none {
				used[-1-v] = true
			}
		}
	}
	if o.Pointers {
		// shared sub-maps first, records after them
		data.shared = map[string]int{}
		data.share("continent", continentMap())
		for i, k := range order {
			if !used[i] {
				continue
			}
			if k.c != "" {
				data.share("c:"+k.c, countryMap(k.c))
			}
			if k.r != "" {
				data.share("c:"+k.r, countryMap(k.r))
			}
		}
	}
	recOffsets := make([]int, len(order))
	for i, k := range order {
		if used[i] {
			recOffsets[i] = data.buf.Len()
			data.record(k.c, k.r)
		}
	}
	value := func(v int) uint32 {
		switch {
		case v >= 0:
			return uint32(v)
		case v == none:
			return uint32(nodeCount) // "no data for this network"
		}
		return uint32(nodeCount + 16 + recOffsets[-1-v])
	}
	limit := uint64(1) << uint(rs)
	if uint64(nodeCount+16+data.buf.Len()) >= limit {
		return nil, fmt.Errorf("mmdbx: database too large for %d-bit records", rs)
	}

	var out bytes.Buffer
	for _, n := range nodes {
		l, r := value(record(n, 0)), value(record(n, 1))
		switch rs {
		case 24:
			out.Write([]byte{byte(l >> 16), byte(l >> 8), byte(l), byte(r >> 16), byte(r >> 8), byte(r)})
		case 28:
			out.Write([]byte{byte(l >> 16), byte(l >> 8), byte(l), byte(l>>24)<<4 | byte(r>>24)&0x0f, byte(r >> 16), byte(r >> 8), byte(r)})
		case 32:
			var b [8]byte
			binary.BigEndian.PutUint32(b[:4], l)
			binary.BigEndian.PutUint32(b[4:], r)
			out.Write(b[:])
		}
	}
	out.Write(make([]byte, 16))
	out.Write(data.buf.Bytes())
	out.WriteString("\xab\xcd\xefMaxMind.com")

	var md dataWriter
	md.mapHeader(9)
	md.str("binary_format_major_version")
	md.uint(5, 2)
	md.str("binary_format_minor_version")
	md.uint(5, 0)
	md.str("build_epoch")
	md.uint(9, o.BuildEpoch)
	md.str("database_type")
	md.str(dbType)
	md.str("description")
	md.mapHeader(1)
	md.str("en")
	md.str("harness-built country database")
	md.str("ip_version")
	md.uint(5, 6)
	md.str("languages")
	md.arrayHeader(1)
	md.str("en")
	md.str("node_count")
	md.uint(6, uint64(nodeCount))
	md.str("record_size")
	md.uint(5, uint64(rs))
	out.Write(md.buf.Bytes())
	return out.Bytes(), nil
}

// ---- data encoding (MaxMind DB data section)

type dataWriter struct {
	buf      bytes.Buffer
	pointers bool
	shared   map[string]int // name -> offset of a stand-alone datum
}

// control writes the control byte(s) for a type and a payload size.
func (w *dataWriter) control(typ int, size int) {
	first := byte(0)
	var ext []byte
	if typ <= 7 {
		first = byte(typ) << 5
	} else {
		ext = []byte{byte(typ - 7)}
	}
	var sz []byte
	switch {
	case size < 29:
		first |= byte(size)
	case size < 29+256:
		first |= 29
		sz = []byte{byte(size - 29)}
	case size < 285+65536:
		first |= 30
		v := size - 285
		sz = []byte{byte(v >> 8), byte(v)}
	default:
		first |= 31
		v := size - 65821
		sz = []byte{byte(v >> 16), byte(v >> 8), byte(v)}
	}
	w.buf.WriteByte(first)
	w.buf.Write(ext)
	w.buf.Write(sz)
}

func (w *dataWriter) str(s string) {
	w.control(2, len(s))
	w.buf.WriteString(s)
}

// uint writes an unsigned integer of type 5 (uint16), 6 (uint32) or 9 (uint64) in the shortest form.
func (w *dataWriter) uint(typ int, v uint64) {
	var b [8]byte
	binary.BigEndian.PutUint64(b[:], v)
	i := 0
	for i < 8 && b[i] == 0 {
		i++
	}
	w.control(typ, 8-i)
	w.buf.Write(b[i:])
}

func (w *dataWriter) boolean(v bool) {
	n := 0
	if v {
		n = 1
	}
	w.control(14, n)
}

func (w *dataWriter) mapHeader(n int)   { w.control(7, n) }
func (w *dataWriter) arrayHeader(n int) { w.control(11, n) }

// pointer writes a pointer to an offset of the data section.
func (w *dataWriter) pointer(off int) {
	switch {
	case off < 2048:
		w.buf.Write([]byte{1<<5 | 0<<3 | byte(off>>8), byte(off)})
	case off < 2048+1<<19:
		v := off - 2048
		w.buf.Write([]byte{1<<5 | 1<<3 | byte(v>>16), byte(v >> 8), byte(v)})
	case off < 526336+1<<27:
		v := off - 526336
		w.buf.Write([]byte{1<<5 | 2<<3 | byte(v>>24), byte(v >> 16), byte(v >> 8), byte(v)})
	default:
		w.buf.Write([]byte{1<<5 | 3<<3, byte(off >> 24), byte(off >> 16), byte(off >> 8), byte(off)})
	}
}

type kv struct {
	k string
	v any // string, uint64, bool, []kv
}

func (w *dataWriter) value(v any) {
	switch x := v.(type) {
	case string:
		w.str(x)
	case uint64:
		w.uint(6, x)
	case bool:
		w.boolean(x)
	case []kv:
		w.mapHeader(len(x))
		for _, e := range x {
			w.str(e.k)
			w.value(e.v)
		}
	default:
		panic("mmdbx: unsupported value")
	}
}

func (w *dataWriter) share(name string, m []kv) {
	if _, ok := w.shared[name]; ok {
		return
	}
	w.shared[name] = w.buf.Len()
	w.value(m)
}

func continentMap() []kv {
	return []kv{{"code", "NA"}, {"geoname_id", uint64(6255149)}, {"names", []kv{{"en", "North America"}, {"de", "Nordamerika"}}}}
}

func geonameID(code string) uint64 {
	var h uint64 = 1
	for i := 0; i < len(code); i++ {
		h = h*131 + uint64(code[i])
	}
	return h%4000000 + 1
}

func countryMap(code string) []kv {
	return []kv{{"geoname_id", geonameID(code)}, {"is_in_european_union", code == "DE" || code == "FR"}, {"iso_code", code}, {"names", []kv{{"en", "Country " + code}}}}
}

// record writes the record of one network.
func (w *dataWriter) record(country, registered string) {
	type member struct {
		key    string
		shared string
		m      []kv
	}
	ms := []member{{"continent", "continent", continentMap()}}
	if country != "" {
		ms = append(ms, member{"country", "c:" + country, countryMap(country)})
	}
	if registered != "" {
		ms = append(ms, member{"registered_country", "c:" + registered, countryMap(registered)})
	}
	sort.Slice(ms, func(i, j int) bool { return ms[i].key < ms[j].key })
	w.mapHeader(len(ms))
	for _, m := range ms {
		w.str(m.key)
		if w.pointers {
			w.pointer(w.shared[m.shared])
		} else {
			w.value(m.m)
		}
	}
}

// Last returns the last address of a prefix.
func Last(p netip.Prefix) netip.Addr {
	p = p.Masked()
	a := p.Addr().AsSlice()
	for i := p.Bits(); i < len(a)*8; i++ {
		a[i/8] |= 1 << (7 - uint(i%8))
	}
	out, _ := netip.AddrFromSlice(a)
	return out
}

// Probes returns the addresses that decide a table: first, last, first-1 and last+1 of every
// network, in the family of the network, and for IPv4 networks also in IPv4-mapped form.
func Probes(entries []Entry) []netip.Addr {
	seen := map[netip.Addr]bool{}
	var out []netip.Addr
	add := func(a netip.Addr) {
		if a.IsValid() && !seen[a] {
			seen[a] = true
			out = append(out, a)
		}
	}
	for _, e := range entries {
		first := e.Prefix.Masked().Addr()
		last := Last(e.Prefix)
		for _, a := range []netip.Addr{first, last, first.Prev(), last.Next()} {
			if !a.IsValid() {
				continue
			}
			add(a)
			if a.Is4() {
				add(netip.AddrFrom16(a.As16()))
			}
		}
	}
	return out
}
