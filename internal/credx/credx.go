// Package credx is the shared rig of the C08 and C20 checks: a multi-user Shadowsocks 2022
// server (TCP and/or UDP protocol objects wired exactly like service/server.go does), the
// credential manager that owns its uPSK store file, and the ssm management handlers mounted on
// an in-process mux. It also holds the harness-side reference pieces: a store-file codec
// written from the README, and real-client handshake probes.
package credx

import (
	"bytes"
	"context"
	"crypto/sha256"
	"encoding/base64"
	"encoding/json"
	"errors"
	"fmt"
	"io"
	"net/http"
	"net/http/httptest"
	"net/netip"
	"os"
	"path/filepath"
	"sort"
	"strings"
	"sync"
	"time"

	"github.com/database64128/shadowsocks-go/api/ssm"
	"github.com/database64128/shadowsocks-go/conn"
	"github.com/database64128/shadowsocks-go/cred"
	"github.com/database64128/shadowsocks-go/netio"
	"github.com/database64128/shadowsocks-go/ss2022"
	"github.com/database64128/shadowsocks-go/stats"
	"go.uber.org/zap"

	"verif/internal/xnet"
)

// Mode says which protocol objects (and therefore which live credential stores) exist.
type Mode int

const (
	TCPOnly Mode = 1
	UDPOnly Mode = 2
	Both    Mode = 3
)

func (m Mode) String() string { return [...]string{"?", "tcp", "udp", "both"}[m] }
func (m Mode) HasTCP() bool   { return m&TCPOnly != 0 }
func (m Mode) HasUDP() bool   { return m&UDPOnly != 0 }

// ServerName is the name the rig's server is registered under.
const ServerName = "ss"

// Key derives the i-th universe key of the given length (deterministic, all distinct).
func Key(keyLen, i int) []byte {
	h := sha256.Sum256([]byte(fmt.Sprintf("verif-upsk-%d-%d", keyLen, i)))
	return append([]byte(nil), h[:keyLen]...)
}

// IPSK is the identity key of the rig's server for the given key length.
func IPSK(keyLen int) []byte {
	h := sha256.Sum256([]byte(fmt.Sprintf("verif-ipsk-%d", keyLen)))
	return append([]byte(nil), h[:keyLen]...)
}

// Rig is one running multi-user server with its credential manager and management API.
type Rig struct {
	Name   string // server name in the manager and in API paths
	KeyLen int
	Mode   Mode
	Path   string
	TCP    *ss2022.StreamServer
	UDP    *ss2022.UDPServer
	Mgr    *cred.Manager
	MS     *cred.ManagedServer
	Mux    *http.ServeMux
	Logger *zap.Logger
	ipsk   []byte
}

// register adapts the module-internal handler type of api/ssm to a mux without naming it: when
// the generic function itself is passed to RegisterHandlers, H is inferred from the parameter
// type. The mux being populated is a package variable because the function value cannot close
// over anything; mountMu serialises registrations.
var (
	mountMu  sync.Mutex
	mountMux *http.ServeMux
)

func register[H ~func(http.ResponseWriter, *http.Request) (int, error)](method, path string, h H) {
	mountMux.HandleFunc(method+" "+path, func(w http.ResponseWriter, r *http.Request) {
		_, _ = h(w, r)
	})
}

// NewRig builds the protocol objects the way service/server.go does for a server with
// uPSKStorePath set (identity cipher from the server PSK, no single-user cipher), registers
// them with a fresh credential manager on the store file at path, and mounts the ssm handlers.
// The error is RegisterServer's: the store file could not be loaded at start-up.
func NewRig(path string, keyLen int, mode Mode, logger *zap.Logger) (*Rig, error) {
	rigs, err := NewMultiRig([]ServerSpec{{Name: ServerName, Path: path, KeyLen: keyLen, Mode: mode}}, logger)
	if err != nil {
		return nil, err
	}
	return rigs[0], nil
}

// ServerSpec describes one multi-user server of a multi-server rig.
type ServerSpec struct {
	Name   string
	Path   string
	KeyLen int
	Mode   Mode
}

// NewMultiRig registers several multi-user servers (each with its own protocol objects and
// store file) with ONE credential manager and mounts one ssm API for all of them, as
// service.Config.Manager does for a configuration with several servers. The returned rigs
// share Mgr and Mux; each addresses its own server.
func NewMultiRig(specs []ServerSpec, logger *zap.Logger) ([]*Rig, error) {
	if logger == nil {
		logger = zap.NewNop()
	}
	mgr := cred.NewManager(logger)
	mux := http.NewServeMux()
	byName := map[string]ssm.Server{}
	var names []string
	var rigs []*Rig
	for _, sp := range specs {
		r := &Rig{Name: sp.Name, KeyLen: sp.KeyLen, Mode: sp.Mode, Path: sp.Path, Logger: logger, ipsk: IPSK(sp.KeyLen), Mgr: mgr, Mux: mux}
		icc, err := ss2022.NewServerIdentityCipherConfig(r.ipsk, sp.Mode.HasUDP())
		if err != nil {
			return nil, err
		}
		var tcpStore, udpStore *ss2022.CredStore
		if sp.Mode.HasTCP() {
			scc := ss2022.StreamServerConfig{IdentityCipherConfig: icc, RejectPolicy: ss2022.JustClose}
			r.TCP = scc.NewStreamServer()
			tcpStore = &r.TCP.CredStore
		}
		if sp.Mode.HasUDP() {
			r.UDP = ss2022.NewUDPServer(0, ss2022.UserCipherConfig{}, icc, ss2022.NoPadding)
			udpStore = &r.UDP.CredStore
		}
		r.MS, err = mgr.RegisterServer(sp.Name, sp.Path, sp.KeyLen, tcpStore, udpStore)
		if err != nil {
			return nil, err
		}
		byName[sp.Name] = ssm.Server{CredentialManager: r.MS, StatsCollector: stats.Config{Enabled: true}.Collector()}
		names = append(names, sp.Name)
		rigs = append(rigs, r)
	}
	sm := ssm.NewServerManager(byName, names)
	mountMu.Lock()
	mountMux = mux
	sm.RegisterHandlers(register)
	mountMux = nil
	mountMu.Unlock()
	return rigs, nil
}

// Start starts the manager's save goroutine(s); Stop waits for them (cancel ctx first).
func (r *Rig) Start(ctx context.Context) { _ = r.Mgr.Start(ctx) }
func (r *Rig) Stop()                     { _ = r.Mgr.Stop() }

// Do performs one management API request in-process and returns status and body.
func (r *Rig) Do(method, path string, body any) (int, []byte) {
	var rd io.Reader
	if body != nil {
		b, err := json.Marshal(body)
		if err != nil {
			panic(err)
		}
		rd = bytes.NewReader(b)
	}
	req := httptest.NewRequest(method, path, rd)
	rec := httptest.NewRecorder()
	r.Mux.ServeHTTP(rec, req)
	return rec.Code, rec.Body.Bytes()
}

// DoRaw performs one management API request with the given raw body bytes (nil: no body) and
// an already escaped request path.
func (r *Rig) DoRaw(method, path string, body []byte) (int, []byte) {
	var rd io.Reader
	if body != nil {
		rd = bytes.NewReader(body)
	}
	req := httptest.NewRequest(method, path, rd)
	rec := httptest.NewRecorder()
	r.Mux.ServeHTTP(rec, req)
	return rec.Code, rec.Body.Bytes()
}

// UsersPath is the path of the users collection of the rig's server.
const UsersPath = usersPath

const usersPath = "/servers/" + ServerName + "/users"

func (r *Rig) usersPath() string { return "/servers/" + r.Name + "/users" }

// GetUser returns what GET /servers/{server}/users/{name} reports (status, key).
func (r *Rig) GetUser(name string) (int, []byte) {
	code, body := r.Do(http.MethodGet, r.usersPath()+"/"+name, nil)
	if code != http.StatusOK {
		return code, nil
	}
	var u userJSON
	if json.Unmarshal(body, &u) != nil {
		return code, nil
	}
	return code, u.UPSK
}

type userJSON struct {
	Name string `json:"username"`
	UPSK []byte `json:"uPSK"`
}

func (r *Rig) Add(name string, key []byte) (int, []byte) {
	return r.Do(http.MethodPost, r.usersPath(), userJSON{name, key})
}
func (r *Rig) Update(name string, key []byte) (int, []byte) {
	return r.Do(http.MethodPatch, r.usersPath()+"/"+name, struct {
		UPSK []byte `json:"uPSK"`
	}{key})
}
func (r *Rig) Delete(name string) (int, []byte) {
	return r.Do(http.MethodDelete, r.usersPath()+"/"+name, nil)
}
func (r *Rig) Reload() (int, []byte) {
	return r.Do(http.MethodPost, "/servers/"+r.Name+"/reload-users", nil)
}

// List returns what GET /servers/ss/users lists, as name -> key. A name listed twice is an error.
func (r *Rig) List() (map[string][]byte, error) {
	code, body := r.Do(http.MethodGet, r.usersPath(), nil)
	if code != http.StatusOK {
		return nil, fmt.Errorf("list users: status %d body %q", code, body)
	}
	return DecodeList(body)
}

// DecodeList decodes the body of GET …/users.
func DecodeList(body []byte) (map[string][]byte, error) {
	var resp struct {
		Users []userJSON `json:"users"`
	}
	if err := json.Unmarshal(body, &resp); err != nil {
		return nil, fmt.Errorf("list users: %v body %q", err, body)
	}
	m := make(map[string][]byte, len(resp.Users))
	for _, u := range resp.Users {
		if _, dup := m[u.Name]; dup {
			return nil, fmt.Errorf("list users: %q listed twice", u.Name)
		}
		m[u.Name] = u.UPSK
	}
	return m, nil
}

// ---- handshake probes (real client implementation against the rig's protocol objects)

type pairDialer struct{ server *xnet.Conn }

func (d *pairDialer) DialStream(_ context.Context, _ conn.Addr, payload []byte) (netio.Conn, error) {
	c, s := xnet.Pair()
	d.server = s
	if len(payload) > 0 {
		if _, err := c.Write(payload); err != nil {
			return nil, err
		}
	}
	return c, nil
}

func (d *pairDialer) NewStreamDialer() (netio.StreamDialer, netio.StreamDialerInfo) {
	return d, netio.StreamDialerInfo{Name: "pair", NativeInitialPayload: true}
}

var probeTarget = conn.AddrFromIPPort(netip.MustParseAddrPort("192.0.2.7:4242"))
var probePayload = []byte("verif-c08-probe")

// Probe is the outcome of one client attempt with one key.
type Probe struct {
	OK       bool   // the server authenticated the request and delivered target+payload intact
	User     string // the username the server attributed it to
	NotFound bool   // refused specifically because the user key is not in the live map
	Err      string
	// ReplyOK: after the request was accepted, the server's reply (server -> client direction,
	// which uses the per-user material in the other role) was produced by the server-side
	// implementation and accepted intact by the real client. ReplyErr says why not.
	ReplyOK  bool
	ReplyErr string
}

var probeReply = []byte("verif-c08-probe-reply")

// ProbeTCP opens a new client connection with the given user key (StreamClient.DialStream) and
// lets the server handle it (StreamServer.HandleStream).
func (r *Rig) ProbeTCP(key []byte) Probe {
	ccc, err := ss2022.NewClientCipherConfig(key, [][]byte{r.ipsk}, false)
	if err != nil {
		return Probe{Err: "client config: " + err.Error()}
	}
	d := &pairDialer{}
	cc := ss2022.StreamClientConfig{Name: "probe", InnerClient: d, Addr: probeTarget, CipherConfig: ccc}
	clientConn, err := cc.NewStreamClient().DialStream(context.Background(), probeTarget, probePayload)
	if err != nil {
		return Probe{Err: "dial: " + err.Error()}
	}
	defer clientConn.Close()
	req, err := r.TCP.HandleStream(d.server, r.Logger)
	if err != nil {
		return Probe{NotFound: errors.Is(err, ss2022.ErrIdentityHeaderUserPSKNotFound), Err: err.Error()}
	}
	if !req.Addr.Equals(probeTarget) || !bytes.Equal(req.Payload, probePayload) {
		return Probe{Err: fmt.Sprintf("authenticated but request mangled: addr=%v payload=%q", req.Addr, req.Payload)}
	}
	pr := Probe{OK: true, User: req.Username}
	// reply direction: the server writes, the client reads
	func() {
		defer func() {
			if p := recover(); p != nil {
				pr.ReplyErr = fmt.Sprintf("panic while the server wrote its reply: %v", p)
			}
		}()
		sc, err := req.PendingConn.Proceed()
		if err != nil {
			pr.ReplyErr = "proceed: " + err.Error()
			return
		}
		if _, err := sc.Write(probeReply); err != nil {
			pr.ReplyErr = "server write: " + err.Error()
			return
		}
		buf := make([]byte, len(probeReply))
		if _, err := io.ReadFull(clientConn, buf); err != nil {
			pr.ReplyErr = "client read: " + err.Error()
			return
		}
		if !bytes.Equal(buf, probeReply) {
			pr.ReplyErr = fmt.Sprintf("reply mangled: %q", buf)
			return
		}
		pr.ReplyOK = true
	}()
	return pr
}

var probeServerAddr = conn.AddrFromIPPort(netip.MustParseAddrPort("127.0.0.1:9"))
var probeClientAddrPort = netip.MustParseAddrPort("127.0.0.1:50000")

// ProbeUDP starts a new client session with the given user key and runs its first packet
// through the server's SessionInfo / NewUnpacker / UnpackInPlace, as service/udp_session.go does.
func (r *Rig) ProbeUDP(key []byte) Probe {
	ccc, err := ss2022.NewClientCipherConfig(key, [][]byte{r.ipsk}, true)
	if err != nil {
		return Probe{Err: "client config: " + err.Error()}
	}
	uc := ss2022.NewUDPClient("probe", "ip", probeServerAddr, 1500, conn.ListenConfig{}, 0, ccc, ss2022.NoPadding)
	_, sess, err := uc.NewSession(context.Background())
	if err != nil {
		return Probe{Err: "session: " + err.Error()}
	}
	defer sess.Close()
	front := sess.Packer.ClientPackerInfo().Headroom.Front
	if f := r.UDP.Info().UnpackerHeadroom.Front; f > front {
		front = f
	}
	buf := make([]byte, front+len(probePayload)+64)
	copy(buf[front:], probePayload)
	_, ps, pl, err := sess.Packer.PackInPlace(context.Background(), buf, probeTarget, front, len(probePayload))
	if err != nil {
		return Probe{Err: "pack: " + err.Error()}
	}
	packet := buf[ps : ps+pl]
	csid, err := r.UDP.SessionInfo(packet)
	if err != nil {
		return Probe{Err: "session info: " + err.Error()}
	}
	unp, user, err := r.UDP.NewUnpacker(packet, csid)
	if err != nil {
		return Probe{NotFound: errors.Is(err, ss2022.ErrIdentityHeaderUserPSKNotFound), Err: err.Error()}
	}
	addr, s, l, err := unp.UnpackInPlace(buf, probeClientAddrPort, ps, pl)
	if err != nil {
		return Probe{Err: "unpack: " + err.Error()}
	}
	if !addr.Equals(probeTarget) || !bytes.Equal(buf[s:s+l], probePayload) {
		return Probe{Err: fmt.Sprintf("authenticated but packet mangled: addr=%v payload=%q", addr, buf[s:s+l])}
	}
	pr := Probe{OK: true, User: user}
	// reply direction, as service/udp_session.go does on the first packet from the target: the
	// session's server packer is created from the unpacker, packs the reply, the real client unpacks
	func() {
		defer func() {
			if p := recover(); p != nil {
				pr.ReplyErr = fmt.Sprintf("panic while the server packed its reply: %v", p)
			}
		}()
		packer, err := unp.NewPacker()
		if err != nil {
			pr.ReplyErr = "new packer: " + err.Error()
			return
		}
		hr := packer.ServerPackerInfo().Headroom
		rbuf := make([]byte, hr.Front+len(probeReply)+hr.Rear+64)
		copy(rbuf[hr.Front:], probeReply)
		rps, rpl, err := packer.PackInPlace(rbuf, probeTarget.IPPort(), hr.Front, len(probeReply), 1452)
		if err != nil {
			pr.ReplyErr = "server pack: " + err.Error()
			return
		}
		src, s0, l0, err := sess.Unpacker.UnpackInPlace(rbuf, probeServerAddr.IPPort(), rps, rpl)
		if err != nil {
			pr.ReplyErr = "client unpack: " + err.Error()
			return
		}
		if src != probeTarget.IPPort() || !bytes.Equal(rbuf[s0:s0+l0], probeReply) {
			pr.ReplyErr = fmt.Sprintf("reply mangled: from %v payload %q", src, rbuf[s0:s0+l0])
			return
		}
		pr.ReplyOK = true
	}()
	return pr
}

// ---- store file codec written from the README (independent of cred.LoadFromFile/saveToFile)

// DecodeStore applies the documented meaning of a store file: one JSON object username ->
// base64 key, every key of the server's length, no key shared by two users. Only the first
// JSON value is read (like a streaming decoder would); Complete reports whether the rest is
// only white space.
func DecodeStore(b []byte, keyLen int) (users map[string][]byte, complete bool, err error) {
	if len(b) == 0 {
		return nil, false, errors.New("empty file")
	}
	d := json.NewDecoder(bytes.NewReader(b))
	var raw map[string]string
	if err := d.Decode(&raw); err != nil {
		return nil, false, err
	}
	if raw == nil {
		return nil, false, errors.New("not an object")
	}
	rest, _ := io.ReadAll(d.Buffered())
	off := int(d.InputOffset())
	complete = strings.TrimSpace(string(rest)) == "" && (off >= len(b) || strings.TrimSpace(string(b[off:])) == "")
	users = make(map[string][]byte, len(raw))
	owner := map[string]string{}
	for name, s := range raw {
		k, err := base64.StdEncoding.DecodeString(s)
		if err != nil {
			return nil, false, fmt.Errorf("user %q: %v", name, err)
		}
		if len(k) != keyLen {
			return nil, false, fmt.Errorf("user %q: key length %d, want %d", name, len(k), keyLen)
		}
		if o, dup := owner[string(k)]; dup {
			return nil, false, fmt.Errorf("users %q and %q share a key", o, name)
		}
		owner[string(k)] = name
		users[name] = k
	}
	return users, complete, nil
}

// EncodeStore writes a store document in the README's layout (indent) or compactly.
func EncodeStore(users map[string][]byte, indent bool) []byte {
	m := make(map[string]string, len(users))
	for n, k := range users {
		m[n] = base64.StdEncoding.EncodeToString(k)
	}
	var b []byte
	if indent {
		b, _ = json.MarshalIndent(m, "", "    ")
	} else {
		b, _ = json.Marshal(m)
	}
	return append(b, '\n')
}

// WriteStore replaces the store file the way an operator's editor would (new content, same path).
func WriteStore(path string, content []byte) error {
	return os.WriteFile(path, content, 0o644)
}

// SameUsers compares two user sets.
func SameUsers(a, b map[string][]byte) bool {
	if len(a) != len(b) {
		return false
	}
	for n, k := range a {
		k2, ok := b[n]
		if !ok || !bytes.Equal(k, k2) {
			return false
		}
	}
	return true
}

// Show renders a user set with keys abbreviated to their universe index when known.
func Show(users map[string][]byte, keyLen int) string {
	names := make([]string, 0, len(users))
	for n := range users {
		names = append(names, n)
	}
	sort.Strings(names)
	var sb strings.Builder
	sb.WriteByte('{')
	for i, n := range names {
		if i > 0 {
			sb.WriteByte(' ')
		}
		fmt.Fprintf(&sb, "%s:%s", n, KeyName(users[n], keyLen))
	}
	sb.WriteByte('}')
	return sb.String()
}

// KeyName names a key by its universe index (k0..k7) or by a short hex prefix.
func KeyName(k []byte, keyLen int) string {
	for i := 0; i < 8; i++ {
		if bytes.Equal(k, Key(keyLen, i)) {
			return fmt.Sprintf("k%d", i)
		}
	}
	if len(k) > 4 {
		return fmt.Sprintf("%x…(%dB)", k[:4], len(k))
	}
	return fmt.Sprintf("%x(%dB)", k, len(k))
}

// ScratchBase returns the directory under which a check creates its per-case store
// directories. Store files are rewritten (and, since the atomic-save fix, fsynced) thousands
// of times per run; on a disk-backed directory the fsyncs dominate the run time, and durability
// is not what these checks observe, so a memory-backed file system is preferred when there is
// one. VERIF_SCRATCH overrides; the fallback is $VERIF_WORK (removed by the driver) or the
// system temp dir. Stale directories of killed runs (same prefix, older than two hours) are swept.
func ScratchBase(prefix string) string {
	base := os.Getenv("VERIF_SCRATCH")
	if base == "" {
		if fi, err := os.Stat("/dev/shm"); err == nil && fi.IsDir() {
			if f, err := os.CreateTemp("/dev/shm", prefix+"probe-"); err == nil {
				f.Close()
				os.Remove(f.Name())
				base = "/dev/shm"
			}
		}
	}
	if base == "" {
		if base = os.Getenv("VERIF_WORK"); base == "" {
			base = os.TempDir()
		}
		return base
	}
	if ents, err := os.ReadDir(base); err == nil {
		for _, e := range ents {
			if strings.HasPrefix(e.Name(), prefix) {
				if fi, err := e.Info(); err == nil && time.Since(fi.ModTime()) > 2*time.Hour {
					os.RemoveAll(filepath.Join(base, e.Name()))
				}
			}
		}
	}
	return base
}

// Listed reports whether the finding (property, short signature) is listed as open in the
// known-findings file, accepting both spellings in use there ("sig" and "CNN/sig"), and returns
// the spelling that is listed so that hit counts are attributed to the listed entry.
func Listed(isKnown func(property, sig string) bool, property, sig string) (string, bool) {
	if isKnown(property, property+"/"+sig) {
		return property + "/" + sig, true
	}
	if isKnown(property, sig) {
		return sig, true
	}
	return sig, false
}

// Entry is one "username": "value" member of a hand-written store document; Value is the raw
// string between the quotes (normally base64 of the key).
type Entry struct {
	Name  string
	Value string
}

// EncodeOrdered writes a store document whose members appear exactly in the given order (an
// operator's editor keeps the order of the lines; encoding/json would sort them).
func EncodeOrdered(entries []Entry, indent bool) []byte {
	var b bytes.Buffer
	b.WriteByte('{')
	for i, e := range entries {
		if i > 0 {
			b.WriteByte(',')
		}
		if indent {
			b.WriteString("\n    ")
		}
		n, _ := json.Marshal(e.Name)
		v, _ := json.Marshal(e.Value)
		b.Write(n)
		b.WriteByte(':')
		if indent {
			b.WriteByte(' ')
		}
		b.Write(v)
	}
	if indent && len(entries) > 0 {
		b.WriteByte('\n')
	}
	b.WriteString("}\n")
	return b.Bytes()
}

// SemanticallyBadStore builds a store document that is valid JSON but has ONE entry that a
// multi-user server of the given key length must refuse: kind "bad-length" (a key of the other
// cipher's length), "dup-key" (the key of an earlier good entry again), "bad-base64". good are
// the good entries in file order; the bad entry (user badName) is inserted at index pos
// (0 = first; len(good) = last). For "dup-key" with pos 0 the duplicate of the bad entry's key
// follows later in the file.
func SemanticallyBadStore(keyLen int, good []Entry, badName, kind string, pos int, indent bool) []byte {
	bad := Entry{Name: badName}
	switch kind {
	case "bad-length":
		bad.Value = base64.StdEncoding.EncodeToString(Key(48-keyLen, 9))
	case "dup-key":
		src := 0
		if pos > 0 {
			src = pos - 1
		}
		if len(good) > 0 {
			bad.Value = good[src].Value
		}
	case "bad-base64":
		bad.Value = base64.StdEncoding.EncodeToString(Key(keyLen, 9))
		bad.Value = bad.Value[:len(bad.Value)-3] + "!*="
	}
	out := make([]Entry, 0, len(good)+1)
	out = append(out, good[:pos]...)
	out = append(out, bad)
	out = append(out, good[pos:]...)
	return EncodeOrdered(out, indent)
}
