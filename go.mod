module verif

go 1.26.0

require (
	github.com/database64128/shadowsocks-go v0.0.0
	github.com/oschwald/geoip2-golang/v2 v2.2.0
	github.com/oschwald/maxminddb-golang/v2 v2.3.0
	go.uber.org/zap v1.28.0
	golang.org/x/net v0.57.0
	golang.org/x/sys v0.47.0
	lukechampine.com/blake3 v1.4.1
	pgregory.net/rapid v1.3.0
)

require (
	github.com/database64128/netx-go v0.1.1 // indirect
	github.com/database64128/tfo-go/v2 v2.3.3 // indirect
	github.com/gaissmai/bart v0.29.0 // indirect
	github.com/klauspost/cpuid/v2 v2.3.0 // indirect
	go.uber.org/multierr v1.11.0 // indirect
)

replace github.com/database64128/shadowsocks-go => /repo
